(** Entry points of the extracted oracle: strings in, strings out. *)
From Coq Require Import NArith List String Ascii Bool.
From Coq Require Import Strings.Byte.
From PDL Require Import Base.Bits Base.Outcome Lang.Ast Lang.Sexp Lang.AstSexp
     Analyzer.Schema Analyzer.Desugar Analyzer.Passes Analyzer.Analyze Rust.Enum Sem.RefEncode Sem.RefDecode Rust.Encode Rust.Decode Rust.Inherit.
Import ListNotations.
Open Scope string_scope.
Open Scope N_scope.

Record loaded := mkLoaded {
  ld_raw : file;            (* as parsed *)
  ld_file : file;           (* groups inlined, flags desugared *)
  ld_schema : option schema
}.

(** The part of [analyze] that transforms the file (no checks): what the backends see. *)
Definition normalize (fl : file) : option file :=
  match inline_groups fl with
  | Some f1 => desugar_flags f1
  | None => None
  end.

Definition load_file (s : string) : option loaded :=
  match parse_sexp s with
  | Some sx =>
      match file_of_sexp sx with
      | Some raw =>
          (* loading succeeds whenever the text parses; a file that cannot be
             normalized keeps its raw form and has no schema (the codec ops then
             answer [noschema], the [analyze] op only looks at [ld_raw]) *)
          match normalize raw with
          | Some fl => Some (mkLoaded raw fl (mk_schema fl))
          | None => Some (mkLoaded raw raw None)
          end
      | None => None
      end
  | None => None
  end.

Definition panic_name (k : panic_kind) : string :=
  match k with
  | BufUnderflow => "BufUnderflow" | SliceIndex => "SliceIndex" | SplitAt => "SplitAt"
  | ChunksZero => "ChunksZero" | DivZero => "DivZero" | ArithOverflow => "ArithOverflow"
  | CapacityOverflow => "CapacityOverflow" | UnwrapFail => "UnwrapFail" | GenTodo => "GenTodo"
  | GenUnreachable => "GenUnreachable" | GenAssert => "GenAssert"
  end.

Definition eerr_name (e : eerr) : string :=
  match e with
  | SizeOverflow => "SizeOverflow" | CountOverflow => "CountOverflow"
  | InvalidScalarValue => "InvalidScalarValue"
  | InvalidArrayElementSize => "InvalidArrayElementSize"
  | InconsistentConditionValue => "InconsistentConditionValue"
  end.

Definition derr_name (e : derr) : string :=
  match e with
  | UnwrapError => "UnwrapError" | FixedValueError => "FixedValueError"
  | LengthError => "LengthError" | ArraySizeError => "ArraySizeError"
  | EnumValueError => "EnumValueError" | ConstraintValueError => "ConstraintValueError"
  | TrailingBytesError => "TrailingBytesError" | TrailingBytesInArray => "TrailingBytesInArray"
  end.

Definition tab : string := String "009"%char "".

Definition reply (id status payload : string) : string := id ++ tab ++ status ++ tab ++ payload.

Definition nat_of_atom (a : string) : nat :=
  match N_of_dec a with Some n => N.to_nat n | None => 0%nat end.

Definition show_outcome {E A} (id : string) (en : E -> string) (sh : A -> string) (o : outcome E A)
  : string :=
  match o with
  | Ok a => reply id "ok" (sh a)
  | Err e => reply id "err" (en e)
  | Panic k => reply id "panic" (panic_name k)
  | Diverge => reply id "diverge" ""
  end.


Definition fault_name (f : fault) : string :=
  match f with
  | FLength => "LengthError" | FFixed => "FixedValueError" | FArraySize => "ArraySizeError"
  | FEnum => "EnumValueError" | FConstraint => "ConstraintValueError"
  | FTrailing => "TrailingBytesError" | FTrailingInArray => "TrailingBytesInArray"
  | FUnsupported => "Unsupported" | FFuel => "Fuel"
  end.

Definition show_rres {A} (id : string) (sh : A -> string) (r : rres A) : string :=
  match r with
  | ROk a => reply id "ok" (sh a)
  | RFault FUnsupported => reply id "unsupported" ""
  | RFault FFuel => reply id "diverge" ""
  | RFault f => reply id "err" (fault_name f)
  end.

Definition size_str (s : size) : string :=
  match s with
  | SStatic n => "static:" ++ dec_of_N n
  | SDynamic => "dynamic"
  | SUnknown => "unknown"
  end.

Definition osize_str (s : option size) : string :=
  match s with Some x => size_str x | None => "panic" end.

Definition evariant_str (e : evariant) : string :=
  match e with
  | ENamed id v => "named:" ++ id ++ ":" ++ dec_of_N v
  | ERange id x => "range:" ++ id ++ ":" ++ dec_of_N x
  | EOther id x => "other:" ++ id ++ ":" ++ dec_of_N x
  end.

Definition etry_str (t : option etry) : string :=
  match t with
  | Some (TOk e) => "ok:" ++ evariant_str e
  | Some (TErr x) => "err:" ++ dec_of_N x
  | Some TNoArm => "noarm"
  | None => "genpanic"
  end.

(** run-length classes of [try_from] over [lo, lo+n): "ok" (Ok and converts back to x),
    "err" *)
Fixpoint enum_sweep (k : nat) (tags : list tag) (w x : N) (cur : string) (start cnt : N)
         (acc : list string) : list string :=
  match k with
  | O => rev (if cnt =? 0 then acc else (dec_of_N start ++ ":" ++ dec_of_N cnt ++ ":" ++ cur) :: acc)
  | S k' =>
      let cls :=
        match integer_width w with
        | Some bw =>
            if 2 ^ bw <=? x then "toowide"
            else match rust_enum_try_from tags w x with
                 | Some (TOk e) => if evariant_to_N e =? x then "ok" else "bad"
                 | Some (TErr v) => if v =? x then "err" else "errbad"
                 | Some TNoArm => "noarm"
                 | None => "genpanic"
                 end
        | None => "genpanic"
        end in
      if String.eqb cls cur then enum_sweep k' tags w (x + 1) cur start (cnt + 1) acc
      else
        let acc' := if cnt =? 0 then acc
                    else (dec_of_N start ++ ":" ++ dec_of_N cnt ++ ":" ++ cur) :: acc in
        enum_sweep k' tags w (x + 1) cls x 1 acc'
  end.

Definition field_kind (f : field) : string :=
  match f_desc f with
  | Checksum _ => "checksum_field" | Padding _ => "padding_field" | Size _ _ => "size_field"
  | Count _ _ => "count_field" | ElementSize _ _ => "elementsize_field" | Body => "body_field"
  | Payload _ => "payload_field" | FixedScalar _ _ | FixedEnum _ _ => "fixed_field"
  | Reserved _ => "reserved_field" | Array _ _ _ _ _ => "array_field" | Scalar _ _ => "scalar_field"
  | Flag _ _ => "flag_field" | Typedef _ _ => "typedef_field" | Group _ _ => "group_field"
  end.

Definition esize_str (e : option elem_size) : string :=
  match e with
  | Some (EStatic n) => "static:" ++ dec_of_N n
  | Some EDynamic => "dynamic"
  | Some EUnknown => "unknown"
  | None => "panic"
  end.

Definition asize_str (a : arr_size) : string :=
  match a with
  | AStaticCount n => "static:" ++ dec_of_N n
  | ADynamicCount => "count"
  | ADynamicSize => "size"
  | AUnknown => "unknown"
  end.

(** One line per declaration: id|decl|parent|payload|total|field;field;... each field
    kind,field_size,padded,element_size,array_size *)
Definition schema_dump (fl : file) (sch : schema) : string :=
  concat_sep "\n"
    (flat_map (fun d =>
       match decl_id d with
       | None => []
       | Some id =>
           match assoc id sch with
           | None => [id ++ "|missing"]
           | Some ds =>
               let fstrs :=
                 (fix go (fs : list field) : list string :=
                    match fs with
                    | [] => []
                    | f :: rest =>
                        (field_kind f ++ "," ++ osize_str (field_size sch d f) ++ ","
                         ++ (match next_padding rest with Some p => dec_of_N p | None => "-" end) ++ ","
                         ++ (match f_desc f with
                             | Array _ _ _ _ _ => esize_str (element_size fl sch d f) ++ "," ++ asize_str (array_size d f)
                             | _ => "-,-"
                             end)) :: go rest
                    end) (decl_fields d) in
               [id ++ "|" ++ size_str (ds_decl ds) ++ "|" ++ size_str (ds_parent ds) ++ "|"
                ++ size_str (ds_payload ds) ++ "|" ++ osize_str (ds_total ds) ++ "|"
                ++ concat_sep ";" fstrs]
           end
       end) (f_decls fl)).

(** The [analyze] op: the model of [analyzer::analyze] on the RAW file.
    ok <TAB> analyzed file as s-expression <TAB> schema:agree|schema:differ
       (whether Schema.v's [mk_schema] on the analyzed file equals the schema computed
        by the site-aware [schema_new])
       <TAB> id=decl_size/parent_size/payload_size;... (declarations in analyzed order)
       <TAB> field sizes: s,s,..;s,s,.. (one group per declaration, same order);
    rejected <TAB> E11,E11 ;  panic <TAB> <line>:<function>:<expression> *)
Definition schema_str (sch : schema) : string :=
  concat_sep ";" (map (fun p => fst p ++ "=" ++ size_str (ds_decl (snd p)) ++ "/"
                                  ++ size_str (ds_parent (snd p)) ++ "/"
                                  ++ size_str (ds_payload (snd p))) sch).

Definition run_analyze (id : string) (raw : file) : string :=
  match analyze_with_schema raw with
  | Accepted (f, sch) =>
      let agree := match mk_schema f with
                   | Some sch' => String.eqb (schema_str sch') (schema_str (as_decls sch))
                   | None => false
                   end in
      reply id "ok" (sexp_of_file f ++ tab ++ (if agree then "schema:agree" else "schema:differ")
                       ++ tab ++ schema_str (rev (as_decls sch))
                       ++ tab ++ concat_sep ";" (map (fun sizes => concat_sep "," (map size_str sizes))
                                                     (as_fields sch)))
  | Rejected ds => reply id "rejected" (codes_str ds)
  | Panicked s => reply id "panic" s
  end.

Definition run_case (ld : loaded) (line : string) : string :=
  match parse_sexp line with
  | Some (SList (Atom id :: Atom op :: Atom fuel :: Atom ty :: args)) =>
      let fl := ld_file ld in
      let fu := nat_of_atom fuel in
      if String.eqb op "analyze" then run_analyze id (ld_raw ld) else
      match ld_schema ld with
      | None => reply id "noschema" ""
      | Some sch =>
          if String.eqb op "ref-encode" then
            match args with
            | [v] =>
                match value_of_sexp v with
                | Some v' =>
                    match ref_encode fu fl ty v' with
                    | Some bs => reply id "ok" (hex_of_bytes bs)
                    | None => reply id "none" ""
                    end
                | None => reply id "bad" "value"
                end
            | _ => reply id "bad" "args"
            end
          else if String.eqb op "rust-encode" then
            match args with
            | [v] =>
                match value_of_sexp v with
                | Some v' =>
                    let lenstr := match rust_encoded_len fu fl sch ty v' with
                                  | Some n => dec_of_N n
                                  | None => "none"
                                  end in
                    show_outcome id eerr_name (fun bs => hex_of_bytes bs ++ tab ++ lenstr)
                                 (rust_encode fu fl sch ty v')
                | None => reply id "bad" "value"
                end
            | _ => reply id "bad" "args"
            end
          else if String.eqb op "rust-decode" then
            match args with
            | [Atom hex; Atom oc] =>
                match bytes_of_hex hex with
                | Some bs =>
                    show_outcome id derr_name
                      (fun r => json_of_value (fst r) ++ tab ++ hex_of_bytes (snd r))
                      (rust_decode fu (String.eqb oc "1") fl sch ty bs)
                | None => reply id "bad" "hex"
                end
            | _ => reply id "bad" "args"
            end
          else if String.eqb op "ref-decode" then
            match args with
            | [Atom hex] =>
                match bytes_of_hex hex with
                | Some bs =>
                    show_rres id (fun r => json_of_value (fst r) ++ tab ++ hex_of_bytes (snd r))
                              (ref_decode fu fl ty bs)
                | None => reply id "bad" "hex"
                end
            | _ => reply id "bad" "args"
            end
          else if String.eqb op "ref-decode-full" then
            match args with
            | [Atom hex] =>
                match bytes_of_hex hex with
                | Some bs => show_rres id json_of_value (ref_decode_full fu fl ty bs)
                | None => reply id "bad" "hex"
                end
            | _ => reply id "bad" "args"
            end
          else if String.eqb op "rust-specialize" then
            match args with
            | [Atom hex; Atom oc] =>
                match bytes_of_hex hex, lookup_decl fl ty with
                | Some bs, Some d =>
                    let ocb := String.eqb oc "1" in
                    match rust_decode fu ocb fl sch ty bs with
                    | Ok (VObj pobj, rest) =>
                        match rust_specialize fu ocb fl sch d pobj with
                        | Ok (Some (cid, v)) =>
                            reply id "ok" (cid ++ tab ++ json_of_value v ++ tab ++ hex_of_bytes rest)
                        | Ok None => reply id "none" ""
                        | Err e => reply id "err" ("specialize" ++ tab ++ derr_name e)
                        | Panic k => reply id "panic" (panic_name k)
                        | Diverge => reply id "diverge" ""
                        end
                    | Ok _ => reply id "bad" "value"
                    | Err e => reply id "err" ("decode" ++ tab ++ derr_name e)
                    | Panic k => reply id "panic" (panic_name k)
                    | Diverge => reply id "diverge" ""
                    end
                | _, _ => reply id "bad" "hex"
                end
            | _ => reply id "bad" "args"
            end
          else if String.eqb op "rust-try-from" then
            match args with
            | [Atom anc; Atom hex; Atom oc] =>
                match bytes_of_hex hex, lookup_decl fl ty, lookup_decl fl anc with
                | Some bs, Some d, Some a =>
                    let ocb := String.eqb oc "1" in
                    match rust_decode fu ocb fl sch anc bs with
                    | Ok (VObj aobj, _) =>
                        match try_from_ancestor fu ocb fl sch (S (List.length (f_decls fl))) d a aobj with
                        | Ok v => reply id "ok" (json_of_value v)
                        | Err e => reply id "err" ("convert" ++ tab ++ derr_name e)
                        | Panic k => reply id "panic" (panic_name k)
                        | Diverge => reply id "diverge" ""
                        end
                    | Ok _ => reply id "bad" "value"
                    | Err e => reply id "err" ("decode" ++ tab ++ derr_name e)
                    | Panic k => reply id "panic" (panic_name k)
                    | Diverge => reply id "diverge" ""
                    end
                | _, _, _ => reply id "bad" "hex"
                end
            | _ => reply id "bad" "args"
            end
          else if String.eqb op "rust-to-parent" then
            match args with
            | [Atom anc; v] =>
                match value_of_sexp v, lookup_decl fl ty, lookup_decl fl anc with
                | Some (VObj obj), Some d, Some a =>
                    show_outcome id eerr_name json_of_value
                      (to_ancestor (S (List.length (f_decls fl))) fu fl sch d a obj)
                | _, _, _ => reply id "bad" "value"
                end
            | _ => reply id "bad" "args"
            end
          else if String.eqb op "enum-rust" then
            match args, lookup_decl fl ty with
            | [Atom x], Some (DEnum _ tags w) =>
                match N_of_dec x with
                | Some n => reply id "ok" (etry_str (rust_enum_try_from tags w n) ++ tab
                                             ++ (match spec_enum_of_N tags w n with
                                                 | Some e => "ok:" ++ evariant_str e
                                                 | None => "err" end))
                | None => reply id "bad" "int"
                end
            | _, _ => reply id "bad" "args"
            end
          else if String.eqb op "enum-sweep" then
            match args, lookup_decl fl ty with
            | [Atom lo; Atom n], Some (DEnum _ tags w) =>
                match N_of_dec lo with
                | Some l => reply id "ok" (concat_sep "," (enum_sweep (nat_of_atom n) tags w l "" l 0 []))
                | None => reply id "bad" "int"
                end
            | _, _ => reply id "bad" "args"
            end
          else if String.eqb op "enum-default" then
            match lookup_decl fl ty with
            | Some (DEnum _ tags w) =>
                reply id "ok" (match rust_enum_default tags with Some v => dec_of_N v | None => "panic" end)
            | _ => reply id "bad" "args"
            end
          else if String.eqb op "ref-chunks" then
            match args with
            | [v] =>
                match value_of_sexp v with
                | Some v' =>
                    match ref_segments fu fl ty v' with
                    | Some ss =>
                        reply id "ok"
                          (concat_sep "," (map (fun s : seg => dec_of_N (len (fst s)) ++ (if snd s then "s" else "r")) ss))
                    | None => reply id "none" ""
                    end
                | None => reply id "bad" "value"
                end
            | _ => reply id "bad" "args"
            end
          else if String.eqb op "ref-recode" then
            match args with
            | [Atom hex] =>
                match bytes_of_hex hex with
                | Some bs =>
                    match ref_decode_full fu fl ty bs with
                    | ROk v =>
                        match ref_encode fu fl ty v with
                        | Some out => reply id "ok" (hex_of_bytes out)
                        | None => reply id "none" ""
                        end
                    | RFault FUnsupported => reply id "unsupported" ""
                    | RFault FFuel => reply id "diverge" ""
                    | RFault f => reply id "err" (fault_name f)
                    end
                | None => reply id "bad" "hex"
                end
            | _ => reply id "bad" "args"
            end
          else if String.eqb op "schema" then reply id "ok" (schema_dump fl sch)
          else reply id "bad" "op"
      end
  | _ => "?" ++ tab ++ "bad" ++ tab ++ "line"
  end.

(* ---- begin parser model entry point (Front/ParseOracle.v) ---- *)
From PDL Require Front.ParseOracle.
(** [(parse ID "text")] -> [ID<TAB>status<TAB>rest]: the model of parser::parse_inline. *)
Definition parse_line (line : string) : string := PDL.Front.ParseOracle.parse_request line.
(* ---- end parser model entry point ---- *)
