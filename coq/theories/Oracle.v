(** Entry points of the extracted oracle: strings in, strings out. *)
From Coq Require Import NArith List String Ascii Bool.
From Coq Require Import Strings.Byte.
From PDL Require Import Base.Bits Base.Outcome Lang.Ast Lang.Sexp Lang.AstSexp
     Analyzer.Schema Analyzer.Desugar Rust.Enum Sem.RefEncode Rust.Encode Rust.Decode.
Import ListNotations.
Open Scope string_scope.
Open Scope N_scope.

Record loaded := mkLoaded {
  ld_raw : file;            (* as parsed *)
  ld_file : file;           (* groups inlined, flags desugared *)
  ld_schema : option schema
}.

(** The part of [analyze] that transforms the file (no checks): what the backends see. *)
Definition normalize (fl : file) : option file :=
  match inline_groups fl with
  | Some f1 => desugar_flags f1
  | None => None
  end.

Definition load_file (s : string) : option loaded :=
  match parse_sexp s with
  | Some sx =>
      match file_of_sexp sx with
      | Some raw =>
          match normalize raw with
          | Some fl => Some (mkLoaded raw fl (mk_schema fl))
          | None => None
          end
      | None => None
      end
  | None => None
  end.

Definition panic_name (k : panic_kind) : string :=
  match k with
  | BufUnderflow => "BufUnderflow" | SliceIndex => "SliceIndex" | SplitAt => "SplitAt"
  | ChunksZero => "ChunksZero" | DivZero => "DivZero" | ArithOverflow => "ArithOverflow"
  | CapacityOverflow => "CapacityOverflow" | UnwrapFail => "UnwrapFail" | GenTodo => "GenTodo"
  | GenUnreachable => "GenUnreachable" | GenAssert => "GenAssert"
  end.

Definition eerr_name (e : eerr) : string :=
  match e with
  | SizeOverflow => "SizeOverflow" | CountOverflow => "CountOverflow"
  | InvalidScalarValue => "InvalidScalarValue"
  | InvalidArrayElementSize => "InvalidArrayElementSize"
  | InconsistentConditionValue => "InconsistentConditionValue"
  end.

Definition derr_name (e : derr) : string :=
  match e with
  | UnwrapError => "UnwrapError" | FixedValueError => "FixedValueError"
  | LengthError => "LengthError" | ArraySizeError => "ArraySizeError"
  | EnumValueError => "EnumValueError" | ConstraintValueError => "ConstraintValueError"
  | TrailingBytesError => "TrailingBytesError" | TrailingBytesInArray => "TrailingBytesInArray"
  end.

Definition tab : string := String "009"%char "".

Definition reply (id status payload : string) : string := id ++ tab ++ status ++ tab ++ payload.

Definition nat_of_atom (a : string) : nat :=
  match N_of_dec a with Some n => N.to_nat n | None => 0%nat end.

Definition show_outcome {E A} (id : string) (en : E -> string) (sh : A -> string) (o : outcome E A)
  : string :=
  match o with
  | Ok a => reply id "ok" (sh a)
  | Err e => reply id "err" (en e)
  | Panic k => reply id "panic" (panic_name k)
  | Diverge => reply id "diverge" ""
  end.

Definition run_case (ld : loaded) (line : string) : string :=
  match parse_sexp line with
  | Some (SList (Atom id :: Atom op :: Atom fuel :: Atom ty :: args)) =>
      let fl := ld_file ld in
      let fu := nat_of_atom fuel in
      match ld_schema ld with
      | None => reply id "noschema" ""
      | Some sch =>
          if String.eqb op "ref-encode" then
            match args with
            | [v] =>
                match value_of_sexp v with
                | Some v' =>
                    match ref_encode fu fl ty v' with
                    | Some bs => reply id "ok" (hex_of_bytes bs)
                    | None => reply id "none" ""
                    end
                | None => reply id "bad" "value"
                end
            | _ => reply id "bad" "args"
            end
          else if String.eqb op "rust-encode" then
            match args with
            | [v] =>
                match value_of_sexp v with
                | Some v' =>
                    let lenstr := match rust_encoded_len fu fl sch ty v' with
                                  | Some n => dec_of_N n
                                  | None => "none"
                                  end in
                    show_outcome id eerr_name (fun bs => hex_of_bytes bs ++ tab ++ lenstr)
                                 (rust_encode fu fl sch ty v')
                | None => reply id "bad" "value"
                end
            | _ => reply id "bad" "args"
            end
          else if String.eqb op "rust-decode" then
            match args with
            | [Atom hex; Atom oc] =>
                match bytes_of_hex hex with
                | Some bs =>
                    show_outcome id derr_name
                      (fun r => json_of_value (fst r) ++ tab ++ hex_of_bytes (snd r))
                      (rust_decode fu (String.eqb oc "1") fl sch ty bs)
                | None => reply id "bad" "hex"
                end
            | _ => reply id "bad" "args"
            end
          else reply id "bad" "op"
      end
  | _ => "?" ++ tab ++ "bad" ++ tab ++ "line"
  end.
