(** Bit-level arithmetic on [N]: the shift / mask / or idioms of generated code
    expressed as plain arithmetic, and byte strings in both byte orders. *)
From Coq Require Import NArith ZArith List Lia ZifyN ZifyBool Bool.
From Coq Require Import Strings.Byte.
Import ListNotations.
Open Scope N_scope.

Ltac Zify.zify_post_hook ::= Z.div_mod_to_equations.

Arguments N.add : simpl never.
Arguments N.sub : simpl never.
Arguments N.mul : simpl never.
Arguments N.div : simpl never.
Arguments N.modulo : simpl never.
Arguments N.pow : simpl never.
Arguments N.shiftl : simpl never.
Arguments N.shiftr : simpl never.
Arguments N.lor : simpl never.
Arguments N.land : simpl never.
Arguments N.eqb : simpl never.
Arguments N.ltb : simpl never.
Arguments N.leb : simpl never.

(** * Bytes *)

Definition byte_of_N (n : N) : byte :=
  match Byte.of_N (n mod 256) with Some b => b | None => x00 end.

Lemma byte_to_N_lt b : Byte.to_N b < 256.
Proof. pose proof (Byte.to_N_bounded b). lia. Qed.

Lemma to_N_byte_of_N n : Byte.to_N (byte_of_N n) = n mod 256.
Proof.
  unfold byte_of_N.
  destruct (Byte.of_N (n mod 256)) eqn:E.
  - apply Byte.to_of_N in E. exact E.
  - apply Byte.of_N_None_iff in E.
    assert (n mod 256 < 256) by (apply N.mod_lt; lia). lia.
Qed.

Lemma byte_of_N_to_N b : byte_of_N (Byte.to_N b) = b.
Proof.
  unfold byte_of_N. rewrite N.mod_small by apply byte_to_N_lt.
  rewrite Byte.of_to_N. reflexivity.
Qed.

(** * Little- and big-endian byte strings of a fixed length *)

Fixpoint le_bytes (n : nat) (v : N) : list byte :=
  match n with
  | O => []
  | S n' => byte_of_N v :: le_bytes n' (v / 256)
  end.

Definition be_bytes (n : nat) (v : N) : list byte := rev (le_bytes n v).

Fixpoint of_le (bs : list byte) : N :=
  match bs with
  | [] => 0
  | b :: bs' => Byte.to_N b + 256 * of_le bs'
  end.

Definition of_be (bs : list byte) : N := of_le (rev bs).

Lemma le_bytes_length n v : length (le_bytes n v) = n.
Proof. revert v; induction n as [|n IH]; intros v; simpl; [reflexivity| now rewrite IH]. Qed.

Lemma be_bytes_length n v : length (be_bytes n v) = n.
Proof. unfold be_bytes. now rewrite rev_length, le_bytes_length. Qed.

Lemma of_le_le_bytes n v : of_le (le_bytes n v) = v mod 256 ^ N.of_nat n.
Proof.
  revert v; induction n as [|n IH]; intros v.
  - simpl. rewrite N.pow_0_r, N.mod_1_r. reflexivity.
  - cbn [le_bytes of_le]. rewrite to_N_byte_of_N, IH.
    replace (N.of_nat (S n)) with (N.succ (N.of_nat n)) by lia.
    rewrite N.pow_succ_r'.
    assert (H256 : 256 ^ N.of_nat n <> 0) by (apply N.pow_nonzero; lia).
    rewrite (N.mod_mul_r v 256 (256 ^ N.of_nat n)) by lia. lia.
Qed.

Lemma of_le_le_bytes_small n v : v < 256 ^ N.of_nat n -> of_le (le_bytes n v) = v.
Proof. intros H. rewrite of_le_le_bytes. now apply N.mod_small. Qed.

Lemma of_be_be_bytes n v : of_be (be_bytes n v) = v mod 256 ^ N.of_nat n.
Proof. unfold of_be, be_bytes. rewrite rev_involutive. apply of_le_le_bytes. Qed.

Lemma of_le_lt bs : of_le bs < 256 ^ N.of_nat (length bs).
Proof.
  induction bs as [|b bs IH].
  - simpl. rewrite N.pow_0_r. lia.
  - cbn [of_le length].
    replace (N.of_nat (S (length bs))) with (N.succ (N.of_nat (length bs))) by lia.
    rewrite N.pow_succ_r'. pose proof (byte_to_N_lt b). lia.
Qed.

Lemma le_bytes_of_le bs : le_bytes (length bs) (of_le bs) = bs.
Proof.
  induction bs as [|b bs IH]; [reflexivity|].
  cbn [length le_bytes of_le].
  pose proof (byte_to_N_lt b) as Hb.
  assert (E1 : (Byte.to_N b + 256 * of_le bs) / 256 = of_le bs).
  { rewrite N.mul_comm, N.div_add by lia. rewrite N.div_small by exact Hb. lia. }
  rewrite E1, IH. f_equal.
  unfold byte_of_N.
  assert (E2 : (Byte.to_N b + 256 * of_le bs) mod 256 = Byte.to_N b).
  { rewrite N.mul_comm, N.mod_add by lia. now apply N.mod_small. }
  rewrite E2, Byte.of_to_N. reflexivity.
Qed.

Lemma le_bytes_mod n v : le_bytes n (v mod 256 ^ N.of_nat n) = le_bytes n v.
Proof.
  revert v; induction n as [|n IH]; intros v; [reflexivity|].
  cbn [le_bytes].
  replace (N.of_nat (S n)) with (N.succ (N.of_nat n)) by lia.
  rewrite N.pow_succ_r'.
  assert (H256 : 256 ^ N.of_nat n <> 0) by (apply N.pow_nonzero; lia).
  f_equal.
  - unfold byte_of_N. f_equal. f_equal.
    rewrite (N.mod_mul_r v 256 (256 ^ N.of_nat n)) by lia.
    rewrite N.add_mod by lia. rewrite N.mod_mod by lia.
    rewrite (N.mul_comm 256), N.mod_mul by lia. rewrite N.add_0_r. now rewrite N.mod_mod by lia.
  - rewrite <- IH. rewrite <- (IH (v / 256)). f_equal.
    rewrite (N.mod_mul_r v 256 (256 ^ N.of_nat n)) by lia.
    rewrite (N.mul_comm 256), N.div_add by lia.
    rewrite (N.div_small (v mod 256)) by (apply N.mod_lt; lia). rewrite N.add_0_l.
    now rewrite N.mod_mod by lia.
Qed.

(** * OR of shifted fields is addition *)

Lemma lor_shiftl_add a b s : a < 2 ^ s -> N.lor a (N.shiftl b s) = a + b * 2 ^ s.
Proof.
  intros Ha.
  rewrite <- N.lxor_lor.
  - rewrite <- N.add_nocarry_lxor.
    + now rewrite N.shiftl_mul_pow2.
    + apply N.bits_inj_0. intros n. rewrite N.land_spec.
      destruct (N.lt_ge_cases n s) as [Hn|Hn].
      * rewrite (N.shiftl_spec_low b s n Hn). apply andb_false_r.
      * replace a with (a mod 2 ^ s) by (now apply N.mod_small).
        rewrite N.mod_pow2_bits_high by exact Hn. reflexivity.
  - apply N.bits_inj_0. intros n. rewrite N.land_spec.
    destruct (N.lt_ge_cases n s) as [Hn|Hn].
    + rewrite (N.shiftl_spec_low b s n Hn). apply andb_false_r.
    + replace a with (a mod 2 ^ s) by (now apply N.mod_small).
      rewrite N.mod_pow2_bits_high by exact Hn. reflexivity.
Qed.

Lemma land_ones_mod a w : N.land a (N.ones w) = a mod 2 ^ w.
Proof. apply N.land_ones. Qed.

Lemma shiftr_div a s : N.shiftr a s = a / 2 ^ s.
Proof. apply N.shiftr_div_pow2. Qed.

Lemma ones_eq w : N.ones w = 2 ^ w - 1.
Proof. rewrite N.ones_equiv. lia. Qed.

Lemma pow2_pos w : 0 < 2 ^ w.
Proof. apply N.neq_0_lt_0. apply N.pow_nonzero. lia. Qed.

Lemma pow2_le_mono a b : a <= b -> 2 ^ a <= 2 ^ b.
Proof. intros. apply N.pow_le_mono_r; lia. Qed.

Lemma pow2_add a b : 2 ^ (a + b) = 2 ^ a * 2 ^ b.
Proof. apply N.pow_add_r. Qed.

Lemma pow256 n : 256 ^ n = 2 ^ (8 * n).
Proof. rewrite N.pow_mul_r. reflexivity. Qed.

(** [extract s w x]: the [w]-bit field found [s] bits above the least
    significant bit of [x]. *)
Definition extract (s w x : N) : N := (x / 2 ^ s) mod 2 ^ w.

Lemma extract_add_low a b s w : a < 2 ^ s -> extract s w (a + b * 2 ^ s) = b mod 2 ^ w.
Proof.
  intros Ha. unfold extract.
  pose proof (pow2_pos s).
  rewrite N.div_add by lia. rewrite N.div_small by exact Ha. now rewrite N.add_0_l.
Qed.

Lemma extract_0_small a b w : a < 2 ^ w -> extract 0 w (a + b * 2 ^ w) = a.
Proof.
  intros Ha. unfold extract. rewrite N.pow_0_r, N.div_1_r.
  pose proof (pow2_pos w).
  rewrite N.mod_add by lia. now apply N.mod_small.
Qed.

Lemma sum_lt_pow a b s w : a < 2 ^ s -> b < 2 ^ w -> a + b * 2 ^ s < 2 ^ (s + w).
Proof.
  intros Ha Hb. rewrite N.pow_add_r. pose proof (pow2_pos s). pose proof (pow2_pos w). nia.
Qed.

Lemma lor_lt_pow2 a b n : a < 2 ^ n -> b < 2 ^ n -> N.lor a b < 2 ^ n.
Proof.
  intros Ha Hb.
  assert (E : N.lor a b = (N.lor a b) mod 2 ^ n).
  { apply N.bits_inj. intros m.
    destruct (N.lt_ge_cases m n) as [Hm|Hm].
    - now rewrite N.mod_pow2_bits_low.
    - rewrite N.mod_pow2_bits_high by exact Hm.
      rewrite N.lor_spec.
      rewrite <- (N.mod_small a (2 ^ n) Ha), <- (N.mod_small b (2 ^ n) Hb).
      now rewrite !N.mod_pow2_bits_high by exact Hm. }
  rewrite E. apply N.mod_lt. pose proof (pow2_pos n). lia.
Qed.

