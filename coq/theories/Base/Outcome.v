(** Results of modelled Rust code: a value, an error value, a panic, or
    non-termination (fuel exhausted). No theorem may conclude from [Diverge]. *)
From Coq Require Import List.
Import ListNotations.

Inductive panic_kind :=
| BufUnderflow      (* bytes::Buf get_* / advance past the end *)
| SliceIndex        (* &s[a..b] out of range *)
| SplitAt           (* split_at(mid) with mid > len *)
| ChunksZero        (* chunks(0) *)
| DivZero           (* / or % by zero *)
| ArithOverflow     (* + - * overflow with overflow-checks on *)
| CapacityOverflow  (* Vec::with_capacity beyond isize::MAX bytes *)
| UnwrapFail        (* Option::unwrap / Result::unwrap / map index *)
| GenTodo           (* todo!() / unimplemented construct in the generator *)
| GenUnreachable    (* unreachable!() *)
| GenAssert.        (* assert! / assert_eq! / explicit panic! in the generator *)

Inductive outcome (E A : Type) :=
| Ok (a : A)
| Err (e : E)
| Panic (k : panic_kind)
| Diverge.

Arguments Ok {E A} a.
Arguments Err {E A} e.
Arguments Panic {E A} k.
Arguments Diverge {E A}.

Definition bind {E A B} (x : outcome E A) (f : A -> outcome E B) : outcome E B :=
  match x with
  | Ok a => f a
  | Err e => Err e
  | Panic k => Panic k
  | Diverge => Diverge
  end.

Notation "'let*' x ':=' e 'in' f" := (bind e (fun x => f))
  (at level 200, x pattern, e at level 100, f at level 200, right associativity).

Definition of_option {E A} (k : panic_kind) (o : option A) : outcome E A :=
  match o with Some a => Ok a | None => Panic k end.

Definition is_ok {E A} (x : outcome E A) : bool :=
  match x with Ok _ => true | _ => false end.

Definition returns {E A} (x : outcome E A) : Prop :=
  match x with Ok _ | Err _ => True | Panic _ | Diverge => False end.

Fixpoint map_outcome {E A B} (f : A -> outcome E B) (l : list A) : outcome E (list B) :=
  match l with
  | [] => Ok []
  | x :: l' =>
      let* y := f x in
      let* r := map_outcome f l' in
      Ok (y :: r)
  end.
