(** The PDL abstract syntax, constructor for constructor as in
    pdl-compiler/src/ast.rs (source locations and node keys dropped: the models
    that need locations carry them separately, see Front/). *)
From Coq Require Import NArith List String Bool.
Import ListNotations.
Open Scope string_scope.
Open Scope N_scope.

Inductive endian := LittleEndian | BigEndian.

Record constr := mkConstr {
  c_id : string;
  c_value : option N;
  c_tag : option string
}.

Inductive tag :=
| TagValue (id : string) (v : N)
| TagRange (id : string) (lo hi : N) (tags : list (string * N))
| TagOther (id : string).

Inductive fdesc :=
| Checksum (field_id : string)
| Padding (size : N)
| Size (field_id : string) (width : N)
| Count (field_id : string) (width : N)
| ElementSize (field_id : string) (width : N)
| Body
| Payload (size_modifier : option N)
| FixedScalar (width value : N)
| FixedEnum (enum_id tag_id : string)
| Reserved (width : N)
| Array (id : string) (width : option N) (type_id : option string)
        (size_modifier : option N) (size : option N)
| Scalar (id : string) (width : N)
| Flag (id : string) (optional_field_ids : list (string * N))
| Typedef (id : string) (type_id : string)
| Group (group_id : string) (constraints : list constr).

Record field := mkField { f_desc : fdesc; f_cond : option constr }.

Inductive decl :=
| DChecksum (id function : string) (width : N)
| DCustomField (id : string) (width : option N) (function : string)
| DEnum (id : string) (tags : list tag) (width : N)
| DPacket (id : string) (constraints : list constr) (fields : list field) (parent_id : option string)
| DStruct (id : string) (constraints : list constr) (fields : list field) (parent_id : option string)
| DGroup (id : string) (fields : list field)
| DTest (type_id : string).

Record file := mkFile { f_endian : endian; f_decls : list decl }.

(** ** Accessors (ast.rs [impl Decl], [impl Field], [impl Tag]) *)

Definition decl_id (d : decl) : option string :=
  match d with
  | DTest _ => None
  | DChecksum id _ _ | DCustomField id _ _ | DEnum id _ _
  | DPacket id _ _ _ | DStruct id _ _ _ | DGroup id _ => Some id
  end.

Definition decl_parent_id (d : decl) : option string :=
  match d with
  | DPacket _ _ _ p | DStruct _ _ _ p => p
  | _ => None
  end.

Definition decl_constraints (d : decl) : list constr :=
  match d with
  | DPacket _ cs _ _ | DStruct _ cs _ _ => cs
  | _ => []
  end.

Definition decl_fields (d : decl) : list field :=
  match d with
  | DPacket _ _ fs _ | DStruct _ _ fs _ | DGroup _ fs => fs
  | _ => []
  end.

Definition field_id (f : field) : option string :=
  match f_desc f with
  | Array id _ _ _ _ | Scalar id _ | Flag id _ | Typedef id _ => Some id
  | _ => None
  end.

Definition tag_id (t : tag) : string :=
  match t with TagValue id _ | TagRange id _ _ _ | TagOther id => id end.

Definition is_payload_desc (d : fdesc) : bool :=
  match d with Payload _ | Body => true | _ => false end.

Definition is_payload (f : field) : bool := is_payload_desc (f_desc f).

(** [Decl::payload] *)
Definition decl_payload (d : decl) : option field := find is_payload (decl_fields d).

Definition is_payload_size_field (f : field) : bool :=
  match f_desc f with
  | Size fid _ => String.eqb fid "_payload_" || String.eqb fid "_body_"
  | _ => false
  end.

(** [Decl::payload_size] *)
Definition decl_payload_size (d : decl) : option field :=
  find is_payload_size_field (decl_fields d).

(** [Decl::array_size] : the first size or count field naming [id] *)
Definition decl_array_size (d : decl) (id : string) : option field :=
  find (fun f => match f_desc f with
                 | Size fid _ | Count fid _ => String.eqb fid id
                 | _ => false end) (decl_fields d).

(** [Decl::element_size] *)
Definition decl_element_size (d : decl) (id : string) : option field :=
  find (fun f => match f_desc f with
                 | ElementSize fid _ => String.eqb fid id
                 | _ => false end) (decl_fields d).

(** ** Scope lookups (analyzer.rs [Scope]) *)

Definition has_id (id : string) (d : decl) : bool :=
  match decl_id d with Some i => String.eqb i id | None => false end.

(** [scope.typedef.get(id)].  [Scope::new] inserts declarations in file order into a
    hash map, later ones replacing earlier ones; it reports E1 on a duplicate, so on
    analyzed files the first and the last match coincide.  We take the LAST match,
    like the map does. *)
Definition lookup_decl (fl : file) (id : string) : option decl :=
  find (has_id id) (rev (f_decls fl)).

Definition get_parent (fl : file) (d : decl) : option decl :=
  match decl_parent_id d with
  | Some p => lookup_decl fl p
  | None => None
  end.

(** [iter_parents_and_self], bounded by fuel (the analyzer rejects cyclic parents). *)
Fixpoint parents_and_self (fuel : nat) (fl : file) (d : decl) : list decl :=
  match fuel with
  | O => [d]
  | S fuel' =>
      d :: match get_parent fl d with
           | Some p => parents_and_self fuel' fl p
           | None => []
           end
  end.

Definition chain_fuel (fl : file) : nat := List.length (f_decls fl).

(** [Scope::iter_fields]: own fields first, then the parent's, and so on. *)
Definition iter_fields (fl : file) (d : decl) : list field :=
  flat_map decl_fields (parents_and_self (chain_fuel fl) fl d).

(** [Scope::iter_constraints] *)
Definition iter_constraints (fl : file) (d : decl) : list constr :=
  flat_map decl_constraints (parents_and_self (chain_fuel fl) fl d).

Definition iter_parents (fl : file) (d : decl) : list decl :=
  tl (parents_and_self (chain_fuel fl) fl d).

(** [File::iter_children] *)
Definition iter_children (fl : file) (d : decl) : list decl :=
  filter (fun o => match decl_parent_id o, decl_id d with
                   | Some p, Some i => String.eqb p i
                   | None, None => true   (* Option equality: None == None *)
                   | _, _ => false
                   end) (f_decls fl).

(** [Scope::get_type_declaration] *)
Definition get_type_declaration (fl : file) (f : field) : option decl :=
  match f_desc f with
  | FixedEnum tid _ | Array _ _ (Some tid) _ _ | Typedef _ tid => lookup_decl fl tid
  | _ => None
  end.

(** [Scope::is_bitfield] *)
Definition is_bitfield (fl : file) (f : field) : bool :=
  match f_desc f with
  | Size _ _ | Count _ _ | ElementSize _ _ | FixedScalar _ _ | FixedEnum _ _
  | Reserved _ | Flag _ _ | Scalar _ _ => true
  | Typedef _ tid =>
      match lookup_decl fl tid with Some (DEnum _ _ _) => true | _ => false end
  | _ => false
  end.

(** Tags of an enum flattened with the values they denote. *)
Definition tag_values (t : tag) : list (string * N) :=
  match t with
  | TagValue id v => [(id, v)]
  | TagRange _ _ _ tags => tags
  | TagOther _ => []
  end.

Definition enum_tag_value (tags : list tag) (tid : string) : option N :=
  match find (fun p => String.eqb (fst p) tid) (flat_map tag_values tags) with
  | Some (_, v) => Some v
  | None => None
  end.
