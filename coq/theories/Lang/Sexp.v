(** S-expressions: the wire format between the Python harness and the extracted
    oracle, parsed and printed INSIDE Coq so that the OCaml glue only moves strings.
    Also: decimal / hexadecimal conversions and a JSON printer for values. *)
From Coq Require Import NArith List String Ascii Bool DecimalString.
From Coq Require Import Strings.Byte.
From PDL Require Import Base.Bits.
Import ListNotations.
Open Scope string_scope.
Open Scope N_scope.

Inductive sexp := Atom (s : string) | SList (l : list sexp).

Inductive token := TOpen | TClose | TAtom (s : string).

Definition is_space (c : ascii) : bool :=
  match c with
  | " "%char | "009"%char | "010"%char | "013"%char => true
  | _ => false
  end.

Fixpoint rev_string_acc (s acc : string) : string :=
  match s with
  | EmptyString => acc
  | String c s' => rev_string_acc s' (String c acc)
  end.
Definition rev_string (s : string) : string := rev_string_acc s EmptyString.

Definition flush (cur : option string) (acc : list token) : list token :=
  match cur with
  | Some s => TAtom (rev_string s) :: acc
  | None => acc
  end.

(** [tokenize_go s cur inq acc]: [cur] is the atom being read (reversed), [inq]
    says we are inside a double-quoted atom (backslash escapes for backslash, quote, n, t, r). Tokens are
    accumulated in reverse. *)
Fixpoint tokenize_go (s : string) (cur : option string) (inq : bool) (acc : list token)
  : list token :=
  match s with
  | EmptyString => flush cur acc
  | String c s' =>
      if inq then
        match c with
        | """"%char => tokenize_go s' None false (flush (Some (match cur with Some x => x | None => "" end)) acc)
        | "\"%char =>
            match s' with
            | String c2 s'' =>
                let c2' := match c2 with
                           | "n"%char => "010"%char
                           | "t"%char => "009"%char
                           | "r"%char => "013"%char
                           | _ => c2
                           end in
                tokenize_go s'' (Some (String c2' (match cur with Some x => x | None => "" end))) true acc
            | EmptyString => flush cur acc
            end
        | _ => tokenize_go s' (Some (String c (match cur with Some x => x | None => "" end))) true acc
        end
      else if is_space c then tokenize_go s' None false (flush cur acc)
      else match c with
           | "("%char => tokenize_go s' None false (TOpen :: flush cur acc)
           | ")"%char => tokenize_go s' None false (TClose :: flush cur acc)
           | """"%char => tokenize_go s' (Some "") true (flush cur acc)
           | _ => tokenize_go s' (Some (String c (match cur with Some x => x | None => "" end))) false acc
           end
  end.

Definition tokenize (s : string) : list token := rev (tokenize_go s None false []).

(** Parse with an explicit stack of partially built lists (each reversed). *)
Fixpoint parse_tokens (ts : list token) (stack : list (list sexp)) (top : list sexp)
  : option (list sexp) :=
  match ts with
  | [] => match stack with [] => Some (rev top) | _ => None end
  | TOpen :: ts' => parse_tokens ts' (top :: stack) []
  | TClose :: ts' =>
      match stack with
      | [] => None
      | up :: stack' => parse_tokens ts' stack' (SList (rev top) :: up)
      end
  | TAtom a :: ts' => parse_tokens ts' stack (Atom a :: top)
  end.

Definition parse_sexps (s : string) : option (list sexp) := parse_tokens (tokenize s) [] [].

Definition parse_sexp (s : string) : option sexp :=
  match parse_sexps s with Some [x] => Some x | _ => None end.

(** ** Numbers *)

Definition digit_val (c : ascii) : option N :=
  let n := N_of_ascii c in
  if (48 <=? n) && (n <=? 57) then Some (n - 48) else None.

Fixpoint dec_go (s : string) (acc : N) : option N :=
  match s with
  | EmptyString => Some acc
  | String c s' => match digit_val c with
                   | Some d => dec_go s' (acc * 10 + d)
                   | None => None
                   end
  end.

Definition N_of_dec (s : string) : option N :=
  match s with EmptyString => None | _ => dec_go s 0 end.

Definition dec_of_N (n : N) : string := NilZero.string_of_uint (N.to_uint n).

Definition hex_val (c : ascii) : option N :=
  let n := N_of_ascii c in
  if (48 <=? n) && (n <=? 57) then Some (n - 48)
  else if (97 <=? n) && (n <=? 102) then Some (n - 87)
  else if (65 <=? n) && (n <=? 70) then Some (n - 55)
  else None.

Fixpoint bytes_of_hex (s : string) : option (list byte) :=
  match s with
  | EmptyString => Some []
  | String c1 (String c2 s') =>
      match hex_val c1, hex_val c2, bytes_of_hex s' with
      | Some a, Some b, Some r => Some (byte_of_N (a * 16 + b) :: r)
      | _, _, _ => None
      end
  | _ => None
  end.

Definition hex_digit (n : N) : ascii :=
  if n <? 10 then ascii_of_N (48 + n) else ascii_of_N (87 + n).

Fixpoint hex_of_bytes (bs : list byte) : string :=
  match bs with
  | [] => ""
  | b :: bs' =>
      let n := Byte.to_N b in
      String (hex_digit (n / 16)) (String (hex_digit (n mod 16)) (hex_of_bytes bs'))
  end.

(** ** JSON-shaped values *)

Inductive value :=
| VNum (n : N)
| VNull
| VList (l : list value)
| VObj (kv : list (string * value)).

Fixpoint value_of_sexp (s : sexp) : option value :=
  match s with
  | Atom a => if String.eqb a "null" then Some VNull else option_map VNum (N_of_dec a)
  | SList (Atom k :: items) =>
      if String.eqb k "l" then
        option_map VList
          ((fix go (l : list sexp) : option (list value) :=
              match l with
              | [] => Some []
              | x :: l' => match value_of_sexp x, go l' with
                           | Some v, Some r => Some (v :: r)
                           | _, _ => None
                           end
              end) items)
      else if String.eqb k "o" then
        option_map VObj
          ((fix go (l : list sexp) : option (list (string * value)) :=
              match l with
              | [] => Some []
              | SList [Atom key; x] :: l' =>
                  match value_of_sexp x, go l' with
                  | Some v, Some r => Some ((key, v) :: r)
                  | _, _ => None
                  end
              | _ => None
              end) items)
      else None
  | _ => None
  end.

Definition quote (s : string) : string := """" ++ s ++ """".

Fixpoint concat_sep (sep : string) (l : list string) : string :=
  match l with
  | [] => ""
  | [x] => x
  | x :: l' => x ++ sep ++ concat_sep sep l'
  end.

(** Integers above 2^53 are printed as JSON strings, the convention of PROTOCOL.md. *)
Definition json_of_N (n : N) : string :=
  if n <? 9007199254740992 then dec_of_N n else quote (dec_of_N n).

Fixpoint json_of_value (v : value) : string :=
  match v with
  | VNum n => json_of_N n
  | VNull => "null"
  | VList l => "[" ++ concat_sep "," (map json_of_value l) ++ "]"
  | VObj kv =>
      "{" ++ concat_sep "," (map (fun p => quote (fst p) ++ ":" ++ json_of_value (snd p)) kv) ++ "}"
  end.

(** Association-list lookups on objects. *)
Fixpoint assoc {A} (k : string) (l : list (string * A)) : option A :=
  match l with
  | [] => None
  | (k', v) :: l' => if String.eqb k k' then Some v else assoc k l'
  end.

Definition bytes_of_value (v : value) : option (list byte) :=
  match v with
  | VList l =>
      (fix go (l : list value) : option (list byte) :=
         match l with
         | [] => Some []
         | VNum n :: l' => if n <? 256 then option_map (cons (byte_of_N n)) (go l') else None
         | _ => None
         end) l
  | _ => None
  end.

Definition value_of_bytes (bs : list byte) : value :=
  VList (map (fun b => VNum (Byte.to_N b)) bs).
