(** Reading a PDL file (as printed by harness/lib/sexp.py from the JSON AST) into [Ast.file]. *)
From Coq Require Import NArith List String Ascii Bool.
From PDL Require Import Base.Bits Lang.Ast Lang.Sexp.
Import ListNotations.
Open Scope string_scope.
Open Scope N_scope.

Definition opt_N (s : sexp) : option (option N) :=
  match s with
  | Atom a => if String.eqb a "-" then Some None else option_map Some (N_of_dec a)
  | _ => None
  end.

Definition opt_str (s : sexp) : option (option string) :=
  match s with
  | Atom a => if String.eqb a "-" then Some None else Some (Some a)
  | _ => None
  end.

Fixpoint map_opt {A B} (f : A -> option B) (l : list A) : option (list B) :=
  match l with
  | [] => Some []
  | x :: l' => match f x, map_opt f l' with
               | Some y, Some r => Some (y :: r)
               | _, _ => None
               end
  end.

(* (c ID N|- TAG|-) *)
Definition constr_of_sexp (s : sexp) : option constr :=
  match s with
  | SList [Atom "c"; Atom id; v; t] =>
      match opt_N v, opt_str t with
      | Some v', Some t' => Some (mkConstr id v' t')
      | _, _ => None
      end
  | _ => None
  end.

Definition pair_of_sexp (s : sexp) : option (string * N) :=
  match s with
  | SList [Atom id; Atom n] => option_map (pair id) (N_of_dec n)
  | _ => None
  end.

Definition tag_of_sexp (s : sexp) : option tag :=
  match s with
  | SList [Atom "v"; Atom id; Atom n] => option_map (TagValue id) (N_of_dec n)
  | SList [Atom "r"; Atom id; Atom lo; Atom hi; SList tags] =>
      match N_of_dec lo, N_of_dec hi, map_opt pair_of_sexp tags with
      | Some l, Some h, Some ts => Some (TagRange id l h ts)
      | _, _, _ => None
      end
  | SList [Atom "o"; Atom id] => Some (TagOther id)
  | _ => None
  end.

Definition fdesc_of_sexp (s : sexp) : option fdesc :=
  match s with
  | SList [Atom k; Atom a] =>
      if String.eqb k "checksum_f" then Some (Checksum a)
      else if String.eqb k "padding" then option_map Padding (N_of_dec a)
      else if String.eqb k "reserved" then option_map Reserved (N_of_dec a)
      else if String.eqb k "payload" then option_map Payload (opt_N (Atom a))
      else None
  | SList [Atom k] => if String.eqb k "body" then Some Body else None
  | SList [Atom k; Atom a; Atom b] =>
      if String.eqb k "size" then option_map (Size a) (N_of_dec b)
      else if String.eqb k "count" then option_map (Count a) (N_of_dec b)
      else if String.eqb k "elementsize" then option_map (ElementSize a) (N_of_dec b)
      else if String.eqb k "fixed_s" then
        match N_of_dec a, N_of_dec b with
        | Some w, Some v => Some (FixedScalar w v)
        | _, _ => None
        end
      else if String.eqb k "fixed_e" then Some (FixedEnum a b)
      else if String.eqb k "scalar" then option_map (Scalar a) (N_of_dec b)
      else if String.eqb k "typedef" then Some (Typedef a b)
      else None
  | SList [Atom k; Atom a; SList l] =>
      if String.eqb k "flag" then option_map (Flag a) (map_opt pair_of_sexp l)
      else if String.eqb k "group_f" then option_map (Group a) (map_opt constr_of_sexp l)
      else None
  | SList [Atom k; Atom id; w; t; m; sz] =>
      if String.eqb k "array" then
        match opt_N w, opt_str t, opt_N m, opt_N sz with
        | Some w', Some t', Some m', Some s' => Some (Array id w' t' m' s')
        | _, _, _, _ => None
        end
      else None
  | _ => None
  end.

(* (f DESC COND) with COND = - | (c ...) *)
Definition field_of_sexp (s : sexp) : option field :=
  match s with
  | SList [Atom "f"; d; c] =>
      match fdesc_of_sexp d with
      | Some d' =>
          match c with
          | Atom "-" => Some (mkField d' None)
          | _ => option_map (fun c' => mkField d' (Some c')) (constr_of_sexp c)
          end
      | None => None
      end
  | _ => None
  end.

Definition decl_of_sexp (s : sexp) : option decl :=
  match s with
  | SList [Atom k; Atom id; p; SList cs; SList fs] =>
      match opt_str p, map_opt constr_of_sexp cs, map_opt field_of_sexp fs with
      | Some p', Some cs', Some fs' =>
          if String.eqb k "packet" then Some (DPacket id cs' fs' p')
          else if String.eqb k "struct" then Some (DStruct id cs' fs' p')
          else None
      | _, _, _ => None
      end
  | SList [Atom k; Atom id; Atom w; SList tags] =>
      if String.eqb k "enum" then
        match N_of_dec w, map_opt tag_of_sexp tags with
        | Some w', Some ts => Some (DEnum id ts w')
        | _, _ => None
        end
      else None
  | SList [Atom k; Atom id; SList fs] =>
      if String.eqb k "group" then option_map (DGroup id) (map_opt field_of_sexp fs) else None
  | SList [Atom k; Atom id; w; Atom fn] =>
      if String.eqb k "custom" then option_map (fun w' => DCustomField id w' fn) (opt_N w)
      else if String.eqb k "checksum" then
        match opt_N w with Some (Some w') => Some (DChecksum id fn w') | _ => None end
      else None
  | SList [Atom k; Atom id] => if String.eqb k "test" then Some (DTest id) else None
  | _ => None
  end.

Definition file_of_sexp (s : sexp) : option file :=
  match s with
  | SList (Atom "file" :: Atom e :: ds) =>
      match map_opt decl_of_sexp ds with
      | Some ds' =>
          if String.eqb e "little" then Some (mkFile LittleEndian ds')
          else if String.eqb e "big" then Some (mkFile BigEndian ds')
          else None
      | None => None
      end
  | _ => None
  end.
