(** Source locations: [codespan_reporting::files::line_starts] and
    [ast::SourceLocation::new] (pdl-compiler/src/ast.rs). *)
From Coq Require Import NArith List String Ascii Bool.
Import ListNotations.
Open Scope N_scope.

(** [once(0).chain(source.match_indices('\n').map(|(i, _)| i + 1))]: offset 0 and
    every byte offset that follows a line feed (a lone CR starts no line; the file's
    end counts as a line start when the text ends with a line feed). *)
Fixpoint line_starts_from (s : string) (pos : N) : list N :=
  match s with
  | EmptyString => []
  | String c s' =>
      if Ascii.eqb c "010"%char then (pos + 1) :: line_starts_from s' (pos + 1)
      else line_starts_from s' (pos + 1)
  end.

Definition line_starts (s : string) : list N := 0 :: line_starts_from s 0.

Record srcloc := mkLoc { l_offset : N; l_line : N; l_column : N }.

(** [SourceLocation::new(offset, line_starts)]:
<<
  let mut loc = SourceLocation { offset, line: 0, column: offset };
  for (line, start) in line_starts.iter().enumerate() {
      if *start > offset { break; }
      loc = SourceLocation { offset, line, column: offset - start };
  }
>>
    Columns are BYTE columns. *)
Fixpoint loc_scan (offset : N) (ls : list N) (line : N) (cur : srcloc) : srcloc :=
  match ls with
  | [] => cur
  | start :: ls' =>
      if offset <? start then cur
      else loc_scan offset ls' (line + 1) (mkLoc offset line (offset - start))
  end.

Definition source_location (offset : N) (ls : list N) : srcloc :=
  loc_scan offset ls 0 (mkLoc offset 0 offset).
