(** The executable model of [parser::parse_inline]: the generated grammar run by the
    PEG interpreter, then the tree walk; and its one-line rendering.

    Line format ([show_presult]):
    - [ok <sexp> ; <loc> <loc> ...]  the file in the format of
      harness/lib/pdlast.py::to_sexp, then the location records
        kind:START-END:SLINE:SCOL:ELINE:ECOL        (byte offsets, 0-based lines, byte columns)
      in traversal order: [endianness]; for each declaration [decl], its
      [constraint]s, for each field [field], its [cond], the [gconstraint]s of a group
      field; for each tag [tag], then its nested [subtag]s; finally the comments
        comment:START-END:SLINE:SCOL:ELINE:ECOL:TEXTLEN   (TEXTLEN in bytes)
    - [err]              the grammar rejects the text
    - [converr <text>]   "cannot convert '<text>' to usize"
    - [walkerr <msg>]    another [Err] of the walk
    - [panic <site>]     an unwrap / unreachable of the walk
    - [fuel]             the interpreter ran out of fuel
    - [badgrammar <r>]   the grammar refers to an undefined rule (translator bug) *)
From Coq Require Import NArith List String Ascii Bool.
From PDL Require Import Lang.Ast Lang.Sexp Front.Peg Front.Loc Front.TreeWalk Front.Grammar_gen.
Import ListNotations.
Open Scope string_scope.
Open Scope N_scope.

Inductive presult :=
| POk (f : lfile) (line_starts : list N)
| PErr
| PConvErr (text : string)
| PWalkErr (msg : string)
| PPanic (site : string)
| PFuel
| PBadGrammar (rule : string).

Definition start_rule : string := "file".

Definition parse_text_with (g : grammar) (s : string) : presult :=
  match parse g start_rule (default_fuel s) s with
  | ParseOk pairs =>
      match walk pairs with
      | WOk f => POk f (line_starts s)
      | WErr m => PWalkErr m
      | WConv t => PConvErr t
      | WPanic site => PPanic site
      end
  | ParseFail => PErr
  | OutOfFuel => PFuel
  | BadGrammar r => PBadGrammar r
  end.

Definition parse_text (s : string) : presult := parse_text_with pdl_grammar s.

(** The AST alone, for the rest of the development. *)
Definition parse_file (s : string) : option file :=
  match parse_text s with
  | POk f _ => Some (erase_file f)
  | _ => None
  end.

(** * Printing: pdlast.to_sexp *)

Definition sp_join (l : list string) : string := concat_sep " " l.

Definition o_N (x : option N) : string := match x with Some n => dec_of_N n | None => "-" end.
Definition o_str (x : option string) : string := match x with Some s => s | None => "-" end.

(** pdlast._q *)
Fixpoint q_body (s : string) : string :=
  match s with
  | EmptyString => EmptyString
  | String c s' =>
      let r := q_body s' in
      match c with
      | "\"%char => String "\" (String "\" r)
      | """"%char => String "\" (String """" r)
      | "010"%char => String "\" (String "n" r)
      | "009"%char => String "\" (String "t" r)
      | "013"%char => String "\" (String "r" r)
      | _ => String c r
      end
  end.

Definition q (s : string) : string := String """" (q_body s ++ """").

Definition constraint_sexp (c : constr) : string :=
  "(c " ++ c_id c ++ " " ++ o_N (c_value c) ++ " " ++ o_str (c_tag c) ++ ")".

Definition pairs_sexp (l : list (string * N)) : string :=
  sp_join (map (fun p : string * N => "(" ++ fst p ++ " " ++ dec_of_N (snd p) ++ ")") l).

Definition fdesc_sexp (d : fdesc) : string :=
  match d with
  | Checksum fid => "(checksum_f " ++ fid ++ ")"
  | Padding n => "(padding " ++ dec_of_N n ++ ")"
  | Size fid w => "(size " ++ fid ++ " " ++ dec_of_N w ++ ")"
  | Count fid w => "(count " ++ fid ++ " " ++ dec_of_N w ++ ")"
  | ElementSize fid w => "(elementsize " ++ fid ++ " " ++ dec_of_N w ++ ")"
  | Body => "(body)"
  | Payload m => "(payload " ++ o_N m ++ ")"
  | FixedScalar w v => "(fixed_s " ++ dec_of_N w ++ " " ++ dec_of_N v ++ ")"
  | FixedEnum e t => "(fixed_e " ++ e ++ " " ++ t ++ ")"
  | Reserved w => "(reserved " ++ dec_of_N w ++ ")"
  | Array id w t m sz =>
      "(array " ++ id ++ " " ++ o_N w ++ " " ++ o_str t ++ " " ++ o_N m ++ " " ++ o_N sz ++ ")"
  | Scalar id w => "(scalar " ++ id ++ " " ++ dec_of_N w ++ ")"
  | Flag id l => "(flag " ++ id ++ " (" ++ pairs_sexp l ++ "))"
  | Typedef id t => "(typedef " ++ id ++ " " ++ t ++ ")"
  | Group gid cs => "(group_f " ++ gid ++ " (" ++ sp_join (map constraint_sexp cs) ++ "))"
  end.

Definition field_sexp (f : field) : string :=
  "(f " ++ fdesc_sexp (f_desc f) ++ " "
        ++ match f_cond f with Some c => constraint_sexp c | None => "-" end ++ ")".

Definition tag_sexp (t : tag) : string :=
  match t with
  | TagValue id v => "(v " ++ id ++ " " ++ dec_of_N v ++ ")"
  | TagRange id lo hi tags =>
      "(r " ++ id ++ " " ++ dec_of_N lo ++ " " ++ dec_of_N hi ++ " (" ++ pairs_sexp tags ++ "))"
  | TagOther id => "(o " ++ id ++ ")"
  end.

Definition decl_sexp (d : decl) : string :=
  match d with
  | DEnum id tags w =>
      "(enum " ++ id ++ " " ++ dec_of_N w ++ " (" ++ sp_join (map tag_sexp tags) ++ "))"
  | DPacket id cs fs p =>
      "(packet " ++ id ++ " " ++ o_str p ++ " (" ++ sp_join (map constraint_sexp cs) ++ ") ("
                 ++ sp_join (map field_sexp fs) ++ "))"
  | DStruct id cs fs p =>
      "(struct " ++ id ++ " " ++ o_str p ++ " (" ++ sp_join (map constraint_sexp cs) ++ ") ("
                 ++ sp_join (map field_sexp fs) ++ "))"
  | DGroup id fs => "(group " ++ id ++ " (" ++ sp_join (map field_sexp fs) ++ "))"
  | DCustomField id w fn => "(custom " ++ id ++ " " ++ o_N w ++ " " ++ q fn ++ ")"
  | DChecksum id fn w => "(checksum " ++ id ++ " " ++ dec_of_N w ++ " " ++ q fn ++ ")"
  | DTest ty => "(test " ++ ty ++ ")"
  end.

Definition file_sexp (f : file) : string :=
  "(file " ++ (match f_endian f with LittleEndian => "little" | BigEndian => "big" end) ++ " "
           ++ sp_join (map decl_sexp (f_decls f)) ++ ")".

(** * Printing: location records *)

Definition loc_rec (ls : list N) (kind : string) (r : range) : string :=
  let a := source_location (r_lo r) ls in
  let b := source_location (r_hi r) ls in
  kind ++ ":" ++ dec_of_N (r_lo r) ++ "-" ++ dec_of_N (r_hi r)
       ++ ":" ++ dec_of_N (l_line a) ++ ":" ++ dec_of_N (l_column a)
       ++ ":" ++ dec_of_N (l_line b) ++ ":" ++ dec_of_N (l_column b).

Definition field_locs (ls : list N) (f : lfield) : list string :=
  loc_rec ls "field" (lf_loc f)
  :: (match lf_cond f with Some c => [loc_rec ls "cond" (lc_loc c)] | None => [] end)
  ++ (match lf_desc f with
      | LGroupField _ cs => map (fun c => loc_rec ls "gconstraint" (lc_loc c)) cs
      | LPlain _ => []
      end).

Definition tag_locs (ls : list N) (t : ltag) : list string :=
  match t with
  | LTagValue v => [loc_rec ls "tag" (ltv_loc v)]
  | LTagRange loc _ _ _ tags =>
      loc_rec ls "tag" loc :: map (fun v => loc_rec ls "subtag" (ltv_loc v)) tags
  | LTagOther loc _ => [loc_rec ls "tag" loc]
  end.

Definition decl_locs (ls : list N) (d : ldecl) : list string :=
  loc_rec ls "decl" (ld_loc d)
  :: match ld_desc d with
     | LPacket _ cs fs _ | LStruct _ cs fs _ =>
         map (fun c => loc_rec ls "constraint" (lc_loc c)) cs ++ flat_map (field_locs ls) fs
     | LGroup _ fs => flat_map (field_locs ls) fs
     | LEnum _ tags _ => flat_map (tag_locs ls) tags
     | LChecksum _ _ _ | LCustomField _ _ _ => []
     end.

Definition comment_loc (ls : list N) (c : lcomment) : string :=
  loc_rec ls "comment" (lcm_loc c) ++ ":" ++ dec_of_N (strlen (lcm_text c)).

Definition file_locs (ls : list N) (f : lfile) : list string :=
  loc_rec ls "endianness" (lfl_endian_loc f)
  :: flat_map (decl_locs ls) (lfl_decls f) ++ map (comment_loc ls) (lfl_comments f).

(** * The result line *)

(** (status, rest) *)
Definition render (r : presult) : string * string :=
  match r with
  | POk f ls => ("ok", file_sexp (erase_file f) ++ " ; " ++ sp_join (file_locs ls f))
  | PErr => ("err", "")
  | PConvErr t => ("converr", t)
  | PWalkErr m => ("walkerr", m)
  | PPanic s => ("panic", s)
  | PFuel => ("fuel", "")
  | PBadGrammar r => ("badgrammar", r)
  end.

Definition show_presult (r : presult) : string :=
  let (st, rest) := render r in
  match rest with EmptyString => st | _ => st ++ " " ++ rest end.

(** * Rule statistics: how often each rule matched in the final parse (instrumented
    interpreter: silent rules and rules below atomic ones count too). *)
Definition rule_counts (s : string) : option counts :=
  match parse_with pdl_grammar true start_rule (default_fuel s) s with
  | ParseOk pairs => Some (count_pairs pairs)
  | _ => None
  end.

Definition show_counts (c : counts) : string :=
  concat_sep "," (map (fun p : string * N => fst p ++ ":" ++ dec_of_N (snd p)) c).

(** * The pair tree as text: [(rule START END child ...)] *)
Fixpoint show_pair (p : pair) : string :=
  match p with
  | Pair r s e _ kids =>
      "(" ++ r ++ " " ++ dec_of_N s ++ " " ++ dec_of_N e
          ++ (fix go (l : list pair) : string :=
                match l with
                | [] => EmptyString
                | k :: l' => " " ++ show_pair k ++ go l'
                end) kids ++ ")"
  end.

Definition show_parse_result (r : parse_result) : string :=
  match r with
  | ParseOk ps => "ok " ++ sp_join (map show_pair ps)
  | ParseFail => "err"
  | OutOfFuel => "fuel"
  | BadGrammar n => "badgrammar " ++ n
  end.

(** * Requests: [(parse ID "text")], [(parse-rules ID "text")] and [(parse-tree ID "text")],
    the text escaped as by pdlast._q.  Replies [ID<TAB>status<TAB>rest]. *)
Definition tab : string := String "009"%char "".

Definition parse_request (line : string) : string :=
  match parse_sexp line with
  | Some (SList [Atom op; Atom id; Atom text]) =>
      if String.eqb op "parse" then
        let (st, rest) := render (parse_text text) in id ++ tab ++ st ++ tab ++ rest
      else if String.eqb op "parse-rules" then
        match rule_counts text with
        | Some c => id ++ tab ++ "ok" ++ tab ++ show_counts c
        | None => id ++ tab ++ "none" ++ tab
        end
      else if String.eqb op "parse-tree" then
        match parse pdl_grammar start_rule (default_fuel text) text with
        | ParseOk ps => id ++ tab ++ "ok" ++ tab ++ sp_join (map show_pair ps)
        | r => id ++ tab ++ show_parse_result r ++ tab
        end
      else id ++ tab ++ "bad" ++ tab ++ "op"
  | _ => "?" ++ tab ++ "bad" ++ tab ++ "line"
  end.
