(** The positional tree walk of pdl-compiler/src/parser.rs ([parse_toplevel] and the
    functions below it), function for function, from pest pairs ([Peg.pair]) to a
    LOCATED abstract syntax: [Lang/Ast.v]'s nodes with the byte range
    ([Pair::as_span]) of every node that carries a [loc] in ast.rs, plus the comments.
    [erase_file] forgets the ranges.

    Outcomes ([wres]):
    - [WOk]
    - [WErr msg]   : the walk returned [Err(String)] other than a conversion failure
                     ("expected rule X, got Y", ...).  No tree of the shipped grammar
                     reaches these; they are kept so that a grammar edit that makes one
                     reachable shows up as a verdict and not as a wrong tree.
    - [WConv text] : [as_usize] failed: "cannot convert '<text>' to usize"
    - [WPanic site]: an [unwrap()] on [None] or an [unreachable!()] was hit.

    Node keys ([FieldKey], [DeclKey], [max_key]) are not modelled: serde skips them. *)
From Coq Require Import NArith List String Ascii Bool.
From PDL Require Import Lang.Ast Front.Peg.
Import ListNotations.
Open Scope string_scope.
Open Scope N_scope.

(** * Located syntax *)

Record range := mkRange { r_lo : N; r_hi : N }.

Record lconstr := mkLConstr { lc_loc : range; lc_c : constr }.

Record ltagvalue := mkLTagValue { ltv_loc : range; ltv_id : string; ltv_value : N }.

Inductive ltag :=
| LTagValue (t : ltagvalue)
| LTagRange (loc : range) (id : string) (lo hi : N) (tags : list ltagvalue)
| LTagOther (loc : range) (id : string).

(** Only group fields hold located nodes below the description. *)
Inductive lfdesc :=
| LPlain (d : fdesc)
| LGroupField (group_id : string) (constraints : list lconstr).

Record lfield := mkLField { lf_loc : range; lf_desc : lfdesc; lf_cond : option lconstr }.

Inductive ldesc :=
| LChecksum (id function : string) (width : N)
| LCustomField (id : string) (width : option N) (function : string)
| LEnum (id : string) (tags : list ltag) (width : N)
| LPacket (id : string) (constraints : list lconstr) (fields : list lfield) (parent_id : option string)
| LStruct (id : string) (constraints : list lconstr) (fields : list lfield) (parent_id : option string)
| LGroup (id : string) (fields : list lfield).

Record ldecl := mkLDecl { ld_loc : range; ld_desc : ldesc }.

Record lcomment := mkLComment { lcm_loc : range; lcm_text : string }.

Record lfile := mkLFile {
  lfl_endian_loc : range;
  lfl_endian : endian;
  lfl_decls : list ldecl;
  lfl_comments : list lcomment
}.

(** ** Forgetting locations *)

Definition erase_tagvalue (t : ltagvalue) : string * N := (ltv_id t, ltv_value t).

Definition erase_tag (t : ltag) : tag :=
  match t with
  | LTagValue v => TagValue (ltv_id v) (ltv_value v)
  | LTagRange _ id lo hi tags => TagRange id lo hi (map erase_tagvalue tags)
  | LTagOther _ id => TagOther id
  end.

Definition erase_fdesc (d : lfdesc) : fdesc :=
  match d with
  | LPlain d' => d'
  | LGroupField id cs => Group id (map lc_c cs)
  end.

Definition erase_field (f : lfield) : field :=
  mkField (erase_fdesc (lf_desc f)) (option_map lc_c (lf_cond f)).

Definition erase_decl (d : ldecl) : decl :=
  match ld_desc d with
  | LChecksum id fn w => DChecksum id fn w
  | LCustomField id w fn => DCustomField id w fn
  | LEnum id tags w => DEnum id (map erase_tag tags) w
  | LPacket id cs fs p => DPacket id (map lc_c cs) (map erase_field fs) p
  | LStruct id cs fs p => DStruct id (map lc_c cs) (map erase_field fs) p
  | LGroup id fs => DGroup id (map erase_field fs)
  end.

Definition erase_file (f : lfile) : file := mkFile (lfl_endian f) (map erase_decl (lfl_decls f)).

(** * Results *)

Inductive wres (A : Type) :=
| WOk (a : A)
| WErr (msg : string)
| WConv (text : string)
| WPanic (site : string).
Arguments WOk {A} a.
Arguments WErr {A} msg.
Arguments WConv {A} text.
Arguments WPanic {A} site.

Definition wbind {A B} (r : wres A) (k : A -> wres B) : wres B :=
  match r with
  | WOk a => k a
  | WErr m => WErr m
  | WConv t => WConv t
  | WPanic s => WPanic s
  end.

Notation "'let*' x ':=' r 'in' k" := (wbind r (fun x => k))
  (at level 200, x pattern, r at level 100, k at level 200, right associativity).

(** [iter.map(f).collect::<Result<Vec<_>, _>>()]: stops at the first error. *)
Fixpoint wmap {A B} (f : A -> wres B) (l : list A) : wres (list B) :=
  match l with
  | [] => WOk []
  | x :: l' =>
      let* y := f x in
      let* r := wmap f l' in
      WOk (y :: r)
  end.

(** * Helpers ([trait Helpers], [expect], [maybe]) *)

Definition is_rule (p : pair) (r : string) : bool := String.eqb (p_rule p) r.

(** [children]: [into_inner()] without the COMMENT pairs. *)
Definition children (p : pair) : list pair :=
  filter (fun c => negb (is_rule c "COMMENT")) (p_children p).

Definition as_loc (p : pair) : range := mkRange (p_start p) (p_end p).

Definition as_string (p : pair) : string := as_str p.

(** [usize::from_str_radix(text, radix)]: an optional [+], then at least one digit of
    the radix (letters in either case), the value below 2^64. *)
Definition digit_of (radix : N) (c : ascii) : option N :=
  let n := N_of_ascii c in
  let d := if (48 <=? n) && (n <=? 57) then Some (n - 48)
           else if (97 <=? n) && (n <=? 122) then Some (n - 87)
           else if (65 <=? n) && (n <=? 90) then Some (n - 55)
           else None in
  match d with
  | Some v => if v <? radix then Some v else None
  | None => None
  end.

Definition usize_limit : N := 2 ^ 64.

(** Overflow is detected digit by digit (the accumulator never exceeds
    [radix * 2^64]), so absurdly long literals stay cheap. *)
Fixpoint radix_go (radix : N) (s : string) (acc : N) : option N :=
  match s with
  | EmptyString => Some acc
  | String c s' =>
      match digit_of radix c with
      | Some d =>
          let acc' := acc * radix + d in
          if acc' <? usize_limit then radix_go radix s' acc' else None
      | None => None
      end
  end.

Definition usize_from_str_radix (s : string) (radix : N) : option N :=
  let digits := match s with
                | String "+"%char s' => s'
                | _ => s
                end in
  match digits with
  | EmptyString => None
  | _ => radix_go radix digits 0
  end.

(** [as_usize]: hexadecimal after a [0x] or [0X] prefix, decimal otherwise. *)
Definition as_usize (p : pair) : wres N :=
  let text := as_str p in
  let r := match strip_prefix "0x" text with
           | Some num => usize_from_str_radix num 16
           | None =>
               match strip_prefix "0X" text with
               | Some num => usize_from_str_radix num 16
               | None => usize_from_str_radix text 10
               end
           end in
  match r with
  | Some n => WOk n
  | None => WConv text
  end.

Definition err_unexpected_rule {A} (expected found : string) : wres A :=
  WErr ("expected rule " ++ expected ++ ", got " ++ found).

Definition err_missing_rule {A} (expected : string) : wres A :=
  WErr ("expected rule " ++ expected ++ ", got nothing").

(** Iterators are lists of the pairs still to come. *)
Definition iter := list pair.

Definition expect (it : iter) (r : string) : wres (pair * iter) :=
  match it with
  | n :: it' => if is_rule n r then WOk (n, it') else err_unexpected_rule r (p_rule n)
  | [] => err_missing_rule r
  end.

(** [iter.next_if(|n| n.as_rule() == rule)] *)
Definition maybe (it : iter) (r : string) : option pair * iter :=
  match it with
  | n :: it' => if is_rule n r then (Some n, it') else (None, it)
  | [] => (None, it)
  end.

Definition parse_identifier (it : iter) : wres (string * iter) :=
  let* (n, it') := expect it "identifier" in
  WOk (as_string n, it').

Definition parse_integer (it : iter) : wres (N * iter) :=
  let* (n, it') := expect it "integer" in
  let* v := as_usize n in
  WOk (v, it').

Definition parse_identifier_opt (it : iter) : option string * iter :=
  match maybe it "identifier" with
  | (Some n, it') => (Some (as_string n), it')
  | (None, it') => (None, it')
  end.

Definition parse_integer_opt (it : iter) : wres (option N * iter) :=
  match maybe it "integer" with
  | (Some n, it') => let* v := as_usize n in WOk (Some v, it')
  | (None, it') => WOk (None, it')
  end.

Definition parse_identifier_or_integer (it : iter) : wres (option string * option N * iter) :=
  match it with
  | n :: it' =>
      if is_rule n "identifier" then WOk (Some (as_string n), None, it')
      else if is_rule n "integer" then let* v := as_usize n in WOk (None, Some v, it')
      else WErr ("expected rule identifier or integer, got " ++ p_rule n)
  | [] => WErr "expected rule identifier or integer, got nothing"
  end.

Fixpoint strip_suffix_quote (s : string) : option string :=
  match s with
  | EmptyString => None
  | String c EmptyString => if Ascii.eqb c """"%char then Some EmptyString else None
  | String c s' => option_map (String c) (strip_suffix_quote s')
  end.

Definition parse_string (it : iter) : wres (string * iter) :=
  let* (n, it') := expect it "string" in
  match strip_prefix """" (as_str n) with
  | None => WErr "expected "" prefix"
  | Some s =>
      match strip_suffix_quote s with
      | None => WErr "expected "" suffix"
      | Some s' => WOk (s', it')
      end
  end.

(** The size modifier is kept as text in ast.rs ("+2"); [Ast.v] and the s-expression
    format hold the number after the sign (not limited to 64 bits). *)
Fixpoint dec_value (s : string) (acc : N) : N :=
  match s with
  | EmptyString => acc
  | String c s' =>
      match digit_of 10 c with
      | Some d => dec_value s' (acc * 10 + d)
      | None => dec_value s' acc
      end
  end.

Definition size_modifier_value (text : string) : N := dec_value text 0.

Definition parse_size_modifier_opt (it : iter) : option N * iter :=
  match maybe it "size_modifier" with
  | (Some n, it') => (Some (size_modifier_value (as_string n)), it')
  | (None, it') => (None, it')
  end.

(** [str::trim] restricted to the ASCII members of White_Space (the grammar's
    WHITESPACE only has these). *)
Definition is_ascii_space (c : ascii) : bool :=
  let n := N_of_ascii c in ((9 <=? n) && (n <=? 13)) || (n =? 32).

Fixpoint trim_start (s : string) : string :=
  match s with
  | String c s' => if is_ascii_space c then trim_start s' else s
  | EmptyString => s
  end.

(** drops trailing spaces: returns [None] when [s] is all spaces *)
Fixpoint trim_end_aux (s : string) : option string :=
  match s with
  | EmptyString => None
  | String c s' =>
      match trim_end_aux s' with
      | Some r => Some (String c r)
      | None => if is_ascii_space c then None else Some (String c EmptyString)
      end
  end.

Definition trim (s : string) : string :=
  match trim_end_aux (trim_start s) with Some r => r | None => EmptyString end.

(** * The walk *)

Definition parse_endianness (node : pair) : wres (range * endian) :=
  if negb (is_rule node "endianness_declaration")
  then err_unexpected_rule "endianness_declaration" (p_rule node)
  else
    let t := trim (as_str node) in
    if String.eqb t "little_endian_packets" then WOk (as_loc node, LittleEndian)
    else if String.eqb t "big_endian_packets" then WOk (as_loc node, BigEndian)
    else WPanic "parse_endianness:unreachable".

Definition parse_constraint (node : pair) : wres lconstr :=
  if negb (is_rule node "constraint") then err_unexpected_rule "constraint" (p_rule node)
  else
    let loc := as_loc node in
    let it := children node in
    let* (id, it) := parse_identifier it in
    let* (tag_id, value, _) := parse_identifier_or_integer it in
    WOk (mkLConstr loc (mkConstr id value tag_id)).

Definition parse_constraint_list_opt (it : iter) : wres (list lconstr * iter) :=
  match maybe it "constraint_list" with
  | (Some n, it') => let* cs := wmap parse_constraint (children n) in WOk (cs, it')
  | (None, it') => WOk ([], it')
  end.

Definition parse_enum_value (node : pair) : wres ltagvalue :=
  if negb (is_rule node "enum_value") then err_unexpected_rule "enum_value" (p_rule node)
  else
    let loc := as_loc node in
    let it := children node in
    let* (id, it) := parse_identifier it in
    let* (value, _) := parse_integer it in
    WOk (mkLTagValue loc id value).

Definition parse_enum_value_list_opt (it : iter) : wres (list ltagvalue * iter) :=
  match maybe it "enum_value_list" with
  | (Some n, it') => let* vs := wmap parse_enum_value (children n) in WOk (vs, it')
  | (None, it') => WOk ([], it')
  end.

Definition parse_enum_range (node : pair) : wres ltag :=
  if negb (is_rule node "enum_range") then err_unexpected_rule "enum_range" (p_rule node)
  else
    let loc := as_loc node in
    let it := children node in
    let* (id, it) := parse_identifier it in
    let* (lo, it) := parse_integer it in
    let* (hi, it) := parse_integer it in
    let* (tags, _) := parse_enum_value_list_opt it in
    WOk (LTagRange loc id lo hi tags).

Definition parse_enum_other (node : pair) : wres ltag :=
  if negb (is_rule node "enum_other") then err_unexpected_rule "enum_other" (p_rule node)
  else
    let loc := as_loc node in
    let* (id, _) := parse_identifier (children node) in
    WOk (LTagOther loc id).

Definition parse_enum_tag (node : pair) : wres ltag :=
  if negb (is_rule node "enum_tag") then err_unexpected_rule "enum_tag" (p_rule node)
  else
    match children node with
    | n :: _ =>
        if is_rule n "enum_value" then let* v := parse_enum_value n in WOk (LTagValue v)
        else if is_rule n "enum_range" then parse_enum_range n
        else if is_rule n "enum_other" then parse_enum_other n
        else WErr ("expected rule enum_value or enum_range, got " ++ p_rule n)
    | [] => WErr "expected rule enum_value or enum_range, got nothing"
    end.

Definition parse_enum_tag_list (it : iter) : wres (list ltag * iter) :=
  let* (n, it') := expect it "enum_tag_list" in
  let* tags := wmap parse_enum_tag (children n) in
  WOk (tags, it').

(** The description of a field, from the [*_field] pair. *)
Definition parse_field_desc (desc : pair) : wres lfdesc :=
  let rule := p_rule desc in
  let it := children desc in
  if String.eqb rule "checksum_field" then
    let* (field_id, _) := parse_identifier it in WOk (LPlain (Checksum field_id))
  else if String.eqb rule "padding_field" then
    let* (size, _) := parse_integer it in WOk (LPlain (Padding size))
  else if String.eqb rule "size_field" then
    let* (field_id, it) :=
      match it with
      | n :: it' =>
          if is_rule n "identifier" || is_rule n "payload_identifier" || is_rule n "body_identifier"
          then WOk (as_string n, it')
          else err_unexpected_rule "identifier" (p_rule n)
      | [] => err_missing_rule "identifier"
      end in
    let* (width, _) := parse_integer it in
    WOk (LPlain (Size field_id width))
  else if String.eqb rule "count_field" then
    let* (field_id, it) := parse_identifier it in
    let* (width, _) := parse_integer it in
    WOk (LPlain (Count field_id width))
  else if String.eqb rule "elementsize_field" then
    let* (field_id, it) := parse_identifier it in
    let* (width, _) := parse_integer it in
    WOk (LPlain (ElementSize field_id width))
  else if String.eqb rule "body_field" then WOk (LPlain Body)
  else if String.eqb rule "payload_field" then
    let (size_modifier, _) := parse_size_modifier_opt it in
    WOk (LPlain (Payload size_modifier))
  else if String.eqb rule "fixed_field" then
    match it with
    | n :: it' =>
        if is_rule n "integer" then
          let* value := as_usize n in
          let* (width, _) := parse_integer it' in
          WOk (LPlain (FixedScalar width value))
        else if is_rule n "identifier" then
          let tag_id := as_string n in
          let* (enum_id, _) := parse_identifier it' in
          WOk (LPlain (FixedEnum enum_id tag_id))
        else WPanic "parse_field:fixed_field:unreachable"
    | [] => WPanic "parse_field:fixed_field:unreachable"
    end
  else if String.eqb rule "reserved_field" then
    let* (width, _) := parse_integer it in WOk (LPlain (Reserved width))
  else if String.eqb rule "array_field" then
    let* (id, it) := parse_identifier it in
    let* (type_id, width, it) := parse_identifier_or_integer it in
    let* (size, size_modifier) :=
      match it with
      | n :: _ =>
          if is_rule n "integer" then let* v := as_usize n in WOk (Some v, None)
          else if is_rule n "size_modifier" then WOk (None, Some (size_modifier_value (as_string n)))
          else WErr ("expected rule integer or size_modifier, got " ++ p_rule n)
      | [] => WOk (None, None)
      end in
    WOk (LPlain (Array id width type_id size_modifier size))
  else if String.eqb rule "scalar_field" then
    let* (id, it) := parse_identifier it in
    let* (width, _) := parse_integer it in
    WOk (LPlain (Scalar id width))
  else if String.eqb rule "typedef_field" then
    let* (id, it) := parse_identifier it in
    let* (type_id, _) := parse_identifier it in
    WOk (LPlain (Typedef id type_id))
  else if String.eqb rule "group_field" then
    let* (group_id, it) := parse_identifier it in
    let* (constraints, _) := parse_constraint_list_opt it in
    WOk (LGroupField group_id constraints)
  else WErr ("expected rule *_field, got " ++ rule).

(** [parse_field]: the struct literal evaluates [cond] BEFORE [desc]. *)
Definition parse_field (node : pair) : wres lfield :=
  let loc := as_loc node in
  match children node with
  | [] => WPanic "parse_field:desc:unwrap"
  | desc :: rest =>
      let* cond :=
        match rest with
        | c :: _ => let* lc := parse_constraint c in WOk (Some lc)
        | [] => WOk None
        end in
      let* d := parse_field_desc desc in
      WOk (mkLField loc d cond)
  end.

Definition parse_field_list (it : iter) : wres (list lfield * iter) :=
  let* (n, it') := expect it "field_list" in
  let* fs := wmap parse_field (children n) in
  WOk (fs, it').

Definition parse_field_list_opt (it : iter) : wres (list lfield * iter) :=
  match maybe it "field_list" with
  | (Some n, it') => let* fs := wmap parse_field (children n) in WOk (fs, it')
  | (None, it') => WOk ([], it')
  end.

(** One iteration of the loop over the root's children: [None] for the pairs that
    leave the declarations alone. *)
Inductive toplevel_item :=
| TEndianness (loc : range) (e : endian)
| TDecl (d : ldecl)
| TNothing.

Definition parse_toplevel_item (node : pair) : wres toplevel_item :=
  let loc := as_loc node in
  let rule := p_rule node in
  if String.eqb rule "endianness_declaration" then
    let* (l, e) := parse_endianness node in WOk (TEndianness l e)
  else if String.eqb rule "checksum_declaration" then
    let* (_, it) := expect (children node) "CHECKSUM" in
    let* (id, it) := parse_identifier it in
    let* (width, it) := parse_integer it in
    let* (function, _) := parse_string it in
    WOk (TDecl (mkLDecl loc (LChecksum id function width)))
  else if String.eqb rule "custom_field_declaration" then
    let* (_, it) := expect (children node) "CUSTOM_FIELD" in
    let* (id, it) := parse_identifier it in
    let* (width, it) := parse_integer_opt it in
    let* (function, _) := parse_string it in
    WOk (TDecl (mkLDecl loc (LCustomField id width function)))
  else if String.eqb rule "enum_declaration" then
    let* (_, it) := expect (children node) "ENUM" in
    let* (id, it) := parse_identifier it in
    let* (width, it) := parse_integer it in
    let* (tags, _) := parse_enum_tag_list it in
    WOk (TDecl (mkLDecl loc (LEnum id tags width)))
  else if String.eqb rule "packet_declaration" then
    let* (_, it) := expect (children node) "PACKET" in
    let* (id, it) := parse_identifier it in
    let (parent_id, it) := parse_identifier_opt it in
    let* (constraints, it) := parse_constraint_list_opt it in
    let* (fields, _) := parse_field_list_opt it in
    WOk (TDecl (mkLDecl loc (LPacket id constraints fields parent_id)))
  else if String.eqb rule "struct_declaration" then
    let* (_, it) := expect (children node) "STRUCT" in
    let* (id, it) := parse_identifier it in
    let (parent_id, it) := parse_identifier_opt it in
    let* (constraints, it) := parse_constraint_list_opt it in
    let* (fields, _) := parse_field_list_opt it in
    WOk (TDecl (mkLDecl loc (LStruct id constraints fields parent_id)))
  else if String.eqb rule "group_declaration" then
    let* (_, it) := expect (children node) "GROUP" in
    let* (id, it) := parse_identifier it in
    let* (fields, _) := parse_field_list it in
    WOk (TDecl (mkLDecl loc (LGroup id fields)))
  else if String.eqb rule "test_declaration" then WOk TNothing   (* dropped by the parser *)
  else if String.eqb rule "EOI" then WOk TNothing
  else WPanic "parse_toplevel:unreachable".

(** The COMMENT pairs of a tree in the order of their End tokens ([root.tokens()]):
    children before the node itself. *)
Fixpoint comments_of (p : pair) (acc : list lcomment) : list lcomment :=
  match p with
  | Pair r _ _ _ kids =>
      let acc' :=
        (fix go (l : list pair) (a : list lcomment) : list lcomment :=
           match l with
           | [] => a
           | k :: l' => go l' (comments_of k a)
           end) kids acc in
      if String.eqb r "COMMENT" then mkLComment (as_loc p) (as_str p) :: acc' else acc'
  end.

Fixpoint toplevel_loop (nodes : list pair) (eloc : range) (e : endian) (decls : list ldecl)
  : wres (range * endian * list ldecl) :=
  match nodes with
  | [] => WOk (eloc, e, rev decls)
  | n :: nodes' =>
      let* item := parse_toplevel_item n in
      match item with
      | TEndianness l e' => toplevel_loop nodes' l e' decls
      | TDecl d => toplevel_loop nodes' eloc e (d :: decls)
      | TNothing => toplevel_loop nodes' eloc e decls
      end
  end.

(** [parse_toplevel]: comments first (no failure there), then the declarations.
    [File::new] starts with little endian at the default (all zero) location. *)
Definition parse_toplevel (root : pair) : wres lfile :=
  let comments := rev (comments_of root []) in
  let* (eloc, e, decls) := toplevel_loop (children root) (mkRange 0 0) LittleEndian [] in
  WOk (mkLFile eloc e decls comments).

(** [parse_inline] after a successful [PDLParser::parse]: [.next().unwrap()]. *)
Definition walk (pairs : list pair) : wres lfile :=
  match pairs with
  | root :: _ => parse_toplevel root
  | [] => WPanic "parse_inline:root:unwrap"
  end.
