(** What the Rust backend's emitted [decode] does (backends/rust/decoder.rs and the
    decode / decode_partial bodies of backends/rust/mod.rs): generator state
    ([shift], [chunk]) fused with the run-time state of the emitted code ([span],
    the locals [x_size], [x_count], [x_element_size], condition flags).  Every
    primitive of [bytes::Buf] / [core] that can panic does so explicitly. *)
From Coq Require Import NArith List String Ascii Bool.
From Coq Require Import Strings.Byte.
From PDL Require Import Base.Bits Base.Outcome Lang.Ast Lang.Sexp Analyzer.Schema Rust.Enum
     Sem.RefEncode Rust.Encode.
Import ListNotations.
Open Scope string_scope.
Open Scope N_scope.

Inductive derr :=
| UnwrapError | FixedValueError | LengthError | ArraySizeError | EnumValueError
| ConstraintValueError | TrailingBytesError | TrailingBytesInArray.

Definition dres := outcome derr.

(** ** usize arithmetic: panics with overflow checks (dev profile), wraps without *)
Definition two64 : N := 18446744073709551616.

Definition umul (oc : bool) (a b : N) : dres N :=
  if a * b <? two64 then Ok (a * b)
  else if oc then Panic ArithOverflow else Ok ((a * b) mod two64).

Definition usub (oc : bool) (a b : N) : dres N :=
  if b <=? a then Ok (a - b)
  else if oc then Panic ArithOverflow else Ok (two64 + a - b).

(** ** bytes::Buf for [&[u8]] and slice primitives *)
Definition of_E (e : endian) (bs : list byte) : N :=
  match e with LittleEndian => of_le bs | BigEndian => of_be bs end.

(** [types::get_uint]: reads [width / 8] bytes in file order, panics when short. *)
Definition get_uint (e : endian) (width : N) (sp : list byte) : dres (N * list byte) :=
  let n := N.to_nat (width / 8) in
  if len sp <? width / 8 then Panic BufUnderflow
  else Ok (of_E e (firstn n sp), skipn n sp).

Definition advance (n : N) (sp : list byte) : dres (list byte) :=
  if len sp <? n then Panic BufUnderflow else Ok (skipn (N.to_nat n) sp).

Definition split_at (n : N) (sp : list byte) : dres (list byte * list byte) :=
  if len sp <? n then Panic SplitAt else Ok (firstn (N.to_nat n) sp, skipn (N.to_nat n) sp).

Definition slice_to (n : N) (sp : list byte) : dres (list byte) :=
  if len sp <? n then Panic SliceIndex else Ok (firstn (N.to_nat n) sp).

Definition slice_from (n : N) (sp : list byte) : dres (list byte) :=
  if len sp <? n then Panic SliceIndex else Ok (skipn (N.to_nat n) sp).

(** [FieldParser::check_size] *)
Definition check_size (sp : list byte) (wanted : N) : dres unit :=
  if len sp <? wanted then Err LengthError else Ok tt.

(** ** Loops of the emitted code, bounded by fuel *)
Section Loops.
  Variable pe : list byte -> dres (value * list byte).   (* parse one element *)

  (** [while !span.is_empty() { v.push(parse_element?) }] *)
  Fixpoint loop_while (lf : nat) (sp : list byte) (acc : list value)
    : dres (list value * list byte) :=
    match sp with
    | [] => Ok (rev acc, [])
    | _ =>
        match lf with
        | O => Diverge
        | S lf' =>
            let* (v, sp') := pe sp in
            loop_while lf' sp' (v :: acc)
        end
    end.

  (** [for _ in 0..n] / [(0..n).map(..).collect::<Result<_,_>>()] *)
  Fixpoint loop_count (lf : nat) (n : N) (sp : list byte) (acc : list value)
    : dres (list value * list byte) :=
    if n =? 0 then Ok (rev acc, sp)
    else match lf with
         | O => Diverge
         | S lf' =>
             let* (v, sp') := pe sp in
             loop_count lf' (n - 1) sp' (v :: acc)
         end.

  (** [span.chunks(es).take(k).map(|mut chunk| parse.and_then(chunk.is_empty..)).collect()] *)
  Fixpoint loop_chunks (lf : nat) (es k : N) (sp : list byte) (acc : list value)
    : dres (list value) :=
    if (k =? 0) || (len sp =? 0) then Ok (rev acc)
    else match lf with
         | O => Diverge
         | S lf' =>
             let chunk := firstn (N.to_nat es) sp in
             let* (v, rest) := pe chunk in
             match rest with
             | [] => loop_chunks lf' es (k - 1) (skipn (N.to_nat es) sp) (v :: acc)
             | _ => Err TrailingBytesInArray
             end
         end.
End Loops.

Definition chunks (lf : nat) (pe : list byte -> dres (value * list byte))
           (es k : N) (sp : list byte) : dres (list value) :=
  if es =? 0 then Panic ChunksZero else loop_chunks pe lf es k sp [].

(** Run-time state of the emitted function body. *)
Record dstate := mkDst {
  st_span : list byte;
  st_locals : list (string * N);
  st_vals : list (string * value);
  st_payload : option (list byte)
}.

Definition set_span (st : dstate) (sp : list byte) : dstate :=
  mkDst sp (st_locals st) (st_vals st) (st_payload st).
Definition add_local (st : dstate) (k : string) (v : N) : dstate :=
  mkDst (st_span st) ((k, v) :: st_locals st) (st_vals st) (st_payload st).
Definition add_val (st : dstate) (k : string) (v : value) : dstate :=
  mkDst (st_span st) (st_locals st) (st_vals st ++ [(k, v)])%list (st_payload st).
Definition set_payload (st : dstate) (p : list byte) : dstate :=
  mkDst (st_span st) (st_locals st) (st_vals st) (Some p).

Definition local (st : dstate) (k : string) : dres N :=
  match assoc k (st_locals st) with
  | Some v => Ok v
  | None => Panic GenTodo      (* use of an undefined variable: the emitted code does not compile *)
  end.

(** [trim_matches('_')] on the identifiers that occur: _payload_ / _body_ / plain ids. *)
Fixpoint drop_leading_us (s : string) : string :=
  match s with
  | String "_"%char s' => drop_leading_us s'
  | _ => s
  end.
Definition trim_us (s : string) : string :=
  rev_string (drop_leading_us (rev_string (drop_leading_us s))).

Definition size_ident (fid : string) : string := trim_us fid ++ "_size".
Definition count_ident (fid : string) : string := fid ++ "_count".
Definition esize_ident (fid : string) : string := fid ++ "_element_size".

Section Dec.
  Variable oc : bool.                 (* overflow-checks on? *)
  Variable fl : file.
  Variable sch : schema.
  (** [T::decode] of struct-typed (or unsized custom) declarations *)
  Variable rec : string -> list byte -> dres (value * list byte).
  Variable lf : nat.                  (* loop fuel *)

  Definition E := f_endian fl.

  Definition enum_check (tid : string) (x : N) : dres unit :=
    match lookup_decl fl tid with
    | Some (DEnum _ tags w) =>
        match rust_enum_try_from tags w x with
        | Some (TOk _) => Ok tt
        | Some (TErr _) => Err EnumValueError
        | Some TNoArm => Panic GenTodo
        | None => Panic GenAssert
        end
    | _ => Panic UnwrapFail
    end.

  (** [parse_array_element] *)
  Definition parse_element (width : option N) (tid : option string) (sp : list byte)
    : dres (value * list byte) :=
    match width with
    | Some w =>
        let* (x, sp') := get_uint E w sp in
        Ok (VNum x, sp')
    | None =>
        match tid with
        | Some t =>
            match lookup_decl fl t with
            | Some (DEnum _ _ w) =>
                let* (x, sp') := get_uint E w sp in
                let* _ := enum_check t x in
                Ok (VNum x, sp')
            | _ => rec t sp
            end
        | None => Panic UnwrapFail
        end
    end.

  (** One field of a completed bit-field chunk. *)
  Definition chunk_field (single : bool) (chunk_val ctw size : N) (st : dstate)
             (d : decl) (sf : N * field) : dres dstate :=
    let '(fshift, f) := sf in
    match field_size sch d f with
    | Some (SStatic width) =>
        match integer_width width with
        | None => Panic GenAssert
        | Some vtw =>
            let v0 := N.shiftr chunk_val fshift in
            let v1 := if negb single && (width <? vtw) then N.land v0 (N.ones width) else v0 in
            let v := if vtw <? ctw then v1 mod 2 ^ vtw else v1 in
            match f_desc f with
            | Scalar id _ => Ok (add_val (add_local st id v) id (VNum v))
            | Flag id _ => Ok (add_local st id v)
            | FixedEnum eid tid =>
                match enum_tags fl eid with
                | Some (tags, _) =>
                    match enum_tag_value tags tid with
                    | Some tv => if v =? tv then Ok st else Err FixedValueError
                    | None => Panic GenTodo
                    end
                | None => Panic GenTodo
                end
            | FixedScalar _ value => if v =? value then Ok st else Err FixedValueError
            | Typedef id tid =>
                let* _ := enum_check tid v in
                Ok (add_val (add_local st id v) id (VNum v))
            | Reserved _ => Ok st
            | Size fid _ => Ok (add_local st (size_ident fid) v)
            | ElementSize fid _ => Ok (add_local st (esize_ident fid) v)
            | Count fid _ => Ok (add_local st (count_ident fid) v)
            | _ => Panic GenTodo
            end
        end
    | _ => Panic UnwrapFail
    end.

  Fixpoint chunk_fields (single : bool) (chunk_val ctw size : N) (st : dstate) (d : decl)
           (cs : list (N * field)) : dres dstate :=
    match cs with
    | [] => Ok st
    | c :: rest =>
        let* st' := chunk_field single chunk_val ctw size st d c in
        chunk_fields single chunk_val ctw size st' d rest
    end.

  Definition is_single_reserved (cs : list (N * field)) : bool :=
    match cs with
    | [(_, f)] => match f_desc f with Reserved _ => true | _ => false end
    | _ => false
    end.

  (** [payload_field_offset_from_end] (bits) *)
  Fixpoint fields_after_payload (fs : list field) : option (list field) :=
    match fs with
    | [] => None
    | f :: rest => if is_payload f then Some rest else fields_after_payload rest
    end.

  Fixpoint sum_static (d : decl) (fs : list field) : option N :=
    match fs with
    | [] => Some 0
    | f :: rest =>
        let w := match next_padding rest with
                 | Some p => Some p
                 | None => match field_size sch d f with
                           | Some (SStatic n) => Some n
                           | _ => None
                           end
                 end in
        match w, sum_static d rest with
        | Some a, Some b => Some (a + b)
        | _, _ => None
        end
    end.

  Definition offset_from_end (d : decl) : option N :=
    match fields_after_payload (decl_fields d) with
    | Some rest => sum_static d rest
    | None => None
    end.

  Inductive elem_width := EWStatic (octets : N) | EWDynamic (ident : string) | EWUnknown.
  Inductive arr_shape := ShStatic (n : N) | ShCount (ident : string) | ShSize (ident : string) | ShUnknown.

  Definition add_array_field (d : decl) (st : dstate) (id : string) (width : option N)
             (tid : option string) (size : option N) (padding : option N) : dres dstate :=
    (* element width *)
    let* ew :=
      match width with
      | Some w => if w mod 8 =? 0 then Ok (EWStatic (w / 8)) else Panic GenAssert
      | None =>
          match tid with
          | None => Panic UnwrapFail
          | Some t =>
              match lookup_decl fl t with
              | None => Panic UnwrapFail
              | Some _ =>
                  match type_total sch t with
                  | None => Panic UnwrapFail
                  | Some (SStatic w) =>
                      if w mod 8 =? 0 then Ok (EWStatic (w / 8)) else Panic GenAssert
                  | Some _ =>
                      match decl_element_size d id with
                      | Some _ => Ok (EWDynamic (esize_ident id))
                      | None => Ok EWUnknown
                      end
                  end
              end
          end
      end in
    let shape :=
      match size with
      | Some n => ShStatic n
      | None =>
          match decl_array_size d id with
          | Some g => match f_desc g with
                      | Count _ _ => ShCount (count_ident id)
                      | Size _ _ => ShSize (size_ident id)
                      | _ => ShUnknown
                      end
          | None => ShUnknown
          end
      end in
    (* padding: let (mut head, tail) = span.split_at(p); span = tail; work on head *)
    let* (work, after, padded) :=
      match padding with
      | Some pbits =>
          let poct := pbits / 8 in
          let* _ := check_size (st_span st) poct in
          let* (h, t) := split_at poct (st_span st) in
          Ok (h, Some t, true)
      | None => Ok (st_span st, None, false)
      end in
    let pe := parse_element width tid in
    (* each case returns the elements and the working span left over *)
    let* (vs, work') :=
      match ew, shape with
      | EWUnknown, ShSize sf =>
          let* n := local st sf in
          let* _ := check_size work n in
          let* (h, t) := split_at n work in
          let* (vs, _) := loop_while pe lf h [] in Ok (vs, t)
      | EWUnknown, ShStatic n =>
          let* (vs, w') := loop_count pe lf n work [] in Ok (vs, w')
      | EWUnknown, ShCount cf =>
          let* n := local st cf in
          let* (vs, w') := loop_count pe lf n work [] in Ok (vs, w')
      | EWUnknown, ShUnknown =>
          let* (vs, w') := loop_while pe lf work [] in Ok (vs, w')
      | EWStatic e, ShStatic n =>
          let* _ := check_size work (n * e) in
          let* (vs, w') := loop_count pe lf n work [] in Ok (vs, w')
      | EWStatic e, ShCount cf =>
          let* n := local st cf in
          let* total := umul oc n e in
          let* _ := check_size work total in
          let* (vs, w') := loop_count pe lf n work [] in Ok (vs, w')
      | EWStatic e, (ShSize _ | ShUnknown) =>
          let* asz :=
            match shape with
            | ShSize sf =>
                let* n := local st sf in
                let* _ := check_size work n in Ok n
            | _ => Ok (len work)
            end in
          let* cnt :=
            if e =? 1 then Ok asz
            else if e =? 0 then Panic DivZero      (* `% 0`: rejected by rustc *)
            else if asz mod e =? 0 then Ok (asz / e) else Err ArraySizeError in
          let* (vs, w') := loop_count pe lf cnt work [] in Ok (vs, w')
      | EWDynamic esf, ShStatic n =>
          let* es := local st esf in
          let* asz := if n =? 1 then Ok es else umul oc n es in
          let* _ := check_size work asz in
          let* vs := chunks lf pe es n work in
          let* w' := slice_from asz work in
          if len vs =? n then Ok (vs, w') else Err UnwrapError
      | EWDynamic esf, ShCount cf =>
          let* es := local st esf in
          let* n := local st cf in
          let* total := umul oc n es in
          let* _ := check_size work total in
          let* vs := chunks lf pe es n work in
          let* total' := umul oc es n in
          let* w' := slice_from total' work in
          Ok (vs, w')
      | EWDynamic esf, (ShSize _ | ShUnknown) =>
          let* es := local st esf in
          let* asz :=
            match shape with
            | ShSize sf =>
                let* n := local st sf in
                let* _ := check_size work n in Ok n
            | _ => Ok (len work)
            end in
          if es =? 0 then Panic DivZero
          else if negb (asz mod es =? 0) then Err ArraySizeError
          else
            let* vs := chunks lf pe es (asz / es) work in
            let* w' := slice_from asz work in
            Ok (vs, w')
      end in
    let sp' := match after with Some t => t | None => work' end in
    Ok (add_val (set_span st sp') id (VList vs)).

  (** [add_payload_field] *)
  Definition add_payload_field (d : decl) (st : dstate) (modifier : option N) (shift : N)
    : dres dstate :=
    if negb (shift =? 0) then Panic GenTodo else
    match decl_payload_size d with
    | Some szf =>
        let fid := match f_desc szf with Size i _ => i | _ => "" end in
        let* sz0 := local st (size_ident fid) in
        let* sz :=
          match modifier with
          | Some m => if sz0 <? m then Err LengthError else Ok (sz0 - m)
          | None => Ok sz0
          end in
        let* _ := check_size (st_span st) sz in
        let* p := slice_to sz (st_span st) in
        let* sp' := advance sz (st_span st) in
        Ok (set_payload (set_span st sp') p)
    | None =>
        match offset_from_end d with
        | Some 0 => Ok (set_payload (set_span st []) (st_span st))
        | Some off =>
            if negb (off mod 8 =? 0) then Panic GenAssert else
            let k := off / 8 in
            let* _ := check_size (st_span st) k in
            let n := len (st_span st) - k in
            let* p := slice_to n (st_span st) in
            let* sp' := advance n (st_span st) in
            Ok (set_payload (set_span st sp') p)
        | None => Panic GenTodo       (* nothing emitted: `payload` undefined *)
        end
    end.

  (** [add_typedef_field] (non-enum typedefs) *)
  Definition add_typedef_field (st : dstate) (id tid : string) (shift : N) : dres dstate :=
    if negb (shift =? 0) then Panic GenAssert else
    match lookup_decl fl tid with
    | None => Panic UnwrapFail
    | Some td =>
        match type_total sch tid with
        | None => Panic UnwrapFail
        | Some (SStatic w) =>
            if negb (w mod 8 =? 0) then Panic GenAssert else
            match td with
            | DChecksum _ _ _ => Panic GenTodo
            | DCustomField _ _ _ =>
                let* (x, sp') := get_uint E w (st_span st) in     (* no guard *)
                Ok (add_val (set_span st sp') id (VNum x))
            | DStruct _ _ _ _ =>
                let* (v, sp') := rec tid (st_span st) in
                Ok (add_val (set_span st sp') id v)
            | _ => Panic GenUnreachable
            end
        | Some _ =>
            let* (v, sp') := rec tid (st_span st) in
            Ok (add_val (set_span st sp') id v)
        end
    end.

  (** [add_optional_field] *)
  Definition add_optional_field (st : dstate) (f : field) (c : constr) : dres dstate :=
    match c_value c with
    | None => Panic UnwrapFail
    | Some cv =>
        let* flag := local st (c_id c) in
        match f_desc f with
        | Scalar id w =>
            if flag =? cv then
              let* _ := check_size (st_span st) (w / 8) in
              let* (x, sp') := get_uint E w (st_span st) in
              Ok (add_val (set_span st sp') id (VNum x))
            else Ok (add_val st id VNull)
        | Typedef id tid =>
            match lookup_decl fl tid with
            | Some (DEnum _ _ w) =>
                if flag =? cv then
                  let* _ := check_size (st_span st) (w / 8) in
                  let* (x, sp') := get_uint E w (st_span st) in
                  let* _ := enum_check tid x in
                  Ok (add_val (set_span st sp') id (VNum x))
                else Ok (add_val st id VNull)
            | Some (DStruct _ _ _ _) =>
                if flag =? cv then
                  let* (v, sp') := rec tid (st_span st) in
                  Ok (add_val (set_span st sp') id v)
                else Ok (add_val st id VNull)
            | Some _ => Panic GenUnreachable
            | None => Panic UnwrapFail
            end
        | _ => Panic GenUnreachable
        end
    end.

  (** [FieldParser::add] over the field list of one declaration. *)
  Fixpoint dec_fields (d : decl) (fs : list field) (st : dstate)
           (chunk : list (N * field)) (shift : N) {struct fs} : dres dstate :=
    match fs with
    | [] => Ok st
    | f :: rest =>
        match f_cond f with
        | Some c =>
            let* st' := add_optional_field st f c in
            dec_fields d rest st' chunk shift
        | None =>
            if is_bitfield fl f then
              match field_size sch d f with
              | Some (SStatic w) =>
                  let chunk' := (chunk ++ [(shift, f)])%list in
                  let shift' := shift + w in
                  if shift' mod 8 =? 0 then
                    let size := shift' / 8 in
                    let* _ := check_size (st_span st) size in
                    match integer_width shift' with
                    | None => Panic GenAssert
                    | Some ctw =>
                        if is_single_reserved chunk' then
                          let* sp' := advance size (st_span st) in
                          dec_fields d rest (set_span st sp') [] 0
                        else
                          let* (cv, sp') := get_uint E shift' (st_span st) in
                          let single := match chunk' with [_] => true | _ => false end in
                          let* st' := chunk_fields single cv ctw size (set_span st sp') d chunk' in
                          dec_fields d rest st' [] 0
                    end
                  else dec_fields d rest st chunk' shift'
              | _ => Panic UnwrapFail
              end
            else
              match f_desc f with
              | Padding _ => dec_fields d rest st chunk shift
              | Array id w t _ sz =>
                  let* st' := add_array_field d st id w t sz (next_padding rest) in
                  dec_fields d rest st' chunk shift
              | Typedef id tid =>
                  let* st' := add_typedef_field st id tid shift in
                  dec_fields d rest st' chunk shift
              | Payload m =>
                  let* st' := add_payload_field d st m shift in
                  dec_fields d rest st' chunk shift
              | Body =>
                  let* st' := add_payload_field d st None shift in
                  dec_fields d rest st' chunk shift
              | _ => Panic GenTodo
              end
        end
    end.
End Dec.

(** ** Root and derived declarations *)

(** [packet_data_fields]: named, not flags, not fixed by a constraint of the chain. *)
Definition data_field_ids (fl : file) (d : decl) : list string :=
  let cs := iter_constraints fl d in
  flat_map (fun f =>
              match f_desc f, field_id f with
              | Flag _ _, _ => []
              | _, Some id =>
                  match find_constraint cs id with Some _ => [] | None => [id] end
              | _, None => []
              end) (iter_fields fl d).

Definition own_field_ids (d : decl) : list string :=
  flat_map (fun f => match field_id f with Some i => [i] | None => [] end) (decl_fields d).

Definition mem_str (s : string) (l : list string) : bool := existsb (String.eqb s) l.

Definition init_state (sp : list byte) : dstate := mkDst sp [] [] None.

Definition payload_entry (d : decl) (st : dstate) : dres (list (string * value)) :=
  match decl_payload d with
  | Some _ =>
      match st_payload st with
      | Some p => Ok [("payload", value_of_bytes p)]
      | None => Panic GenTodo
      end
  | None => Ok []
  end.

(** [decode_partial(parent)]: constraint checks, then the child's own fields parsed
    from the parent's payload, which must be consumed entirely; the other data
    fields are copied from the parent. *)
Definition decode_partial (oc : bool) (fl : file) (sch : schema)
           (rec : string -> list byte -> dres (value * list byte)) (lf : nat)
           (d p : decl) (pobj : list (string * value)) : dres value :=
  let pfields := iter_fields fl p in
  let pcs := iter_constraints fl p in
  let* _ :=
    (fix checks (cs : list constr) : dres unit :=
       match cs with
       | [] => Ok tt
       | c :: cs' =>
           match get_num fl pfields pcs pobj (c_id c), constraint_N fl pfields c with
           | Some actual, Some expected =>
               if actual =? expected then checks cs' else Err ConstraintValueError
           | _, _ => Panic UnwrapFail
           end
       end) (decl_constraints d) in
  let copied :=
    filter (fun kv => mem_str (fst kv) (data_field_ids fl d)
                      && negb (mem_str (fst kv) (own_field_ids d))) pobj in
  match decl_payload p with
  | Some _ =>
      match obj_payload pobj with
      | Some buf =>
          let* st := dec_fields oc fl sch rec lf d (decl_fields d) (init_state buf) [] 0 in
          match st_span st with
          | [] =>
              let* pl := payload_entry d st in
              Ok (VObj (pl ++ st_vals st ++ copied)%list)
          | _ => Err TrailingBytesError
          end
      | None => Panic UnwrapFail
      end
  | None => Ok (VObj copied)
  end.

Definition rec_of (self : decl -> list byte -> dres (value * list byte)) (fl : file)
           (tid : string) (sp : list byte) : dres (value * list byte) :=
  match lookup_decl fl tid with
  | Some ((DStruct _ _ _ _ | DPacket _ _ _ _) as d') => self d' sp
  | Some (DCustomField _ (Some w) _) =>
      (* generate_custom_field_decl: guarded *)
      if len sp <? w / 8 then Err LengthError
      else let* (x, sp') := get_uint (f_endian fl) w sp in Ok (VNum x, sp')
  | _ => Panic GenTodo
  end.

Fixpoint rust_dec_decl (fuel : nat) (oc : bool) (fl : file) (sch : schema) (d : decl)
         (bs : list byte) : dres (value * list byte) :=
  match fuel with
  | O => Diverge
  | S fuel' =>
      let rec := rec_of (rust_dec_decl fuel' oc fl sch) fl in
      match get_parent fl d with
      | None =>
          let* st := dec_fields oc fl sch rec fuel' d (decl_fields d) (init_state bs) [] 0 in
          let* pl := payload_entry d st in
          Ok (VObj (pl ++ st_vals st)%list, st_span st)
      | Some p =>
          let* (pv, trailing) := rust_dec_decl fuel' oc fl sch p bs in
          match pv with
          | VObj pobj =>
              let* v := decode_partial oc fl sch rec fuel' d p pobj in
              Ok (v, trailing)
          | _ => Panic UnwrapFail
          end
      end
  end.

Definition rust_decode (fuel : nat) (oc : bool) (fl : file) (sch : schema) (id : string)
           (bs : list byte) : dres (value * list byte) :=
  match lookup_decl fl id with
  | Some ((DStruct _ _ _ _ | DPacket _ _ _ _) as d) => rust_dec_decl fuel oc fl sch d bs
  | Some (DCustomField _ (Some w) _) =>
      if len bs <? w / 8 then Err LengthError
      else let* (x, sp') := get_uint (f_endian fl) w bs in Ok (VNum x, sp')
  | _ => Panic GenTodo
  end.
