(** The provided methods of [trait Packet] (pdl-runtime/src/lib.rs 81-119), over an
    arbitrary implementation of the required ones.  A caller's buffer is modelled as
    the list of bytes it holds; [encode] is any function that either fails or
    returns the buffer with bytes appended -- what [BufMut::put_*] can do. *)
From Coq Require Import NArith List Bool.
From Coq Require Import Strings.Byte.
From PDL Require Import Base.Bits Base.Outcome Rust.Decode Rust.Encode.
Import ListNotations.

Section Trait.
  Variable T : Type.
  (** required methods *)
  Variable decode : list byte -> dres (T * list byte).
  Variable encode_bytes : T -> eres (list byte).      (* the bytes [encode] appends *)
  Variable encoded_len : T -> N.

  (** [fn encode(&self, buf: &mut impl BufMut)]: buffer in, buffer out *)
  Definition encode (v : T) (buf : list byte) : eres (list byte) :=
    let* bs := encode_bytes v in Ok (buf ++ bs).

  (** [decode_mut(buf: &mut &[u8])]: result and the slice afterwards *)
  Definition decode_mut (buf : list byte) : dres T * list byte :=
    match decode buf with
    | Ok (p, remaining) => (Ok p, remaining)
    | Err e => (Err e, buf)
    | Panic k => (Panic k, buf)
    | Diverge => (Diverge, buf)
    end.

  Definition decode_full (buf : list byte) : dres T :=
    let* (p, remaining) := decode buf in
    match remaining with
    | [] => Ok p
    | _ => Err TrailingBytesError
    end.

  (** [Vec::with_capacity(len)] / [BytesMut::with_capacity(len)] start empty. *)
  Definition encode_to_vec (v : T) : eres (list byte) := encode v [].
  Definition encode_to_bytes (v : T) : eres (list byte) := encode v [].
End Trait.
