(** Inheritance glue emitted by backends/rust/mod.rs: [specialize],
    [TryFrom<&Parent> for Child] (through [decode_partial]), [TryFrom<&Child> for Parent]
    (through [encode_partial]). *)
From Coq Require Import NArith List String Ascii Bool.
From Coq Require Import Strings.Byte.
From PDL Require Import Base.Bits Base.Outcome Lang.Ast Lang.Sexp Analyzer.Schema Rust.Enum
     Sem.RefEncode Rust.Encode Rust.Decode.
Import ListNotations.
Open Scope string_scope.
Open Scope N_scope.

(** Byte-wise lexicographic order of identifiers ([String: Ord], BTreeMap / BTreeSet). *)
Fixpoint str_ltb (a b : string) : bool :=
  match a, b with
  | EmptyString, EmptyString => false
  | EmptyString, String _ _ => true
  | String _ _, EmptyString => false
  | String x a', String y b' =>
      let nx := N_of_ascii x in let ny := N_of_ascii y in
      if nx <? ny then true else if ny <? nx then false else str_ltb a' b'
  end.

Fixpoint insert_str (s : string) (l : list string) : list string :=
  match l with
  | [] => [s]
  | x :: l' => if String.eqb s x then l else if str_ltb s x then s :: l else x :: insert_str s l'
  end.

Definition sort_dedup (l : list string) : list string := fold_right insert_str [] l.

(** [ConstraintValue] as an integer: a scalar literal or the value of the tag. *)
Record spec_case := mkCase {
  sc_id : string;                       (* the immediate child this case specializes to *)
  sc_constraints : list (string * N);   (* later bindings shadow earlier ones *)
  sc_size : size
}.

Definition data_fields (fl : file) (d : decl) : list field :=
  let cs := iter_constraints fl d in
  filter (fun f =>
            match f_desc f, field_id f with
            | Flag _ _, _ => false
            | _, Some id => match find_constraint cs id with Some _ => false | None => true end
            | _, None => false
            end) (iter_fields fl d).

Definition is_data_field (dfs : list field) (id : string) : bool :=
  existsb (fun f => match field_id f with Some i => String.eqb i id | None => false end) dfs.

(** [gather_specialize_cases]: children first, then the declaration itself. *)
Fixpoint gather (fuel : nat) (fl : file) (sch : schema) (top : string) (d : decl)
         (dfs : list field) (inherited : list (string * N)) : option (list spec_case) :=
  match fuel with
  | O => None
  | S fuel' =>
      let local :=
        fold_left (fun acc c =>
                     match acc with
                     | None => None
                     | Some env =>
                         if is_data_field dfs (c_id c) then
                           match constraint_N fl dfs c with
                           | Some v => Some ((c_id c, v) :: env)
                           | None => None          (* .next().unwrap() *)
                           end
                         else Some env
                     end) (decl_constraints d) (Some inherited) in
      match local with
      | None => None
      | Some env =>
          let kids :=
            fold_left (fun acc k =>
                         match acc, gather fuel' fl sch top k dfs env with
                         | Some a, Some b => Some (a ++ b)%list
                         | _, _ => None
                         end) (iter_children fl d) (Some []) in
          let sz :=
            match decl_id d with
            | Some id =>
                match assoc id sch with
                | Some ds => size_add (ds_decl ds) (ds_payload ds)
                | None => None
                end
            | None => None
            end in
          match kids, sz with
          | Some ks, Some s => Some (ks ++ [mkCase top env s])%list
          | _, _ => None
          end
      end
  end.

Definition all_cases (fl : file) (sch : schema) (d : decl) : option (list spec_case) :=
  let dfs := data_fields fl d in
  fold_left (fun acc k =>
               match acc, decl_id k with
               | Some a, Some kid =>
                   match gather (S (List.length (f_decls fl))) fl sch kid k dfs [] with
                   | Some b => Some (a ++ b)%list
                   | None => None
                   end
               | _, _ => None
               end) (iter_children fl d) (Some []).

Definition case_ids (cases : list spec_case) : list string :=
  sort_dedup (flat_map (fun c => map fst (sc_constraints c)) cases).

Definition case_tuple (ids : list string) (c : spec_case) : list (option N) :=
  map (fun id => assoc id (sc_constraints c)) ids.

Definition size_eqb (a b : size) : bool :=
  match a, b with
  | SStatic x, SStatic y => x =? y
  | SDynamic, SDynamic | SUnknown, SUnknown => true
  | _, _ => false
  end.

Definition optN_eqb (a b : option N) : bool :=
  match a, b with
  | Some x, Some y => x =? y
  | None, None => true
  | _, _ => false
  end.

Fixpoint tuple_eqb (a b : list (option N)) : bool :=
  match a, b with
  | [], [] => true
  | x :: a', y :: b' => optN_eqb x y && tuple_eqb a' b'
  | _, _ => false
  end.

(** [check_specialize_cases]: two cases with the same key must name the same child. *)
Definition check_cases (ids : list string) (with_size : bool) (cases : list spec_case) : bool :=
  forallb (fun c1 =>
    forallb (fun c2 =>
      negb (tuple_eqb (case_tuple ids c1) (case_tuple ids c2)
            && (if with_size then size_eqb (sc_size c1) (sc_size c2) else true))
      || String.eqb (sc_id c1) (sc_id c2)) cases) cases.

Record spec_plan := mkPlan {
  sp_ids : list string;
  sp_with_size : bool;
  sp_arms : list (string * list (list (option N) * size))   (* in match order *)
}.

(** [generate_specialize_impl]; [None] = the generator's [unwrap()] fails. *)
Definition specialize_plan (fl : file) (sch : schema) (d : decl) : option spec_plan :=
  match all_cases fl sch d with
  | None => None
  | Some cases =>
      let ids := case_ids cases in
      if negb (check_cases ids true cases) then None else
      let with_size := negb (check_cases ids false cases) in
      let keyed :=
        flat_map (fun c =>
                    let t := case_tuple ids c in
                    let s := if with_size then sc_size c else SUnknown in
                    if existsb (fun o => match o with Some _ => true | None => false end) t
                       || negb (size_eqb s SUnknown)
                    then [(sc_id c, (t, s))] else []) cases in
      let child_order := sort_dedup (map fst keyed) in
      Some (mkPlan ids with_size
              (map (fun cid => (cid, map snd (filter (fun p => String.eqb (fst p) cid) keyed)))
                   child_order))
  end.

Definition pattern_matches (vals : list N) (plen : N) (with_size : bool)
           (pat : list (option N) * size) : bool :=
  (fix go (vs : list N) (ps : list (option N)) : bool :=
     match vs, ps with
     | [], [] => true
     | v :: vs', p :: ps' =>
         (match p with Some x => v =? x | None => true end) && go vs' ps'
     | _, _ => false
     end) vals (fst pat)
  && (if with_size then
        match snd pat with SStatic s => plen =? s / 8 | _ => true end
      else true).

Fixpoint first_arm (vals : list N) (plen : N) (with_size : bool)
         (arms : list (string * list (list (option N) * size))) : option string :=
  match arms with
  | [] => None
  | (cid, pats) :: rest =>
      if existsb (pattern_matches vals plen with_size) pats then Some cid
      else first_arm vals plen with_size rest
  end.

Section Convert.
  Variable fuel : nat.
  Variable oc : bool.
  Variable fl : file.
  Variable sch : schema.

  Definition rec_dec := rec_of (rust_dec_decl fuel oc fl sch) fl.

  (** [Child::try_from(&parent)] for the IMMEDIATE parent. *)
  Definition try_from_parent (d p : decl) (pobj : list (string * value)) : dres value :=
    decode_partial oc fl sch rec_dec fuel d p pobj.

  (** [parent.specialize()] *)
  Definition rust_specialize (d : decl) (pobj : list (string * value))
    : dres (option (string * value)) :=
    match specialize_plan fl sch d with
    | None => Panic UnwrapFail
    | Some plan =>
        let vals :=
          map (fun id => get_num fl (iter_fields fl d) (iter_constraints fl d) pobj id)
              (sp_ids plan) in
        if existsb (fun o => match o with None => true | Some _ => false end) vals
        then Panic UnwrapFail
        else
          let vs := map (fun o => match o with Some v => v | None => 0 end) vals in
          match first_arm vs (obj_payload_len pobj) (sp_with_size plan) (sp_arms plan) with
          | None => Ok None
          | Some cid =>
              match lookup_decl fl cid with
              | Some c =>
                  let* v := try_from_parent c d pobj in
                  Ok (Some (cid, v))
              | None => Panic UnwrapFail
              end
          end
    end.

  (** [Child::try_from(&ancestor)]: one [try_from] per link of the chain. *)
  Fixpoint try_from_ancestor (k : nat) (d anc : decl) (aobj : list (string * value))
    : dres value :=
    match k with
    | O => Diverge
    | S k' =>
        match get_parent fl d with
        | None => Panic UnwrapFail
        | Some p =>
            if match decl_id p, decl_id anc with
               | Some a, Some b => String.eqb a b
               | _, _ => false
               end
            then try_from_parent d p aobj
            else
              let* pv := try_from_ancestor k' p anc aobj in
              match pv with
              | VObj pobj => try_from_parent d p pobj
              | _ => Panic UnwrapFail
              end
        end
    end.
End Convert.

(** ** Child to parent *)

(** [encode_partial]: the child's own fields, its payload appended raw. *)
Definition rust_encode_partial (fuel : nat) (fl : file) (sch : schema) (d : decl)
           (obj : list (string * value)) : eres (list byte) :=
  match obj_payload obj with
  | Some pl =>
      let rec_len := rust_len_top fuel fl sch in
      let rec_enc := fun tid v => rust_encode fuel fl sch tid v in
      enc_fields fl sch rec_enc rec_len d (iter_fields fl d) (iter_constraints fl d) obj
                 (Ok pl) (len pl) (decl_fields d) [] 0
  | None => Panic UnwrapFail
  end.

(** [Parent::try_from(&child)] for the immediate parent. *)
Definition to_parent (fuel : nat) (fl : file) (sch : schema) (d p : decl)
           (obj : list (string * value)) : eres value :=
  let all_cs := iter_constraints fl d in
  let all_fs := iter_fields fl d in
  let pdfs := data_fields fl p in
  let fields :=
    fold_right (fun f acc =>
                  match acc, field_id f with
                  | Some r, Some id =>
                      match find_constraint all_cs id with
                      | Some c =>
                          match constraint_N fl pdfs c with
                          | Some v => Some ((id, VNum v) :: r)
                          | None => None
                          end
                      | None =>
                          match assoc id obj with
                          | Some v => Some ((id, v) :: r)
                          | None => None
                          end
                      end
                  | _, _ => None
                  end) (Some []) pdfs in
  match fields with
  | None => Panic UnwrapFail
  | Some fs =>
      match decl_payload p with
      | Some _ =>
          let* pl := rust_encode_partial fuel fl sch d obj in
          Ok (VObj (fs ++ [("payload", value_of_bytes pl)])%list)
      | None => Ok (VObj fs)
      end
  end.

Fixpoint to_ancestor (k : nat) (fuel : nat) (fl : file) (sch : schema) (d anc : decl)
         (obj : list (string * value)) : eres value :=
  match k with
  | O => Diverge
  | S k' =>
      match get_parent fl d with
      | None => Panic UnwrapFail
      | Some p =>
          let* pv := to_parent fuel fl sch d p obj in
          if match decl_id p, decl_id anc with
             | Some a, Some b => String.eqb a b
             | _, _ => false
             end
          then Ok pv
          else match pv with
               | VObj pobj => to_ancestor k' fuel fl sch p anc pobj
               | _ => Panic UnwrapFail
               end
      end
  end.
