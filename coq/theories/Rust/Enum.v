(** What [generate_enum_decl] (backends/rust/mod.rs 974-1195) emits, as functions:
    the [TryFrom<uN>] match with first-match semantics and the [From<E> for uN] match. *)
From Coq Require Import NArith List String Bool.
From PDL Require Import Base.Bits Lang.Ast Lang.Sexp.
Import ListNotations.
Open Scope string_scope.
Open Scope N_scope.

(** [types::Integer::new]: the width ladder; [None] = the panic above 64 bits. *)
Definition integer_width (w : N) : option N :=
  if w <=? 8 then Some 8
  else if w <=? 16 then Some 16
  else if w <=? 32 then Some 32
  else if w <=? 64 then Some 64
  else None.

(** [scalar_max] *)
Definition scalar_max (w : N) : N := if 64 <=? w then 2 ^ 64 - 1 else 2 ^ w - 1.

Definition enum_default_tag (tags : list tag) : option string :=
  match find (fun t => match t with TagOther _ => true | _ => false end) tags with
  | Some t => Some (tag_id t)
  | None => None
  end.

(** The (lo, hi) pairs [enum_is_complete] sorts. *)
Definition tag_span (t : tag) : list (N * N) :=
  match t with
  | TagValue _ v => [(v, v)]
  | TagRange _ lo hi _ => [(lo, hi)]
  | TagOther _ => []
  end.

Definition pair_leb (a b : N * N) : bool :=
  (fst a <? fst b) || ((fst a =? fst b) && (snd a <=? snd b)).

Fixpoint insert_sorted (x : N * N) (l : list (N * N)) : list (N * N) :=
  match l with
  | [] => [x]
  | y :: l' => if pair_leb x y then x :: l else y :: insert_sorted x l'
  end.

Definition sort_pairs (l : list (N * N)) : list (N * N) := fold_right insert_sorted [] l.

Fixpoint windows_ok (l : list (N * N)) : bool :=
  match l with
  | a :: ((b :: _) as rest) =>
      (* left.1 == right.0 - 1 ; right.0 = 0 would underflow: a debug-build panic,
         unreachable after sorting unless two spans start at 0 *)
      (negb (fst b =? 0)) && (snd a =? fst b - 1) && windows_ok rest
  | _ => true
  end.

(** [enum_is_complete]; [None] = [ranges.first().unwrap()] on an enum without value or
    range tags. *)
Definition enum_is_complete (tags : list tag) (max : N) : option bool :=
  match sort_pairs (flat_map tag_span tags) with
  | [] => None
  | (first :: _) as sorted =>
      Some ((fst first =? 0) && (snd (last sorted first) =? max) && windows_ok sorted)
  end.

Inductive ecase :=
| CVal (v : N) (id : string)
| CRange (lo hi : N) (id : string)
| CDefault (max : N) (id : string)
| CErr.

Definition tag_from_cases (t : tag) : list ecase :=
  match t with
  | TagValue id v => [CVal v id]
  | TagRange id lo hi tags => (map (fun p => CVal (snd p) (fst p)) tags ++ [CRange lo hi id])%list
  | TagOther _ => []
  end.

(** The arms of the emitted [match value { ... }], in order. *)
Definition from_cases (tags : list tag) (w : N) : option (list ecase) :=
  match integer_width w, enum_is_complete tags (scalar_max w) with
  | Some bw, Some complete =>
      let open := enum_default_tag tags in
      let base := flat_map tag_from_cases tags in
      let dflt := match open with
                  | Some oid => if negb complete then [CDefault (scalar_max w) oid] else []
                  | None => []
                  end in
      let is_open := match open with Some _ => true | None => false end in
      let err := if negb (bw =? w) || (negb complete && negb is_open) then [CErr] else [] in
      Some (base ++ dflt ++ err)%list
  | _, _ => None
  end.

Inductive evariant :=
| ENamed (id : string) (v : N)
| ERange (id : string) (x : N)
| EOther (id : string) (x : N).

Definition evariant_to_N (e : evariant) : N :=
  match e with ENamed _ v => v | ERange _ x | EOther _ x => x end.

Inductive etry := TOk (e : evariant) | TErr (x : N) | TNoArm.

Fixpoint first_match (cases : list ecase) (x : N) : etry :=
  match cases with
  | [] => TNoArm
  | CVal v id :: rest => if x =? v then TOk (ENamed id v) else first_match rest x
  | CRange lo hi id :: rest =>
      if (lo <=? x) && (x <=? hi) then TOk (ERange id x) else first_match rest x
  | CDefault max id :: rest =>
      if x <=? max then TOk (EOther id x) else first_match rest x
  | CErr :: _ => TErr x
  end.

(** [E::try_from(x)] for [x] in the backing type; [None] = the generator panics. *)
Definition rust_enum_try_from (tags : list tag) (w x : N) : option etry :=
  option_map (fun cs => first_match cs x) (from_cases tags w).

(** Does the integer denote a value of the generated type? (used by the codec models:
    enum-typed fields hold exactly these integers) *)
Definition rust_enum_valid (tags : list tag) (w x : N) : bool :=
  match rust_enum_try_from tags w x with
  | Some (TOk _) => true
  | _ => false
  end.

(** [E::default()]: first tag; nested first tag of a range; range start. *)
Definition rust_enum_default (tags : list tag) : option N :=
  match tags with
  | TagValue _ v :: _ => Some v
  | TagRange _ lo _ ((_, v) :: _) :: _ => Some v
  | TagRange _ lo _ [] :: _ => Some lo
  | _ => None   (* todo!() / index panic *)
  end.

(** ** The specification the conversions are measured against (C15) *)

Definition in_tag (x : N) (t : tag) : bool :=
  match t with
  | TagValue _ v => x =? v
  | TagRange _ lo hi _ => (lo <=? x) && (x <=? hi)
  | TagOther _ => false
  end.

(** The name the reference gives to [x]: the tag with that value if one exists (top
    level or nested in a range), otherwise the enclosing range, otherwise the default. *)
Definition named_tag (tags : list tag) (x : N) : option string :=
  match find (fun p => snd p =? x) (flat_map tag_values tags) with
  | Some (id, _) => Some id
  | None => None
  end.

Definition enclosing_range (tags : list tag) (x : N) : option string :=
  match find (fun t => match t with TagRange _ lo hi _ => (lo <=? x) && (x <=? hi) | _ => false end) tags with
  | Some t => Some (tag_id t)
  | None => None
  end.

Definition spec_enum_of_N (tags : list tag) (w x : N) : option evariant :=
  if 2 ^ w <=? x then None
  else match named_tag tags x with
       | Some id => Some (ENamed id x)
       | None =>
           match enclosing_range tags x with
           | Some id => Some (ERange id x)
           | None =>
               match enum_default_tag tags with
               | Some id => Some (EOther id x)
               | None => None
               end
           end
       end.
