(** What the Rust backend's emitted [encode] / [encoded_len] do
    (backends/rust/encoder.rs), generator state fused with run-time behaviour.
    Guards are placed exactly where the generator emits them; where it emits none,
    the model truncates like the emitted casts do. *)
From Coq Require Import NArith List String Bool.
From Coq Require Import Strings.Byte.
From PDL Require Import Base.Bits Base.Outcome Lang.Ast Lang.Sexp Analyzer.Schema Rust.Enum Sem.RefEncode.
Import ListNotations.
Open Scope string_scope.
Open Scope N_scope.

Inductive eerr :=
| SizeOverflow | CountOverflow | InvalidScalarValue | InvalidArrayElementSize
| InconsistentConditionValue.

Definition eres := outcome eerr.

(** [mask_bits(n, _)]: [(1u64 << n) - 1], a generator panic for n >= 64 (debug build of pdlc). *)
Definition mask_bits (n : N) : option N := if n <? 64 then Some (2 ^ n - 1) else None.

(** A pending bit-field: (value, width of its Rust type, shift). *)
Definition pending := list (N * N * N).

Section Enc.
  Variable fl : file.
  Variable sch : schema.
  (** [T::encode] and [T::encoded_len] of struct / custom types, by identifier *)
  Variable rec_enc : string -> value -> eres (list byte).
  Variable rec_len : string -> value -> option N.

  Definition E := f_endian fl.

  Definition type_static_bits (tid : string) : option N :=
    match type_total sch tid with Some (SStatic n) => Some n | _ => None end.

  (** ** encoded_len *)

  Definition sum_len (tid : string) (vs : list value) : option N :=
    fold_right (fun v acc => match rec_len tid v, acc with
                             | Some a, Some b => Some (a + b)
                             | _, _ => None
                             end) (Some 0) vs.

  (** [array_size] expression of [encode_array_field] / the Size arm. *)
  Definition array_octets (f : field) (vs : list value) : option N :=
    match f_desc f with
    | Array _ (Some w) _ _ _ => Some (len vs * (w / 8))
    | Array _ None (Some tid) _ _ =>
        match lookup_decl fl tid with
        | Some (DEnum _ _ w) => Some (len vs * (w / 8))
        | _ => sum_len tid vs
        end
    | _ => None
    end.

  (** The same quantity as computed in [encode_array_field] (element width from the
      schema rather than from the declaration kind). *)
  Definition array_octets_schema (f : field) (vs : list value) : option N :=
    match f_desc f with
    | Array _ (Some w) _ _ _ => Some (len vs * (w / 8))
    | Array _ None (Some tid) _ _ =>
        match type_static_bits tid with
        | Some w => Some (len vs * (w / 8))
        | None => sum_len tid vs
        end
    | _ => None
    end.

  Definition obj_list (obj : list (string * value)) (id : string) : option (list value) :=
    match assoc id obj with Some (VList l) => Some l | _ => None end.

  (** Contribution of the fields of one declaration to [encoded_len]. *)
  Fixpoint len_fields (d : decl) (obj : list (string * value)) (payload_size : N)
           (fs : list field) (shift : N) : option N :=
    match fs with
    | [] => Some 0
    | f :: rest =>
        match f_cond f with
        | Some _ =>
            let id := match field_id f with Some i => i | None => "" end in
            let here :=
              match assoc id obj with
              | Some VNull => Some 0
              | Some v =>
                  match f_desc f with
                  | Scalar _ w => Some (w / 8)
                  | Typedef _ tid =>
                      match lookup_decl fl tid with
                      | Some (DEnum _ _ w) => Some (w / 8)
                      | Some (DStruct _ _ _ _) => rec_len tid v
                      | _ => None
                      end
                  | _ => None
                  end
              | None => None
              end in
            match here, len_fields d obj payload_size rest shift with
            | Some a, Some b => Some (a + b)
            | _, _ => None
            end
        | None =>
            if is_bitfield fl f then
              match field_size sch d f with
              | Some (SStatic w) =>
                  let shift' := shift + w in
                  if shift' mod 8 =? 0 then
                    option_map (N.add (shift' / 8)) (len_fields d obj payload_size rest 0)
                  else len_fields d obj payload_size rest shift'
              | _ => None
              end
            else
              let here :=
                match f_desc f with
                | Padding _ => Some 0
                | Array id _ _ _ _ =>
                    match next_padding rest with
                    | Some p => Some (p / 8)
                    | None =>
                        match obj_list obj id with
                        | Some vs => array_octets_schema f vs
                        | None => None
                        end
                    end
                | Typedef id tid =>
                    match type_static_bits tid with
                    | Some s => Some (s / 8)
                    | None => match assoc id obj with
                              | Some v => rec_len tid v
                              | None => None
                              end
                    end
                | Payload _ | Body => Some payload_size
                | _ => None
                end in
              match here, len_fields d obj payload_size rest shift with
              | Some a, Some b => Some (a + b)
              | _, _ => None
              end
        end
    end.

  (** ** encode *)

  (** [self.id()] accessor of a scalar / enum field: the constraint constant when the
      field is fixed by a constraint of the chain, the stored value otherwise. *)
  Definition get_num (all_fields : list field) (cs : list constr)
             (obj : list (string * value)) (id : string) : option N :=
    match find_constraint cs id with
    | Some c => constraint_N fl all_fields c
    | None => match assoc id obj with Some (VNum n) => Some n | _ => None end
    end.

  Definition value_field (all_fields : list field) (fid : string) : option field :=
    find (fun f => match f_desc f with
                   | Payload _ => String.eqb fid "_payload_"
                   | Body => String.eqb fid "_body_"
                   | _ => match field_id f with Some i => String.eqb i fid | None => false end
                   end) all_fields.

  (** [pack_bit_fields]: cast each value to the chunk type, shift, OR. *)
  Definition pack_value (cw : N) (p : pending) : N :=
    fold_left (fun acc '(v, tw, sh) =>
                 N.lor acc ((N.shiftl (v mod 2 ^ tw) sh) mod 2 ^ cw)) p 0.

  Definition put_chunk (bits : N) (v : N) : list byte :=
    bytes_E E (nbytes bits) (v mod 2 ^ bits).

  Definition pack_bit_fields (p : pending) (shift : N) : eres (list byte) :=
    match integer_width shift with
    | None => Panic GenAssert
    | Some cw =>
        match p with
        | [] => Ok (zeros (nbytes shift))
        | _ => Ok (put_chunk shift (pack_value cw p))
        end
    end.

  Definition flag_consistent (obj : list (string * value)) (uses : list (string * N)) : option bool :=
    let step := fun (acc : option (bool * bool)) (u : string * N) =>
      match acc, is_present obj (fst u) with
      | Some (z, o), Some p =>
          if snd u =? 1 then Some (z || negb p, o || p) else Some (z || p, o || negb p)
      | _, _ => None
      end in
    match fold_left step uses (Some (false, false)) with
    | Some (z, o) => Some (negb (z && o))
    | None => None
    end.

  (** Elements of an array, written one by one. *)
  Definition put_elem (f : field) (v : value) : eres (list byte) :=
    match f_desc f with
    | Array _ (Some w) _ _ _ =>
        match v with
        | VNum n => Ok (put_chunk w n)
        | _ => Panic UnwrapFail
        end
    | Array _ None (Some tid) _ _ =>
        match lookup_decl fl tid with
        | Some (DEnum _ _ w) =>
            match v with
            | VNum n => Ok (put_chunk w n)
            | _ => Panic UnwrapFail
            end
        | _ => rec_enc tid v
        end
    | _ => Panic GenTodo
    end.

  Fixpoint put_elems (f : field) (vs : list value) : eres (list byte) :=
    match vs with
    | [] => Ok []
    | v :: vs' =>
        let* a := put_elem f v in
        let* b := put_elems f vs' in
        Ok (a ++ b)%list
    end.

  Definition ill {A} : eres A := Panic UnwrapFail.   (* ill-typed value: not a value of the Rust type *)

  Definition map_opt_len (tid : string) (vs : list value) : option (list N) :=
    fold_right (fun v acc => match rec_len tid v, acc with
                             | Some a, Some b => Some (a :: b)
                             | _, _ => None
                             end) (Some []) vs.

  (** The fields of one declaration, in emission order. [payload_act] is what the
      emitted code does at the payload field, [payload_size] the RuntimeSize used by
      size fields. *)
  Fixpoint enc_fields (d : decl) (all_fields : list field) (cs : list constr)
           (obj : list (string * value)) (payload_act : eres (list byte)) (payload_size : N)
           (fs : list field) (p : pending) (shift : N) {struct fs} : eres (list byte) :=
    match fs with
    | [] => Ok []
    | f :: rest =>
        match f_cond f with
        | Some _ =>
            (* encode_optional_field; assert_eq!(bit_shift, 0) *)
            if negb (shift =? 0) then Panic GenAssert else
            let id := match field_id f with Some i => i | None => "" end in
            let* here :=
              match assoc id obj with
              | None => ill
              | Some VNull => Ok []
              | Some v =>
                  match f_desc f with
                  | Scalar _ w =>
                      match integer_width w, v with
                      | Some bw, VNum n =>
                          if bw <=? w then Ok (put_chunk w n)
                          else match mask_bits w with
                               | Some m => if m <? n then Err InvalidScalarValue else Ok (put_chunk w n)
                               | None => Panic ArithOverflow
                               end
                      | None, _ => Panic GenAssert
                      | _, _ => ill
                      end
                  | Typedef _ tid =>
                      match lookup_decl fl tid with
                      | Some (DEnum _ _ w) =>
                          match integer_width w, v with
                          | Some _, VNum n => Ok (put_chunk w n)
                          | None, _ => Panic GenAssert
                          | _, _ => ill
                          end
                      | Some (DStruct _ _ _ _) => rec_enc tid v
                      | _ => Panic GenUnreachable
                      end
                  | _ => Panic GenUnreachable
                  end
              end in
            let* more := enc_fields d all_fields cs obj payload_act payload_size rest p shift in
            Ok (here ++ more)%list
        | None =>
            if is_bitfield fl f then
              (* encode_bit_field *)
              match field_size sch d f with
              | Some (SStatic width) =>
                  let* entry :=
                    match f_desc f with
                    | Flag _ uses =>
                        match uses with
                        | [] => Panic UnwrapFail
                        | (oid, setv) :: more =>
                            if 1 <? setv then Panic ArithOverflow else
                            let* _ :=
                              match more with
                              | [] => Ok tt
                              | _ => match flag_consistent obj uses with
                                     | Some true => Ok tt
                                     | Some false => Err InconsistentConditionValue
                                     | None => ill
                                     end
                              end in
                            match is_present obj oid with
                            | Some pr => Ok (Some ((if pr then setv else 1 - setv), 8, shift))
                            | None => ill
                            end
                        end
                    | Scalar id w =>
                        match integer_width w, get_num all_fields cs obj id with
                        | Some tw, Some n =>
                            if w <? tw then
                              match mask_bits w with
                              | Some m => if m <? n then Err InvalidScalarValue else Ok (Some (n, tw, shift))
                              | None => Panic ArithOverflow
                              end
                            else Ok (Some (n, tw, shift))
                        | None, _ => Panic GenAssert
                        | _, None => ill
                        end
                    | FixedEnum eid tid =>
                        match integer_width width, enum_tags fl eid with
                        | Some tw, Some (tags, _) =>
                            match enum_tag_value tags tid with
                            | Some v => Ok (Some (v, tw, shift))
                            | None => Panic UnwrapFail
                            end
                        | None, _ => Panic GenAssert
                        | _, None => Panic UnwrapFail
                        end
                    | FixedScalar _ v =>
                        match integer_width width with
                        | Some tw => Ok (Some (v, tw, shift))
                        | None => Panic GenAssert
                        end
                    | Typedef id _ =>
                        match integer_width width, get_num all_fields cs obj id with
                        | Some tw, Some n => Ok (Some (n, tw, shift))
                        | None, _ => Panic GenAssert
                        | _, None => ill
                        end
                    | Reserved _ => Ok None
                    | Size fid w =>
                        match mask_bits w, integer_width w, value_field all_fields fid with
                        | None, _, _ => Panic ArithOverflow
                        | _, None, _ => Panic GenAssert
                        | _, _, None => Panic UnwrapFail
                        | Some m, Some tw, Some vf =>
                            let asz :=
                              match f_desc vf with
                              | Payload (Some md) => Some (payload_size + md)
                              | Payload None | Body => Some payload_size
                              | Array aid _ _ _ _ =>
                                  match obj_list obj aid with
                                  | Some vs => array_octets vf vs
                                  | None => None
                                  end
                              | _ => None
                              end in
                            match f_desc vf, asz with
                            | (Payload _ | Body | Array _ _ _ _ _), Some a =>
                                if m <? a then Err SizeOverflow else Ok (Some (a mod 2 ^ tw, tw, shift))
                            | (Payload _ | Body | Array _ _ _ _ _), None => ill
                            | _, _ => Panic GenAssert
                            end
                        end
                    | ElementSize fid w =>
                        match mask_bits w, integer_width w, obj_list obj fid with
                        | None, _, _ => Panic ArithOverflow
                        | _, None, _ => Panic GenAssert
                        | _, _, None => ill
                        | Some m, Some tw, Some vs =>
                            match array_field d fid with
                            | Some af =>
                                match f_desc af with
                                | Array _ _ (Some tid) _ _ =>
                                    match map_opt_len tid vs with
                                    | Some lens =>
                                        let es := match lens with l :: _ => l | [] => 0 end in
                                        if forallb (N.eqb es) lens then
                                          if m <? es then Err SizeOverflow
                                          else Ok (Some (es mod 2 ^ tw, tw, shift))
                                        else Err InvalidArrayElementSize
                                    | None => ill
                                    end
                                | _ => Panic GenTodo
                                end
                            | None => ill
                            end
                        end
                    | Count fid w =>
                        match integer_width w, obj_list obj fid with
                        | None, _ => Panic GenAssert
                        | _, None => ill
                        | Some tw, Some vs =>
                            if w <? tw then
                              match mask_bits w with
                              | Some m => if m <? len vs then Err CountOverflow
                                          else Ok (Some (len vs mod 2 ^ tw, tw, shift))
                              | None => Panic ArithOverflow
                              end
                            else Ok (Some (len vs mod 2 ^ tw, tw, shift))
                        end
                    | _ => Panic GenTodo
                    end in
                  let p' := match entry with Some e => (p ++ [e])%list | None => p end in
                  let shift' := shift + width in
                  if shift' mod 8 =? 0 then
                    let* chunk := pack_bit_fields p' shift' in
                    let* more := enc_fields d all_fields cs obj payload_act payload_size rest [] 0 in
                    Ok (chunk ++ more)%list
                  else enc_fields d all_fields cs obj payload_act payload_size rest p' shift'
              | _ => Panic UnwrapFail
              end
            else
              let* here :=
                match f_desc f with
                | Padding _ => Ok []
                | Array id _ _ _ _ =>
                    if negb (shift =? 0) then Panic GenAssert else
                    match obj_list obj id with
                    | None => ill
                    | Some vs =>
                        match next_padding rest with
                        | Some pbits =>
                            let poct := pbits / 8 in
                            match array_octets_schema f vs with
                            | Some asz =>
                                if poct <? asz then Err SizeOverflow
                                else
                                  let* bs := put_elems f vs in
                                  Ok (bs ++ zeros (N.to_nat (poct - asz)))%list
                            | None => ill
                            end
                        | None => put_elems f vs
                        end
                    end
                | Typedef id tid =>
                    if negb (shift =? 0) then Panic GenAssert else
                    match lookup_decl fl tid, assoc id obj with
                    | Some (DChecksum _ _ _), _ => Panic GenTodo
                    | Some (DCustomField _ (Some w) _), Some (VNum n) =>
                        match integer_width w with
                        | Some _ => Ok (put_chunk w n)
                        | None => Panic GenAssert
                        end
                    | Some (DStruct _ _ _ _), Some v => rec_enc tid v
                    | Some (DCustomField _ None _), Some v => rec_enc tid v
                    | Some _, None => ill
                    | Some _, Some _ => ill
                    | None, _ => Panic UnwrapFail
                    end
                | Payload _ | Body => payload_act
                | _ => Panic GenTodo
                end in
              let* more := enc_fields d all_fields cs obj payload_act payload_size rest p shift in
              Ok (here ++ more)%list
        end
    end.
End Enc.

(** ** Tying the knot: [encoded_len] and [encode] of a declaration with its ancestors *)

Definition obj_payload_len (obj : list (string * value)) : N :=
  match assoc "payload" obj with
  | Some (VList l) => len l
  | _ => 0
  end.

Fixpoint rust_len_decl (fuel : nat) (fl : file) (sch : schema) (d : decl)
         (obj : list (string * value)) (payload_size : N) : option N :=
  match fuel with
  | O => None
  | S fuel' =>
      let rec_len := fun (tid : string) (v : value) =>
        match lookup_decl fl tid, v with
        | Some ((DStruct _ _ _ _ | DPacket _ _ _ _) as d'), VObj o =>
            rust_len_decl fuel' fl sch d' o (obj_payload_len o)
        | Some (DCustomField _ (Some w) _), VNum _ => Some (w / 8)
        | _, _ => None
        end in
      match len_fields fl sch rec_len d obj payload_size (decl_fields d) 0 with
      | Some own =>
          match get_parent fl d with
          | Some p => rust_len_decl fuel' fl sch p obj own
          | None => Some own
          end
      | None => None
      end
  end.

Definition rust_len_top (fuel : nat) (fl : file) (sch : schema) (tid : string) (v : value) : option N :=
  match lookup_decl fl tid, v with
  | Some ((DStruct _ _ _ _ | DPacket _ _ _ _) as d'), VObj o =>
      rust_len_decl fuel fl sch d' o (obj_payload_len o)
  | Some (DCustomField _ (Some w) _), VNum _ => Some (w / 8)
  | _, _ => None
  end.

Fixpoint rust_enc_decl (fuel : nat) (fl : file) (sch : schema) (d : decl) (all_fields : list field)
         (cs : list constr) (obj : list (string * value))
         (payload_act : eres (list byte)) (payload_size : N) : eres (list byte) :=
  match fuel with
  | O => Diverge
  | S fuel' =>
      let rec_len := rust_len_top fuel' fl sch in
      let rec_enc := fun (tid : string) (v : value) =>
        match lookup_decl fl tid, v with
        | Some ((DStruct _ _ _ _ | DPacket _ _ _ _) as d'), VObj o =>
            match obj_payload o with
            | Some pl =>
                rust_enc_decl fuel' fl sch d' (iter_fields fl d') (iter_constraints fl d') o
                              (Ok pl) (len pl)
            | None => Panic UnwrapFail
            end
        | Some (DCustomField _ (Some w) _), VNum n =>
            match integer_width w with
            | Some _ => Ok (bytes_E (f_endian fl) (nbytes w) (n mod 2 ^ w))
            | None => Panic GenAssert
            end
        | _, _ => Panic UnwrapFail
        end in
      let own := enc_fields fl sch rec_enc rec_len d all_fields cs obj payload_act payload_size
                            (decl_fields d) [] 0 in
      match get_parent fl d with
      | Some p =>
          match len_fields fl sch rec_len d obj payload_size (decl_fields d) 0 with
          | Some own_size => rust_enc_decl fuel' fl sch p all_fields cs obj own own_size
          | None => Panic UnwrapFail
          end
      | None => own
      end
  end.

(** [T::encode] appended to an empty buffer, i.e. [encode_to_vec] without the capacity hint. *)
Definition rust_encode (fuel : nat) (fl : file) (sch : schema) (id : string) (v : value)
  : eres (list byte) :=
  match lookup_decl fl id, v with
  | Some ((DStruct _ _ _ _ | DPacket _ _ _ _) as d), VObj o =>
      match obj_payload o with
      | Some pl =>
          rust_enc_decl fuel fl sch d (iter_fields fl d) (iter_constraints fl d) o (Ok pl) (len pl)
      | None => Panic UnwrapFail
      end
  | Some (DCustomField _ (Some w) _), VNum n =>
      match integer_width w with
      | Some _ => Ok (bytes_E (f_endian fl) (nbytes w) (n mod 2 ^ w))
      | None => Panic GenAssert
      end
  | _, _ => Panic UnwrapFail
  end.

Definition rust_encoded_len (fuel : nat) (fl : file) (sch : schema) (id : string) (v : value)
  : option N := rust_len_top fuel fl sch id v.
