(** From acceptance by the analyzer model to the hypotheses of the backend theorems.

    - [accepted_enums_checked]: every enum declaration of the ANALYZED file (the file the
      schema and the generators see) passed [check_enum_declaration]; enum declarations
      are untouched by [inline_groups] and [desugar_flags].
    - The two models of [Schema::new] -- [Passes.schema_new] (site-aware, used by the
      analyzer model) and [Schema.mk_schema] (used by the backend theorems) -- agree:
      whenever [schema_new] returns, [mk_schema] returns the same association list, for
      EVERY file; the converse holds for files whose padding sizes fit [usize] (or which
      pass [check_padding_fields]) and FAILS otherwise ([cex_padding]).
    - [accepted_knows_enums]: the schema of an accepted file satisfies
      [schema_knows_enums] for the analyzed file. *)
From Coq Require Import NArith List String Bool Lia ZifyN ZifyBool.
From PDL Require Import Base.Bits Base.Outcome Lang.Ast Lang.Sexp Analyzer.Schema Analyzer.Desugar
     Analyzer.Passes Analyzer.Analyze Proofs.BitfieldEncode Proofs.AnalyzerSound Proofs.SchemaEnums.
Import ListNotations.
Open Scope N_scope.

(** ** 0. What acceptance means, pass by pass *)

Lemma err_or_accepted {B} ds (k : unit -> ares B) r :
  abind (err_or ds) k = Accepted r -> ds = [] /\ k tt = Accepted r.
Proof. destruct ds; cbn [err_or abind]; [intros H; split; [reflexivity | exact H] | discriminate]. Qed.

Lemma err_or_p_accepted {B} p (k : unit -> ares B) r :
  abind (err_or_p p) k = Accepted r -> p = POk [] /\ k tt = Accepted r.
Proof.
  destruct p as [ds|s]; cbn [err_or_p]; [|discriminate].
  intros H. apply err_or_accepted in H. destruct H as [-> H]. split; [reflexivity | exact H].
Qed.

Lemma no_diag_accepted {A B} (p : pres A) (k : A -> ares B) r :
  abind (no_diag p) k = Accepted r -> exists a, p = POk a /\ k a = Accepted r.
Proof. destruct p as [a|s]; cbn [no_diag abind]; [intros H; exists a; split; [reflexivity | exact H] | discriminate]. Qed.

(** the files and results of the passes behind an acceptance *)
Theorem accepted_inv file af sch :
  analyze_with_schema file = Accepted (af, sch) ->
  exists sorted inlined,
    check_decl_identifiers file = POk (inr sorted)
    /\ check_enum_declarations sorted = []
    /\ check_padding_fields sorted = []
    /\ inline_groups_r sorted = POk inlined
    /\ desugar_flags_r inlined = POk af
    /\ scope_new af = []
    /\ schema_new af = POk sch.
Proof.
  unfold analyze_with_schema. intros H.
  apply err_or_accepted in H. destruct H as [_ H].
  destruct (check_decl_identifiers file) as [[ds|sorted]|s]; cbn [abind] in H; try discriminate.
  exists sorted.
  destruct (scope_new sorted); cbn [abind] in H; [|discriminate].
  apply err_or_accepted in H. destruct H as [_ H].
  apply err_or_accepted in H. destruct H as [Henum H].
  apply err_or_accepted in H. destruct H as [_ H].
  apply err_or_accepted in H. destruct H as [_ H].
  apply err_or_accepted in H. destruct H as [_ H].
  apply err_or_accepted in H. destruct H as [_ H].
  apply err_or_accepted in H. destruct H as [Hpad H].
  apply err_or_accepted in H. destruct H as [_ H].
  apply err_or_p_accepted in H. destruct H as [_ H].
  apply err_or_p_accepted in H. destruct H as [_ H].
  apply no_diag_accepted in H. destruct H as [inlined [Hinl H]].
  apply no_diag_accepted in H. destruct H as [af' [Hdes H]].
  apply err_or_accepted in H. destruct H as [Hscope H].
  apply err_or_p_accepted in H. destruct H as [_ H].
  apply no_diag_accepted in H. destruct H as [sch' [Hsch H]].
  apply err_or_p_accepted in H. destruct H as [_ H].
  apply err_or_p_accepted in H. destruct H as [_ H].
  inversion H; subst af' sch'.
  exists inlined. repeat split; assumption.
Qed.

(** ** 1. Enum declarations: untouched by desugaring, and checked *)

Lemma pbind_ok {A B} (e : pres A) (f : A -> pres B) b :
  pbind e f = POk b -> exists a, e = POk a /\ f a = POk b.
Proof. destruct e as [a|s]; cbn [pbind]; [intros H; exists a; split; [reflexivity | exact H] | discriminate]. Qed.

Lemma pmap_ok_back {A B} (f : A -> pres B) l : forall r,
  pmap f l = POk r -> forall y, In y r -> exists x, In x l /\ f x = POk y.
Proof.
  induction l as [|a l IH]; intros r H y Hy; cbn [pmap] in H.
  - inversion H; subst r. destruct Hy.
  - apply pbind_ok in H. destruct H as [b [Hb H]].
    apply pbind_ok in H. destruct H as [r' [Hr' H]]. inversion H; subst r.
    destruct Hy as [<-|Hy].
    + exists a. split; [left; reflexivity | exact Hb].
    + destruct (IH r' Hr' y Hy) as [x [Hx Hfx]]. exists x. split; [right; exact Hx | exact Hfx].
Qed.

Lemma pmap_ok_fwd {A B} (f : A -> pres B) l : forall r,
  pmap f l = POk r -> forall x, In x l -> exists y, In y r /\ f x = POk y.
Proof.
  induction l as [|a l IH]; intros r H x Hx; cbn [pmap] in H; [destruct Hx|].
  apply pbind_ok in H. destruct H as [b [Hb H]].
  apply pbind_ok in H. destruct H as [r' [Hr' H]]. inversion H; subst r.
  destruct Hx as [<-|Hx].
  - exists b. split; [left; reflexivity | exact Hb].
  - destruct (IH r' Hr' x Hx) as [y [Hy Hfy]]. exists y. split; [right; exact Hy | exact Hfy].
Qed.

Lemma inline_decl_enum_back fl x dl i tags w :
  inline_decl fl x = POk dl -> In (DEnum i tags w) dl -> x = DEnum i tags w.
Proof.
  destruct x; cbn [inline_decl]; intros H Hin;
    try (inversion H; subst dl; destruct Hin as [Hin|[]]; congruence).
  - apply pbind_ok in H. destruct H as [fs' [_ H]]. inversion H; subst dl.
    destruct Hin as [Hin|[]]; discriminate.
  - apply pbind_ok in H. destruct H as [fs' [_ H]]. inversion H; subst dl.
    destruct Hin as [Hin|[]]; discriminate.
  - inversion H; subst dl. destruct Hin.
Qed.

Lemma desugar_decl_enum_back x y i tags w :
  desugar_decl x = POk y -> y = DEnum i tags w -> x = DEnum i tags w.
Proof.
  destruct x; cbn [desugar_decl]; intros H Hy; try (inversion H; congruence);
    apply pbind_ok in H; destruct H as [fs' [_ H]]; inversion H; congruence.
Qed.

(** [inline_groups] neither adds, drops nor changes enum declarations *)
Theorem inline_groups_enums fl fl' i tags w :
  inline_groups_r fl = POk fl' ->
  (In (DEnum i tags w) (f_decls fl') <-> In (DEnum i tags w) (f_decls fl)).
Proof.
  unfold inline_groups_r. intros H. apply pbind_ok in H. destruct H as [dss [Hdss H]].
  inversion H; subst fl'. cbn [f_decls]. rewrite in_concat. split.
  - intros [dl [Hdl Hin]].
    destruct (pmap_ok_back _ _ _ Hdss dl Hdl) as [x [Hx Hfx]].
    rewrite <- (inline_decl_enum_back fl x dl i tags w Hfx Hin). exact Hx.
  - intros Hin. destruct (pmap_ok_fwd _ _ _ Hdss _ Hin) as [dl [Hdl Hf]].
    exists dl. split; [exact Hdl|]. cbn [inline_decl] in Hf. inversion Hf. left; reflexivity.
Qed.

(** and neither does [desugar_flags] *)
Theorem desugar_flags_enums fl fl' i tags w :
  desugar_flags_r fl = POk fl' ->
  (In (DEnum i tags w) (f_decls fl') <-> In (DEnum i tags w) (f_decls fl)).
Proof.
  unfold desugar_flags_r. intros H. apply pbind_ok in H. destruct H as [ds [Hds H]].
  inversion H; subst fl'. cbn [f_decls]. split.
  - intros Hin. destruct (pmap_ok_back _ _ _ Hds _ Hin) as [x [Hx Hfx]].
    rewrite <- (desugar_decl_enum_back x _ i tags w Hfx eq_refl). exact Hx.
  - intros Hin. destruct (pmap_ok_fwd _ _ _ Hds _ Hin) as [y [Hy Hf]].
    cbn [desugar_decl] in Hf. inversion Hf; subst y. exact Hy.
Qed.

(** the enum pass is a map over the declarations *)
Lemma check_enum_declarations_silent fl :
  check_enum_declarations fl = [] <-> forall d, In d (f_decls fl) -> check_enum_declaration d = [].
Proof. unfold check_enum_declarations, per_decl. apply AnalyzerSound.flat_map_nil. Qed.

(** Priority 1: every enum declaration of the analyzed file passed the enum check.
    ([sorted] is the file as reordered by [check_decl_identifiers]: the one the enum pass,
    [inline_groups] and [desugar_flags] run on.) *)
Theorem accepted_enums_checked file af sch :
  analyze_with_schema file = Accepted (af, sch) ->
  forall i tags w, In (DEnum i tags w) (f_decls af) ->
                   check_enum_declaration (DEnum i tags w) = [].
Proof.
  intros H i tags w Hin.
  destruct (accepted_inv file af sch H) as (sorted & inlined & _ & Henum & _ & Hinl & Hdes & _ & _).
  apply (proj1 (check_enum_declarations_silent sorted) Henum).
  apply (inline_groups_enums sorted inlined i tags w Hinl).
  apply (desugar_flags_enums inlined af i tags w Hdes). exact Hin.
Qed.

(** in the shape of the first conjunct of [RoundTripReal.enums_accepted] *)
Corollary accepted_enums_checked_lookup file af sch :
  analyze_with_schema file = Accepted (af, sch) ->
  forall tid i tags w, lookup_decl af tid = Some (DEnum i tags w) ->
                       check_enum_declaration (DEnum i tags w) = [].
Proof.
  intros H tid i tags w Hl. apply (accepted_enums_checked file af sch H).
  eapply lookup_decl_In. exact Hl.
Qed.

(** the same for the file the enum pass ran on *)
Corollary accepted_enums_checked_sorted file af sch sorted :
  analyze_with_schema file = Accepted (af, sch) ->
  check_decl_identifiers file = POk (inr sorted) ->
  (forall i tags w, In (DEnum i tags w) (f_decls sorted) <-> In (DEnum i tags w) (f_decls af))
  /\ forall d, In d (f_decls sorted) -> check_enum_declaration d = [].
Proof.
  intros H Hs.
  destruct (accepted_inv file af sch H) as (sorted' & inlined & Hs' & Henum & _ & Hinl & Hdes & _ & _).
  rewrite Hs in Hs'. inversion Hs'; subst sorted'. split.
  - intros i tags w. rewrite (desugar_flags_enums inlined af i tags w Hdes).
    symmetry. apply (inline_groups_enums sorted inlined i tags w Hinl).
  - apply check_enum_declarations_silent. exact Henum.
Qed.

(** ** 2. The two models of [Schema::new] *)

Lemma po_bind {A B} (e : pres A) (f : A -> pres B) :
  pres_option (pbind e f) = match pres_option e with Some x => pres_option (f x) | None => None end.
Proof. destruct e; reflexivity. Qed.

Lemma po_size_add a b : pres_option (p_size_add a b) = size_add a b.
Proof. unfold p_size_add. destruct (size_add a b); reflexivity. Qed.

Lemma po_total sch t : pres_option (p_total_size sch t) = type_total sch t.
Proof.
  unfold p_total_size, type_total, ds_total. destruct (assoc t sch) as [ds|]; [|reflexivity].
  rewrite po_bind, po_size_add. destruct (size_add (ds_decl ds) (ds_parent ds)); [apply po_size_add | reflexivity].
Qed.

(** every identifier annotated so far is an identifier of the file *)
Definition keys_in (sch : schema) (scope : list string) : Prop :=
  forall i, mem i scope = false -> assoc i sch = None.

Lemma field_agree sch scope d f :
  keys_in sch scope ->
  pres_option (annotate_field sch scope d f) = field_size sch d f.
Proof.
  intros Hk. unfold annotate_field, field_size.
  destruct (f_cond f); [reflexivity|].
  destruct (f_desc f) as [ | | | | | | | |eid tg| |aid aw aty am asz| | |tid ty|gid gcs]; try reflexivity.
  - destruct (mem eid scope) eqn:Em; [apply po_total|].
    unfold type_total. rewrite (Hk _ Em). reflexivity.
  - destruct aw as [w|], aty as [t|], asz as [s|]; try reflexivity;
      try (destruct (fits_usize (s * w)); reflexivity).
    destruct (mem t scope) eqn:Em.
    + rewrite po_bind, po_total. destruct (type_total sch t) as [tt|]; [|reflexivity].
      destruct (size_mul_n tt s); reflexivity.
    + unfold type_total. rewrite (Hk _ Em). reflexivity.
  - destruct (mem ty scope) eqn:Em; [apply po_total|].
    unfold type_total. rewrite (Hk _ Em). reflexivity.
  - destruct (mem gid scope) eqn:Em; [apply po_total|].
    unfold type_total. rewrite (Hk _ Em). reflexivity.
Qed.

(** the test at the head of [Passes.annotate_decl] (lines 365-372) *)
Definition pad_overflows (fs : list field) : bool :=
  existsb (fun f => match f_desc f with
                    | Padding size => negb (fits_usize (8 * size))
                    | _ => false end) fs.

Lemma next_padding_fits rest p :
  pad_overflows rest = false -> next_padding rest = Some p -> fits_usize p = true.
Proof.
  destruct rest as [|g rest]; cbn [next_padding pad_overflows existsb]; [discriminate|].
  destruct (f_desc g); try discriminate.
  intros H Hp. inversion Hp; subst p. apply orb_false_elim in H. destruct H as [H _].
  now apply negb_false_iff in H.
Qed.

Definition drop_sizes (r : size * size * list size) : size * size := (fst (fst r), snd (fst r)).

Lemma fields_agree sch scope d : keys_in sch scope -> forall fs a p,
  pad_overflows fs = false ->
  option_map drop_sizes (pres_option (Passes.annotate_fields sch scope d fs a p))
  = Schema.annotate_fields sch d fs a p.
Proof.
  intros Hk. induction fs as [|f rest IH]; intros a p Hpad; [reflexivity|].
  cbn [Passes.annotate_fields Schema.annotate_fields].
  assert (Hrest : pad_overflows rest = false).
  { cbn [pad_overflows existsb] in Hpad. apply orb_false_elim in Hpad. exact (proj2 Hpad). }
  rewrite po_bind, (field_agree sch scope d f Hk).
  destruct (field_size sch d f) as [fsz|]; [|reflexivity].
  destruct (is_payload f).
  - cbn [pbind fst snd]. rewrite po_bind. rewrite <- (IH a fsz Hrest).
    destruct (Passes.annotate_fields sch scope d rest a fsz) as [[[x y] z]|]; reflexivity.
  - assert (Hfit : match next_padding rest with Some p0 => fits_usize p0 | None => true end = true).
    { destruct (next_padding rest) as [p0|] eqn:En; [|reflexivity]. exact (next_padding_fits rest p0 Hrest En). }
    rewrite Hfit. rewrite !po_bind, po_size_add.
    destruct (size_add a match next_padding rest with Some p0 => SStatic p0 | None => fsz end) as [a'|];
      [|reflexivity].
    cbn [pres_option fst snd]. rewrite po_bind. rewrite <- (IH a' p Hrest).
    destruct (Passes.annotate_fields sch scope d rest a' p) as [[[x y] z]|]; reflexivity.
Qed.

(** one declaration: [Passes.annotate_decl] against [SchemaEnums.sch_step] *)
Definition push_decl (sch : schema) (d : decl) (e : dsizes) : schema :=
  match decl_id d with Some id => (id, e) :: sch | None => sch end.

Lemma decl_agree sch scope d :
  keys_in sch scope ->
  pad_overflows (decl_fields d) = false ->
  option_map (fun a => push_decl sch d (fst a)) (pres_option (Passes.annotate_decl sch scope d))
  = sch_step scope sch d.
Proof.
  intros Hk Hpad. unfold Passes.annotate_decl, sch_step, Schema.annotate_decl.
  fold (pad_overflows (decl_fields d)). rewrite Hpad.
  rewrite po_bind.
  pose proof (fields_agree sch scope d Hk (decl_fields d) (SStatic 0) (SStatic 0) Hpad) as Hf.
  destruct (decl_parent_id d) as [pid|].
  - fold (mem pid scope). destruct (mem pid scope) eqn:Em.
    + destruct (assoc pid sch) as [ds|]; [|reflexivity].
      rewrite po_size_add. destruct (size_add (ds_decl ds) (ds_parent ds)) as [ps|]; [|reflexivity].
      rewrite po_bind, <- Hf.
      destruct (Passes.annotate_fields sch scope d (decl_fields d) (SStatic 0) (SStatic 0)) as [[[x y] z]|];
        [|reflexivity].
      destruct d as [a1 a2 a3|a1 [a2|] a3|a1 a2 a3|a1 a2 a3 a4|a1 a2 a3 a4|a1 a2|a1]; reflexivity.
    + rewrite (Hk _ Em). cbn [negb pres_option].
      rewrite po_bind, <- Hf.
      destruct (Passes.annotate_fields sch scope d (decl_fields d) (SStatic 0) (SStatic 0)) as [[[x y] z]|];
        [|reflexivity].
      destruct d as [a1 a2 a3|a1 [a2|] a3|a1 a2 a3|a1 a2 a3 a4|a1 a2 a3 a4|a1 a2|a1]; reflexivity.
  - cbn [pres_option]. rewrite po_bind, <- Hf.
    destruct (Passes.annotate_fields sch scope d (decl_fields d) (SStatic 0) (SStatic 0)) as [[[x y] z]|];
      [|reflexivity].
    destruct d as [a1 a2 a3|a1 [a2|] a3|a1 a2 a3|a1 a2 a3 a4|a1 a2 a3 a4|a1 a2|a1]; reflexivity.
Qed.

Lemma annotate_decl_ok_pads sch scope d a :
  Passes.annotate_decl sch scope d = POk a -> pad_overflows (decl_fields d) = false.
Proof.
  unfold Passes.annotate_decl. fold (pad_overflows (decl_fields d)).
  destruct (pad_overflows (decl_fields d)); [discriminate | reflexivity].
Qed.

(** the loop of [Passes.schema_new], named *)
Definition sn_go (scope : list string) :=
  fix go (ds : list decl) (sch : schema) : pres aschema :=
    match ds with
    | [] => POk (mkASchema sch [])
    | d :: rest =>
        let! a := Passes.annotate_decl sch scope d in
        let sch' := match decl_id d with
                    | Some id => (id, fst a) :: sch
                    | None => sch
                    end in
        let! r := go rest sch' in
        POk (mkASchema (as_decls r) (snd a :: as_fields r))
    end.

Lemma schema_new_eq fl : schema_new fl = sn_go (decl_ids fl) (f_decls fl) [].
Proof. reflexivity. Qed.

Definition file_pad_overflows (ds : list decl) : bool :=
  existsb (fun d => pad_overflows (decl_fields d)) ds.

Definition ids_in (ds : list decl) (scope : list string) : Prop :=
  forall d i, In d ds -> decl_id d = Some i -> mem i scope = true.

Lemma keys_in_push sch scope d e :
  keys_in sch scope -> (forall i, decl_id d = Some i -> mem i scope = true) ->
  keys_in (push_decl sch d e) scope.
Proof.
  intros Hk Hd i Hi. unfold push_decl. destruct (decl_id d) as [id|]; [|exact (Hk i Hi)].
  cbn [assoc]. destruct (String.eqb i id) eqn:Ee; [|exact (Hk i Hi)].
  apply String.eqb_eq in Ee. subst id. rewrite (Hd i eq_refl) in Hi. discriminate.
Qed.

Lemma go_agree scope : forall ds sch,
  keys_in sch scope -> ids_in ds scope -> file_pad_overflows ds = false ->
  option_map as_decls (pres_option (sn_go scope ds sch)) = mk_schema_go ds scope sch.
Proof.
  induction ds as [|d rest IH]; intros sch Hk Hids Hpad; [reflexivity|].
  rewrite go_cons. cbn [sn_go]. fold (sn_go scope).
  cbn [file_pad_overflows existsb] in Hpad. apply orb_false_elim in Hpad. destruct Hpad as [Hd Hrest].
  rewrite <- (decl_agree sch scope d Hk Hd). rewrite po_bind.
  destruct (Passes.annotate_decl sch scope d) as [a|s]; [|reflexivity].
  cbn [pres_option option_map pbind]. unfold push_decl.
  set (sch' := match decl_id d with Some id => (id, fst a) :: sch | None => sch end).
  rewrite po_bind.
  transitivity (mk_schema_go rest scope sch'); [|reflexivity].
  rewrite <- (IH sch').
  - destruct (sn_go scope rest sch') as [r|]; reflexivity.
  - apply (keys_in_push sch scope d (fst a)); [exact Hk|].
    intros i Hi. exact (Hids d i (or_introl eq_refl) Hi).
  - intros d' i Hin. apply Hids. right; exact Hin.
  - exact Hrest.
Qed.

Lemma sn_go_ok_pads scope : forall ds sch a,
  sn_go scope ds sch = POk a -> file_pad_overflows ds = false.
Proof.
  induction ds as [|d rest IH]; intros sch a H; [reflexivity|].
  cbn [sn_go] in H. fold (sn_go scope) in H.
  apply pbind_ok in H. destruct H as [x [Hx H]].
  apply pbind_ok in H. destruct H as [r [Hr _]].
  cbn [file_pad_overflows existsb]. rewrite (annotate_decl_ok_pads _ _ _ _ Hx). cbn [orb].
  exact (IH _ _ Hr).
Qed.

Lemma keys_in_nil scope : keys_in [] scope.
Proof. intros i _. reflexivity. Qed.

Lemma ids_in_file fl : ids_in (f_decls fl) (decl_ids fl).
Proof.
  intros d i Hin Hid. apply mem_In. unfold decl_ids. apply in_flat_map.
  exists d. split; [exact Hin|]. rewrite Hid. left; reflexivity.
Qed.

(** Priority 2.  No padding size of the file overflows [8 * size]: the two models are
    the same function ([None] = some panic site). *)
Theorem schema_models_agree fl :
  file_pad_overflows (f_decls fl) = false ->
  option_map as_decls (pres_option (schema_new fl)) = mk_schema fl.
Proof.
  intros Hpad. rewrite schema_new_eq. unfold mk_schema.
  apply go_agree; [apply keys_in_nil | apply ids_in_file | exact Hpad].
Qed.

(** For EVERY file: what [schema_new] returns is what [mk_schema] returns. *)
Theorem schema_new_ok_mk_schema fl a :
  schema_new fl = POk a -> mk_schema fl = Some (as_decls a).
Proof.
  intros H. rewrite <- (schema_models_agree fl).
  - rewrite H. reflexivity.
  - rewrite schema_new_eq in H. exact (sn_go_ok_pads _ _ _ _ H).
Qed.

(** The converse, under the side condition. *)
Theorem mk_schema_ok_schema_new fl sch :
  file_pad_overflows (f_decls fl) = false ->
  mk_schema fl = Some sch -> exists a, schema_new fl = POk a /\ as_decls a = sch.
Proof.
  intros Hpad Hmk. rewrite <- (schema_models_agree fl Hpad) in Hmk.
  destruct (schema_new fl) as [a|s]; [|discriminate].
  exists a. split; [reflexivity|]. cbn [pres_option option_map] in Hmk. now inversion Hmk.
Qed.

(** ** 3. Acceptance gives the premise of the backend theorems *)

Theorem accepted_mk_schema file af sch :
  analyze_with_schema file = Accepted (af, sch) -> mk_schema af = Some (as_decls sch).
Proof.
  intros H. destruct (accepted_inv file af sch H) as (sorted & inlined & _ & _ & _ & _ & _ & _ & Hsch).
  exact (schema_new_ok_mk_schema af sch Hsch).
Qed.

Theorem accepted_knows_enums file af sch :
  analyze_with_schema file = Accepted (af, sch) ->
  enum_widths_fit af = true ->
  schema_knows_enums af (as_decls sch).
Proof.
  intros H Hfit. apply mk_schema_knows_enums; [exact Hfit | exact (accepted_mk_schema file af sch H)].
Qed.

(** identifiers of the analyzed file are distinct, too (line 1925) *)
Theorem accepted_analyzed_nodup file af sch :
  analyze_with_schema file = Accepted (af, sch) -> NoDup (decl_id_list (f_decls af)).
Proof.
  intros H. destruct (accepted_inv file af sch H) as (sorted & inlined & _ & _ & _ & _ & _ & Hsc & _).
  now apply scope_new_nodup.
Qed.

(** ** 4. The side condition of (2), sharpened

    [mk_schema] tests [8 * size] only for a padding field that FOLLOWS a non-payload
    field (the test sits in the contribution of the preceding field); the Rust code and
    [schema_new] compute it for every padding field.  [check_padding_fields] (E39: a
    padding field must follow an array) closes the gap: on every file that passes it the
    two models are the same function. *)

Definition is_big_padding (g : field) : bool :=
  match f_desc g with Padding n => negb (fits_usize (8 * n)) | _ => false end.

Lemma pad_overflows_cons f rest : pad_overflows (f :: rest) = is_big_padding f || pad_overflows rest.
Proof. reflexivity. Qed.

Definition af_none (sch : schema) (d : decl) (fs : list field) : Prop :=
  forall a p, Schema.annotate_fields sch d fs a p = None.

Lemma af_none_cons sch d f rest : af_none sch d rest -> af_none sch d (f :: rest).
Proof.
  intros H a p. cbn [Schema.annotate_fields].
  destruct (field_size sch d f) as [fsz|]; [|reflexivity].
  destruct (is_payload f); [apply H|].
  destruct (next_padding rest) as [q|].
  - destruct (fits_usize q); [|reflexivity]. destruct (size_add a (SStatic q)); [apply H | reflexivity].
  - destruct (size_add a fsz); [apply H | reflexivity].
Qed.

Lemma af_none_app sch d pre post : af_none sch d post -> af_none sch d (pre ++ post)%list.
Proof. intros H. induction pre as [|f pre IH]; [exact H|]. cbn [app]. apply af_none_cons. exact IH. Qed.

Lemma af_none_here sch d f rest q :
  is_payload f = false -> next_padding rest = Some q -> fits_usize q = false ->
  af_none sch d (f :: rest).
Proof.
  intros Hp Hq Hn a p. cbn [Schema.annotate_fields]. rewrite Hp, Hq, Hn.
  destruct (field_size sch d f); reflexivity.
Qed.

(** an overflowing padding field of a declaration that passes E39 follows a non-payload field *)
Lemma padding_split : forall fs prev,
  check_padding_fields_go fs prev = [] -> pad_overflows fs = true ->
  (prev = true /\ exists g post, fs = g :: post /\ is_big_padding g = true)
  \/ exists pre f g post,
       fs = (pre ++ f :: g :: post)%list /\ is_payload f = false /\ is_big_padding g = true.
Proof.
  induction fs as [|f rest IH]; intros prev Hc Hp; [discriminate|].
  rewrite pad_overflows_cons in Hp.
  assert (Hright : forall prev',
             check_padding_fields_go rest prev' = [] -> pad_overflows rest = true ->
             (prev' = true -> is_payload f = false) ->
             exists pre f' g post,
               (f :: rest) = (pre ++ f' :: g :: post)%list /\ is_payload f' = false
               /\ is_big_padding g = true).
  { intros prev' Hc' Hp' Hpay.
    destruct (IH prev' Hc' Hp') as [[Hpt (g & post & Hrest & Hg)]|(pre & f' & g & post & Hrest & Hf' & Hg)].
    - exists [], f, g, post. rewrite Hrest. repeat split; [apply Hpay; exact Hpt | exact Hg].
    - exists (f :: pre), f', g, post. rewrite Hrest. repeat split; assumption. }
  cbn [check_padding_fields_go] in Hc.
  destruct (f_desc f) as [ | n | | | | | | | | |aid aw aty am asz| | | | ] eqn:Ef;
    try (assert (Eb : is_big_padding f = false) by (unfold is_big_padding; rewrite Ef; reflexivity);
         rewrite Eb in Hp; cbn [orb] in Hp).
  2: { destruct prev; [|discriminate Hc].
       destruct (is_big_padding f) eqn:Eb.
       - left. split; [reflexivity|]. exists f, rest. split; [reflexivity | exact Eb].
       - cbn [orb] in Hp. right. apply (Hright false Hc Hp). intros Hx; discriminate Hx. }
  10: { right. apply (Hright true Hc Hp). intros _. unfold is_payload. rewrite Ef. reflexivity. }
  all: right; apply (Hright false Hc Hp); intros Hx; discriminate Hx.
Qed.

Lemma sch_step_none all sch d : af_none sch d (decl_fields d) -> sch_step all sch d = None.
Proof.
  intros H. unfold sch_step, Schema.annotate_decl. rewrite (H (SStatic 0) (SStatic 0)).
  match goal with |- (if ?c then _ else _) = _ => destruct c; [|reflexivity] end.
  destruct (decl_parent_id d) as [p|]; [|reflexivity].
  destruct (assoc p sch) as [ds|]; [|reflexivity].
  destruct (size_add (ds_decl ds) (ds_parent ds)); reflexivity.
Qed.

Lemma go_none all : forall ds sch,
  (exists d, In d ds /\ forall s, af_none s d (decl_fields d)) -> mk_schema_go ds all sch = None.
Proof.
  induction ds as [|d0 rest IH]; intros sch [d [Hin Hd]]; [destruct Hin|].
  rewrite go_cons. destruct (sch_step all sch d0) as [s1|] eqn:Es; [|reflexivity].
  destruct Hin as [->|Hin].
  - rewrite (sch_step_none all sch d (Hd sch)) in Es. discriminate.
  - apply IH. exists d. split; assumption.
Qed.

Lemma sn_go_pads_panic scope : forall ds sch,
  file_pad_overflows ds = true -> pres_option (sn_go scope ds sch) = None.
Proof.
  induction ds as [|d rest IH]; intros sch H; [discriminate|].
  cbn [sn_go]. fold (sn_go scope). rewrite po_bind.
  destruct (Passes.annotate_decl sch scope d) as [x|s] eqn:Ea; [|reflexivity].
  cbn [pres_option]. rewrite po_bind.
  cbn [file_pad_overflows existsb] in H. rewrite (annotate_decl_ok_pads _ _ _ _ Ea) in H. cbn [orb] in H.
  rewrite (IH _ H). reflexivity.
Qed.

(** [schema_new] panics at line 369 exactly when some padding size overflows *)
Theorem schema_new_padding_panic fl :
  file_pad_overflows (f_decls fl) = true -> exists s, schema_new fl = PPanic s.
Proof.
  intros H. pose proof (sn_go_pads_panic (decl_ids fl) (f_decls fl) [] H) as Hn.
  rewrite <- schema_new_eq in Hn. destruct (schema_new fl) as [a|s]; [discriminate|]. exists s. reflexivity.
Qed.

Theorem schema_models_agree_padding_checked fl :
  check_padding_fields fl = [] ->
  option_map as_decls (pres_option (schema_new fl)) = mk_schema fl.
Proof.
  intros Hc. destruct (file_pad_overflows (f_decls fl)) eqn:Ep; [|exact (schema_models_agree fl Ep)].
  rewrite schema_new_eq, (sn_go_pads_panic _ _ _ Ep). cbn [option_map]. symmetry.
  unfold file_pad_overflows in Ep. apply existsb_exists in Ep. destruct Ep as [d [Hd Hp]].
  unfold check_padding_fields, per_decl in Hc.
  pose proof (proj1 (AnalyzerSound.flat_map_nil _ _) Hc d Hd) as Hcd. cbn beta in Hcd.
  unfold mk_schema. apply go_none. exists d. split; [exact Hd|]. intros sch.
  destruct (padding_split _ _ Hcd Hp) as [[Hf _]|(pre & f & g & post & Hfs & Hf & Hg)]; [discriminate|].
  rewrite Hfs. apply af_none_app. unfold is_big_padding in Hg.
  destruct (f_desc g) as [ | n | | | | | | | | | | | | | ] eqn:Eg; try discriminate.
  apply (af_none_here sch d f (g :: post) (8 * n)).
  - exact Hf.
  - cbn [next_padding]. rewrite Eg. reflexivity.
  - now apply negb_true_iff in Hg.
Qed.

(** ** 5. Non-vacuity and the counter-example, by computation *)

Local Open Scope string_scope.

(** declarations out of order, a group with a constraint, an optional field (hence a
    flag), an array followed by padding, an enum with a range *)
Definition ex_acc : file :=
  mkFile LittleEndian
    [ DPacket "P" [] [mkField (Typedef "a" "A") None; mkField (Scalar "c" 4) None;
                      mkField (Scalar "f" 1) None;
                      mkField (Group "G" [mkConstr "g" (Some 5) None]) None;
                      mkField (Scalar "o" 8) (Some (mkConstr "f" (Some 1) None));
                      mkField (Array "arr" (Some 8) None None (Some 3)) None;
                      mkField (Padding 4) None] None;
      DGroup "G" [mkField (Scalar "g" 8) None];
      DEnum "A" [TagValue "X" 0; TagValue "Y" 1; TagRange "R" 2 5 [("R3", 3)]] 3 ].

Definition ex_out : file * aschema :=
  Eval vm_compute in
    match analyze_with_schema ex_acc with Accepted p => p | _ => (ex_acc, mkASchema [] []) end.

Eval vm_compute in ex_out.

Example ex_acc_accepted : analyze_with_schema ex_acc = Accepted (fst ex_out, snd ex_out).
Proof. vm_compute. reflexivity. Qed.

(** the hypotheses of the theorems hold on it ... *)
Example ex_acc_hypotheses :
  enum_widths_fit (fst ex_out) = true
  /\ file_pad_overflows (f_decls (fst ex_out)) = false
  /\ check_padding_fields (fst ex_out) = []
  /\ lookup_decl (fst ex_out) "A"
     = Some (DEnum "A" [TagValue "X" 0; TagValue "Y" 1; TagRange "R" 2 5 [("R3", 3)]] 3).
Proof. repeat split; vm_compute; reflexivity. Qed.

(** ... and so do their conclusions, obtained from the theorems *)
Example ex_acc_conclusions :
  check_enum_declaration (DEnum "A" [TagValue "X" 0; TagValue "Y" 1; TagRange "R" 2 5 [("R3", 3)]] 3) = []
  /\ mk_schema (fst ex_out) = Some (as_decls (snd ex_out))
  /\ schema_knows_enums (fst ex_out) (as_decls (snd ex_out))
  /\ type_total (as_decls (snd ex_out)) "A" = Some (SStatic 3).
Proof.
  destruct ex_acc_hypotheses as (Hfit & _ & _ & Hl).
  pose proof (accepted_knows_enums _ _ _ ex_acc_accepted Hfit) as Hk.
  split; [exact (accepted_enums_checked_lookup _ _ _ ex_acc_accepted _ _ _ _ Hl)|].
  split; [exact (accepted_mk_schema _ _ _ ex_acc_accepted)|].
  split; [exact Hk|].
  exact (Hk "A" _ 3 (or_introl Hl)).
Qed.

(** Counter-example to the unconditional converse of [schema_new_ok_mk_schema]: a padding
    field with nothing before it whose size in bits overflows [usize].  The Rust code
    (analyzer.rs 365-372) computes [8 * size] for every padding field, as [schema_new]
    does; [mk_schema] returns a schema.  The analyzer rejects the file (E39). *)
Definition cex_padding : file :=
  mkFile LittleEndian [ DPacket "P" [] [mkField (Padding 2305843009213693952) None] None ].

Eval vm_compute in (schema_new cex_padding, mk_schema cex_padding, analyze_with_schema cex_padding).

Example schema_models_disagree :
  schema_new cex_padding = PPanic "369:annotate_decl:8 * *size"
  /\ mk_schema cex_padding = Some [("P", mkDs (SStatic 0) (SStatic 0) (SStatic 0))]
  /\ analyze_with_schema cex_padding = Rejected [39].
Proof. repeat split; vm_compute; reflexivity. Qed.

(** the same after a payload field *)
Definition cex_padding_payload : file :=
  mkFile LittleEndian
    [ DPacket "P" [] [mkField (Payload None) None; mkField (Padding 2305843009213693952) None] None ].

Example schema_models_disagree_payload :
  schema_new cex_padding_payload = PPanic "369:annotate_decl:8 * *size"
  /\ mk_schema cex_padding_payload = Some [("P", mkDs (SStatic 0) (SStatic 0) SUnknown)].
Proof. split; vm_compute; reflexivity. Qed.

(** ** 6. The round trip (C02) with acceptance by the analyzer as its hypothesis

    What the analyzer does not check is that the Rust generator is defined on the enums
    (width at most 64, at least one value or range tag): that stays a hypothesis. *)
From PDL Require Rust.Enum.
From PDL Require Import Sem.RefEncode Rust.Encode Rust.Decode Proofs.RoundTrip Proofs.RoundTripReal.

Definition enums_generable (fl : file) : Prop :=
  forall tid i tags w,
    lookup_decl fl tid = Some (DEnum i tags w) ->
    Enum.integer_width w <> None /\ Enum.enum_is_complete tags (Enum.scalar_max w) <> None.

Lemma lookup_decl_complete fl d i :
  NoDup (decl_id_list (f_decls fl)) -> In d (f_decls fl) -> decl_id d = Some i ->
  lookup_decl fl i = Some d.
Proof.
  intros Hnd Hin Hid. unfold lookup_decl.
  destruct (find (has_id i) (rev (f_decls fl))) as [d'|] eqn:Ef.
  - apply find_some in Ef. destruct Ef as [Hin' Hid']. apply in_rev in Hin'. apply has_id_spec in Hid'.
    f_equal. exact (unique_by_id _ Hnd d' d i Hin' Hin Hid' Hid).
  - pose proof (find_none _ _ Ef d (proj1 (in_rev _ _) Hin)) as Hn.
    apply has_id_spec in Hid. rewrite Hid in Hn. discriminate.
Qed.

Lemma integer_width_fits w : Enum.integer_width w <> None -> fits_usize w = true.
Proof.
  unfold Enum.integer_width, fits_usize, usize_max. intros H.
  destruct (w <=? 8) eqn:E1; [lia|]. destruct (w <=? 16) eqn:E2; [lia|].
  destruct (w <=? 32) eqn:E3; [lia|]. destruct (w <=? 64) eqn:E4; [lia|]. congruence.
Qed.

Theorem generable_widths_fit fl :
  NoDup (decl_id_list (f_decls fl)) -> enums_generable fl -> enum_widths_fit fl = true.
Proof.
  intros Hnd Hg. unfold enum_widths_fit. apply forallb_forall. intros d Hin.
  destruct d as [a1 a2 a3|a1 a2 a3|i tags w|a1 a2 a3 a4|a1 a2 a3 a4|a1 a2|a1]; try reflexivity.
  apply integer_width_fits.
  exact (proj1 (Hg i i tags w (lookup_decl_complete fl _ i Hnd Hin eq_refl))).
Qed.

Theorem accepted_enums_accepted file af sch :
  analyze_with_schema file = Accepted (af, sch) -> enums_generable af -> enums_accepted af.
Proof.
  intros H Hg tid i tags w Hl. split; [|exact (Hg tid i tags w Hl)].
  exact (accepted_enums_checked_lookup file af sch H tid i tags w Hl).
Qed.

(** all three hypotheses of [RoundTripReal] from acceptance *)
Theorem accepted_roundtrip_hypotheses file af sch :
  analyze_with_schema file = Accepted (af, sch) -> enums_generable af ->
  enum_widths_fit af = true /\ mk_schema af = Some (as_decls sch) /\ enums_accepted af.
Proof.
  intros H Hg. split; [|split].
  - exact (generable_widths_fit af (accepted_analyzed_nodup file af sch H) Hg).
  - exact (accepted_mk_schema file af sch H).
  - exact (accepted_enums_accepted file af sch H Hg).
Qed.

Theorem accepted_roundtrip fuel fuel' oc file af sch id d o bs tl :
  analyze_with_schema file = Accepted (af, sch) -> enums_generable af ->
  lookup_decl af id = Some d ->
  root_of_fragment af d ->
  canonical_obj o (decl_fields d) ->
  ref_encode (S fuel) af id (VObj o) = Some bs ->
  match rust_encode (S fuel) af (as_decls sch) id (VObj o) with
  | Ok bs' =>
      bs' = bs /\
      gooddec (rust_decode (S fuel') oc af (as_decls sch) id (bs' ++ tl)) (fun r => r = (VObj o, tl))
  | Panic GenAssert => True
  | _ => False
  end.
Proof.
  intros H Hg. destruct (accepted_roundtrip_hypotheses file af sch H Hg) as (Hw & Hs & He).
  exact (rust_roundtrip_fragment_real_schema fuel fuel' oc af (as_decls sch) id d o bs tl Hw Hs He).
Qed.

Example ex_acc_generable : enums_generable (fst ex_out).
Proof.
  intros tid i tags w Hl.
  assert (Hin : In (DEnum i tags w) (f_decls (fst ex_out))) by (eapply lookup_decl_In; exact Hl).
  cbn [ex_out fst f_decls] in Hin. destruct Hin as [Hd|[Hd|[]]]; [|discriminate Hd].
  inversion Hd; subst i tags w. split; vm_compute; discriminate.
Qed.

Print Assumptions accepted_inv.
Print Assumptions accepted_enums_checked.
Print Assumptions accepted_enums_checked_lookup.
Print Assumptions accepted_enums_checked_sorted.
Print Assumptions inline_groups_enums.
Print Assumptions desugar_flags_enums.
Print Assumptions schema_models_agree.
Print Assumptions schema_new_ok_mk_schema.
Print Assumptions mk_schema_ok_schema_new.
Print Assumptions schema_new_padding_panic.
Print Assumptions schema_models_agree_padding_checked.
Print Assumptions accepted_mk_schema.
Print Assumptions accepted_knows_enums.
Print Assumptions accepted_analyzed_nodup.
Print Assumptions ex_acc_accepted.
Print Assumptions ex_acc_hypotheses.
Print Assumptions ex_acc_conclusions.
Print Assumptions schema_models_disagree.
Print Assumptions schema_models_disagree_payload.
Print Assumptions generable_widths_fit.
Print Assumptions accepted_enums_accepted.
Print Assumptions accepted_roundtrip_hypotheses.
Print Assumptions accepted_roundtrip.
Print Assumptions ex_acc_generable.
