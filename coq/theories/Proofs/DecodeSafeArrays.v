(** No run-time panic of the emitted decoder, extended to ARRAYS.

    Proofs/DecodeSafe.v proves [no_rt_panic] for every file without arrays.  Here the
    array parser [add_array_field] is covered under side conditions that exclude exactly
    the known defects (a [_count_] whose product with the element width leaves usize, an
    [_elementsize_] whose value is 0) and one more that the model exhibits (element width
    0 with a size / unknown shape: [% 0]).

    The element reads of scalar / enum arrays are NOT individually guarded in the emitted
    code ([get_uint] panics when short): the guard is on the total
    ([check_size work (n * e)]), so the proof carries the invariant
    "remaining length >= remaining count * element width" through [loop_count]. *)
From Coq Require Import NArith ZArith List String Bool Lia ZifyN ZifyBool.
From Coq Require Import Strings.Byte.
From PDL Require Import Base.Bits Base.Outcome Lang.Ast Lang.Sexp Analyzer.Schema Rust.Enum
     Sem.RefEncode Rust.Encode Rust.Decode Proofs.DecodeSafe.
Import ListNotations.
Open Scope N_scope.

Ltac Zify.zify_post_hook ::= Z.div_mod_to_equations.

(** ** Lengths *)

Lemma len_skipn {A} n (sp : list A) : len (skipn (N.to_nat n) sp) = len sp - n.
Proof. unfold len. rewrite skipn_length. lia. Qed.

Lemma len_firstn {A} n (sp : list A) : n <= len sp -> len (firstn (N.to_nat n) sp) = n.
Proof. unfold len. intros H. rewrite firstn_length. lia. Qed.

Lemma bind_ok_inv {E A B} (x : outcome E A) (f : A -> outcome E B) b :
  bind x f = Ok b -> exists a, x = Ok a /\ f a = Ok b.
Proof. destruct x as [a| | |]; cbn [bind]; intros H; try discriminate. exists a. split; [reflexivity|exact H]. Qed.

Lemma get_uint_ok_len e w sp x sp' :
  get_uint e w sp = Ok (x, sp') -> len sp = len sp' + w / 8.
Proof.
  unfold get_uint. destruct (len sp <? w / 8) eqn:Hl; [discriminate|].
  intros Heq. inversion Heq; subst. rewrite len_skipn. apply N.ltb_ge in Hl. lia.
Qed.

Lemma get_uint_guard e w sp : w / 8 <= len sp -> exists x, get_uint e w sp = Ok x.
Proof. intros H. apply get_uint_after_check. apply N.ltb_ge. exact H. Qed.

Lemma split_at_after_check n sp : (len sp <? n) = false -> exists p, split_at n sp = Ok p.
Proof. intros H. unfold split_at. rewrite H. eexists; reflexivity. Qed.

Lemma slice_from_after_check n sp : (len sp <? n) = false -> exists p, slice_from n sp = Ok p.
Proof. intros H. unfold slice_from. rewrite H. eexists; reflexivity. Qed.

Lemma integer_width_le w ctw : integer_width w = Some ctw -> w <= ctw.
Proof.
  unfold integer_width.
  repeat match goal with |- context [if ?c then _ else _] => destruct c eqn:? end;
    intros H; inversion H; subst; lia.
Qed.

Lemma of_E_lt e bs : of_E e bs < 256 ^ N.of_nat (List.length bs).
Proof.
  destruct e; cbn [of_E]; [apply of_le_lt|].
  unfold of_be. rewrite <- (rev_length bs). apply of_le_lt.
Qed.

(** the value of a completed chunk fits in the chunk's backing integer *)
Lemma get_uint_lt e w sp x sp' ctw :
  get_uint e w sp = Ok (x, sp') -> w mod 8 = 0 -> integer_width w = Some ctw -> x < 2 ^ ctw.
Proof.
  unfold get_uint. destruct (len sp <? w / 8) eqn:Hl; [discriminate|]. intros H Hm Hi.
  inversion H; subst. apply N.ltb_ge in Hl.
  eapply N.lt_le_trans; [apply of_E_lt|].
  pose proof (len_firstn (w / 8) sp Hl) as Hf. unfold len in Hf. rewrite Hf.
  apply integer_width_le in Hi.
  change 256 with (2 ^ 8). rewrite <- N.pow_mul_r. apply N.pow_le_mono_r; lia.
Qed.

(** ** The loops *)
Section LoopSafe.
  Variable pe : list byte -> dres (value * list byte).

  Section Everywhere.
    Hypothesis pe_nrp : forall sp, no_rt_panic (pe sp).

    Lemma loop_count_nrp : forall lf n sp acc, no_rt_panic (loop_count pe lf n sp acc).
    Proof.
      induction lf as [|lf IH]; intros n sp acc; cbn [loop_count]; destruct (n =? 0); try exact I.
      apply nrp_bind; [apply pe_nrp|]. intros [v sp'] _. apply IH.
    Qed.

    Lemma loop_while_nrp : forall lf sp acc, no_rt_panic (loop_while pe lf sp acc).
    Proof.
      induction lf as [|lf IH]; intros sp acc; destruct sp as [|b sp]; cbn [loop_while]; try exact I.
      apply nrp_bind; [apply pe_nrp|]. intros [v sp'] _. apply IH.
    Qed.

    Lemma loop_chunks_nrp : forall lf es k sp acc, no_rt_panic (loop_chunks pe lf es k sp acc).
    Proof.
      induction lf as [|lf IH]; intros es k sp acc; cbn [loop_chunks];
        destruct ((k =? 0) || (len sp =? 0)); try exact I.
      apply nrp_bind; [apply pe_nrp|]. intros [v rest] _.
      destruct rest; [apply IH|exact I].
    Qed.

    Lemma chunks_nrp lf es k sp : es <> 0 -> no_rt_panic (chunks lf pe es k sp).
    Proof.
      intros Hes. unfold chunks. apply N.eqb_neq in Hes. rewrite Hes. apply loop_chunks_nrp.
    Qed.
  End Everywhere.

  (** the element parser is safe on [c] octets and consumes at most [c] *)
  Section Guarded.
    Variable c : N.
    Hypothesis pe_guard : forall sp, c <= len sp -> no_rt_panic (pe sp).
    Hypothesis pe_cons : forall sp v sp', pe sp = Ok (v, sp') -> len sp <= len sp' + c.

    Lemma loop_count_guarded : forall lf n sp acc,
      n * c <= len sp -> no_rt_panic (loop_count pe lf n sp acc).
    Proof.
      induction lf as [|lf IH]; intros n sp acc Hn; cbn [loop_count];
        destruct (n =? 0) eqn:En; try exact I.
      apply N.eqb_neq in En.
      apply nrp_bind; [apply pe_guard; nia|]. intros [v sp'] Hv.
      apply IH. apply pe_cons in Hv. nia.
    Qed.
  End Guarded.
End LoopSafe.

Section Arr.
  Variable oc : bool.
  Variable fl : file.
  Variable sch : schema.
  Variable rec : string -> list byte -> dres (value * list byte).
  Variable lf : nat.
  Hypothesis rec_ok : forall t sp, no_rt_panic (rec t sp).

  (** octets read by one unguarded [get_uint] of the element parser; [None] when the
      element is parsed by [T::decode] (or the generator refuses) *)
  Definition pe_cost (width : option N) (tid : option string) : option N :=
    match width with
    | Some w => Some (w / 8)
    | None =>
        match tid with
        | Some t => match lookup_decl fl t with
                    | Some (DEnum _ _ w) => Some (w / 8)
                    | _ => None
                    end
        | None => None
        end
    end.

  Lemma pe_cost_none width tid :
    pe_cost width tid = None -> forall sp, no_rt_panic (parse_element fl rec width tid sp).
  Proof.
    unfold pe_cost, parse_element. intros H sp. destruct width as [w|]; [discriminate|].
    destruct tid as [t|]; [|reflexivity].
    destruct (lookup_decl fl t) as [[]|]; try discriminate; apply rec_ok.
  Qed.

  Lemma pe_cost_guard width tid c :
    pe_cost width tid = Some c ->
    forall sp, c <= len sp -> no_rt_panic (parse_element fl rec width tid sp).
  Proof.
    unfold pe_cost, parse_element. intros H sp Hc. destruct width as [w|].
    - inversion H; subst. destruct (get_uint_guard (E fl) w sp Hc) as [[x sp'] Hg].
      rewrite Hg. exact I.
    - destruct tid as [t|]; [|discriminate].
      destruct (lookup_decl fl t) as [[]|]; try discriminate.
      inversion H; subst.
      match goal with |- context [get_uint _ ?w _] =>
        destruct (get_uint_guard (E fl) w sp Hc) as [[x sp'] Hg] end.
      rewrite Hg. cbn [bind].
      apply nrp_bind; [apply safe_nrp, enum_check_safe|]. intros; exact I.
  Qed.

  Lemma pe_cost_cons width tid c :
    pe_cost width tid = Some c ->
    forall sp v sp', parse_element fl rec width tid sp = Ok (v, sp') -> len sp <= len sp' + c.
  Proof.
    unfold pe_cost, parse_element. intros H sp v sp' Hp. destruct width as [w|].
    - inversion H; subst. apply bind_ok_inv in Hp. destruct Hp as [[x sp1] [Hg Hp]].
      inversion Hp; subst. apply get_uint_ok_len in Hg. lia.
    - destruct tid as [t|]; [|discriminate].
      destruct (lookup_decl fl t) as [[]|]; try discriminate.
      inversion H; subst. apply bind_ok_inv in Hp. destruct Hp as [[x sp1] [Hg Hp]].
      apply bind_ok_inv in Hp. destruct Hp as [u [_ Hp]].
      inversion Hp; subst. apply get_uint_ok_len in Hg. lia.
  Qed.

  (** the element width and shape computed by [add_array_field] *)
  Definition ew_of (d : decl) (id : string) (width : option N) (tid : option string)
    : dres elem_width :=
    match width with
    | Some w => if w mod 8 =? 0 then Ok (EWStatic (w / 8)) else Panic GenAssert
    | None =>
        match tid with
        | None => Panic UnwrapFail
        | Some t =>
            match lookup_decl fl t with
            | None => Panic UnwrapFail
            | Some _ =>
                match type_total sch t with
                | None => Panic UnwrapFail
                | Some (SStatic w) =>
                    if w mod 8 =? 0 then Ok (EWStatic (w / 8)) else Panic GenAssert
                | Some _ =>
                    match decl_element_size d id with
                    | Some _ => Ok (EWDynamic (esize_ident id))
                    | None => Ok EWUnknown
                    end
                end
            end
        end
    end.

  Definition shape_of (d : decl) (id : string) (size : option N) : arr_shape :=
    match size with
    | Some n => ShStatic n
    | None =>
        match decl_array_size d id with
        | Some g => match f_desc g with
                    | Count _ _ => ShCount (count_ident id)
                    | Size _ _ => ShSize (size_ident id)
                    | _ => ShUnknown
                    end
        | None => ShUnknown
        end
    end.

  Lemma ew_of_nrp d id width tid : no_rt_panic (ew_of d id width tid).
  Proof.
    unfold ew_of. destruct width as [w|].
    - destruct (w mod 8 =? 0); [exact I|reflexivity].
    - destruct tid as [t|]; [|reflexivity].
      destruct (lookup_decl fl t); [|reflexivity].
      destruct (type_total sch t) as [[w| |]|]; try reflexivity.
      + destruct (w mod 8 =? 0); [exact I|reflexivity].
      + destruct (decl_element_size d id); exact I.
      + destruct (decl_element_size d id); exact I.
  Qed.

  (** the unguarded element read fits in the element width used by the guards *)
  Definition cost_ok (width : option N) (tid : option string) (e : N) : bool :=
    match pe_cost width tid with
    | Some c => c <=? e
    | None => true
    end.

  Lemma loop_count_static width tid e n work acc :
    cost_ok width tid e = true -> n * e <= len work ->
    no_rt_panic (loop_count (parse_element fl rec width tid) lf n work acc).
  Proof.
    unfold cost_ok. intros Hc Hn. destruct (pe_cost width tid) as [c|] eqn:Ec.
    - apply N.leb_le in Hc.
      apply (loop_count_guarded _ c (pe_cost_guard _ _ _ Ec) (pe_cost_cons _ _ _ Ec)). nia.
    - apply loop_count_nrp. apply pe_cost_none. exact Ec.
  Qed.

  (** The side conditions, on the run-time state.  [EWStatic], count shape: the product
      stays in usize (or arithmetic wraps and every element goes through [T::decode]).
      [EWStatic], size / unknown shape: the width is not 0.  [EWDynamic]: the element-size
      local is not 0 and the products stay in usize when overflow checks are on. *)
  Definition array_pre (d : decl) (st : dstate) (id : string) (width : option N)
             (tid : option string) (size : option N) : Prop :=
    match ew_of d id width tid with
    | Ok (EWStatic e) =>
        cost_ok width tid e = true /\
        match shape_of d id size with
        | ShStatic _ => True
        | ShCount cf =>
            forall n, local st cf = Ok n ->
                      n * e < two64 \/ (oc = false /\ pe_cost width tid = None)
        | ShSize _ | ShUnknown => e <> 0
        end
    | Ok EWUnknown => pe_cost width tid = None
    | Ok (EWDynamic esf) =>
        pe_cost width tid = None /\
        forall es, local st esf = Ok es ->
                   es <> 0 /\
                   (oc = false \/
                    match shape_of d id size with
                    | ShStatic n => n * es < two64
                    | ShCount cf => forall n, local st cf = Ok n -> n * es < two64
                    | ShSize _ | ShUnknown => True
                    end)
    | _ => True
    end.

  Lemma umul_nrp_small a b : a * b < two64 -> umul oc a b = Ok (a * b).
  Proof. intros H. unfold umul. apply N.ltb_lt in H. rewrite H. reflexivity. Qed.

  Lemma umul_wrap a b : oc = false -> exists t, umul oc a b = Ok t.
  Proof. intros H. unfold umul. rewrite H. destruct (a * b <? two64); eexists; reflexivity. Qed.

  Lemma umul_comm a b : umul oc a b = umul oc b a.
  Proof. unfold umul. rewrite (N.mul_comm a b). reflexivity. Qed.

  Ltac chk u Hu :=
    apply nrp_bind; [apply safe_nrp, check_size_safe|]; intros u Hu; apply check_size_ok in Hu.

  Theorem add_array_field_nrp d st id width tid size padding :
    array_pre d st id width tid size ->
    no_rt_panic (add_array_field oc fl sch rec lf d st id width tid size padding).
  Proof.
    intros Hpre. unfold array_pre in Hpre. unfold add_array_field.
    match goal with |- no_rt_panic (bind ?x _) => change x with (ew_of d id width tid) end.
    apply nrp_bind; [apply ew_of_nrp|]. intros ew Hew. rewrite Hew in Hpre. cbv beta.
    cbv zeta. fold (shape_of d id size).
    apply nrp_bind.
    { destruct padding as [pbits|]; [|exact I].
      chk u Hu. destruct (split_at_after_check _ _ Hu) as [[h t] Hs]. rewrite Hs. exact I. }
    intros [[work after] padded] _.
    apply nrp_bind; [|intros [vs work'] _; exact I].
    destruct ew as [e|esf|].
    - (* static element width *)
      destruct Hpre as [Hcost Hsh].
      destruct (shape_of d id size) as [n|cf|sf|]; cbv beta iota.
      + chk u Hu. apply N.ltb_ge in Hu.
        apply nrp_bind; [apply (loop_count_static width tid e); assumption|]. intros [vs w'] _. exact I.
      + apply nrp_bind; [apply local_nrp|]. intros n Hn.
        destruct (Hsh n Hn) as [Hlt|[Hoc Hnone]].
        * rewrite (umul_nrp_small _ _ Hlt). cbn [bind].
          chk u Hu. apply N.ltb_ge in Hu.
          apply nrp_bind; [apply (loop_count_static width tid e); assumption|]. intros [vs w'] _. exact I.
        * destruct (umul_wrap n e Hoc) as [t Ht]. rewrite Ht. cbn [bind].
          chk u Hu.
          apply nrp_bind; [apply loop_count_nrp, pe_cost_none; exact Hnone|].
          intros [vs w'] _. exact I.
      + apply nrp_bind.
        { apply nrp_bind; [apply local_nrp|]. intros n _.
          apply nrp_bind; [apply safe_nrp, check_size_safe|]. intros; exact I. }
        intros asz Hasz.
        apply bind_ok_inv in Hasz. destruct Hasz as [n [_ Hasz]].
        apply bind_ok_inv in Hasz. destruct Hasz as [u [Hu Hasz]]. inversion Hasz; subst asz.
        apply check_size_ok in Hu. apply N.ltb_ge in Hu.
        destruct (e =? 1) eqn:E1; cbn [bind].
        { apply N.eqb_eq in E1.
          apply nrp_bind; [apply (loop_count_static width tid e); [assumption|lia]|]. intros [vs w'] _. exact I. }
        apply N.eqb_neq in Hsh. rewrite Hsh.
        destruct (n mod e =? 0) eqn:Em; cbn [bind]; [|exact I].
        apply N.eqb_eq in Em. apply N.eqb_neq in Hsh.
        apply nrp_bind; [apply (loop_count_static width tid e); [assumption|]|].
        { assert (Hd : n / e * e <= n) by (rewrite N.mul_comm; apply N.mul_div_le; exact Hsh). lia. }
        intros [vs w'] _. exact I.
      + cbn [bind].
        destruct (e =? 1) eqn:E1; cbn [bind].
        { apply N.eqb_eq in E1.
          apply nrp_bind; [apply (loop_count_static width tid e); [assumption|lia]|]. intros [vs w'] _. exact I. }
        apply N.eqb_neq in Hsh. rewrite Hsh.
        destruct (len work mod e =? 0) eqn:Em; cbn [bind]; [|exact I].
        apply N.eqb_neq in Hsh.
        apply nrp_bind; [apply (loop_count_static width tid e); [assumption|]|].
        { rewrite N.mul_comm; apply N.mul_div_le; exact Hsh. }
        intros [vs w'] _. exact I.
    - (* dynamic element width *)
      destruct Hpre as [Hnone Hes].
      pose proof (pe_cost_none _ _ Hnone) as Hpe.
      destruct (shape_of d id size) as [n|cf|sf|]; cbv beta iota.
      + apply nrp_bind; [apply local_nrp|]. intros es Hl. destruct (Hes es Hl) as [Hnz Hov].
        apply nrp_bind.
        { destruct (n =? 1); [exact I|]. destruct Hov as [Hoc|Hlt].
          - destruct (umul_wrap n es Hoc) as [t Ht]. rewrite Ht. exact I.
          - rewrite (umul_nrp_small _ _ Hlt). exact I. }
        intros asz _. chk u Hu.
        apply nrp_bind; [apply chunks_nrp; assumption|]. intros vs _.
        destruct (slice_from_after_check _ _ Hu) as [w' Hw]. rewrite Hw. cbn [bind].
        destruct (len vs =? n); exact I.
      + apply nrp_bind; [apply local_nrp|]. intros es Hl. destruct (Hes es Hl) as [Hnz Hov].
        apply nrp_bind; [apply local_nrp|]. intros n Hn.
        assert (Hum : exists t, umul oc n es = Ok t).
        { destruct Hov as [Hoc|Hlt]; [apply umul_wrap; exact Hoc|].
          eexists. apply umul_nrp_small. apply Hlt. exact Hn. }
        destruct Hum as [t Ht]. rewrite Ht. cbn [bind]. chk u Hu.
        apply nrp_bind; [apply chunks_nrp; assumption|]. intros vs _.
        rewrite (umul_comm es n), Ht. cbn [bind].
        destruct (slice_from_after_check _ _ Hu) as [w' Hw]. rewrite Hw. exact I.
      + apply nrp_bind; [apply local_nrp|]. intros es Hl. destruct (Hes es Hl) as [Hnz _].
        apply nrp_bind.
        { apply nrp_bind; [apply local_nrp|]. intros n _.
          apply nrp_bind; [apply safe_nrp, check_size_safe|]. intros; exact I. }
        intros asz Hasz.
        apply bind_ok_inv in Hasz. destruct Hasz as [n [_ Hasz]].
        apply bind_ok_inv in Hasz. destruct Hasz as [u [Hu Hasz]]. inversion Hasz; subst asz.
        apply check_size_ok in Hu.
        apply N.eqb_neq in Hnz. rewrite Hnz. apply N.eqb_neq in Hnz.
        destruct (negb (n mod es =? 0)); [exact I|].
        apply nrp_bind; [apply chunks_nrp; assumption|]. intros vs _.
        destruct (slice_from_after_check _ _ Hu) as [w' Hw]. rewrite Hw. exact I.
      + apply nrp_bind; [apply local_nrp|]. intros es Hl. destruct (Hes es Hl) as [Hnz _].
        cbn [bind].
        apply N.eqb_neq in Hnz. rewrite Hnz. apply N.eqb_neq in Hnz.
        destruct (negb (len work mod es =? 0)); [exact I|].
        apply nrp_bind; [apply chunks_nrp; assumption|]. intros vs _.
        assert (Hu : (len work <? len work) = false) by (apply N.ltb_ge; lia).
        destruct (slice_from_after_check _ _ Hu) as [w' Hw]. rewrite Hw. exact I.
    - (* unknown element width: every element goes through [T::decode] *)
      pose proof (pe_cost_none _ _ Hpre) as Hpe.
      destruct (shape_of d id size) as [n|cf|sf|]; cbv beta iota.
      + apply nrp_bind; [apply loop_count_nrp; assumption|]. intros [vs w'] _. exact I.
      + apply nrp_bind; [apply local_nrp|]. intros n _.
        apply nrp_bind; [apply loop_count_nrp; assumption|]. intros [vs w'] _. exact I.
      + apply nrp_bind; [apply local_nrp|]. intros n _. chk u Hu.
        destruct (split_at_after_check _ _ Hu) as [[h t] Hs]. rewrite Hs. cbn [bind].
        apply nrp_bind; [apply loop_while_nrp; assumption|]. intros [vs w'] _. exact I.
      + apply nrp_bind; [apply loop_while_nrp; assumption|]. intros [vs w'] _. exact I.
  Qed.

  (** ** Field lists: the locals stay below static bounds *)

  Ltac ok_inv :=
    repeat match goal with
    | H : Ok _ = Ok _ |- _ => inversion H; subst; clear H
    | H : Err _ = Ok _ |- _ => discriminate H
    | H : Panic _ = Ok _ |- _ => discriminate H
    | H : Diverge = Ok _ |- _ => discriminate H
    | H : bind ?x _ = Ok _ |- _ =>
        let a := fresh "a" in let H' := fresh "H" in
        apply bind_ok_inv in H; destruct H as [a [_ H']]; cbv beta in H'
    | H : match ?x with _ => _ end = Ok _ |- _ => destruct x eqn:?
    end.

  Lemma optional_locals st f c st' :
    add_optional_field fl rec st f c = Ok st' -> st_locals st' = st_locals st.
  Proof. unfold add_optional_field. intros H. ok_inv; reflexivity. Qed.

  Lemma typedef_locals st id tid shift st' :
    add_typedef_field fl sch rec st id tid shift = Ok st' -> st_locals st' = st_locals st.
  Proof. unfold add_typedef_field. intros H. ok_inv; reflexivity. Qed.

  Lemma payload_locals d st m shift st' :
    add_payload_field sch d st m shift = Ok st' -> st_locals st' = st_locals st.
  Proof. unfold add_payload_field. intros H. ok_inv; reflexivity. Qed.

  Lemma array_locals d st id width tid size padding st' :
    add_array_field oc fl sch rec lf d st id width tid size padding = Ok st' ->
    st_locals st' = st_locals st.
  Proof.
    unfold add_array_field. intros H.
    apply bind_ok_inv in H. destruct H as [ew [_ H]]. cbv beta zeta in H.
    apply bind_ok_inv in H. destruct H as [[[work after] padded] [_ H]]. cbv beta iota zeta in H.
    apply bind_ok_inv in H. destruct H as [[vs work'] [_ H]]. cbv beta iota zeta in H.
    inversion H. reflexivity.
  Qed.

  Section Bounded.
    Variable d : decl.
    Variable cb : string -> N.       (* strict upper bound of the local of that name *)

    Definition lbounded (l : list (string * N)) : Prop :=
      forall k v, assoc k l = Some v -> v < cb k.

    Lemma lbounded_cons k v l : v < cb k -> lbounded l -> lbounded ((k, v) :: l).
    Proof.
      intros Hv Hl k' v' H. cbn [assoc] in H. destruct (String.eqb k' k) eqn:Ek.
      - apply String.eqb_eq in Ek. subst. inversion H; subst. exact Hv.
      - apply Hl. exact H.
    Qed.

    Definition local_name (fd : fdesc) : option string :=
      match fd with
      | Scalar id _ | Flag id _ | Typedef id _ => Some id
      | Size fid _ => Some (size_ident fid)
      | ElementSize fid _ => Some (esize_ident fid)
      | Count fid _ => Some (count_ident fid)
      | _ => None
      end.

    (** the value a bit-field binds is below the bound of its local *)
    Definition bound_ok (f : field) : bool :=
      match field_size sch d f with
      | Some (SStatic w) =>
          match integer_width w, local_name (f_desc f) with
          | Some vtw, Some k => 2 ^ vtw <=? cb k
          | _, _ => true
          end
      | _ => true
      end.

    Definition no_cost (width : option N) (tid : option string) : bool :=
      match pe_cost width tid with None => true | Some _ => false end.

    (** the static side conditions of an array field *)
    Definition array_ok (id : string) (width : option N) (tid : option string)
               (size : option N) : bool :=
      match ew_of d id width tid with
      | Ok (EWStatic e) =>
          cost_ok width tid e &&
          match shape_of d id size with
          | ShStatic _ => true
          | ShCount cf => (cb cf * e <=? two64) || (negb oc && no_cost width tid)
          | ShSize _ | ShUnknown => negb (e =? 0)
          end
      | Ok EWUnknown => no_cost width tid
      | Ok (EWDynamic _) => false
      | _ => true
      end.

    Lemma array_ok_pre st id width tid size :
      lbounded (st_locals st) -> array_ok id width tid size = true ->
      array_pre d st id width tid size.
    Proof.
      intros Hl. unfold array_ok, array_pre, no_cost.
      destruct (ew_of d id width tid) as [[e|esf|]| | |]; try (intros; exact I); try discriminate.
      - intros H. apply andb_true_iff in H. destruct H as [Hc Hs]. split; [exact Hc|].
        destruct (shape_of d id size) as [n|cf|sf|]; try exact I.
        + intros n Hn. unfold local in Hn.
          destruct (assoc cf (st_locals st)) as [v|] eqn:Ea; [|discriminate].
          inversion Hn; subst v. apply Hl in Ea.
          apply orb_true_iff in Hs. destruct Hs as [Hs|Hs].
          * left. apply N.leb_le in Hs. destruct (N.eq_dec e 0) as [He|He].
            { subst e. rewrite N.mul_0_r. reflexivity. }
            apply N.lt_le_trans with (cb cf * e); [|exact Hs].
            apply N.mul_lt_mono_pos_r; lia.
          * right. apply andb_true_iff in Hs. destruct Hs as [Hoc Hn0].
            split; [destruct oc; [discriminate|reflexivity]|].
            destruct (pe_cost width tid); [discriminate|reflexivity].
        + apply N.eqb_neq. destruct (e =? 0); [discriminate|reflexivity].
        + apply N.eqb_neq. destruct (e =? 0); [discriminate|reflexivity].
      - intros H. destruct (pe_cost width tid); [discriminate|reflexivity].
    Qed.

    Definition arr_field (f : field) : bool :=
      match f_cond f with
      | Some _ => true
      | None =>
          if is_bitfield fl f then bound_ok f else
          match f_desc f with
          | Typedef _ tid => safe_typedef fl sch tid
          | Array id w t _ sz => array_ok id w t sz
          | _ => true
          end
      end.

    Lemma chunk_value_lt (single : bool) cv fshift width vtw ctw :
      cv < 2 ^ ctw ->
      (if vtw <? ctw
       then (if negb single && (width <? vtw)
             then N.land (N.shiftr cv fshift) (N.ones width) else N.shiftr cv fshift) mod 2 ^ vtw
       else (if negb single && (width <? vtw)
             then N.land (N.shiftr cv fshift) (N.ones width) else N.shiftr cv fshift)) < 2 ^ vtw.
    Proof.
      intros Hcv. destruct (vtw <? ctw) eqn:Ev.
      - apply N.mod_lt, N.pow_nonzero. lia.
      - apply N.ltb_ge in Ev.
        assert (H0 : N.shiftr cv fshift <= cv).
        { rewrite N.shiftr_div_pow2. pose proof (N.pow_nonzero 2 fshift) as Hp.
          apply N.div_le_upper_bound; [lia|]. nia. }
        assert (Hp : 2 ^ ctw <= 2 ^ vtw) by (apply N.pow_le_mono_r; lia).
        destruct (negb single && (width <? vtw)); [|lia].
        rewrite land_ones_mod.
        pose proof (N.mod_le (N.shiftr cv fshift) (2 ^ width) (N.pow_nonzero 2 width ltac:(lia))). lia.
    Qed.

    Lemma chunk_field_bounded single cv ctw size st sf st' :
      cv < 2 ^ ctw -> bound_ok (snd sf) = true -> lbounded (st_locals st) ->
      chunk_field fl sch single cv ctw size st d sf = Ok st' -> lbounded (st_locals st').
    Proof.
      unfold chunk_field, bound_ok. destruct sf as [fshift f]. cbn [snd]. intros Hcv Hb Hl H.
      destruct (field_size sch d f) as [[w| |]|]; try discriminate.
      destruct (integer_width w) as [vtw|]; [|discriminate].
      pose proof (chunk_value_lt single cv fshift w vtw ctw Hcv) as Hv.
      cbv zeta in H.
      match type of Hv with ?t < _ => set (v := t) in * end. clearbody v.
      destruct (f_desc f); cbn [local_name] in Hb; ok_inv;
        cbn [st_locals add_val add_local]; try exact Hl;
        (apply lbounded_cons; [apply N.leb_le in Hb; lia|exact Hl]).
    Qed.

    Lemma chunk_fields_bounded single cv ctw size cs : forall st st',
      cv < 2 ^ ctw -> forallb (fun sf => bound_ok (snd sf)) cs = true ->
      lbounded (st_locals st) ->
      chunk_fields fl sch single cv ctw size st d cs = Ok st' -> lbounded (st_locals st').
    Proof.
      induction cs as [|c cs IH]; intros st st' Hcv Hb Hl H; cbn [chunk_fields] in H.
      - inversion H; subst. exact Hl.
      - cbn [forallb] in Hb. apply andb_true_iff in Hb. destruct Hb as [Hc Hb].
        apply bind_ok_inv in H. destruct H as [st1 [H1 H]].
        apply (IH st1 st' Hcv Hb); [|exact H].
        apply (chunk_field_bounded _ _ _ _ _ _ _ Hcv Hc Hl H1).
    Qed.

    Theorem dec_fields_arrays_nrp : forall fs st chunk shift,
      forallb arr_field fs = true ->
      forallb (fun sf => bound_ok (snd sf)) chunk = true ->
      lbounded (st_locals st) ->
      no_rt_panic (dec_fields oc fl sch rec lf d fs st chunk shift).
    Proof.
      induction fs as [|f fs IH]; intros st chunk shift Hb Hch Hl; cbn [dec_fields]; [exact I|].
      cbn [forallb] in Hb. apply andb_true_iff in Hb. destruct Hb as [Hf Hb].
      unfold arr_field in Hf.
      destruct (f_cond f) as [c|].
      { apply nrp_bind; [apply optional_nrp; exact rec_ok|]. intros st' Hst.
        apply IH; try assumption. rewrite (optional_locals _ _ _ _ Hst). exact Hl. }
      destruct (is_bitfield fl f).
      - destruct (field_size sch d f) as [[w| |]|] eqn:Efs; try reflexivity.
        assert (Hch' : forallb (fun sf => bound_ok (snd sf)) (chunk ++ [(shift, f)]) = true).
        { rewrite forallb_app, Hch. cbn [forallb snd]. rewrite Hf. reflexivity. }
        destruct ((shift + w) mod 8 =? 0) eqn:Em; [|apply IH; assumption].
        apply N.eqb_eq in Em.
        chk u Hu.
        destruct (integer_width (shift + w)) as [ctw|] eqn:Ectw; [|reflexivity].
        destruct (is_single_reserved _).
        + destruct (advance_after_check _ _ Hu) as [sp' Hsp]. rewrite Hsp. cbn [bind].
          apply IH; [exact Hb|reflexivity|exact Hl].
        + destruct (get_uint_after_check (E fl) (shift + w) (st_span st) Hu) as [[cv sp'] Hg].
          rewrite Hg. cbn [bind].
          apply nrp_bind; [apply safe_nrp, chunk_fields_safe|]. intros st' Hst.
          apply IH; [exact Hb|reflexivity|].
          refine (chunk_fields_bounded _ cv ctw _ _ (set_span st sp') st'
                    (get_uint_lt _ _ _ _ _ _ Hg Em Ectw) Hch' _ Hst).
          exact Hl.
      - destruct (f_desc f); try reflexivity.
        + apply IH; assumption.
        + apply nrp_bind; [apply payload_nrp|]. intros st' Hst.
          apply IH; try assumption. rewrite (payload_locals _ _ _ _ _ Hst). exact Hl.
        + apply nrp_bind; [apply payload_nrp|]. intros st' Hst.
          apply IH; try assumption. rewrite (payload_locals _ _ _ _ _ Hst). exact Hl.
        + apply nrp_bind; [apply add_array_field_nrp, array_ok_pre; assumption|]. intros st' Hst.
          apply IH; try assumption. rewrite (array_locals _ _ _ _ _ _ _ _ Hst). exact Hl.
        + apply nrp_bind; [apply typedef_nrp; assumption|]. intros st' Hst.
          apply IH; try assumption. rewrite (typedef_locals _ _ _ _ _ Hst). exact Hl.
    Qed.
  End Bounded.
End Arr.

(** ** Whole files *)

(** A bound for the local [k] of declaration [d]: the widest backing integer among the
    fields that bind a local of that name (a later binding shadows an earlier one). *)
Definition cb_of (fl : file) (sch : schema) (d : decl) (k : string) : N :=
  fold_right
    (fun f acc =>
       match field_size sch d f, local_name (f_desc f) with
       | Some (SStatic w), Some k' =>
           if String.eqb k k'
           then match integer_width w with Some vtw => N.max (2 ^ vtw) acc | None => acc end
           else acc
       | _, _ => acc
       end) 0 (decl_fields d).

Definition arr_decl (oc : bool) (fl : file) (sch : schema) (d : decl) : bool :=
  forallb (arr_field oc fl sch d (cb_of fl sch d)) (decl_fields d).

(** every declaration reachable by name satisfies the array side conditions *)
Definition arrays_file (oc : bool) (fl : file) (sch : schema) : Prop :=
  forall t d, lookup_decl fl t = Some d -> arr_decl oc fl sch d = true.

Definition arrays_fileb (oc : bool) (fl : file) (sch : schema) : bool :=
  forallb (arr_decl oc fl sch) (f_decls fl).

Lemma arrays_fileb_sound oc fl sch : arrays_fileb oc fl sch = true -> arrays_file oc fl sch.
Proof.
  unfold arrays_fileb, arrays_file, lookup_decl. intros H t d Hl.
  apply find_some in Hl. destruct Hl as [Hin _]. apply in_rev in Hin.
  rewrite forallb_forall in H. apply (H d Hin).
Qed.

Lemma lbounded_nil cb : lbounded cb [].
Proof. intros k v H. discriminate H. Qed.

Lemma decode_partial_arrays_nrp oc fl sch rec lf d p pobj :
  (forall t sp, no_rt_panic (rec t sp)) ->
  arr_decl oc fl sch d = true ->
  no_rt_panic (decode_partial oc fl sch rec lf d p pobj).
Proof.
  intros Hrec Hd. unfold decode_partial.
  apply nrp_bind.
  { generalize (decl_constraints d). intros cs. induction cs as [|c cs IH]; [exact I|].
    destruct (get_num _ _ _ _ _); [|reflexivity].
    destruct (constraint_N _ _ _); [|reflexivity].
    match goal with |- context [if ?c then _ else _] => destruct c end; [exact IH|exact I]. }
  intros _ _.
  destruct (decl_payload p); [|exact I].
  destruct (obj_payload pobj) as [buf|]; [|reflexivity].
  apply nrp_bind.
  { apply (dec_fields_arrays_nrp oc fl sch rec lf Hrec d (cb_of fl sch d));
      [exact Hd|reflexivity|apply lbounded_nil]. }
  intros st _.
  destruct (st_span st); [|exact I].
  apply nrp_bind; [apply safe_nrp, payload_entry_safe|]. intros; exact I.
Qed.

Theorem rust_dec_decl_arrays_nrp oc fl sch :
  arrays_file oc fl sch ->
  forall fuel t d bs, lookup_decl fl t = Some d ->
                      no_rt_panic (rust_dec_decl fuel oc fl sch d bs).
Proof.
  intros Hfile. induction fuel as [|fuel IH]; intros t d bs Hl; [exact I|].
  cbn [rust_dec_decl].
  assert (Hrec : forall t' sp, no_rt_panic (rec_of (rust_dec_decl fuel oc fl sch) fl t' sp)).
  { apply rec_of_nrp. intros t' d' sp Hl'. apply (IH t' d' sp Hl'). }
  destruct (get_parent fl d) as [p|] eqn:Ep.
  - unfold get_parent in Ep. destruct (decl_parent_id d) as [pid|]; [|discriminate].
    apply nrp_bind; [apply (IH pid p bs Ep)|]. intros [pv trailing] _.
    destruct pv; try reflexivity.
    apply nrp_bind; [apply decode_partial_arrays_nrp; [exact Hrec | apply (Hfile t d Hl)]|].
    intros; exact I.
  - apply nrp_bind.
    { apply (dec_fields_arrays_nrp oc fl sch _ fuel Hrec d (cb_of fl sch d));
        [apply (Hfile t d Hl)|reflexivity|apply lbounded_nil]. }
    intros st _. apply nrp_bind; [apply safe_nrp, payload_entry_safe|]. intros; exact I.
Qed.

(** The emitted decoder of a file whose arrays satisfy the static side conditions never
    panics at run time: for every input, fuel and declaration. *)
Theorem rust_decode_arrays_nrp fuel oc fl sch id bs :
  arrays_file oc fl sch -> no_rt_panic (rust_decode fuel oc fl sch id bs).
Proof.
  intros Hfile. unfold rust_decode.
  destruct (lookup_decl fl id) as [d|] eqn:El; [|reflexivity].
  destruct d; try reflexivity; try (eapply rust_dec_decl_arrays_nrp; eassumption).
  match goal with |- no_rt_panic (match ?w with Some _ => _ | None => _ end) => destruct w as [w'|] end;
    [|reflexivity].
  destruct (len bs <? w' / 8) eqn:Hlen; [exact I|].
  destruct (get_uint_after_check (f_endian fl) _ _ Hlen) as [[x sp'] Hg]. rewrite Hg. exact I.
Qed.

(** the array-free class of DecodeSafe.v is included: [cb_of] bounds every bit-field *)
Lemma cb_of_ge fl sch d f w vtw k :
  In f (decl_fields d) -> field_size sch d f = Some (SStatic w) ->
  integer_width w = Some vtw -> local_name (f_desc f) = Some k ->
  2 ^ vtw <= cb_of fl sch d k.
Proof.
  unfold cb_of. generalize (decl_fields d) as l.
  induction l as [|g l IH]; intros Hin Hfs Hiw Hln; [destruct Hin|].
  destruct Hin as [->|Hin]; cbn [fold_right].
  - rewrite Hfs, Hln, String.eqb_refl, Hiw. apply N.le_max_l.
  - specialize (IH Hin Hfs Hiw Hln).
    destruct (field_size sch d g) as [[w'| |]|]; try exact IH.
    destruct (local_name (f_desc g)) as [k'|]; try exact IH.
    destruct (String.eqb k k'); try exact IH.
    destruct (integer_width w'); try exact IH. lia.
Qed.

Lemma bound_ok_cb_of fl sch d f :
  In f (decl_fields d) -> bound_ok sch d (cb_of fl sch d) f = true.
Proof.
  intros Hin. unfold bound_ok.
  destruct (field_size sch d f) as [[w| |]|] eqn:Efs; try reflexivity.
  destruct (integer_width w) as [vtw|] eqn:Eiw; try reflexivity.
  destruct (local_name (f_desc f)) as [k|] eqn:Eln; try reflexivity.
  apply N.leb_le. apply (cb_of_ge fl sch d f w vtw k Hin Efs Eiw Eln).
Qed.

Theorem simple_file_arrays oc fl sch : simple_file fl sch -> arrays_file oc fl sch.
Proof.
  intros H t d Hl. specialize (H t d Hl). unfold arr_decl.
  rewrite forallb_forall in H. apply forallb_forall. intros f Hin. specialize (H f Hin).
  unfold simple_field in H. unfold arr_field. destruct (f_cond f); [reflexivity|].
  destruct (is_bitfield fl f); [apply bound_ok_cb_of; exact Hin|].
  destruct (f_desc f); try reflexivity; try exact H. discriminate H.
Qed.

Print Assumptions add_array_field_nrp.
Print Assumptions dec_fields_arrays_nrp.
Print Assumptions rust_dec_decl_arrays_nrp.
Print Assumptions rust_decode_arrays_nrp.
Print Assumptions arrays_fileb_sound.
Print Assumptions simple_file_arrays.

(** ** Non-vacuity: scalar arrays with a static count, a [_size_] field, a [_count_]
    field, a padded one, a struct array and an enum array satisfy the predicate, in
    both overflow modes (decided by computation) *)
Definition ex_file : file :=
  let e := DEnum "E" [TagValue "A" 1; TagValue "B" 2] 8 in
  let s := DStruct "S" [] [mkField (Scalar "x" 16) None] None in
  let p := DPacket "P" []
             [mkField (Array "a" (Some 16) None None (Some 3)) None;
              mkField (Size "b" 8) None; mkField (Array "b" (Some 8) None None None) None;
              mkField (Count "c" 8) None; mkField (Array "c" (Some 32) None None None) None;
              mkField (Array "s" None (Some "S") None (Some 2)) None;
              mkField (Size "p" 8) None; mkField (Array "p" (Some 16) None None None) None;
              mkField (Padding 8) None;
              mkField (Array "t" None (Some "E") None None) None] None in
  mkFile LittleEndian [e; s; p].

Example arrays_hypothesis_is_satisfiable :
  match mk_schema ex_file with
  | Some sch => arrays_file true ex_file sch /\ arrays_file false ex_file sch
  | None => False
  end.
Proof.
  destruct (mk_schema ex_file) as [sch|] eqn:Es.
  - match type of Es with ?m = _ => let v := eval vm_compute in m in change m with v in Es end.
    inversion Es.
    split; apply arrays_fileb_sound; vm_compute; reflexivity.
  - vm_compute in Es. discriminate.
Qed.

(** the decoder of that file on a well-formed input *)
Example ex_file_decodes :
  match mk_schema ex_file with
  | Some sch =>
      rust_decode 10 true ex_file sch "P"
        [x01;x00;x02;x00;x03;x00; x02;x0a;x0b; x01;x01;x02;x03;x04; x05;x00;x06;x00;
         x02;x07;x00; x00;x00;x00;x00;x00; x01;x02]
      = Ok (VObj [("a", VList [VNum 1; VNum 2; VNum 3]); ("b", VList [VNum 10; VNum 11]);
                  ("c", VList [VNum 67305985]);
                  ("s", VList [VObj [("x", VNum 5)]; VObj [("x", VNum 6)]]);
                  ("p", VList [VNum 7]); ("t", VList [VNum 2])], [])
  | None => False
  end.
Proof. vm_compute. reflexivity. Qed.

(** ** The excluded cases are real: witnesses *)

(** a 64-bit [_count_] of 64-bit elements: with overflow checks the product panics; WITHOUT
    (release profile) it wraps to 0, [check_size] passes, and the first unguarded element
    read runs off the buffer *)
Definition wit_count : file :=
  mkFile LittleEndian
    [DPacket "P" [] [mkField (Count "a" 64) None;
                     mkField (Array "a" (Some 64) None None None) None] None].

Example count_times_width_refuted :
  match mk_schema wit_count with
  | Some sch =>
      arrays_fileb true wit_count sch = false /\ arrays_fileb false wit_count sch = false /\
      rust_decode 10 true wit_count sch "P" [x00;x00;x00;x00;x00;x00;x00;x20]
      = Panic ArithOverflow /\
      rust_decode 10 false wit_count sch "P" [x00;x00;x00;x00;x00;x00;x00;x20]
      = Panic BufUnderflow
  | None => False
  end.
Proof. vm_compute. repeat split; reflexivity. Qed.

(** a 32-bit count of the same elements is inside the proved class *)
Example count32_accepted :
  let fl := mkFile LittleEndian
              [DPacket "P" [] [mkField (Count "a" 32) None;
                               mkField (Array "a" (Some 64) None None None) None] None] in
  match mk_schema fl with
  | Some sch => arrays_fileb true fl sch = true /\ arrays_fileb false fl sch = true
  | None => False
  end.
Proof. vm_compute. split; reflexivity. Qed.

(** element width 0 (an empty struct) with an unknown shape: [% 0] *)
Example zero_width_refuted :
  let fl := mkFile LittleEndian
              [DStruct "Z" [] [] None;
               DPacket "P" [] [mkField (Array "x" None (Some "Z") None None) None] None] in
  match mk_schema fl with
  | Some sch => arrays_fileb false fl sch = false /\
                rust_decode 10 false fl sch "P" [] = Panic DivZero
  | None => False
  end.
Proof. vm_compute. split; reflexivity. Qed.

(** an [_elementsize_] field whose value is 0 *)
Example element_size_zero_refuted :
  let fl := mkFile LittleEndian
              [DStruct "T" [] [mkField (Size "v" 8) None;
                               mkField (Array "v" (Some 8) None None None) None] None;
               DPacket "P" [] [mkField (ElementSize "x" 8) None;
                               mkField (Array "x" None (Some "T") None None) None] None] in
  match mk_schema fl with
  | Some sch => arrays_fileb false fl sch = false /\
                rust_decode 10 false fl sch "P" [x00] = Panic DivZero
  | None => False
  end.
Proof. vm_compute. split; reflexivity. Qed.
