(** C02 / C04 beyond the bit-field fragment: count and size fields and the arrays of
    scalar elements they delimit, and arrays of scalars with a static count.

    (1) The emitted DECODER, run on the reference encoding of a value followed by any
        other bytes [tl], returns exactly the value's data fields (scalars, enum values
        AND the arrays, in declaration order) and [tl] as the remainder -- or the
        generator refused.
    (2) Composed with [rust_encode_array_fragment]: decode (encode v ++ tl) = (v, tl).

    Compared with [RoundTrip.dec_fields_reference] the induction also tracks the locals
    of the emitted function ([x_count], [x_size], and one local per scalar): an ABSTRACT
    environment [env] lists, most recent first, the names bound by the fields already
    parsed; a name bound by a count / size field carries a tag saying which array it
    measures.  [realizes] says that the run-time locals hold, under each tagged name that
    is visible in [env], the number the reference derives from the value.  [wf_fields]
    is the purely syntactic side condition: when an array delimited by a count / size
    field is reached, its local is visible (bound before the array, and not shadowed by
    a later local of the same name -- the emitted Rust shadows silently, see the
    counter-example at the end of the file). *)
From Coq Require Import NArith ZArith List String Bool Lia ZifyN ZifyBool.
From Coq Require Import Strings.Byte.
From PDL Require Import Base.Bits Base.Outcome Lang.Ast Lang.Sexp Analyzer.Schema Analyzer.Passes Rust.Enum
     Sem.RefEncode Rust.Encode Rust.Decode Proofs.Pack Proofs.BitfieldEncode Proofs.EnumExact
     Proofs.AnalyzerEnum Proofs.SchemaEnums Proofs.RoundTrip Proofs.RoundTripReal Proofs.ArrayEncode.
Import ListNotations.
Open Scope N_scope.

Ltac Zify.zify_post_hook ::= Z.div_mod_to_equations.

(** ** Abstract environment of locals *)

(** (true, x) : the count of array x; (false, x) : its size in octets *)
Definition ltag := (bool * string)%type.

Definition binder (f : field) : list (string * option ltag) :=
  match f_desc f with
  | Scalar id _ | Typedef id _ => [(id, None)]
  | Count fid _ => [(count_ident fid, Some (true, fid))]
  | Size fid _ => [(size_ident fid, Some (false, fid))]
  | _ => []
  end.

Definition push_env (its : list item) (env : list (string * option ltag)) : list (string * option ltag) :=
  fold_left (fun e (it : item) => (binder (fst (fst it)) ++ e)%list) its env.

(** the local that [chunk_field] binds for an item *)
Definition item_local (it : item) : list (string * N) :=
  match f_desc (fst (fst it)) with
  | Scalar id _ | Typedef id _ => [(id, snd (fst it))]
  | Count fid _ => [(count_ident fid, snd (fst it))]
  | Size fid _ => [(size_ident fid, snd (fst it))]
  | _ => []
  end.

Definition push_locals (its : list item) (L : list (string * N)) : list (string * N) :=
  fold_left (fun l (it : item) => (item_local it ++ l)%list) its L.

Lemma push_env_app a b env : push_env (a ++ b) env = push_env b (push_env a env).
Proof. unfold push_env. apply fold_left_app. Qed.

Lemma push_locals_app a b L : push_locals (a ++ b) L = push_locals b (push_locals a L).
Proof. unfold push_locals. apply fold_left_app. Qed.

Definition env_has (env : list (string * option ltag)) (k : string) (t : ltag) : bool :=
  match assoc k env with
  | Some (Some (b, s)) => Bool.eqb b (fst t) && String.eqb s (snd t)
  | _ => false
  end.

Lemma env_has_spec env k t : env_has env k t = true -> assoc k env = Some (Some t).
Proof.
  unfold env_has. destruct (assoc k env) as [[[b s]|]|]; try discriminate.
  destruct t as [b' s']. cbn [fst snd]. intros H. apply andb_prop in H. destruct H as [Hb Hs].
  apply Bool.eqb_prop in Hb. apply String.eqb_eq in Hs. subst. reflexivity.
Qed.

(** ** Elements *)

Lemma len_map {A B} (f : A -> B) l : len (map f l) = len l.
Proof. unfold len. now rewrite map_length. Qed.

Lemma len_app {A} (a b : list A) : len (a ++ b) = len a + len b.
Proof. unfold len. rewrite app_length. lia. Qed.

Lemma len_app_ge' (a b : list byte) n : List.length a = n -> (len (a ++ b) <? N.of_nat n) = false.
Proof. intros <-. unfold len. rewrite app_length. lia. Qed.

Lemma len_concat_bytes e k ns :
  len (List.concat (map (bytes_E e k) ns)) = len ns * N.of_nat k.
Proof.
  induction ns as [|n ns IH]; [reflexivity|].
  cbn [map List.concat]. rewrite len_app, IH, len_cons. unfold len. rewrite bytes_E_length. lia.
Qed.

Section Loop.
  Variable fl : file.
  Variable rec : string -> list byte -> dres (value * list byte).

  (** [for _ in 0..n] over scalar elements, on the concatenation of [n] element encodings *)
  Lemma loop_count_scalars ew :
    ew mod 8 = 0 ->
    forall ns lf acc tl,
      Forall (fun n => n < 2 ^ ew) ns ->
      (List.length ns <= lf)%nat ->
      loop_count (parse_element fl rec (Some ew) None) lf (len ns)
                 (List.concat (map (bytes_E (f_endian fl) (nbytes ew)) ns) ++ tl)%list acc
      = Ok ((rev acc ++ map VNum ns)%list, tl).
  Proof.
    intros E8. induction ns as [|n ns IH]; intros lf acc tl Hns Hlf.
    - cbn [map List.concat app]. destruct lf; cbn [loop_count len List.length N.of_nat N.eqb];
        now rewrite app_nil_r.
    - inversion Hns as [|? ? Hn Hns']; subst.
      destruct lf as [|lf]; [cbn in Hlf; lia|].
      cbn [loop_count].
      assert (Hne : (len (n :: ns) =? 0) = false) by (rewrite len_cons; lia).
      rewrite Hne.
      cbn [map List.concat]. rewrite <- app_assoc.
      set (k := nbytes ew).
      assert (Hk : N.of_nat k = ew / 8) by apply nbytes_N.
      assert (Hlen : List.length (bytes_E (f_endian fl) k n) = k) by apply bytes_E_length.
      assert (Hb : n < 256 ^ N.of_nat k) by (unfold k; rewrite pow256_nbytes by exact E8; exact Hn).
      assert (Hpe : forall rest,
                 parse_element fl rec (Some ew) None (bytes_E (f_endian fl) k n ++ rest)%list
                 = Ok (VNum n, rest)).
      { intros rest. unfold parse_element, get_uint, Decode.E.
        rewrite <- Hk, (len_app_ge' _ _ k Hlen). cbn [bind].
        rewrite Nat2N.id, (skipn_exact _ _ k Hlen), (firstn_exact _ _ k Hlen).
        rewrite (of_E_bytes_E _ _ _ Hb). reflexivity. }
      rewrite Hpe. cbn [bind]. subst k.
      assert (Hm : len (n :: ns) - 1 = len ns) by (rewrite len_cons; lia).
      rewrite Hm.
      rewrite (IH lf (VNum n :: acc) tl Hns') by (cbn in Hlf; lia).
      cbn [rev]. rewrite <- app_assoc. reflexivity.
  Qed.
End Loop.

Section RoundTripArrays.
  Variable oc : bool.
  Variable fl : file.
  Variable sch : schema.
  Variable rec : string -> list byte -> dres (value * list byte).
  Variable lf : nat.
  Variable d : decl.
  Variable refrec : string -> value -> option (list seg).
  Variable all_fields : list field.
  Variable obj : list (string * value).
  Variable payload : list seg.

  Hypothesis Hsch : schema_knows_enums fl sch.
  Hypothesis Henum : enums_exact fl.
  (** enough loop fuel for every array of the value *)
  Hypothesis Hfuel : forall id vs, assoc id obj = Some (VList vs) -> (List.length vs <= lf)%nat.

  Notation RF := (ref_enc_fields fl refrec d all_fields [] obj payload).

  (** *** The class of fields *)

  Definition ca_field (f : field) : bool :=
    ar_field fl d f &&
    match f_desc f with
    | Padding _ => false
    | Array id (Some ew) None _ sz =>
        match sz with
        | Some n =>
            (* the array the reference looks up by name has the same count: true when
               names are unique *)
            match array_field d id with
            | Some af => match f_desc af with Array _ _ _ _ (Some n') => n' =? n | _ => false end
            | None => false
            end
        | None =>
            match decl_array_size d id with
            | Some g => match f_desc g with Size _ _ => 0 <? ew | _ => true end
            | None => false
            end
        end
    | Array _ _ _ _ _ => false
    | _ => true
    end.

  (** the local of the count / size field of an array is visible when the array is reached *)
  Fixpoint wf_fields (env : list (string * option ltag)) (fs : list field) : bool :=
    match fs with
    | [] => true
    | f :: rest =>
        match f_desc f with
        | Array id _ _ _ None =>
            match decl_array_size d id with
            | Some g =>
                match f_desc g with
                | Count _ _ => env_has env (count_ident id) (true, id)
                | Size _ _ => env_has env (size_ident id) (false, id)
                | _ => false
                end
            | None => false
            end
        | _ => true
        end && wf_fields (binder f ++ env) rest
    end.

  (** *** What the reference derives for a tagged local *)

  Definition tagval (t : ltag) : option N :=
    match assoc (snd t) obj with
    | Some (VList vs) =>
        if fst t then Some (len vs)
        else match array_field d (snd t) with
             | Some af => match arr_width fl af with
                          | Some ew => Some (len vs * (ew / 8))
                          | None => None
                          end
             | None => None
             end
    | _ => None
    end.

  Definition realizes (L : list (string * N)) (env : list (string * option ltag)) : Prop :=
    forall k t v, assoc k env = Some (Some t) -> tagval t = Some v -> assoc k L = Some v.

  Definition chunk_check' (f : field) (v : N) : Prop :=
    match f_desc f with
    | Count fid _ => tagval (true, fid) = Some v
    | Size fid _ => tagval (false, fid) = Some v
    | _ => chunk_check fl f v
    end.

  Definition item_ok' (it : item) : Prop :=
    let '(f, v, w) := it in
    v < 2 ^ w /\ field_size sch d f = Some (SStatic w) /\ chunk_check' f v.

  Lemma items_group_ok' its : Forall item_ok' its -> group_ok (vw its).
  Proof.
    unfold group_ok, vw. intros H. rewrite Forall_map. eapply Forall_impl; [|exact H].
    intros [[f v] w] [Hv _]. exact Hv.
  Qed.

  Lemma realizes_item L env f v w :
    realizes L env -> item_ok' (f, v, w) ->
    realizes (item_local (f, v, w) ++ L)%list (binder f ++ env)%list.
  Proof.
    intros HR [_ [_ Hck]]. unfold item_local, binder, chunk_check' in *. cbn [fst snd].
    destruct (f_desc f); cbn [app]; try exact HR.
    - (* Size *) intros k t x Ha Ht. cbn [assoc] in *.
      destruct (String.eqb k (size_ident field_id)).
      + inversion Ha; subst t. rewrite Hck in Ht. exact Ht.
      + apply (HR k t x Ha Ht).
    - (* Count *) intros k t x Ha Ht. cbn [assoc] in *.
      destruct (String.eqb k (count_ident field_id)).
      + inversion Ha; subst t. rewrite Hck in Ht. exact Ht.
      + apply (HR k t x Ha Ht).
    - (* Scalar *) intros k t x Ha Ht. cbn [assoc] in *.
      destruct (String.eqb k id); [discriminate|]. apply (HR k t x Ha Ht).
    - (* Typedef *) intros k t x Ha Ht. cbn [assoc] in *.
      destruct (String.eqb k id); [discriminate|]. apply (HR k t x Ha Ht).
  Qed.

  Lemma realizes_push : forall its L env,
    realizes L env -> Forall item_ok' its -> realizes (push_locals its L) (push_env its env).
  Proof.
    induction its as [|[[f v] w] its IH]; intros L env HR Hits; [exact HR|].
    inversion Hits as [|? ? Hit Hits']; subst.
    unfold push_locals, push_env. cbn [fold_left fst snd].
    apply IH; [|exact Hits']. apply (realizes_item L env f v w HR Hit).
  Qed.

  (** *** One completed chunk: values AND locals *)

  Definition step_ok (st st' : dstate) (its : list item) : Prop :=
    same_but_vals st st' (item_vals its) /\ st_locals st' = push_locals its (st_locals st).

  Lemma chunk_field_item' pre f v w post single ctw size st :
    Forall item_ok' pre -> item_ok' (f, v, w) -> Forall item_ok' post ->
    gbits (pre ++ (f, v, w) :: post) <= ctw ->
    (single = true -> pre = [] /\ post = []) ->
    gooddec (chunk_field fl sch single (gsum (pre ++ (f, v, w) :: post)) ctw size st d (gbits pre, f))
            (fun st' => step_ok st st' [(f, v, w)]).
  Proof.
    intros Hpre [Hv [Hfs Hck]] Hpost Hcw Hsingle.
    unfold chunk_field. rewrite Hfs.
    destruct (integer_width w) as [vtw|] eqn:Etw; [|exact I].
    destruct (integer_width_bounds _ _ Etw) as [Hle _].
    unfold gsum, gbits in *. rewrite vw_app in *. cbn [vw map fst snd] in *.
    fold (vw pre) in *. fold (vw post) in *.
    assert (Hs' : single = true -> vw pre = [] /\ vw post = []).
    { intros Hs. destruct (Hsingle Hs) as [-> ->]. split; reflexivity. }
    pose proof (read_back (vw pre) v w (vw post) single vtw ctw
                          (items_group_ok' _ Hpre) Hv (items_group_ok' _ Hpost) Hle Hcw Hs') as Hrb.
    cbv zeta. rewrite Hrb. clear Hrb.
    unfold step_ok, item_vals, same_but_vals, push_locals, item_local. cbn [flat_map fold_left fst snd app].
    unfold chunk_check', chunk_check in Hck.
    destruct (f_desc f) eqn:Ed; try contradiction; cbn [gooddec].
    - (* Size *) cbn. rewrite ?app_nil_r. repeat split; reflexivity.
    - (* Count *) cbn. rewrite ?app_nil_r. repeat split; reflexivity.
    - (* FixedScalar *) subst value. rewrite N.eqb_refl. cbn. rewrite ?app_nil_r. repeat split; reflexivity.
    - (* FixedEnum *)
      destruct Hck as (tags & ew & Het & Htv). rewrite Het, Htv, N.eqb_refl. cbn.
      rewrite ?app_nil_r. repeat split; reflexivity.
    - (* Reserved *) cbn. rewrite ?app_nil_r. repeat split; reflexivity.
    - (* Scalar *) cbn. rewrite ?app_nil_r. repeat split; reflexivity.
    - (* Typedef *) rewrite Hck. cbn [bind gooddec]. cbn. rewrite ?app_nil_r. repeat split; reflexivity.
  Qed.

  Lemma chunk_fields_items' single ctw size : forall post pre st,
    Forall item_ok' pre -> Forall item_ok' post ->
    gbits (pre ++ post) <= ctw ->
    (single = true -> exists it, (pre ++ post)%list = [it]) ->
    gooddec (chunk_fields fl sch single (gsum (pre ++ post)) ctw size st d (chunk_of post (gbits pre)))
            (fun st' => step_ok st st' post).
  Proof.
    induction post as [|[[f v] w] post IH]; intros pre st Hpre Hpost Hcw Hsingle.
    - cbn. unfold step_ok, same_but_vals. cbn. now rewrite app_nil_r.
    - inversion Hpost as [|? ? Hit Hpost']; subst.
      cbn [chunk_of chunk_fields].
      eapply gooddec_bind.
      + apply (chunk_field_item' pre f v w post single ctw size st Hpre Hit Hpost' Hcw).
        intros Hs. destruct (Hsingle Hs) as [it Hone].
        destruct pre as [|p0 pre]; [|destruct pre; discriminate].
        split; [reflexivity|]. cbn [app] in Hone. inversion Hone. reflexivity.
      + intros st1 [[Hsp [Hvals Hpl]] Hloc].
        assert (Hgb : gbits pre + w = gbits (pre ++ [(f, v, w)])).
        { unfold gbits. rewrite vw_app, group_bits_app. cbn. lia. }
        cbv beta.
        change ((f, v, w) :: post) with ([(f, v, w)] ++ post)%list in Hcw, Hsingle |- *.
        rewrite app_assoc in Hcw, Hsingle. rewrite (app_assoc pre), Hgb.
        assert (Hpre' : Forall item_ok' (pre ++ [(f, v, w)])).
        { apply Forall_app. split; [exact Hpre | constructor; [exact Hit | constructor]]. }
        specialize (IH (pre ++ [(f, v, w)])%list st1 Hpre' Hpost' Hcw Hsingle).
        eapply gooddec_impl; [exact IH|]. intros st2 [[Hsp2 [Hvals2 Hpl2]] Hloc2].
        unfold step_ok, same_but_vals.
        rewrite Hsp2, Hvals2, Hpl2, Hsp, Hvals, Hpl, Hloc2, Hloc.
        rewrite item_vals_app, push_locals_app, app_assoc. repeat split; reflexivity.
  Qed.

  (** *** What the decoder records, read from the value *)

  Definition vals_of' (fs : list field) : list (string * value) :=
    flat_map (fun f =>
                match f_desc f with
                | Scalar id _ | Typedef id _ =>
                    match assoc id obj with Some (VNum n) => [(id, VNum n)] | _ => [] end
                | Array id _ _ _ _ =>
                    match assoc id obj with Some (VList vs) => [(id, VList vs)] | _ => [] end
                | _ => []
                end) fs.

  Lemma vals_of'_cons f rest : vals_of' (f :: rest) = (vals_of' [f] ++ vals_of' rest)%list.
  Proof. unfold vals_of'. cbn [flat_map]. rewrite app_nil_r. reflexivity. Qed.

  Lemma ca_ar f : ca_field f = true -> ar_field fl d f = true.
  Proof. unfold ca_field. intros H. apply andb_prop in H. tauto. Qed.

  (** what the reference derives for the size field of an array of the class *)
  Lemma ref_size_val fid af ew ebs :
    array_field d fid = Some af -> arr_width fl af = Some ew ->
    ref_array_elems fl refrec d obj fid = Some ebs ->
    exists vs, assoc fid obj = Some (VList vs) /\ seg_len (List.concat ebs) = len vs * (ew / 8).
  Proof.
    intros Eaf Ewa Era. unfold ref_array_elems in Era. rewrite Eaf in Era.
    destruct (assoc fid obj) as [[n| |vs|o]|] eqn:Ea; try discriminate.
    destruct (find_array_named fid _ af Eaf) as [w' [t' [m' [s' Hdaf]]]].
    rewrite Hdaf in Era.
    destruct (ref_enc_elems fl refrec w' t' vs) as [ebs0|] eqn:Ee; [|discriminate].
    assert (Hebs : ebs0 = ebs).
    { destruct s' as [k|]; [destruct (len vs =? k); [|discriminate]|]; inversion Era; reflexivity. }
    subst ebs0. exists vs. split; [reflexivity|].
    exact (proj2 (elems_agree fl refrec (fun _ _ => Ok []) (fun _ _ => None) af af fid w' t' m' s' ew
                              Hdaf Ewa Ewa vs ebs Ee)).
  Qed.

  (** a reference bit-field of the class is an item the decoder will accept *)
  Lemma ref_item' f v w :
    ca_field f = true -> is_bitfield fl f = true ->
    ref_bitfield fl refrec d all_fields [] obj payload f = Some (v, w) ->
    v < 2 ^ w ->
    item_ok' (f, v, w) /\ item_vals [(f, v, w)] = vals_of' [f].
  Proof.
    intros Hca Hbit Hrb Hv.
    pose proof (ca_ar f Hca) as Har. clear Hca.
    destruct (bf_field fl f) eqn:Hbf.
    - destruct (ref_item fl sch d refrec all_fields obj payload Hsch Henum f v w Hbf Hrb Hv)
        as [[_ [Hfs Hck]] Hvals].
      unfold bf_field in Hbf. destruct (f_cond f); [discriminate|].
      split.
      + split; [exact Hv|]. split; [exact Hfs|].
        unfold chunk_check'. destruct (f_desc f); try discriminate; exact Hck.
      + rewrite Hvals. unfold vals_of, vals_of'. cbn [flat_map].
        destruct (f_desc f); try discriminate; reflexivity.
    - unfold ar_field in Har. unfold bf_field in Hbf. unfold is_bitfield in Hbit.
      unfold item_ok', item_vals, vals_of', chunk_check', field_size. cbn [flat_map fst snd].
      unfold ref_bitfield in Hrb.
      destruct (f_cond f); [discriminate|].
      destruct (f_desc f) as [c|pn|sf sw|cf cw|ef ew'| |pm|fw fv|fe ft|rw|ai aw aty am asz|si sw|gi gu|ti tt|gg gc] eqn:Ed;
        try discriminate.
      + (* Size *)
        apply andb_prop in Har. destruct Har as [Har Haf].
        apply andb_prop in Har. destruct Har as [Har Hmod0].
        apply andb_prop in Har. destruct Har as [Hw64 Hnp].
        unfold not_payload_id in Hnp. apply negb_true_iff in Hnp. rewrite Hnp in Hrb.
        apply N.eqb_eq in Hmod0. rewrite Hmod0 in Hrb.
        destruct (ref_array_elems fl refrec d obj sf) as [ebs|] eqn:Era; [|discriminate].
        destruct (array_field d sf) as [af|] eqn:Eaf; [|discriminate].
        destruct (arr_width fl af) as [ew|] eqn:Ewa; [|discriminate].
        destruct (ref_size_val sf af ew ebs Eaf Ewa Era) as [vs [Ea Hlen]].
        rewrite Hlen, N.add_0_r in Hrb. inversion Hrb; subst.
        repeat split; try assumption.
        unfold tagval. cbn [fst snd]. rewrite Ea, Eaf, Ewa. reflexivity.
      + (* Count *)
        destruct (assoc cf obj) as [[n| |vs|o]|] eqn:Ea; try discriminate.
        inversion Hrb; subst.
        repeat split; try assumption.
        unfold tagval. cbn [fst snd]. rewrite Ea. reflexivity.
      + (* FixedEnum: in [bf_field] *)
        unfold is_enum in Har. rewrite Har in Hbf. discriminate.
      + (* Typedef: an enum, so in [bf_field] *)
        unfold is_enum in Har. rewrite Har in Hbf. discriminate.
  Qed.

  (** *** Arrays *)

  Lemma elems_nums af ai w t m s ew :
    f_desc af = Array ai w t m s -> arr_width fl af = Some ew ->
    forall vs ebs,
      ref_enc_elems fl refrec w t vs = Some ebs ->
      exists ns, vs = map VNum ns /\ Forall (fun n => n < 2 ^ ew) ns
                 /\ render (f_endian fl) (List.concat ebs)
                    = List.concat (map (bytes_E (f_endian fl) (nbytes ew)) ns).
  Proof.
    intros Haf Hwa. induction vs as [|v vs IH]; intros ebs Hr.
    - cbn [ref_enc_elems] in Hr. inversion Hr; subst. exists []. repeat split. constructor.
    - cbn [ref_enc_elems] in Hr.
      destruct (ref_enc_elem fl refrec w t v) as [segs|] eqn:Ee; [|discriminate].
      destruct (ref_enc_elems fl refrec w t vs) as [r|] eqn:Er; [|discriminate].
      inversion Hr; subst ebs. clear Hr.
      destruct (ref_elem_num fl refrec af ai w t m s ew v segs Haf Hwa Ee) as [n [-> [Hn ->]]].
      destruct (IH r eq_refl) as [ns [-> [Hns Hren]]].
      exists (n :: ns). split; [reflexivity|]. split; [constructor; assumption|].
      cbn [List.concat map app]. rewrite render_cons, render_int_seg, Hren. reflexivity.
  Qed.

  Lemma no_padding_next rest :
    forallb ca_field rest = true -> next_is_padding rest = None /\ next_padding rest = None.
  Proof.
    destruct rest as [|g rest]; [split; reflexivity|].
    cbn [forallb]. intros H. apply andb_prop in H. destruct H as [Hg _].
    unfold ca_field in Hg. apply andb_prop in Hg. destruct Hg as [_ Hg].
    unfold next_is_padding, next_padding. destruct (f_desc g); try discriminate; split; reflexivity.
  Qed.

  Lemma add_array_reference f id ew m sz st env ebs tl :
    f_desc f = Array id (Some ew) None m sz ->
    ca_field f = true ->
    wf_fields env [f] = true ->
    realizes (st_locals st) env ->
    ref_array_elems fl refrec d obj id = Some ebs ->
    st_span st = (render (f_endian fl) (List.concat ebs) ++ tl)%list ->
    len (st_span st) < two64 ->
    gooddec (add_array_field oc fl sch rec lf d st id (Some ew) None sz None)
            (fun st' => st_span st' = tl
                        /\ st_vals st' = (st_vals st ++ vals_of' [f])%list
                        /\ st_payload st' = st_payload st
                        /\ st_locals st' = st_locals st).
  Proof.
    intros Ed Hca Hwf HR Era Hspan H64.
    pose proof (ca_ar f Hca) as Har.
    unfold ca_field in Hca. apply andb_prop in Hca. destruct Hca as [_ Hca].
    unfold ar_field in Har. rewrite Ed in Hca, Har.
    destruct (f_cond f); [discriminate|].
    assert (Hwf' : arr_width fl f = Some ew) by (unfold arr_width; rewrite Ed; reflexivity).
    rewrite Hwf' in Har.
    pose proof Era as Era0.
    unfold ref_array_elems in Era.
    destruct (array_field d id) as [af|] eqn:Eaf; [|discriminate].
    destruct (arr_width fl af) as [ew0|] eqn:Ewa; [|discriminate].
    apply N.eqb_eq in Har. subst ew0.
    destruct (assoc id obj) as [[n0| |vs|o]|] eqn:Ea; try discriminate.
    destruct (find_array_named id _ af Eaf) as [w' [t' [m' [s' Hdaf]]]].
    rewrite Hdaf in Era, Hca.
    destruct (ref_enc_elems fl refrec w' t' vs) as [ebs0|] eqn:Ee; [|discriminate].
    destruct (elems_nums af id w' t' m' s' ew Hdaf Ewa vs ebs0 Ee) as [ns [Hvs [Hns Hren]]].
    assert (Hebs : ebs0 = ebs /\ (forall n, sz = Some n -> len ns = n)).
    { destruct sz as [n|].
      - destruct s' as [k|]; [|discriminate]. apply N.eqb_eq in Hca. subst k.
        destruct (len vs =? n) eqn:El; [|discriminate]. inversion Era; subst. split; [reflexivity|].
        intros n' Hn'. inversion Hn'; subst. rewrite len_map in El. lia.
      - split; [|intros; discriminate].
        destruct s' as [k|]; [destruct (len vs =? k); [|discriminate]|]; inversion Era; reflexivity. }
    destruct Hebs as [-> Hstatic].
    pose proof (Hfuel id vs Ea) as Hlf. rewrite Hvs, map_length in Hlf.
    rewrite Hren in Hspan.
    assert (Hlenenc : len (st_span st) = len ns * (ew / 8) + len tl).
    { rewrite Hspan, len_app, len_concat_bytes, nbytes_N. reflexivity. }
    unfold vals_of'. cbn [flat_map]. rewrite Ed, Ea, app_nil_r, Hvs.
    unfold add_array_field.
    destruct (ew mod 8 =? 0) eqn:E8; [|exact I]. apply N.eqb_eq in E8.
    pose proof (loop_count_scalars fl rec ew E8 ns lf [] tl Hns Hlf) as Hloop.
    cbn [rev app] in Hloop. rewrite <- Hspan in Hloop.
    cbn [bind].
    destruct sz as [n|].
    - (* static count *)
      specialize (Hstatic n eq_refl). subst n.
      unfold check_size.
      assert (Hcs : (len (st_span st) <? len ns * (ew / 8)) = false) by lia.
      rewrite Hcs. cbn [bind]. rewrite Hloop. cbn [bind gooddec].
      cbn [add_val set_span st_span st_vals st_payload st_locals]. repeat split; reflexivity.
    - cbn [wf_fields] in Hwf. rewrite Ed in Hwf.
      destruct (decl_array_size d id) as [g|] eqn:Eg; [|discriminate].
      destruct (f_desc g) eqn:Edg; try discriminate.
      + (* size field *)
        rewrite andb_true_r in Hwf. apply env_has_spec in Hwf.
        assert (Htv : tagval (false, id) = Some (len ns * (ew / 8))).
        { unfold tagval. cbn [fst snd]. rewrite Ea, Eaf, Ewa, Hvs, len_map. reflexivity. }
        unfold local. rewrite (HR _ _ _ Hwf Htv). cbn [bind].
        unfold check_size.
        assert (Hcs : (len (st_span st) <? len ns * (ew / 8)) = false) by lia.
        rewrite Hcs. cbn [bind].
        assert (Hcnt :
          (if ew / 8 =? 1 then Ok (len ns * (ew / 8))
           else if ew / 8 =? 0 then Panic DivZero
                else if (len ns * (ew / 8)) mod (ew / 8) =? 0
                     then Ok (len ns * (ew / 8) / (ew / 8)) else Err ArraySizeError)
          = (Ok (len ns) : dres N)).
        { assert (He : 0 < ew / 8) by lia.
          destruct (ew / 8 =? 1) eqn:E1; [f_equal; lia|].
          assert (E0 : (ew / 8 =? 0) = false) by lia. rewrite E0.
          rewrite N.mod_mul by lia. cbn [N.eqb]. rewrite N.div_mul by lia. reflexivity. }
        rewrite Hcnt. cbn [bind]. rewrite Hloop. cbn [bind gooddec].
        cbn [add_val set_span st_span st_vals st_payload st_locals]. repeat split; reflexivity.
      + (* count field *)
        rewrite andb_true_r in Hwf. apply env_has_spec in Hwf.
        assert (Htv : tagval (true, id) = Some (len ns)).
        { unfold tagval. cbn [fst snd]. rewrite Ea, Hvs, len_map. reflexivity. }
        unfold local. rewrite (HR _ _ _ Hwf Htv). cbn [bind].
        unfold umul.
        assert (Hmul : (len ns * (ew / 8) <? two64) = true) by lia.
        rewrite Hmul. cbn [bind].
        unfold check_size.
        assert (Hcs : (len (st_span st) <? len ns * (ew / 8)) = false) by lia.
        rewrite Hcs. cbn [bind]. rewrite Hloop. cbn [bind gooddec].
        cbn [add_val set_span st_span st_vals st_payload st_locals]. repeat split; reflexivity.
  Qed.

  (** *** The field list *)

  Lemma single_reserved_env (its : list item) env :
    is_single_reserved (chunk_of its 0) = true -> push_env its env = env.
  Proof.
    destruct its as [|[[f v] w] [|[[f2 v2] w2] r]]; cbn; intros H; try discriminate; try reflexivity.
    unfold binder. destruct (f_desc f); try discriminate; reflexivity.
  Qed.

  Lemma field_cases f :
    ca_field f = true ->
    is_bitfield fl f = true \/ exists id ew m sz, f_desc f = Array id (Some ew) None m sz.
  Proof.
    intros Hca. pose proof (ar_bitfield fl d f (ca_ar f Hca)) as Hbit.
    unfold ca_field in Hca. apply andb_prop in Hca. destruct Hca as [_ Hca].
    destruct (f_desc f) as [c|pn|sf sw|cf cw|ef ew'| |pm|fw fv|fe ft|rw|ai aw aty am asz|si sw|gi gu|ti tt|gg gc];
      try (left; exact Hbit); try discriminate.
    destruct aw as [ew|]; [|discriminate]. destruct aty; [discriminate|].
    right. repeat eexists.
  Qed.

  Theorem dec_fields_arrays_reference : forall fs its st tl ss env,
    forallb ca_field fs = true ->
    wf_fields (push_env its env) fs = true ->
    Forall item_ok' its -> pending_items its ->
    realizes (st_locals st) env ->
    RF fs (gsum its) (gbits its) = Some ss ->
    st_span st = (render (f_endian fl) ss ++ tl)%list ->
    len (st_span st) < two64 ->
    gooddec (dec_fields oc fl sch rec lf d fs st (chunk_of its 0) (gbits its))
            (fun st' => st_span st' = tl
                        /\ st_vals st' = (st_vals st ++ item_vals its ++ vals_of' fs)%list
                        /\ st_payload st' = st_payload st).
  Proof.
    induction fs as [|f rest IH]; intros its st tl ss env Hbf Hwf Hits Hpend HR Href Hspan H64.
    - cbn [ref_enc_fields] in Href. destruct (gbits its =? 0) eqn:E0; [|discriminate].
      inversion Href; subst ss. apply N.eqb_eq in E0.
      destruct Hpend as [-> | Hne]; [|rewrite E0 in Hne; exfalso; apply Hne; reflexivity].
      cbn. cbn in Hspan. repeat split; [exact Hspan | now rewrite app_nil_r].
    - cbn [forallb] in Hbf. apply andb_prop in Hbf. destruct Hbf as [Hf Hrest].
      assert (Hc : f_cond f = None).
      { pose proof (ca_ar f Hf) as Har. unfold ar_field in Har.
        destruct (f_cond f); [discriminate|reflexivity]. }
      cbn [wf_fields] in Hwf. apply andb_prop in Hwf. destruct Hwf as [Hwf1 Hwf2].
      destruct (field_cases f Hf) as [Hbit | (id & ew & m & sz & Ed)].
      + (* a bit-field *)
        cbn [ref_enc_fields dec_fields] in *. rewrite Hc, Hbit in *.
        destruct (ref_bitfield fl refrec d all_fields [] obj payload f) as [[v w]|] eqn:Erb; [|discriminate].
        destruct (v <? 2 ^ w) eqn:Ev; [|discriminate]. apply N.ltb_lt in Ev.
        destruct (ref_item' f v w Hf Hbit Erb Ev) as [Hit Hvals].
        assert (Hfs : field_size sch d f = Some (SStatic w)) by (destruct Hit as [_ [H _]]; exact H).
        rewrite Hfs.
        set (its' := (its ++ [(f, v, w)])%list).
        assert (Hits' : Forall item_ok' its').
        { apply Forall_app. split; [exact Hits | constructor; [exact Hit | constructor]]. }
        assert (Hgb : gbits its + w = gbits its').
        { unfold gbits, its'. rewrite vw_app, group_bits_app. cbn. lia. }
        assert (Hgs : gsum its + v * 2 ^ gbits its = gsum its').
        { unfold gsum, gbits, its'. rewrite vw_app, group_sum_app. cbn [vw map fst snd group_sum].
          rewrite N.add_0_l, N.add_0_r. reflexivity. }
        assert (Hch : (chunk_of its 0 ++ [(gbits its, f)])%list = chunk_of its' 0).
        { unfold its'. rewrite chunk_of_app. cbn [chunk_of]. now rewrite N.add_0_l. }
        assert (Hiv : (item_vals its ++ vals_of' (f :: rest))%list = (item_vals its' ++ vals_of' rest)%list).
        { unfold its'. rewrite item_vals_app, Hvals, <- app_assoc, <- vals_of'_cons. reflexivity. }
        assert (Henv : (binder f ++ push_env its env)%list = push_env its' env).
        { unfold its'. rewrite push_env_app. reflexivity. }
        rewrite Henv in Hwf2.
        rewrite Hgb, Hgs, Hch in *. rewrite Hiv.
        destruct (gbits its' mod 8 =? 0) eqn:Em.
        * (* the chunk completes *)
          apply N.eqb_eq in Em.
          destruct (RF rest 0 0) as [b|] eqn:Eb; [|discriminate].
          inversion Href; subst ss. clear Href.
          rewrite render_cons, render_int_seg, <- app_assoc in Hspan.
          set (n := nbytes (gbits its')) in *.
          assert (Hn : N.of_nat n = gbits its' / 8) by (unfold n, nbytes; apply N2Nat.id).
          assert (Hlen : List.length (bytes_E (f_endian fl) n (gsum its')) = n) by apply bytes_E_length.
          unfold check_size. rewrite Hspan, <- Hn, (len_app_ge' _ _ n Hlen). cbn [bind].
          destruct (integer_width (gbits its')) as [ctw|] eqn:Ectw; [|exact I].
          destruct (integer_width_bounds _ _ Ectw) as [Hcw _].
          assert (Hnil : Forall item_ok' ([] : list item)) by constructor.
          assert (Hrec : forall st1,
                     st_span st1 = (render (f_endian fl) b ++ tl)%list ->
                     st_vals st1 = (st_vals st ++ item_vals its')%list ->
                     st_payload st1 = st_payload st ->
                     realizes (st_locals st1) (push_env its' env) ->
                     gooddec (dec_fields oc fl sch rec lf d rest st1 [] 0)
                             (fun st' => st_span st' = tl
                                         /\ st_vals st' = (st_vals st ++ item_vals its' ++ vals_of' rest)%list
                                         /\ st_payload st' = st_payload st)).
          { intros st1 Hsp1 Hv1 Hp1 HR1.
            assert (H641 : len (st_span st1) < two64).
            { rewrite Hsp1. rewrite Hspan, len_app in H64. lia. }
            specialize (IH [] st1 tl b (push_env its' env) Hrest Hwf2 Hnil (or_introl eq_refl) HR1 Eb Hsp1 H641).
            cbn [chunk_of gbits vw map group_bits] in IH.
            eapply gooddec_impl; [exact IH|]. intros st2 [H1 [H2 H3]].
            rewrite H2, Hv1, H3, Hp1. cbn [item_vals flat_map app].
            rewrite <- app_assoc. repeat split; [exact H1]. }
          destruct (is_single_reserved (chunk_of its' 0)) eqn:Esr.
          -- unfold advance. rewrite (len_app_ge' _ _ n Hlen). cbn [bind].
             rewrite Nat2N.id, (skipn_exact _ _ n Hlen).
             apply Hrec; cbn [st_span st_vals st_payload st_locals set_span]; try reflexivity.
             ++ rewrite (single_reserved_vals its' Esr). now rewrite app_nil_r.
             ++ rewrite (single_reserved_env its' env Esr). exact HR.
          -- unfold get_uint, Decode.E. rewrite <- Hn, (len_app_ge' _ _ n Hlen). cbn [bind].
             rewrite Nat2N.id, (skipn_exact _ _ n Hlen), (firstn_exact _ _ n Hlen).
             assert (Hbound : gsum its' < 256 ^ N.of_nat n).
             { unfold n. rewrite pow256_nbytes by exact Em.
               destruct (group_sum_bound (vw its') 0 (items_group_ok' _ Hits')) as [Hb _].
               rewrite N.add_0_l in Hb. exact Hb. }
             rewrite (of_E_bytes_E _ _ _ Hbound).
             eapply gooddec_bind.
             ++ pose proof (chunk_fields_items'
                              (match chunk_of its' 0 with [_] => true | _ => false end)
                              ctw (N.of_nat n)
                              its' [] (set_span st (render (f_endian fl) b ++ tl)%list)
                              Hnil Hits') as Hcf.
                cbn [app] in Hcf. apply Hcf; [exact Hcw|]. apply single_one.
             ++ intros st1 [[Hsp1 [Hv1 Hp1]] Hl1]. cbn [st_span st_vals st_payload st_locals set_span] in *.
                apply Hrec; try assumption.
                rewrite Hl1. apply realizes_push; assumption.
        * (* the chunk goes on *)
          apply N.eqb_neq in Em.
          apply (IH its' st tl ss env Hrest Hwf2 Hits' (or_intror Em) HR Href Hspan H64).
      + (* an array *)
        assert (Hbit : is_bitfield fl f = false) by (unfold is_bitfield; rewrite Ed; reflexivity).
        cbn [ref_enc_fields dec_fields] in *. rewrite Hc, Hbit, Ed in *.
        destruct (gbits its =? 0) eqn:E0; [|discriminate]. apply N.eqb_eq in E0.
        assert (Hnil : its = []).
        { destruct Hpend as [-> | Hne]; [reflexivity|]. rewrite E0 in Hne. exfalso. apply Hne. reflexivity. }
        subst its. cbn [negb] in Href.
        destruct (no_padding_next rest Hrest) as [Hnp1 Hnp2]. rewrite Hnp1 in Href. rewrite Hnp2.
        destruct (ref_array_elems fl refrec d obj id) as [ebs|] eqn:Era; [|discriminate].
        cbv zeta in Href.
        destruct (match decl_element_size d id with Some _ => all_same_length ebs | None => true end);
          [|discriminate].
        destruct (RF rest 0 0) as [b|] eqn:Eb; [|discriminate].
        inversion Href; subst ss. clear Href.
        rewrite render_app, <- app_assoc in Hspan.
        assert (Hwf1' : wf_fields env [f] = true).
        { cbn [wf_fields]. rewrite andb_true_r, Ed. exact Hwf1. }
        eapply gooddec_bind.
        * apply (add_array_reference f id ew m sz st env ebs _ Ed Hf Hwf1' HR Era Hspan H64).
        * intros st1 [Hsp1 [Hv1 [Hp1 Hl1]]]. cbv beta.
          assert (H641 : len (st_span st1) < two64).
          { rewrite Hsp1. rewrite Hspan, len_app in H64. lia. }
          assert (Hb0 : (binder f ++ env)%list = env) by (unfold binder; rewrite Ed; reflexivity).
          cbn [push_env fold_left] in Hwf2. rewrite Hb0 in Hwf2.
          assert (HR1 : realizes (st_locals st1) env) by (rewrite Hl1; exact HR).
          specialize (IH [] st1 tl b env Hrest Hwf2 (Forall_nil _) (or_introl eq_refl) HR1 Eb Hsp1 H641).
          eapply gooddec_impl; [exact IH|]. intros st2 [H1 [H2 H3]].
          rewrite H2, Hv1, H3, Hp1. cbn [item_vals flat_map app].
          rewrite (vals_of'_cons f rest), <- app_assoc. repeat split; [exact H1].
  Qed.
End RoundTripArrays.

(** ** Whole declarations *)

Lemma class_no_payload fl d :
  forallb (ca_field fl d) (decl_fields d) = true -> decl_payload d = None.
Proof.
  intros Hbf. unfold decl_payload. apply find_none_all. intros f Hin.
  rewrite forallb_forall in Hbf. specialize (Hbf f Hin). apply ca_ar in Hbf.
  unfold ar_field in Hbf. unfold is_payload, is_payload_desc.
  destruct (f_cond f); [discriminate|]. destruct (f_desc f); try discriminate; reflexivity.
Qed.

(** the decoder on the reference bytes of a root declaration of the class *)
Theorem rust_dec_decl_arrays_reference fuel oc fl sch refrec d all_fields o payload ss tl :
  schema_knows_enums fl sch -> enums_exact fl ->
  (forall id vs, assoc id o = Some (VList vs) -> (List.length vs <= fuel)%nat) ->
  get_parent fl d = None ->
  forallb (ca_field fl d) (decl_fields d) = true ->
  wf_fields d [] (decl_fields d) = true ->
  ref_enc_fields fl refrec d all_fields [] o payload (decl_fields d) 0 0 = Some ss ->
  len (render (f_endian fl) ss ++ tl) < two64 ->
  gooddec (rust_dec_decl (S fuel) oc fl sch d (render (f_endian fl) ss ++ tl))
          (fun r => r = (VObj (vals_of' o (decl_fields d)), tl)).
Proof.
  intros Hsch Hen Hfuel Hpar Hbf Hwf Href H64.
  cbn [rust_dec_decl]. rewrite Hpar.
  assert (HR : realizes fl d o (st_locals (init_state (render (f_endian fl) ss ++ tl))) []).
  { intros k t v Ha. discriminate. }
  pose proof (dec_fields_arrays_reference oc fl sch (rec_of (rust_dec_decl fuel oc fl sch) fl) fuel d refrec
                                   all_fields o payload Hsch Hen Hfuel (decl_fields d) []
                                   (init_state (render (f_endian fl) ss ++ tl)) tl ss [] Hbf Hwf
                                   (Forall_nil _) (or_introl eq_refl) HR Href eq_refl H64) as H.
  cbn [chunk_of gbits vw map group_bits] in H.
  eapply gooddec_bind; [exact H|]. intros st [Hsp [Hv _]]. cbv beta.
  unfold payload_entry. rewrite (class_no_payload fl d Hbf). cbn [bind app gooddec].
  rewrite Hsp, Hv. reflexivity.
Qed.

Definition root_of_counted_fragment (fl : file) (d : decl) : Prop :=
  (exists id fs, d = DPacket id [] fs None \/ d = DStruct id [] fs None)
  /\ forallb (ca_field fl d) (decl_fields d) = true
  /\ wf_fields d [] (decl_fields d) = true.

Lemma root_of_counted_arrays fl d : root_of_counted_fragment fl d -> root_of_array_fragment fl d.
Proof.
  intros [Hd [Hbf _]]. split; [exact Hd|]. rewrite forallb_forall in *.
  intros f Hin. apply ca_ar. apply Hbf. exact Hin.
Qed.

(** a value of the generated Rust type: exactly the data fields, in declaration order *)
Definition canonical_obj' (o : list (string * value)) (fs : list field) : Prop := vals_of' o fs = o.

(** ENCODE THEN DECODE IS THE IDENTITY on root declarations whose fields are bit-fields,
    count / size fields of arrays and arrays of scalars (static count, or delimited by a
    count or size field that precedes them and is not shadowed): for every value the
    reference can encode, any bytes [tl] that follow (the whole buffer shorter than 2^64,
    as every buffer in memory is), both byte orders and overflow modes, and loop fuel
    covering the longest array. *)
Theorem rust_roundtrip_arrays fuel fuel' oc fl sch id d o bs tl :
  schema_knows_enums fl sch -> enums_exact fl ->
  lookup_decl fl id = Some d ->
  root_of_counted_fragment fl d ->
  canonical_obj' o (decl_fields d) ->
  (forall aid vs, assoc aid o = Some (VList vs) -> (List.length vs <= fuel')%nat) ->
  ref_encode (S fuel) fl id (VObj o) = Some bs ->
  len (bs ++ tl) < two64 ->
  match rust_encode (S fuel) fl sch id (VObj o) with
  | Ok bs' =>
      bs' = bs /\
      gooddec (rust_decode (S fuel') oc fl sch id (bs' ++ tl)) (fun r => r = (VObj o, tl))
  | Panic GenAssert => True
  | _ => False
  end.
Proof.
  intros Hsch Hen Hl Hroot Hcan Hfuel Href H64.
  pose proof (rust_encode_array_fragment fuel fl sch id d (VObj o) bs Hsch Hl
                                         (root_of_counted_arrays fl d Hroot) Href) as Henc.
  unfold good in Henc.
  destruct (rust_encode (S fuel) fl sch id (VObj o)) as [bs'| |k|]; try exact Henc.
  subst bs'. split; [reflexivity|].
  destruct Hroot as [[did [fs Hd]] [Hbf Hwf]].
  assert (Hpar : get_parent fl d = None) by (destruct Hd as [-> | ->]; reflexivity).
  assert (Hcs : iter_constraints fl d = []).
  { unfold iter_constraints. rewrite parents_self_root by exact Hpar.
    destruct Hd as [-> | ->]; reflexivity. }
  pose proof (class_no_payload fl d Hbf) as Hpl.
  unfold ref_encode, ref_segments in Href. rewrite Hl in Href.
  rewrite Hcs, Hpl in Href.
  assert (Hss : exists ss, ref_enc_decl (S fuel) fl d (iter_fields fl d) [] o [raw_seg []] = Some ss
                           /\ bs = render (f_endian fl) ss).
  { destruct Hd as [-> | ->].
    - destruct (obj_payload o) as [[|b0 pl]|]; try discriminate.
      cbn [option_map] in Href.
      destruct (ref_enc_decl (S fuel) fl (DPacket did [] fs None) (iter_fields fl (DPacket did [] fs None)) [] o [raw_seg []]) as [ss|] eqn:Es;
        [|discriminate].
      inversion Href; subst. exists ss. split; reflexivity.
    - destruct (obj_payload o) as [[|b0 pl]|]; try discriminate.
      cbn [option_map] in Href.
      destruct (ref_enc_decl (S fuel) fl (DStruct did [] fs None) (iter_fields fl (DStruct did [] fs None)) [] o [raw_seg []]) as [ss|] eqn:Es;
        [|discriminate].
      inversion Href; subst. exists ss. split; reflexivity. }
  destruct Hss as [ss [Hss ->]].
  cbn [ref_enc_decl] in Hss. rewrite Hpar in Hss.
  match type of Hss with
  | match ?x with _ => _ end = _ => destruct x as [ss'|] eqn:Ef; [|discriminate]
  end.
  inversion Hss; subst ss'. clear Hss.
  unfold rust_decode. rewrite Hl.
  pose proof (rust_dec_decl_arrays_reference fuel' oc fl sch _ d _ o _ ss tl Hsch Hen Hfuel Hpar Hbf Hwf Ef H64) as Hdec.
  unfold canonical_obj' in Hcan. rewrite Hcan in Hdec.
  destruct Hd as [-> | ->]; exact Hdec.
Qed.

(** the same for the schema [Schema::new] computes and enums the analyzer accepts *)
Theorem rust_roundtrip_arrays_real_schema fuel fuel' oc fl sch id d o bs tl :
  enum_widths_fit fl = true -> mk_schema fl = Some sch ->
  enums_accepted fl ->
  lookup_decl fl id = Some d ->
  root_of_counted_fragment fl d ->
  canonical_obj' o (decl_fields d) ->
  (forall aid vs, assoc aid o = Some (VList vs) -> (List.length vs <= fuel')%nat) ->
  ref_encode (S fuel) fl id (VObj o) = Some bs ->
  len (bs ++ tl) < two64 ->
  match rust_encode (S fuel) fl sch id (VObj o) with
  | Ok bs' =>
      bs' = bs /\
      gooddec (rust_decode (S fuel') oc fl sch id (bs' ++ tl)) (fun r => r = (VObj o, tl))
  | Panic GenAssert => True
  | _ => False
  end.
Proof.
  intros Hw Hs He. apply rust_roundtrip_arrays.
  - apply mk_schema_knows_enums; assumption.
  - apply accepted_enums_exact. exact He.
Qed.

(** ** Non-vacuity *)

(** a count field, the 16-bit array it counts, a trailing scalar *)
Definition cnt_file : file :=
  mkFile LittleEndian
    [DPacket "C" []
       [mkField (Count "x" 8) None;
        mkField (Array "x" (Some 16) None None None) None;
        mkField (Scalar "t" 8) None] None].

Definition cnt_obj : list (string * value) :=
  [("x", VList [VNum 258; VNum 772; VNum 5]); ("t", VNum 7)].

Example cnt_example_in_class :
  exists sch d,
    mk_schema cnt_file = Some sch /\ enum_widths_fit cnt_file = true /\
    lookup_decl cnt_file "C" = Some d /\ root_of_counted_fragment cnt_file d /\
    canonical_obj' cnt_obj (decl_fields d) /\
    ref_encode 5 cnt_file "C" (VObj cnt_obj) = Some [x03; x02; x01; x04; x03; x05; x00; x07] /\
    rust_encode 5 cnt_file sch "C" (VObj cnt_obj) = Ok [x03; x02; x01; x04; x03; x05; x00; x07] /\
    rust_decode 5 true cnt_file sch "C" [x03; x02; x01; x04; x03; x05; x00; x07; xaa; xbb]
      = Ok (VObj cnt_obj, [xaa; xbb]).
Proof.
  eexists. eexists. split; [vm_compute; reflexivity|]. split; [vm_compute; reflexivity|].
  split; [vm_compute; reflexivity|].
  split; [split; [eexists; eexists; left; reflexivity | split; vm_compute; reflexivity]|].
  split; [vm_compute; reflexivity|].
  split; [vm_compute; reflexivity|]. split; vm_compute; reflexivity.
Qed.

(** every kind of field of the class, big-endian, groups that straddle fields *)
Definition mix_file : file :=
  mkFile BigEndian
    [DEnum "E" [TagValue "A" 1; TagValue "B" 2] 8;
     DPacket "M" []
       [mkField (Scalar "a" 5) None; mkField (Count "x" 3) None;
        mkField (Size "y" 4) None; mkField (Reserved 4) None;
        mkField (Typedef "e" "E") None;
        mkField (Array "x" (Some 16) None None None) None;
        mkField (FixedScalar 8 9) None;
        mkField (Array "y" (Some 8) None None None) None;
        mkField (Array "z" (Some 24) None None (Some 2)) None;
        mkField (Scalar "t" 8) None] None].

Definition mix_obj : list (string * value) :=
  [("a", VNum 21); ("e", VNum 2); ("x", VList [VNum 258; VNum 772]); ("y", VList [VNum 1; VNum 2; VNum 3]);
   ("z", VList [VNum 66051; VNum 5]); ("t", VNum 7)].

Example mix_example_in_class :
  exists sch d bs,
    mk_schema mix_file = Some sch /\ enum_widths_fit mix_file = true /\
    lookup_decl mix_file "M" = Some d /\ root_of_counted_fragment mix_file d /\
    canonical_obj' mix_obj (decl_fields d) /\
    ref_encode 5 mix_file "M" (VObj mix_obj) = Some bs /\
    rust_encode 5 mix_file sch "M" (VObj mix_obj) = Ok bs /\
    rust_decode 5 false mix_file sch "M" (bs ++ [xaa; xbb]) = Ok (VObj mix_obj, [xaa; xbb]).
Proof.
  eexists. eexists. eexists. split; [vm_compute; reflexivity|]. split; [vm_compute; reflexivity|].
  split; [vm_compute; reflexivity|].
  split; [split; [eexists; eexists; left; reflexivity | split; vm_compute; reflexivity]|].
  split; [vm_compute; reflexivity|].
  split; [vm_compute; reflexivity|]. split; vm_compute; reflexivity.
Qed.

(** ** Why [wf_fields]: the statement is false without it *)

(** A scalar named like the count local of an array, declared between the count field
    and the array.  The emitted function binds [x_count] twice ([let x_count = .. as
    usize] for the count field, [let x_count = ..] for the scalar); the second shadows
    the first, and the array loop runs [x_count]-the-scalar times.  Every field is in
    the class; the reference encodes the value; the emitted decoder rejects the
    reference bytes, or returns another value and leaves bytes behind.
    (Observed on the real pdlc: the file is accepted and the emitted decode contains
    [let x_count = buf.get_u8() as usize; .. let x_count = buf.get_u8();
     if buf.remaining() < x_count * 2usize]; with the scalar's integer type the product
    [u8 * usize] is then a type error for rustc, so in practice the generated crate does
    not build.) *)
Definition shadow_file : file :=
  mkFile LittleEndian
    [DPacket "S" []
       [mkField (Count "x" 8) None;
        mkField (Scalar "x_count" 8) None;
        mkField (Array "x" (Some 16) None None None) None] None].

Example shadowed_count_counter_example :
  exists sch d,
    mk_schema shadow_file = Some sch /\ lookup_decl shadow_file "S" = Some d /\
    forallb (ca_field shadow_file d) (decl_fields d) = true /\
    wf_fields d [] (decl_fields d) = false /\
    (* the scalar larger than the count: the reference bytes are rejected *)
    ref_encode 5 shadow_file "S" (VObj [("x_count", VNum 2); ("x", VList [VNum 1])])
      = Some [x01; x02; x01; x00] /\
    rust_encode 5 shadow_file sch "S" (VObj [("x_count", VNum 2); ("x", VList [VNum 1])])
      = Ok [x01; x02; x01; x00] /\
    rust_decode 5 true shadow_file sch "S" [x01; x02; x01; x00] = Err LengthError /\
    (* the scalar smaller: another value, the element left in the remainder *)
    ref_encode 5 shadow_file "S" (VObj [("x_count", VNum 0); ("x", VList [VNum 1])])
      = Some [x01; x00; x01; x00] /\
    rust_decode 5 true shadow_file sch "S" [x01; x00; x01; x00]
      = Ok (VObj [("x_count", VNum 0); ("x", VList [])], [x01; x00]).
Proof.
  eexists. eexists. split; [vm_compute; reflexivity|]. split; [vm_compute; reflexivity|].
  repeat split; vm_compute; reflexivity.
Qed.

(** A count field declared AFTER its array: the emitted code uses [x_count] before it is
    bound (it does not compile); the reference has an encoding. *)
Definition late_file : file :=
  mkFile LittleEndian
    [DPacket "L" []
       [mkField (Array "x" (Some 8) None None None) None;
        mkField (Count "x" 8) None] None].

Example late_count_counter_example :
  exists sch d,
    mk_schema late_file = Some sch /\ lookup_decl late_file "L" = Some d /\
    forallb (ca_field late_file d) (decl_fields d) = true /\
    wf_fields d [] (decl_fields d) = false /\
    ref_encode 5 late_file "L" (VObj [("x", VList [VNum 1])]) = Some [x01; x01] /\
    rust_decode 5 true late_file sch "L" [x01; x01] = Panic GenTodo.
Proof.
  eexists. eexists. split; [vm_compute; reflexivity|]. split; [vm_compute; reflexivity|].
  repeat split; vm_compute; reflexivity.
Qed.

Print Assumptions loop_count_scalars.
Print Assumptions dec_fields_arrays_reference.
Print Assumptions rust_dec_decl_arrays_reference.
Print Assumptions rust_roundtrip_arrays.
Print Assumptions rust_roundtrip_arrays_real_schema.
Print Assumptions cnt_example_in_class.
Print Assumptions mix_example_in_class.
Print Assumptions shadowed_count_counter_example.
Print Assumptions late_count_counter_example.
