(** What acceptance by the analyzer model guarantees, and that the rule violations it
    looks for are found: per-pass characterisations of Passes.v. *)
From Coq Require Import NArith List String Bool Lia.
From PDL Require Import Base.Bits Lang.Ast Lang.Sexp Analyzer.Schema Analyzer.Desugar Analyzer.Passes Analyzer.Analyze.
Import ListNotations.
Open Scope N_scope.

Lemma mem_In s l : mem s l = true <-> In s l.
Proof.
  unfold mem. rewrite existsb_exists. split.
  - intros [x [Hx He]]. apply String.eqb_eq in He. now subst.
  - intros H. exists s. split; [exact H | apply String.eqb_refl].
Qed.

(** ** E1: Scope::new reports nothing iff declaration identifiers are pairwise distinct *)

Fixpoint decl_id_list (ds : list decl) : list string :=
  match ds with
  | [] => []
  | d :: rest => match decl_id d with Some i => i :: decl_id_list rest | None => decl_id_list rest end
  end.

Lemma scope_new_go_spec ds : forall seen,
  scope_new_go ds seen = [] <->
  (NoDup (decl_id_list ds) /\ forall i, In i (decl_id_list ds) -> ~ In i seen).
Proof.
  induction ds as [|d rest IH]; intros seen; cbn [scope_new_go decl_id_list].
  - split; [intros _; split; [constructor | intros i []] | reflexivity].
  - destruct (decl_id d) as [id|].
    + destruct (mem id seen) eqn:Em.
      * split; [discriminate|]. intros [_ H]. exfalso. apply (H id (or_introl eq_refl)). now apply mem_In.
      * cbn [app]. rewrite IH. split.
        -- intros [Hnd Hdis]. split.
           ++ constructor; [|exact Hnd]. intros Hin. apply (Hdis id Hin). left; reflexivity.
           ++ intros i [->|Hi]; [intros Hin; apply mem_In in Hin; congruence|].
              intros Hin. apply (Hdis i Hi). right; exact Hin.
        -- intros [Hnd Hdis]. inversion Hnd as [|? ? Hnotin Hnd']; subst. split; [exact Hnd'|].
           intros i Hi [<-|Hin]; [contradiction|]. apply (Hdis i (or_intror Hi) Hin).
    + apply IH.
Qed.

Theorem scope_new_nodup file : scope_new file = [] <-> NoDup (decl_id_list (f_decls file)).
Proof.
  unfold scope_new. rewrite scope_new_go_spec. split; [tauto|]. intros H; split; [exact H | intros i _ []].
Qed.

Theorem scope_new_detects file : ~ NoDup (decl_id_list (f_decls file)) -> In 1 (scope_new file).
Proof.
  intros Hn. destruct (scope_new file) as [|c cs] eqn:E.
  - exfalso. apply Hn. now apply scope_new_nodup.
  - (* every code pushed by Scope::new is 1 *)
    assert (Hall : forall ds seen x, In x (scope_new_go ds seen) -> x = 1).
    { induction ds as [|d rest IH]; intros seen x; cbn [scope_new_go]; [intros []|].
      destruct (decl_id d); [|apply IH]. intros Hin. apply in_app_or in Hin. destruct Hin as [Hin|Hin]; [|eapply IH; exact Hin].
      destruct (mem s seen); [destruct Hin as [<-|[]]; reflexivity | destruct Hin]. }
    unfold scope_new in E. rewrite <- E.
    assert (c = 1) by (apply (Hall (f_decls file) [] c); rewrite E; left; reflexivity).
    subst c. rewrite E. left; reflexivity.
Qed.

(** ** E11: field identifiers of one declaration *)

Fixpoint field_id_list (fs : list field) : list string :=
  match fs with
  | [] => []
  | f :: rest => match field_id f with Some i => i :: field_id_list rest | None => field_id_list rest end
  end.

Lemma check_field_identifiers_go_spec fs : forall scope,
  check_field_identifiers_go fs scope = [] <->
  (NoDup (field_id_list fs) /\ forall i, In i (field_id_list fs) -> ~ In i scope).
Proof.
  induction fs as [|f rest IH]; intros scope; cbn [check_field_identifiers_go field_id_list].
  - split; [intros _; split; [constructor | intros i []] | reflexivity].
  - destruct (field_id f) as [id|].
    + destruct (mem id scope) eqn:Em.
      * split; [discriminate|]. intros [_ H]. exfalso. apply (H id (or_introl eq_refl)). now apply mem_In.
      * cbn [app]. rewrite IH. split.
        -- intros [Hnd Hdis]. split.
           ++ constructor; [|exact Hnd]. intros Hin. apply (Hdis id Hin). left; reflexivity.
           ++ intros i [->|Hi]; [intros Hin; apply mem_In in Hin; congruence|].
              intros Hin. apply (Hdis i Hi). right; exact Hin.
        -- intros [Hnd Hdis]. inversion Hnd as [|? ? Hnotin Hnd']; subst. split; [exact Hnd'|].
           intros i Hi [<-|Hin]; [contradiction|]. apply (Hdis i (or_intror Hi) Hin).
    + apply IH.
Qed.

Lemma flat_map_nil {A B} (f : A -> list B) l : flat_map f l = [] <-> forall x, In x l -> f x = [].
Proof.
  induction l as [|a l IH]; cbn [flat_map]; [split; [intros _ x []|reflexivity]|].
  split.
  - intros H. apply app_eq_nil in H. destruct H as [Ha Hl]. intros x [<-|Hx]; [exact Ha | now apply IH].
  - intros H. rewrite (H a (or_introl eq_refl)). cbn. apply IH. intros x Hx. apply H. right; exact Hx.
Qed.

Theorem check_field_identifiers_nodup file :
  check_field_identifiers file = [] <->
  forall d, In d (f_decls file) -> NoDup (field_id_list (decl_fields d)).
Proof.
  unfold check_field_identifiers, per_decl. split.
  - intros H0 d Hd. pose proof (proj1 (flat_map_nil _ _) H0 d Hd) as H.
    apply check_field_identifiers_go_spec in H. tauto.
  - intros H. apply flat_map_nil. intros d Hd.
    apply check_field_identifiers_go_spec. split; [now apply H | intros i _ []].
Qed.

(** ** acceptance implies the passes were silent *)

Theorem accepted_implies file af sch :
  analyze_with_schema file = Accepted (af, sch) ->
  NoDup (decl_id_list (f_decls file))
  /\ exists sorted,
      check_decl_identifiers file = POk (inr sorted)
      /\ (forall d, In d (f_decls sorted) -> NoDup (field_id_list (decl_fields d)))
      /\ check_enum_declarations sorted = []
      /\ check_size_fields sorted = []
      /\ check_payload_fields sorted = []
      /\ check_array_fields sorted = []
      /\ check_padding_fields sorted = [].
Proof.
  unfold analyze_with_schema. intros H.
  destruct (scope_new file) eqn:E1; cbn [err_or abind] in H; [|discriminate].
  split; [now apply scope_new_nodup|].
  destruct (check_decl_identifiers file) as [[ds|sorted]|s]; cbn [abind] in H; try discriminate.
  exists sorted. split; [reflexivity|].
  destruct (scope_new sorted); cbn [abind] in H; [|discriminate].
  destruct (check_field_identifiers sorted) eqn:E2; cbn [err_or abind] in H; [|discriminate].
  destruct (check_enum_declarations sorted) eqn:E3; cbn [err_or abind] in H; [|discriminate].
  destruct (check_size_fields sorted) eqn:E4; cbn [err_or abind] in H; [|discriminate].
  destruct (check_fixed_fields sorted) eqn:E5; cbn [err_or abind] in H; [|discriminate].
  destruct (check_payload_fields sorted) eqn:E6; cbn [err_or abind] in H; [|discriminate].
  destruct (check_array_fields sorted) eqn:E7; cbn [err_or abind] in H; [|discriminate].
  destruct (check_padding_fields sorted) eqn:E8; cbn [err_or abind] in H; [|discriminate].
  split; [now apply check_field_identifiers_nodup|]. repeat split; reflexivity.
Qed.
