(** C04, the CONVERSE direction on the bit-field fragment (scalars, enum typedefs, fixed
    fields, reserved bits in any composition, root declarations).

    [Proofs/RoundTrip.v] shows: the emitted decoder, run on the reference bytes of a value,
    returns that value.  Here: whenever the emitted decoder ACCEPTS some bytes [bs] and
    returns [(VObj o, rest)],

    (1) [o] is canonical (exactly the data fields in declaration order) and the reference
        HAS an encoding [ss] of it: every scalar is below 2^width, every enum value is one
        the reference reads as a variant, fixed fields hold their constant;
    (2) that encoding and the remainder account for every input byte:
        [len (render ss) + len rest = len bs];
    (3) without reserved fields the input IS the reference encoding followed by the
        remainder: [render ss ++ rest = bs] -- the decoder accepts only reference
        encodings; with reserved fields (whose bits the decoder skips and the reference
        clears) decoding [render ss ++ tl] again returns [(VObj o, tl)]: canonical
        re-encoding is a fixpoint.

    The declared widths must add up to a whole number of octets (analyzer check E53): on
    [packet P { a : 4 }] the decoder model accepts every input and returns an object
    WITHOUT the field [a], for which the reference has no encoding ([unaligned_refuted]).

    The induction first extracts, independently of any object, the list of ITEMS (field,
    value, width) the decoder read ([dec_fields_items]) together with the segments a purely
    item-driven encoder [enc_items] produces; then [ref_enc_items] shows the reference
    encoder of any object that agrees with the recorded values is [enc_items]. *)
From Coq Require Import NArith ZArith List String Bool Lia ZifyN ZifyBool.
From Coq Require Import Strings.Byte.
From PDL Require Import Base.Bits Base.Outcome Lang.Ast Lang.Sexp Analyzer.Schema Analyzer.Passes Rust.Enum
     Sem.RefEncode Rust.Encode Rust.Decode Proofs.Pack Proofs.BitfieldEncode Proofs.EnumExact
     Proofs.AnalyzerEnum Proofs.StaticSize Proofs.RoundTrip Proofs.SchemaEnums Proofs.RoundTripReal.
Import ListNotations.
Open Scope N_scope.
Ltac Zify.zify_post_hook ::= Z.div_mod_to_equations.

(** ** What [chunk_field] computes is the [w]-bit field at [sh] *)

Lemma decode_extract cv sh w T vtw ctw (single : bool) :
  cv < 2 ^ T -> sh + w <= T -> w <= vtw -> T <= ctw ->
  (single = true -> sh = 0 /\ w = T /\ vtw = ctw) ->
  (if vtw <? ctw
   then (if negb single && (w <? vtw) then N.land (N.shiftr cv sh) (N.ones w) else N.shiftr cv sh) mod 2 ^ vtw
   else (if negb single && (w <? vtw) then N.land (N.shiftr cv sh) (N.ones w) else N.shiftr cv sh))
  = extract sh w cv.
Proof.
  intros Hcv Hsw Hwv HT Hsingle. unfold extract. rewrite !shiftr_div, !land_ones_mod.
  destruct single; cbn [negb andb].
  - destruct (Hsingle eq_refl) as (-> & -> & ->). rewrite N.ltb_irrefl.
    rewrite N.pow_0_r, N.div_1_r. symmetry. now apply N.mod_small.
  - destruct (w <? vtw) eqn:Ewt.
    + destruct (vtw <? ctw); [|reflexivity].
      apply N.mod_small. eapply N.lt_le_trans; [apply N.mod_lt; pose proof (pow2_pos w); lia|].
      apply pow2_le_mono. exact Hwv.
    + assert (w = vtw) by lia. subst vtw.
      destruct (w <? ctw) eqn:Ec; [reflexivity|].
      assert (sh = 0) by lia. assert (T = w) by lia. subst sh T.
      rewrite N.pow_0_r, N.div_1_r. symmetry. now apply N.mod_small.
Qed.

Lemma bytes_E_of_E e (bs : list byte) : bytes_E e (List.length bs) (of_E e bs) = bs.
Proof.
  destruct e; cbn [bytes_E of_E].
  - apply le_bytes_of_le.
  - unfold be_bytes, of_be. rewrite <- (rev_length bs), le_bytes_of_le. apply rev_involutive.
Qed.

Lemma of_E_lt e (bs : list byte) : of_E e bs < 256 ^ N.of_nat (List.length bs).
Proof.
  destruct e; cbn [of_E]; [apply of_le_lt|]. unfold of_be. rewrite <- (rev_length bs). apply of_le_lt.
Qed.

(** ** Pending chunk as (field, width) pairs; items read from a chunk value *)

Definition is_reserved (f : field) : bool :=
  match f_desc f with Reserved _ => true | _ => false end.

Definition nonres (f : field) : bool := negb (is_reserved f).

Definition fld (it : item) : field := fst (fst it).

Definition shape (its : list item) : list (field * N) := map (fun it : item => (fst (fst it), snd it)) its.

Fixpoint offs (fws : list (field * N)) (sh : N) : list (N * field) :=
  match fws with
  | [] => []
  | (f, w) :: r => (sh, f) :: offs r (sh + w)
  end.

Fixpoint bits (fws : list (field * N)) : N :=
  match fws with
  | [] => 0
  | (_, w) :: r => w + bits r
  end.

Lemma bits_app a b : bits (a ++ b) = bits a + bits b.
Proof. induction a as [|[f w] a IH]; cbn [app bits]; [reflexivity|]. rewrite IH. lia. Qed.

Lemma bits_snoc a f w : bits (a ++ [(f, w)]) = bits a + w.
Proof. rewrite bits_app. cbn [bits]. lia. Qed.

Lemma offs_app a b sh : offs (a ++ b) sh = (offs a sh ++ offs b (sh + bits a))%list.
Proof.
  revert sh. induction a as [|[f w] a IH]; intros sh; cbn [app offs bits].
  - now rewrite N.add_0_r.
  - rewrite IH, N.add_assoc. reflexivity.
Qed.

Lemma shape_app a b : shape (a ++ b) = (shape a ++ shape b)%list.
Proof. unfold shape. apply map_app. Qed.

Lemma gbits_shape its : gbits its = bits (shape its).
Proof.
  unfold gbits, vw, shape. induction its as [|[[f v] w] its IH]; cbn [map group_bits bits fst snd]; [reflexivity|].
  rewrite IH. reflexivity.
Qed.

Lemma shape_snoc its pre f w :
  shape its = (pre ++ [(f, w)])%list -> exists its0 v, its = (its0 ++ [(f, v, w)])%list /\ shape its0 = pre.
Proof.
  intros H. destruct (exists_last (l := its)) as [its0 [x ->]].
  - intros ->. cbn in H. destruct pre; discriminate.
  - rewrite shape_app in H. cbn [shape map] in H. apply app_inj_tail in H. destruct H as [H1 H2].
    destruct x as [[f' v] w']. cbn [fst snd] in H2. injection H2 as -> ->.
    exists its0, v. split; [reflexivity | exact H1].
Qed.

Lemma shape_nil its : shape its = [] -> its = [].
Proof. destruct its; [reflexivity | discriminate]. Qed.

Definition read_val (cv sh : N) (f : field) (w : N) : N :=
  if is_reserved f then 0 else extract sh w cv.

Fixpoint read_items (cv : N) (fws : list (field * N)) (sh : N) : list item :=
  match fws with
  | [] => []
  | (f, w) :: r => (f, read_val cv sh f w, w) :: read_items cv r (sh + w)
  end.

Lemma shape_read_items cv fws : forall sh, shape (read_items cv fws sh) = fws.
Proof.
  induction fws as [|[f w] r IH]; intros sh; cbn [read_items shape map fst snd]; [reflexivity|].
  f_equal. apply IH.
Qed.

Lemma read_items_app cv a b sh :
  read_items cv (a ++ b) sh = (read_items cv a sh ++ read_items cv b (sh + bits a))%list.
Proof.
  revert sh. induction a as [|[f w] a IH]; intros sh; cbn [app read_items bits].
  - now rewrite N.add_0_r.
  - rewrite IH, N.add_assoc. reflexivity.
Qed.

(** the fields of a chunk without reserved bits add up to the chunk value *)
Lemma read_items_sum cv : forall fws sh,
  forallb nonres (map fst fws) = true ->
  group_sum (vw (read_items cv fws sh)) sh = ((cv / 2 ^ sh) mod 2 ^ bits fws) * 2 ^ sh.
Proof.
  induction fws as [|[f w] r IH]; intros sh Hnr.
  - cbn [read_items vw map group_sum bits]. rewrite N.pow_0_r, N.mod_1_r. reflexivity.
  - cbn [map fst forallb] in Hnr. apply andb_prop in Hnr. destruct Hnr as [Hf Hr].
    cbn [read_items vw map fst snd group_sum bits]. fold (vw (read_items cv r (sh + w))).
    rewrite (IH (sh + w) Hr).
    unfold read_val. unfold nonres in Hf. destruct (is_reserved f); [discriminate|]. unfold extract.
    rewrite !N.pow_add_r. rewrite <- N.div_div by (apply N.pow_nonzero; lia).
    rewrite (N.mod_mul_r (cv / 2 ^ sh) (2 ^ w) (2 ^ bits r)) by (apply N.pow_nonzero; lia).
    ring.
Qed.

Lemma item_vals_ids its :
  map fst (item_vals its) =
  flat_map (fun f => match f_desc f with Scalar id _ | Typedef id _ => [id] | _ => [] end) (map fld its).
Proof.
  unfold item_vals. induction its as [|[[f v] w] its IH]; [reflexivity|].
  cbn [flat_map map fld fst snd]. rewrite map_app, IH. destruct (f_desc f); reflexivity.
Qed.

Lemma assoc_nodup {A} (l : list (string * A)) k v :
  NoDup (map fst l) -> In (k, v) l -> assoc k l = Some v.
Proof.
  induction l as [|[k' v'] l IH]; intros Hnd Hin; [contradiction|].
  cbn [map fst] in Hnd. inversion Hnd as [|? ? Hni Hnd']; subst.
  cbn [assoc]. destruct Hin as [E | Hin].
  - inversion E; subst. now rewrite String.eqb_refl.
  - destruct (String.eqb k k') eqn:Ek.
    + apply String.eqb_eq in Ek. subst k'. exfalso. apply Hni.
      change k with (fst (k, v)). apply in_map. exact Hin.
    + apply IH; assumption.
Qed.

(** the encoder driven by items alone (the reference encoder with the field values and
    widths already looked up) *)
Fixpoint enc_items (its : list item) (acc nb : N) : option (list seg) :=
  match its with
  | [] => if nb =? 0 then Some [] else None
  | (f, v, w) :: r =>
      if (nb + w) mod 8 =? 0 then
        match enc_items r 0 0 with
        | Some b => Some (int_seg (nbytes (nb + w)) (acc + v * 2 ^ nb) :: b)
        | None => None
        end
      else enc_items r (acc + v * 2 ^ nb) (nb + w)
  end.

(** the converse of [enums_exact]: an integer below 2^w that the emitted [TryFrom]
    accepts is one the reference reads as a variant *)
Definition enums_exact_conv (fl : file) : Prop :=
  forall tid i tags w x e',
    lookup_decl fl tid = Some (DEnum i tags w) ->
    x < 2 ^ w ->
    rust_enum_try_from tags w x = Some (TOk e') ->
    exists e, spec_enum_of_N tags w x = Some e.

Lemma accepted_enums_exact_conv fl :
  (forall tid i tags w,
      lookup_decl fl tid = Some (DEnum i tags w) ->
      check_enum_declaration (DEnum i tags w) = []
      /\ integer_width w <> None /\ enum_is_complete tags (scalar_max w) <> None) ->
  enums_exact_conv fl.
Proof.
  intros H tid i tags w x e' Hl Hx Htf.
  destruct (H tid i tags w Hl) as [Hacc [Hw Hc]].
  destruct (integer_width w) as [bw|] eqn:Ebw; [|contradiction].
  destruct (enum_is_complete tags (scalar_max w)) as [c|] eqn:Ec; [|contradiction].
  destruct (accepted_enum_is_wellformed i tags w Hacc) as [Hwf Hb].
  assert (Hxb : x < 2 ^ bw).
  { destruct (integer_width_bounds _ _ Ebw) as [Hle _].
    eapply N.lt_le_trans; [exact Hx | apply pow2_le_mono; exact Hle]. }
  pose proof (rust_try_from_exact tags w bw c x Hwf Hb Ebw Ec Hxb) as Hex.
  rewrite Htf in Hex. destruct (spec_enum_of_N tags w x) as [e|]; [eexists; reflexivity | discriminate].
Qed.

Section Converse.
  Variable oc : bool.
  Variable fl : file.
  Variable sch : schema.
  Variable rec : string -> list byte -> dres (value * list byte).
  Variable lf : nat.
  Variable d : decl.

  Hypothesis Hsch : schema_knows_enums fl sch.

  Definition fw_ok (fw : field * N) : Prop :=
    bf_field fl (fst fw) = true /\ field_size sch d (fst fw) = Some (SStatic (snd fw)).

  (** a reserved item carries the value the reference writes *)
  Definition res0 (it : item) : Prop := is_reserved (fst (fst it)) = true -> snd (fst it) = 0.

  Lemma chunk_field_conv single cv ctw size T sh f w st st' :
    fw_ok (f, w) -> cv < 2 ^ T -> sh + w <= T -> integer_width T = Some ctw ->
    (single = true -> sh = 0 /\ w = T) ->
    chunk_field fl sch single cv ctw size st d (sh, f) = Ok st' ->
    item_ok fl sch d (f, read_val cv sh f w, w)
    /\ same_but_vals st st' (item_vals [(f, read_val cv sh f w, w)]).
  Proof.
    intros [Hbf Hfs] Hcv Hsw Hctw Hsingle H. cbn [fst snd] in Hbf, Hfs.
    unfold chunk_field in H. rewrite Hfs in H.
    destruct (integer_width w) as [vtw|] eqn:Etw; [|discriminate].
    destruct (integer_width_bounds _ _ Etw) as [Hle _].
    destruct (integer_width_bounds _ _ Hctw) as [HT _].
    assert (Hs' : single = true -> sh = 0 /\ w = T /\ vtw = ctw).
    { intros Hs. destruct (Hsingle Hs) as [-> ->]. repeat split. rewrite Etw in Hctw. now inversion Hctw. }
    cbv zeta in H. rewrite (decode_extract cv sh w T vtw ctw single Hcv Hsw Hle HT Hs') in H.
    assert (Hlt : extract sh w cv < 2 ^ w).
    { unfold extract. apply N.mod_lt. pose proof (pow2_pos w). lia. }
    unfold item_ok, chunk_check, same_but_vals, item_vals, read_val, is_reserved.
    cbn [flat_map fst snd app].
    unfold bf_field in Hbf. destruct (f_cond f); [discriminate|].
    destruct (f_desc f) eqn:Ed; try discriminate.
    - (* FixedScalar *)
      destruct (extract sh w cv =? value) eqn:Ev; [|discriminate]. apply N.eqb_eq in Ev.
      inversion H; subst st'. rewrite app_nil_r. repeat split; assumption.
    - (* FixedEnum *)
      destruct (enum_tags fl enum_id) as [[tags ew]|] eqn:Eet; [|discriminate].
      destruct (enum_tag_value tags tag_id) as [tv|] eqn:Etv; [|discriminate].
      destruct (extract sh w cv =? tv) eqn:Ev; [|discriminate]. apply N.eqb_eq in Ev.
      inversion H; subst st'. rewrite app_nil_r. repeat split; try assumption.
      exists tags, ew. split; [reflexivity|]. rewrite Ev. exact Etv.
    - (* Reserved *)
      inversion H; subst st'. rewrite app_nil_r. pose proof (pow2_pos w). repeat split; try assumption; lia.
    - (* Scalar *)
      inversion H; subst st'. cbn [st_span st_vals st_payload add_val add_local].
      repeat split; assumption.
    - (* Typedef *)
      destruct (enum_check fl type_id (extract sh w cv)) as [[]| | |] eqn:Eck; cbn [bind] in H; try discriminate.
      inversion H; subst st'. cbn [st_span st_vals st_payload add_val add_local].
      repeat split; assumption.
  Qed.

  Lemma chunk_fields_conv single cv ctw size T : forall post sh st st',
    Forall fw_ok post -> cv < 2 ^ T -> sh + bits post <= T -> integer_width T = Some ctw ->
    (single = true -> (List.length post <= 1)%nat /\ forall f w, post = [(f, w)] -> sh = 0 /\ w = T) ->
    chunk_fields fl sch single cv ctw size st d (offs post sh) = Ok st' ->
    Forall (item_ok fl sch d) (read_items cv post sh)
    /\ same_but_vals st st' (item_vals (read_items cv post sh)).
  Proof.
    induction post as [|[f w] post IH]; intros sh st st' Hok Hcv Hsb Hctw Hsingle H.
    - cbn [offs chunk_fields] in H. inversion H; subst st'. cbn [read_items].
      split; [constructor|]. unfold same_but_vals, item_vals. cbn [flat_map]. rewrite app_nil_r.
      repeat split; reflexivity.
    - inversion Hok as [|? ? Hfw Hok']; subst. cbn [bits] in Hsb.
      cbn [offs chunk_fields] in H.
      destruct (chunk_field fl sch single cv ctw size st d (sh, f)) as [st1| | |] eqn:Ecf; cbn [bind] in H; try discriminate.
      assert (Hs1 : single = true -> sh = 0 /\ w = T).
      { intros Hs. destruct (Hsingle Hs) as [Hlen Hone].
        destruct post as [|p post]; [|cbn [List.length] in Hlen; lia]. apply (Hone f w eq_refl). }
      assert (Hsw : sh + w <= T) by lia.
      destruct (chunk_field_conv single cv ctw size T sh f w st st1 Hfw Hcv Hsw Hctw Hs1 Ecf) as [Hit [Hsp1 [Hv1 Hp1]]].
      assert (Hs2 : single = true ->
                    (List.length post <= 1)%nat /\ forall f0 w0, post = [(f0, w0)] -> sh + w = 0 /\ w0 = T).
      { intros Hs. destruct (Hsingle Hs) as [Hlen _].
        destruct post as [|p post]; [|cbn [List.length] in Hlen; lia].
        split; [cbn; lia|]. intros f0 w0 E. discriminate. }
      assert (Hsb' : sh + w + bits post <= T) by lia.
      destruct (IH (sh + w) st1 st' Hok' Hcv Hsb' Hctw Hs2 H) as [Hits [Hsp2 [Hv2 Hp2]]].
      cbn [read_items]. split; [constructor; assumption|].
      unfold same_but_vals. rewrite Hsp2, Hv2, Hp2, Hsp1, Hv1, Hp1.
      change ((f, read_val cv sh f w, w) :: read_items cv post (sh + w))
        with ([(f, read_val cv sh f w, w)] ++ read_items cv post (sh + w))%list.
      rewrite item_vals_app, app_assoc. repeat split; reflexivity.
  Qed.

  Lemma read_items_res0 cv : forall fws sh, Forall res0 (read_items cv fws sh).
  Proof.
    induction fws as [|[f w] r IH]; intros sh; cbn [read_items]; constructor; [|apply IH].
    unfold res0, read_val. cbn [fst snd]. intros ->. reflexivity.
  Qed.

  Lemma single_reserved_shape pre f w :
    is_single_reserved (offs (pre ++ [(f, w)]) 0) = true -> pre = [] /\ is_reserved f = true.
  Proof.
    destruct pre as [|[f1 w1] pre].
    - cbn [app offs is_single_reserved]. unfold is_reserved. intros H. split; [reflexivity|].
      destruct (f_desc f); try discriminate; reflexivity.
    - cbn [app offs]. destruct pre as [|[f2 w2] pre]; cbn [app offs is_single_reserved]; discriminate.
  Qed.

  Lemma single_shape pre f w :
    (match offs (pre ++ [(f, w)]) 0 with [_] => true | _ => false end) = true -> pre = [].
  Proof.
    destruct pre as [|[f1 w1] pre]; [reflexivity|].
    cbn [app offs]. destruct pre as [|[f2 w2] pre]; cbn [app offs]; discriminate.
  Qed.

  Lemma len_app (a b : list byte) : len (a ++ b) = len a + len b.
  Proof. unfold len. rewrite app_length. lia. Qed.

  Lemma render_cons_len s ss :
    len (render (f_endian fl) (s :: ss)) = len (render_seg (f_endian fl) s) + len (render (f_endian fl) ss).
  Proof. rewrite render_cons. apply len_app. Qed.

  (** The items the decoder read, for every run that succeeds. *)
  Theorem dec_fields_items : forall fs pre st st',
    forallb (bf_field fl) fs = true ->
    Forall fw_ok pre ->
    (pre = [] \/ bits pre mod 8 <> 0) ->
    (bits pre + frag_bits fl fs) mod 8 = 0 ->
    dec_fields oc fl sch rec lf d fs st (offs pre 0) (bits pre) = Ok st' ->
    exists ip ifs ss,
      shape ip = pre /\ map fld ifs = fs /\
      Forall (item_ok fl sch d) (ip ++ ifs) /\ Forall res0 (ip ++ ifs) /\
      enc_items ifs (gsum ip) (gbits ip) = Some ss /\
      st_vals st' = (st_vals st ++ item_vals (ip ++ ifs))%list /\
      len (render (f_endian fl) ss) + len (st_span st') = len (st_span st) /\
      (forallb nonres (map fst pre ++ fs) = true ->
       st_span st = (render (f_endian fl) ss ++ st_span st')%list).
  Proof.
    induction fs as [|f rest IH]; intros pre st st' Hbf Hpre Hpend Hal H.
    - cbn [dec_fields] in H. inversion H; subst st'. cbn [frag_bits] in Hal.
      assert (pre = []) by (destruct Hpend as [E | Hne]; [exact E | exfalso; apply Hne; lia]). subst pre.
      exists [], [], []. cbn [app shape map enc_items item_vals flat_map render List.concat].
      unfold gbits. cbn [vw map group_bits]. rewrite N.eqb_refl, app_nil_r.
      repeat split; try constructor.
    - cbn [forallb] in Hbf. apply andb_prop in Hbf. destruct Hbf as [Hf Hrest].
      pose proof (bf_is_bitfield fl f Hf) as Hbit.
      assert (Hc : f_cond f = None) by (unfold bf_field in Hf; destruct (f_cond f); [discriminate|reflexivity]).
      pose proof (field_size_fragment fl sch d Hsch f Hf) as Hfs.
      cbn [dec_fields] in H. rewrite Hc, Hbit, Hfs in H.
      cbn [frag_bits] in Hal.
      set (w := frag_width fl f) in *.
      set (P := (pre ++ [(f, w)])%list).
      assert (HP : Forall fw_ok P).
      { apply Forall_app. split; [exact Hpre|]. constructor; [|constructor]. split; assumption. }
      assert (HbP : bits pre + w = bits P) by (unfold P; now rewrite bits_snoc).
      assert (HoP : (offs pre 0 ++ [(bits pre, f)])%list = offs P 0).
      { unfold P. rewrite offs_app. cbn [offs]. now rewrite N.add_0_l. }
      rewrite HbP, HoP in H.
      assert (HalP : (bits P + frag_bits fl rest) mod 8 = 0) by (rewrite <- HbP; rewrite <- Hal; f_equal; lia).
      destruct (bits P mod 8 =? 0) eqn:Em.
      + (* the chunk completes *)
        apply N.eqb_eq in Em.
        destruct (check_size (st_span st) (bits P / 8)) as [u| | |] eqn:Ecs; cbn [bind] in H; try discriminate.
        unfold check_size in Ecs. destruct (len (st_span st) <? bits P / 8) eqn:El; [discriminate|]. clear Ecs.
        destruct (integer_width (bits P)) as [ctw|] eqn:Ectw; [|discriminate].
        assert (Halr : (bits [] + frag_bits fl rest) mod 8 = 0) by (cbn [bits]; lia).
        set (n := N.to_nat (bits P / 8)) in *.
        assert (Hn : N.of_nat n = bits P / 8) by (unfold n; apply N2Nat.id).
        assert (Hfl : List.length (firstn n (st_span st)) = n).
        { apply firstn_length_le. unfold len in El. lia. }
        assert (Hsplit : st_span st = (firstn n (st_span st) ++ skipn n (st_span st))%list)
          by (symmetry; apply firstn_skipn).
        assert (Hnb : nbytes (bits P) = n) by reflexivity.
        destruct (is_single_reserved (offs P 0)) eqn:Esr.
        * (* one reserved field filling whole octets: skipped *)
          destruct (single_reserved_shape pre f w Esr) as [-> Hres].
          unfold advance in H. rewrite El in H. cbn [bind] in H. fold n in H.
          destruct (IH [] (set_span st (skipn n (st_span st))) st' Hrest (Forall_nil _) (or_introl eq_refl) Halr H)
            as (ip & ifs & ss & Hsh & Hmap & Hok & Hr0 & Henc & Hv & Hlen & Hbytes).
          apply shape_nil in Hsh. subst ip. cbn [app] in Hok, Hr0, Hv.
          unfold gsum, gbits in Henc. cbn [vw map group_sum group_bits] in Henc.
          exists [], ((f, 0, w) :: ifs), (int_seg n 0 :: ss).
          cbn [app shape map fld fst snd]. cbn [st_span st_vals set_span] in *.
          assert (Hit : item_ok fl sch d (f, 0, w)).
          { unfold item_ok, chunk_check. unfold is_reserved in Hres.
            destruct (f_desc f); try discriminate. pose proof (pow2_pos w). repeat split; try assumption; lia. }
          split; [reflexivity|]. split; [now rewrite Hmap|].
          split; [constructor; assumption|].
          split; [constructor; [intros _; reflexivity | assumption]|].
          split.
          { unfold gsum, gbits. cbn [vw map group_sum group_bits enc_items].
            unfold P in Em, Hnb. cbn [app bits] in Em, Hnb. rewrite N.add_0_r in Em, Hnb.
            rewrite N.add_0_l, Em, N.eqb_refl, Henc, Hnb. rewrite N.mul_0_l, N.add_0_l. reflexivity. }
          split.
          { rewrite Hv. f_equal. unfold item_vals. cbn [flat_map fst snd].
            unfold is_reserved in Hres. destruct (f_desc f); try discriminate. reflexivity. }
          split.
          { rewrite render_cons_len, render_int_seg. unfold len at 1. rewrite bytes_E_length.
            clear - Hlen El Hn. unfold len in *. rewrite skipn_length in Hlen. lia. }
          intros Hnr. cbn [map app forallb] in Hnr. unfold nonres in Hnr at 1. rewrite Hres in Hnr. discriminate.
        * (* the chunk value is read and split *)
          unfold get_uint, Decode.E in H. rewrite El in H. cbn [bind] in H. fold n in H.
          set (cv := of_E (f_endian fl) (firstn n (st_span st))) in *.
          set (sp' := skipn n (st_span st)) in *.
          match type of H with
          | bind ?x _ = _ => destruct x as [st1| | |] eqn:Ech; cbn [bind] in H; try discriminate
          end.
          assert (Hcv : cv < 2 ^ bits P).
          { unfold cv. pose proof (of_E_lt (f_endian fl) (firstn n (st_span st))) as Hlt.
            rewrite Hfl in Hlt. rewrite <- (pow256_nbytes (bits P) Em). rewrite Hnb. exact Hlt. }
          assert (Hsingle : (match offs P 0 with [_] => true | _ => false end) = true ->
                            (List.length P <= 1)%nat /\ forall f0 w0, P = [(f0, w0)] -> 0 = 0 /\ w0 = bits P).
          { intros Hs. pose proof (single_shape pre f w Hs) as Epre. unfold P. rewrite Epre.
            cbn [app List.length bits].
            split; [lia|]. intros f0 w0 E. injection E as _ <-. split; [reflexivity | lia]. }
          assert (Hle0 : 0 + bits P <= bits P) by lia.
          destruct (chunk_fields_conv _ cv ctw (bits P / 8) (bits P) P 0 _ st1 HP Hcv Hle0 Ectw Hsingle Ech)
            as [Hits1 [Hsp1 [Hv1 Hp1]]].
          cbn [st_span st_vals st_payload set_span] in Hsp1, Hv1, Hp1.
          destruct (IH [] st1 st' Hrest (Forall_nil _) (or_introl eq_refl) Halr H)
            as (ip & ifs & ss & Hsh & Hmap & Hok & Hr0 & Henc & Hv & Hlen & Hbytes).
          apply shape_nil in Hsh. subst ip. cbn [app] in Hok, Hr0, Hv.
          unfold gsum, gbits in Henc. cbn [vw map group_sum group_bits] in Henc.
          cbn [map app] in Hbytes.
          assert (Hri : read_items cv P 0 =
                        (read_items cv pre 0 ++ [(f, read_val cv (bits pre) f w, w)])%list).
          { unfold P. rewrite read_items_app. cbn [read_items]. now rewrite N.add_0_l. }
          set (ip := read_items cv pre 0) in *.
          set (v := read_val cv (bits pre) f w) in *.
          assert (Hgbi : gbits ip = bits pre).
          { rewrite gbits_shape. unfold ip. now rewrite shape_read_items. }
          assert (Hgs : gsum ip + v * 2 ^ gbits ip = gsum (read_items cv P 0)).
          { rewrite Hri. unfold gsum, gbits. rewrite vw_app, group_sum_app. cbn [vw map fst snd group_sum].
            rewrite N.add_0_l, N.add_0_r. reflexivity. }
          exists ip, ((f, v, w) :: ifs), (int_seg n (gsum (read_items cv P 0)) :: ss).
          assert (Hall : (ip ++ (f, v, w) :: ifs)%list = (read_items cv P 0 ++ ifs)%list).
          { rewrite Hri, <- app_assoc. reflexivity. }
          rewrite Hall.
          split; [unfold ip; apply shape_read_items|].
          split; [cbn [map fld fst]; now rewrite Hmap|].
          split; [apply Forall_app; split; assumption|].
          split; [apply Forall_app; split; [apply read_items_res0 | assumption]|].
          split.
          { cbn [enc_items]. rewrite Hgbi, HbP, Em, N.eqb_refl, Henc, Hnb. rewrite <- Hgbi, Hgs. reflexivity. }
          split.
          { rewrite Hv, Hv1, item_vals_app, app_assoc. reflexivity. }
          split.
          { rewrite render_cons_len, render_int_seg. unfold len at 1. rewrite bytes_E_length.
            rewrite Hsp1 in Hlen. clear - Hlen El Hn. unfold sp', len in *. rewrite skipn_length in Hlen. lia. }
          intros Hnr.
          assert (HnrP : forallb nonres (map fst P) = true /\ forallb nonres rest = true).
          { unfold P. rewrite map_app. cbn [map fst]. rewrite forallb_app in Hnr |- *.
            apply andb_prop in Hnr. destruct Hnr as [H1 H2]. cbn [forallb] in H2 |- *.
            apply andb_prop in H2. destruct H2 as [H2 H3]. rewrite H1, H2, H3. split; reflexivity. }
          destruct HnrP as [HnrP Hnrr].
          rewrite render_cons, render_int_seg.
          pose proof (read_items_sum cv P 0 HnrP) as Hsum. fold (gsum (read_items cv P 0)) in Hsum.
          rewrite N.pow_0_r, N.div_1_r, N.mul_1_r, (N.mod_small _ _ Hcv) in Hsum.
          rewrite Hsum. unfold cv. rewrite <- Hfl at 1. rewrite bytes_E_of_E.
          rewrite <- app_assoc, <- (Hbytes Hnrr), Hsp1. exact Hsplit.
      + (* the chunk goes on *)
        apply N.eqb_neq in Em.
        destruct (IH P st st' Hrest HP (or_intror Em) HalP H)
          as (ip' & ifs & ss & Hsh & Hmap & Hok & Hr0 & Henc & Hv & Hlen & Hbytes).
        destruct (shape_snoc ip' pre f w Hsh) as (ip & v & -> & Hship).
        exists ip, ((f, v, w) :: ifs), ss.
        rewrite <- app_assoc in Hok, Hr0, Hv.
        assert (Hgbi : gbits ip = bits pre) by (rewrite gbits_shape, Hship; reflexivity).
        assert (Hgb' : gbits (ip ++ [(f, v, w)]) = bits P).
        { rewrite gbits_shape, shape_app, Hship. reflexivity. }
        assert (Hgs : gsum ip + v * 2 ^ gbits ip = gsum (ip ++ [(f, v, w)])).
        { unfold gsum, gbits. rewrite vw_app, group_sum_app. cbn [vw map fst snd group_sum].
          rewrite N.add_0_l, N.add_0_r. reflexivity. }
        split; [exact Hship|]. split; [cbn [map fld fst]; now rewrite Hmap|].
        split; [exact Hok|]. split; [exact Hr0|].
        split.
        { cbn [enc_items]. rewrite Hgs.
          assert (E : gbits ip + w = bits P) by (rewrite Hgbi; exact HbP). rewrite E.
          destruct (bits P mod 8 =? 0) eqn:Em'; [apply N.eqb_eq in Em'; contradiction|].
          rewrite <- Hgb'. exact Henc. }
        split; [exact Hv|]. split; [exact Hlen|].
        intros Hnr. apply Hbytes. unfold P. rewrite map_app, <- app_assoc. exact Hnr.
  Qed.
End Converse.

(** ** The reference encoder of an object that agrees with the items is [enc_items] *)

Section RefItems.
  Variable fl : file.
  Variable sch : schema.
  Variable d : decl.
  Variable refrec : string -> value -> option (list seg).
  Variable all_fields : list field.
  Variable obj : list (string * value).
  Variable payload : list seg.

  Hypothesis Hsch : schema_knows_enums fl sch.
  Hypothesis Hconv : enums_exact_conv fl.

  Lemma item_ref f v w :
    bf_field fl f = true -> item_ok fl sch d (f, v, w) -> res0 (f, v, w) ->
    (forall id n, In (id, VNum n) (item_vals [(f, v, w)]) -> assoc id obj = Some (VNum n)) ->
    ref_bitfield fl refrec d all_fields [] obj payload f = Some (v, w)
    /\ vals_of obj [f] = item_vals [(f, v, w)].
  Proof.
    intros Hbf [Hv [Hfs Hck]] Hr0 Hobj.
    unfold res0, is_reserved in Hr0. cbn [fst snd] in Hr0.
    unfold item_vals in *. unfold vals_of. cbn [flat_map fst snd] in *.
    unfold bf_field in Hbf. unfold ref_bitfield. unfold field_size in Hfs. unfold chunk_check in Hck.
    destruct (f_cond f); [discriminate|].
    destruct (f_desc f) eqn:Ed; try discriminate.
    - (* FixedScalar *) inversion Hfs; subst. split; reflexivity.
    - (* FixedEnum *)
      destruct Hck as (tags & ew & Het & Htv). rewrite Het, Htv. cbn [option_map].
      unfold enum_tags in Het. destruct (lookup_decl fl enum_id) as [[]|] eqn:El; try discriminate.
      inversion Het; subst.
      assert (Htt : type_total sch enum_id = Some (SStatic ew)).
      { apply (Hsch enum_id tags ew). right. eexists; exact El. }
      rewrite Htt in Hfs. inversion Hfs; subst. split; reflexivity.
    - (* Reserved *) inversion Hfs; subst. rewrite (Hr0 eq_refl). split; reflexivity.
    - (* Scalar *)
      inversion Hfs; subst. cbn [find_constraint find].
      rewrite (Hobj id v (or_introl eq_refl)). split; reflexivity.
    - (* Typedef *)
      destruct (lookup_decl fl type_id) as [[]|] eqn:El; try discriminate.
      assert (Htt : type_total sch type_id = Some (SStatic width)).
      { apply (Hsch type_id tags width). right. eexists; exact El. }
      rewrite Htt in Hfs. inversion Hfs; subst.
      unfold enum_tags. rewrite El. cbn [find_constraint find].
      rewrite (Hobj id v (or_introl eq_refl)).
      unfold enum_check in Hck. rewrite El in Hck.
      destruct (rust_enum_try_from tags w v) as [[e'| |]|] eqn:Etf; try discriminate.
      destruct (Hconv type_id _ tags w v e' El Hv Etf) as [e He]. rewrite He. split; reflexivity.
  Qed.

  Lemma ref_enc_items : forall its acc nb,
    forallb (bf_field fl) (map fld its) = true ->
    Forall (item_ok fl sch d) its -> Forall res0 its ->
    (forall id n, In (id, VNum n) (item_vals its) -> assoc id obj = Some (VNum n)) ->
    ref_enc_fields fl refrec d all_fields [] obj payload (map fld its) acc nb = enc_items its acc nb
    /\ vals_of obj (map fld its) = item_vals its.
  Proof.
    induction its as [|[[f v] w] its IH]; intros acc nb Hbf Hok Hr0 Hobj.
    - split; reflexivity.
    - cbn [map fld fst forallb] in Hbf. apply andb_prop in Hbf. destruct Hbf as [Hf Hrest].
      inversion Hok as [|? ? Hit Hok']; subst. inversion Hr0 as [|? ? Hr Hr0']; subst.
      change ((f, v, w) :: its) with ([(f, v, w)] ++ its)%list in Hobj. rewrite item_vals_app in Hobj.
      assert (Hobj1 : forall id n, In (id, VNum n) (item_vals [(f, v, w)]) -> assoc id obj = Some (VNum n))
        by (intros id n Hin; apply Hobj; apply in_or_app; left; exact Hin).
      assert (Hobj2 : forall id n, In (id, VNum n) (item_vals its) -> assoc id obj = Some (VNum n))
        by (intros id n Hin; apply Hobj; apply in_or_app; right; exact Hin).
      destruct (item_ref f v w Hf Hit Hr Hobj1) as [Hrb Hvals].
      pose proof (bf_is_bitfield fl f Hf) as Hbit.
      assert (Hc : f_cond f = None) by (unfold bf_field in Hf; destruct (f_cond f); [discriminate|reflexivity]).
      assert (Hv : (v <? 2 ^ w) = true) by (destruct Hit as [Hv _]; apply N.ltb_lt; exact Hv).
      split.
      + cbn [map fld fst ref_enc_fields enc_items]. rewrite Hc, Hbit, Hrb, Hv.
        destruct ((nb + w) mod 8 =? 0).
        * destruct (IH 0 0 Hrest Hok' Hr0' Hobj2) as [-> _]. reflexivity.
        * destruct (IH (acc + v * 2 ^ nb) (nb + w) Hrest Hok' Hr0' Hobj2) as [-> _]. reflexivity.
      + destruct (IH 0 0 Hrest Hok' Hr0' Hobj2) as [_ Hvr].
        change ((f, v, w) :: its) with ([(f, v, w)] ++ its)%list. rewrite item_vals_app, <- Hvals, <- Hvr.
        cbn [map fld fst]. unfold vals_of. cbn [flat_map]. rewrite app_nil_r. reflexivity.
  Qed.
End RefItems.

(** ** Whole declarations *)

(** identifiers of the data fields of a fragment field list *)
Definition data_ids (fs : list field) : list string :=
  flat_map (fun f => match f_desc f with Scalar id _ | Typedef id _ => [id] | _ => [] end) fs.

(** THE DECODER ACCEPTS ONLY WHAT THE REFERENCE CAN ENCODE (root declarations of the
    bit-field fragment whose widths fill whole octets, distinct data field names). *)
Theorem rust_dec_decl_converse fuel oc fl sch refrec all_fields payload d bs o rest :
  schema_knows_enums fl sch -> enums_exact_conv fl ->
  get_parent fl d = None ->
  forallb (bf_field fl) (decl_fields d) = true ->
  frag_bits fl (decl_fields d) mod 8 = 0 ->
  NoDup (data_ids (decl_fields d)) ->
  rust_dec_decl (S fuel) oc fl sch d bs = Ok (VObj o, rest) ->
  canonical_obj o (decl_fields d)
  /\ exists ss,
       ref_enc_fields fl refrec d all_fields [] o payload (decl_fields d) 0 0 = Some ss
       /\ len (render (f_endian fl) ss) + len rest = len bs
       /\ (forallb nonres (decl_fields d) = true -> (render (f_endian fl) ss ++ rest)%list = bs).
Proof.
  intros Hsch Hconv Hpar Hbf Hal Hnd H.
  cbn [rust_dec_decl] in H. rewrite Hpar in H.
  match type of H with
  | bind ?x _ = _ => destruct x as [st| | |] eqn:Ed; cbn [bind] in H; try discriminate
  end.
  unfold payload_entry in H. rewrite (fragment_no_payload fl d Hbf) in H. cbn [bind app] in H.
  inversion H; subst o rest. clear H.
  assert (Hal0 : (bits [] + frag_bits fl (decl_fields d)) mod 8 = 0) by (cbn [bits]; rewrite N.add_0_l; exact Hal).
  destruct (dec_fields_items oc fl sch _ fuel d Hsch (decl_fields d) [] (init_state bs) st Hbf
                             (Forall_nil _) (or_introl eq_refl) Hal0 Ed)
    as (ip & ifs & ss & Hsh & Hmap & Hok & Hr0 & Henc & Hv & Hlen & Hbytes).
  apply shape_nil in Hsh. subst ip. cbn [app init_state st_vals st_span map] in *.
  unfold gsum, gbits in Henc. cbn [vw map group_sum group_bits] in Henc.
  assert (Hids : NoDup (map fst (st_vals st))).
  { rewrite Hv, item_vals_ids, Hmap. exact Hnd. }
  assert (Hobj : forall id n, In (id, VNum n) (item_vals ifs) -> assoc id (st_vals st) = Some (VNum n)).
  { intros id n Hin. apply assoc_nodup; [exact Hids | rewrite Hv; exact Hin]. }
  assert (Hbf' : forallb (bf_field fl) (map fld ifs) = true) by (rewrite Hmap; exact Hbf).
  destruct (ref_enc_items fl sch d refrec all_fields (st_vals st) payload Hsch Hconv ifs 0 0 Hbf' Hok Hr0 Hobj)
    as [Hre Hvals].
  rewrite Hmap in Hre, Hvals.
  split; [unfold canonical_obj; rewrite Hvals; symmetry; exact Hv|].
  exists ss. split; [rewrite Hre; exact Henc|]. split; [exact Hlen|].
  intros Hnr. symmetry. apply Hbytes. exact Hnr.
Qed.

(** CANONICAL RE-ENCODING IS A FIXPOINT: the reference bytes of what the decoder returned,
    followed by any bytes [tl], decode again to the same object and [tl] -- reserved bits
    included (the decoder skips them, the reference clears them). *)
Corollary rust_dec_decl_reencode_fixpoint fuel fuel' oc oc' fl sch refrec all_fields payload d bs o rest :
  schema_knows_enums fl sch -> enums_exact fl -> enums_exact_conv fl ->
  get_parent fl d = None ->
  forallb (bf_field fl) (decl_fields d) = true ->
  frag_bits fl (decl_fields d) mod 8 = 0 ->
  NoDup (data_ids (decl_fields d)) ->
  rust_dec_decl (S fuel) oc fl sch d bs = Ok (VObj o, rest) ->
  exists ss,
    ref_enc_fields fl refrec d all_fields [] o payload (decl_fields d) 0 0 = Some ss
    /\ len (render (f_endian fl) ss) + len rest = len bs
    /\ forall tl,
         gooddec (rust_dec_decl (S fuel') oc' fl sch d (render (f_endian fl) ss ++ tl))
                 (fun r => r = (VObj o, tl)).
Proof.
  intros Hsch Hen Hconv Hpar Hbf Hal Hnd H.
  destruct (rust_dec_decl_converse fuel oc fl sch refrec all_fields payload d bs o rest
                                   Hsch Hconv Hpar Hbf Hal Hnd H) as [Hcan (ss & Href & Hlen & _)].
  exists ss. split; [exact Href|]. split; [exact Hlen|]. intros tl.
  pose proof (rust_dec_decl_reference fuel' oc' fl sch refrec d all_fields o payload ss tl
                                      Hsch Hen Hpar Hbf Href) as Hdec.
  unfold canonical_obj in Hcan. rewrite Hcan in Hdec. exact Hdec.
Qed.

(** The same with the schema the analyzer really computes and enums the analyzer accepts:
    no hypothesis is left about an arbitrary schema or about the enum conversions. *)
Theorem rust_decode_accepts_only_reference_real_schema
        fuel fuel' oc oc' fl sch refrec all_fields payload d bs o rest :
  enum_widths_fit fl = true -> mk_schema fl = Some sch ->
  enums_accepted fl ->
  get_parent fl d = None ->
  forallb (bf_field fl) (decl_fields d) = true ->
  frag_bits fl (decl_fields d) mod 8 = 0 ->
  NoDup (data_ids (decl_fields d)) ->
  rust_dec_decl (S fuel) oc fl sch d bs = Ok (VObj o, rest) ->
  canonical_obj o (decl_fields d)
  /\ exists ss,
       ref_enc_fields fl refrec d all_fields [] o payload (decl_fields d) 0 0 = Some ss
       /\ len (render (f_endian fl) ss) + len rest = len bs
       /\ (forallb nonres (decl_fields d) = true -> (render (f_endian fl) ss ++ rest)%list = bs)
       /\ forall tl,
            gooddec (rust_dec_decl (S fuel') oc' fl sch d (render (f_endian fl) ss ++ tl))
                    (fun r => r = (VObj o, tl)).
Proof.
  intros Hw Hs He Hpar Hbf Hal Hnd H.
  pose proof (mk_schema_knows_enums fl sch Hw Hs) as Hsch.
  pose proof (accepted_enums_exact fl He) as Hen.
  pose proof (accepted_enums_exact_conv fl He) as Hconv.
  destruct (rust_dec_decl_converse fuel oc fl sch refrec all_fields payload d bs o rest
                                   Hsch Hconv Hpar Hbf Hal Hnd H) as [Hcan (ss & Href & Hlen & Hex)].
  split; [exact Hcan|]. exists ss. repeat split; try assumption. intros tl.
  pose proof (rust_dec_decl_reference fuel' oc' fl sch refrec d all_fields o payload ss tl
                                      Hsch Hen Hpar Hbf Href) as Hdec.
  unfold canonical_obj in Hcan. rewrite Hcan in Hdec. exact Hdec.
Qed.

(** ACCEPTANCE IS EXACTLY THE REFERENCE LANGUAGE on declarations of the fragment without
    reserved bits (unless pdlc refuses the declaration: a group wider than 64 bits): the
    decoder returns [(VObj o, rest)] on [bs] iff [o] is canonical, the reference encodes
    it, and [bs] is that encoding followed by [rest]. *)
Theorem rust_dec_decl_accepts_iff_reference fuel oc fl sch refrec all_fields payload d bs o rest :
  enum_widths_fit fl = true -> mk_schema fl = Some sch ->
  enums_accepted fl ->
  get_parent fl d = None ->
  forallb (bf_field fl) (decl_fields d) = true ->
  frag_bits fl (decl_fields d) mod 8 = 0 ->
  NoDup (data_ids (decl_fields d)) ->
  forallb nonres (decl_fields d) = true ->
  rust_dec_decl (S fuel) oc fl sch d bs <> Panic GenAssert ->
  (rust_dec_decl (S fuel) oc fl sch d bs = Ok (VObj o, rest)
   <->
   canonical_obj o (decl_fields d)
   /\ exists ss,
        ref_enc_fields fl refrec d all_fields [] o payload (decl_fields d) 0 0 = Some ss
        /\ bs = (render (f_endian fl) ss ++ rest)%list).
Proof.
  intros Hw Hs He Hpar Hbf Hal Hnd Hnr Hna.
  pose proof (mk_schema_knows_enums fl sch Hw Hs) as Hsch.
  split.
  - intros H.
    destruct (rust_dec_decl_converse fuel oc fl sch refrec all_fields payload d bs o rest
                Hsch (accepted_enums_exact_conv fl He) Hpar Hbf Hal Hnd H) as [Hcan (ss & Href & _ & Hex)].
    split; [exact Hcan|]. exists ss. split; [exact Href | symmetry; apply Hex; exact Hnr].
  - intros [Hcan (ss & Href & Hbs)].
    pose proof (rust_dec_decl_reference fuel oc fl sch refrec d all_fields o payload ss rest
                  Hsch (accepted_enums_exact fl He) Hpar Hbf Href) as Hdec.
    rewrite <- Hbs in Hdec. unfold canonical_obj in Hcan. rewrite Hcan in Hdec.
    unfold gooddec in Hdec.
    destruct (rust_dec_decl (S fuel) oc fl sch d bs) as [r| |k|]; try contradiction.
    + now rewrite Hdec.
    + destruct k; contradiction.
Qed.

Print Assumptions rust_dec_decl_converse.
Print Assumptions rust_dec_decl_accepts_iff_reference.
Print Assumptions rust_dec_decl_reencode_fixpoint.
Print Assumptions rust_decode_accepts_only_reference_real_schema.

(** ** Non-vacuity and the two side conditions *)

Open Scope string_scope.

(** a big-endian file: an enum with a range and a default tag; [P] has reserved bits, [Q]
    has none (and a fixed enum field) *)
Definition conv_P : decl :=
  DPacket "P" [] [mkField (Scalar "a" 3) None; mkField (Typedef "e" "E") None;
                  mkField (FixedScalar 4 9) None; mkField (Reserved 4) None;
                  mkField (Scalar "b" 24) None] None.
Definition conv_Q : decl :=
  DPacket "Q" [] [mkField (Scalar "a" 3) None; mkField (Typedef "e" "E") None;
                  mkField (FixedEnum "E" "A") None; mkField (Scalar "c" 3) None] None.
Definition conv_file : file :=
  mkFile BigEndian
    [DEnum "E" [TagValue "A" 1; TagRange "R" 4 7 [("R4", 4)]; TagOther "O"] 5; conv_P; conv_Q].

Lemma nodup3 (a b c : string) : a <> b -> a <> c -> b <> c -> NoDup [a; b; c].
Proof. intros H1 H2 H3. repeat constructor; cbn [In]; intuition congruence. Qed.

Lemma conv_file_enums_accepted : enums_accepted conv_file.
Proof.
  intros tid i tags w Hl. unfold lookup_decl in Hl. cbn [conv_file f_decls rev app find] in Hl.
  repeat match type of Hl with
         | (if ?c then _ else _) = _ => destruct c; [try discriminate|]
         end; try discriminate.
  injection Hl as <- <- <-. split; [vm_compute; reflexivity|]. split; vm_compute; discriminate.
Qed.

(** every hypothesis of the theorems holds of [P] and [Q]; on [P] the decoder accepts an
    input whose reserved bits are SET (second octet f9) and the reference re-encoding
    clears them (09); on [Q] the input is the reference encoding *)
Example converse_hypotheses_hold :
  enum_widths_fit conv_file = true
  /\ exists sch, mk_schema conv_file = Some sch
     /\ (get_parent conv_file conv_P = None
         /\ forallb (bf_field conv_file) (decl_fields conv_P) = true
         /\ frag_bits conv_file (decl_fields conv_P) mod 8 = 0
         /\ NoDup (data_ids (decl_fields conv_P))
         /\ rust_dec_decl 2 true conv_file sch conv_P [x35; xf9; x01; x02; x03; xff]
            = Ok (VObj [("a", VNum 5); ("e", VNum 6); ("b", VNum 66051)], [xff])
         /\ option_map (render BigEndian)
                       (ref_enc_fields conv_file (fun _ _ => None) conv_P [] []
                                       [("a", VNum 5); ("e", VNum 6); ("b", VNum 66051)] []
                                       (decl_fields conv_P) 0 0)
            = Some [x35; x09; x01; x02; x03])
     /\ (get_parent conv_file conv_Q = None
         /\ forallb (bf_field conv_file) (decl_fields conv_Q) = true
         /\ frag_bits conv_file (decl_fields conv_Q) mod 8 = 0
         /\ NoDup (data_ids (decl_fields conv_Q))
         /\ forallb nonres (decl_fields conv_Q) = true
         /\ rust_dec_decl 2 true conv_file sch conv_Q [x35; xa1; xff]
            = Ok (VObj [("a", VNum 5); ("e", VNum 6); ("c", VNum 5)], [xff])
         /\ option_map (render BigEndian)
                       (ref_enc_fields conv_file (fun _ _ => None) conv_Q [] []
                                       [("a", VNum 5); ("e", VNum 6); ("c", VNum 5)] []
                                       (decl_fields conv_Q) 0 0)
            = Some [x35; xa1]).
Proof.
  split; [reflexivity|]. eexists. split; [reflexivity|].
  split.
  - repeat split; try reflexivity. apply nodup3; discriminate.
  - repeat split; try reflexivity. apply nodup3; discriminate.
Qed.

(** the theorem applied: whatever [Q]'s decoder accepts is a reference encoding followed by
    the remainder, and whatever [P]'s decoder accepts re-encodes to a fixpoint *)
Example converse_applied sch bs o rest :
  mk_schema conv_file = Some sch ->
  rust_dec_decl 2 true conv_file sch conv_Q bs = Ok (VObj o, rest) ->
  exists ss,
    ref_enc_fields conv_file (fun _ _ => None) conv_Q [] [] o [] (decl_fields conv_Q) 0 0 = Some ss
    /\ (render BigEndian ss ++ rest)%list = bs.
Proof.
  intros Hs H.
  destruct (rust_decode_accepts_only_reference_real_schema
              1 1 true true conv_file sch (fun _ _ => None) [] [] conv_Q bs o rest
              eq_refl Hs conv_file_enums_accepted eq_refl eq_refl eq_refl) as [_ (ss & Href & _ & Hex & _)].
  - apply nodup3; discriminate.
  - exact H.
  - exists ss. split; [exact Href | apply Hex; reflexivity].
Qed.

(** WITHOUT the whole-octets condition (the analyzer's check 53 on declaration sizes) the
    statement fails of the model: on [packet U { a : 4 }] the decoder accepts every input,
    consumes nothing and returns an object without [a]; the reference cannot encode it. *)
Definition unaligned_U : decl := DPacket "U" [] [mkField (Scalar "a" 4) None] None.
Definition unaligned_file : file := mkFile LittleEndian [unaligned_U].

Example unaligned_refuted :
  exists sch, mk_schema unaligned_file = Some sch
  /\ rust_dec_decl 2 true unaligned_file sch unaligned_U [x07] = Ok (VObj [], [x07])
  /\ ref_enc_fields unaligned_file (fun _ _ => None) unaligned_U [] [] [] []
                    (decl_fields unaligned_U) 0 0 = None.
Proof. eexists. split; [reflexivity|]. split; reflexivity. Qed.

(** WITHOUT distinct data field names (C08: pdlc accepts duplicates that come from groups
    or from a parent) the decoded object is not canonical, and its reference encoding is
    not the input. *)
Definition dup_D : decl := DPacket "D" [] [mkField (Scalar "a" 8) None; mkField (Scalar "a" 8) None] None.
Definition dup_file : file := mkFile LittleEndian [dup_D].

Example duplicate_ids_refuted :
  exists sch, mk_schema dup_file = Some sch
  /\ rust_dec_decl 2 true dup_file sch dup_D [x01; x02] = Ok (VObj [("a", VNum 1); ("a", VNum 2)], [])
  /\ vals_of [("a", VNum 1); ("a", VNum 2)] (decl_fields dup_D) = [("a", VNum 1); ("a", VNum 1)]
  /\ option_map (render LittleEndian)
                (ref_enc_fields dup_file (fun _ _ => None) dup_D [] [] [("a", VNum 1); ("a", VNum 2)] []
                                (decl_fields dup_D) 0 0) = Some [x01; x01].
Proof. eexists. split; [reflexivity|]. repeat split; reflexivity. Qed.
