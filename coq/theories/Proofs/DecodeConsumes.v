(** A declaration made of bit-fields only consumes EXACTLY the number of octets its
    field widths add up to: when the emitted decoder succeeds on such a declaration whose
    widths sum to a whole number of octets, the remainder is the input minus that many
    octets -- no more (nothing of the next packet is eaten), no less.  Together with
    [schema_fragment_bits] (the schema's Static n is that sum) this ties the analyzer's
    size annotation to what the generated decoder does. *)
From Coq Require Import NArith ZArith List String Bool Lia ZifyN ZifyBool.
From Coq Require Import Strings.Byte.
From PDL Require Import Base.Bits Base.Outcome Lang.Ast Lang.Sexp Analyzer.Schema Rust.Enum
     Sem.RefEncode Rust.Encode Rust.Decode Proofs.DecodeSafe.
Import ListNotations.
Open Scope N_scope.
Ltac Zify.zify_post_hook ::= Z.div_mod_to_equations.

Section Consumes.
  Variable oc : bool.
  Variable fl : file.
  Variable sch : schema.
  Variable rec : string -> list byte -> dres (value * list byte).
  Variable lf : nat.
  Variable d : decl.

  (** sum of the static widths the schema gives the fields *)
  Fixpoint wsum (fs : list field) : option N :=
    match fs with
    | [] => Some 0
    | f :: rest =>
        match field_size sch d f, wsum rest with
        | Some (SStatic w), Some t => Some (w + t)
        | _, _ => None
        end
    end.

  Lemma chunk_field_span single cv ctw size st sf st' :
    chunk_field fl sch single cv ctw size st d sf = Ok st' -> st_span st' = st_span st.
  Proof.
    unfold chunk_field. destruct sf as [fshift f].
    destruct (field_size sch d f) as [[w| |]|]; try discriminate.
    destruct (integer_width w); [|discriminate].
    destruct (f_desc f); try discriminate;
      repeat match goal with
             | |- bind ?x _ = Ok _ -> _ => destruct x; cbn [bind]; try discriminate
             | |- match ?x with _ => _ end = Ok _ -> _ => destruct x; try discriminate
             | |- (if ?c then _ else _) = Ok _ -> _ => destruct c; try discriminate
             end;
      intros H; inversion H; reflexivity.
  Qed.

  Lemma chunk_fields_span single cv ctw size cs : forall st st',
    chunk_fields fl sch single cv ctw size st d cs = Ok st' -> st_span st' = st_span st.
  Proof.
    induction cs as [|c cs IH]; intros st st' H; cbn [chunk_fields] in H.
    - inversion H. reflexivity.
    - destruct (chunk_field fl sch single cv ctw size st d c) as [s1| | |] eqn:E; cbn [bind] in H; try discriminate.
      rewrite (IH _ _ H). eapply chunk_field_span; exact E.
  Qed.

  Lemma len_skipn (l : list byte) n : n <= len l -> len (skipn (N.to_nat n) l) = len l - n.
  Proof. unfold len. intros H. rewrite skipn_length. lia. Qed.

  (** the pending shift is never a positive multiple of 8 *)
  Definition pending_ok (shift : N) : Prop := shift = 0 \/ shift mod 8 <> 0.

  Theorem dec_fields_bits_consumed : forall fs st chunk shift st',
    bits_only fl fs -> pending_ok shift ->
    dec_fields oc fl sch rec lf d fs st chunk shift = Ok st' ->
    exists total k r,
      wsum fs = Some total /\ shift + total = 8 * k + r /\ pending_ok r /\
      len (st_span st) = len (st_span st') + k.
  Proof.
    induction fs as [|f fs IH]; intros st chunk shift st' Hb Hp H; cbn [dec_fields] in H.
    - inversion H; subst st'. exists 0, 0, shift. cbn [wsum]. repeat split; try lia. exact Hp.
    - destruct (Hb f (or_introl eq_refl)) as [Hc Hbf]. rewrite Hc, Hbf in H.
      assert (Hb' : bits_only fl fs) by (intros g Hg; apply Hb; right; exact Hg).
      cbn [wsum].
      destruct (field_size sch d f) as [[w| |]|]; try discriminate.
      destruct ((shift + w) mod 8 =? 0) eqn:Em.
      + (* a chunk completes *)
        apply N.eqb_eq in Em.
        destruct (check_size (st_span st) ((shift + w) / 8)) as [u| | |] eqn:Ecs; cbn [bind] in H; try discriminate.
        apply check_size_ok in Ecs. apply N.ltb_ge in Ecs.
        destruct (integer_width (shift + w)); [|discriminate].
        destruct (is_single_reserved _).
        * unfold advance in H. destruct (len (st_span st) <? (shift + w) / 8) eqn:El; [apply N.ltb_lt in El; lia|].
          cbn [bind] in H.
          destruct (IH _ _ _ _ Hb' (or_introl eq_refl) H) as (t & k & r & Hw & Hs & Hr & Hl).
          cbn [st_span set_span] in Hl. rewrite len_skipn in Hl by exact Ecs.
          exists (w + t), ((shift + w) / 8 + k), r. rewrite Hw. repeat split; try exact Hr; lia.
        * unfold get_uint in H. destruct (len (st_span st) <? (shift + w) / 8) eqn:El; [apply N.ltb_lt in El; lia|].
          cbn [bind] in H.
          match type of H with bind ?x _ = _ => destruct x as [s1| | |] eqn:Ech; cbn [bind] in H; try discriminate end.
          apply chunk_fields_span in Ech. cbn [st_span set_span] in Ech.
          destruct (IH _ _ _ _ Hb' (or_introl eq_refl) H) as (t & k & r & Hw & Hs & Hr & Hl).
          rewrite Ech, len_skipn in Hl by exact Ecs.
          exists (w + t), ((shift + w) / 8 + k), r. rewrite Hw. repeat split; try exact Hr; lia.
      + apply N.eqb_neq in Em.
        destruct (IH _ _ _ _ Hb' (or_intror Em) H) as (t & k & r & Hw & Hs & Hr & Hl).
        exists (w + t), k, r. rewrite Hw. repeat split; try exact Hr; try exact Hl; lia.
  Qed.

  (** whole octets: exactly total / 8 octets are consumed *)
  Corollary dec_fields_bits_consumes_exactly fs st st' total :
    bits_only fl fs -> wsum fs = Some total -> total mod 8 = 0 ->
    dec_fields oc fl sch rec lf d fs st [] 0 = Ok st' ->
    len (st_span st) = len (st_span st') + total / 8.
  Proof.
    intros Hb Hw Hm H.
    destruct (dec_fields_bits_consumed fs st [] 0 st' Hb (or_introl eq_refl) H) as (t & k & r & Hw' & Hs & Hr & Hl).
    rewrite Hw in Hw'. inversion Hw'; subst t.
    destruct Hr as [-> | Hr]; [rewrite Hl; f_equal; lia|].
    exfalso. apply Hr. lia.
  Qed.
End Consumes.

(** for a root declaration made of bit-fields: the remainder returned by [decode] *)
Theorem rust_dec_decl_bits_consumes fuel oc fl sch d bs v rest total :
  bits_root fl d -> wsum sch d (decl_fields d) = Some total -> total mod 8 = 0 ->
  rust_dec_decl (S fuel) oc fl sch d bs = Ok (v, rest) ->
  len bs = len rest + total / 8.
Proof.
  intros [Hp Hb] Hw Hm H. cbn [rust_dec_decl] in H. rewrite Hp in H.
  match type of H with bind ?x _ = _ => destruct x as [st| | |] eqn:Ed; cbn [bind] in H; try discriminate end.
  destruct (payload_entry d st); cbn [bind] in H; try discriminate.
  inversion H; subst.
  pose proof (dec_fields_bits_consumes_exactly oc fl sch _ fuel d _ _ _ total Hb Hw Hm Ed) as Hl.
  exact Hl.
Qed.
