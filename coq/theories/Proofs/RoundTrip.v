(** C02 / C04 on the bit-field fragment (scalars, enum typedefs, fixed fields, reserved
    bits in ANY composition).

    (1) The emitted DECODER, run on the reference encoding of a value followed by any
        other bytes, returns exactly the value's data fields and exactly those other
        bytes as the remainder -- or the generator refused (a group wider than 64 bits).
    (2) Composed with [rust_encode_fragment] (the emitted encoder returns the reference
        bytes): decode (encode v ++ tl) = (v, tl) for every value the reference can
        encode, both byte orders, both overflow modes, every fuel.

    The induction carries the decoder's pending chunk as a list of ITEMS (field, value,
    width) whose LSB-first sum is the reference accumulator; when a chunk completes the
    value read back for each item is the one that was packed ([read_back], from
    [extract_group_sum]). *)
From Coq Require Import NArith ZArith List String Bool Lia ZifyN ZifyBool.
From Coq Require Import Strings.Byte.
From PDL Require Import Base.Bits Base.Outcome Lang.Ast Lang.Sexp Analyzer.Schema Analyzer.Passes Rust.Enum
     Sem.RefEncode Rust.Encode Rust.Decode Proofs.Pack Proofs.BitfieldEncode Proofs.EnumExact
     Proofs.AnalyzerEnum.
Import ListNotations.
Open Scope N_scope.

(** ** Arithmetic of reading a field back out of a completed chunk *)

Lemma group_bits_app a b : group_bits (a ++ b) = group_bits a + group_bits b.
Proof. induction a as [|[v w] a IH]; cbn [app group_bits]; [reflexivity|]. rewrite IH. lia. Qed.

Lemma group_sum_app a b sh :
  group_sum (a ++ b) sh = group_sum a sh + group_sum b (sh + group_bits a).
Proof.
  revert sh. induction a as [|[v w] a IH]; intros sh; cbn [app group_sum group_bits].
  - now rewrite N.add_0_r.
  - rewrite IH. rewrite !N.add_assoc. reflexivity.
Qed.

Lemma group_ok_app a b : group_ok a -> group_ok b -> group_ok (a ++ b).
Proof. unfold group_ok. intros Ha Hb. apply Forall_app. split; assumption. Qed.

Lemma read_back pre v w post (single : bool) vtw ctw :
  group_ok pre -> v < 2 ^ w -> group_ok post ->
  w <= vtw ->
  group_bits (pre ++ (v, w) :: post) <= ctw ->
  (single = true -> pre = [] /\ post = []) ->
  (if vtw <? ctw
   then (if negb single && (w <? vtw)
         then N.land (N.shiftr (group_sum (pre ++ (v, w) :: post) 0) (group_bits pre)) (N.ones w)
         else N.shiftr (group_sum (pre ++ (v, w) :: post) 0) (group_bits pre)) mod 2 ^ vtw
   else (if negb single && (w <? vtw)
         then N.land (N.shiftr (group_sum (pre ++ (v, w) :: post) 0) (group_bits pre)) (N.ones w)
         else N.shiftr (group_sum (pre ++ (v, w) :: post) 0) (group_bits pre))) = v.
Proof.
  intros Hpre Hv Hpost Hw Hcw Hsingle.
  assert (Hvt : v < 2 ^ vtw) by (eapply N.lt_le_trans; [exact Hv | apply pow2_le_mono; exact Hw]).
  destruct single.
  - destruct (Hsingle eq_refl) as [-> ->]. cbn [app group_sum group_bits negb andb].
    rewrite shiftr_div. rewrite N.pow_0_r, N.div_1_r, N.mul_1_r, N.add_0_r.
    destruct (vtw <? ctw); [now apply N.mod_small | reflexivity].
  - cbn [negb andb].
    pose proof (extract_group_sum pre v w post Hpre Hv Hpost) as Hx. unfold extract in Hx.
    rewrite !shiftr_div, land_ones_mod.
    destruct (w <? vtw) eqn:Ewt.
    + rewrite Hx. destruct (vtw <? ctw); [now apply N.mod_small | reflexivity].
    + assert (w = vtw) by lia. subst vtw.
      destruct (w <? ctw) eqn:Ec; [exact Hx|].
      (* the field fills the whole chunk *)
      rewrite group_bits_app in Hcw. cbn [group_bits] in Hcw.
      assert (Hs0 : group_bits pre = 0) by lia.
      assert (Hp0 : group_bits post = 0) by lia.
      assert (Hall : group_ok (pre ++ (v, w) :: post)).
      { apply group_ok_app; [exact Hpre|]. constructor; [exact Hv | exact Hpost]. }
      destruct (group_sum_bound _ 0 Hall) as [Hb _].
      rewrite group_bits_app in Hb. cbn [group_bits] in Hb.
      rewrite Hs0, Hp0, !N.add_0_l, N.add_0_r in Hb.
      rewrite Hs0 in *. rewrite N.pow_0_r, N.div_1_r in *.
      rewrite N.mod_small in Hx by exact Hb. exact Hx.
Qed.

(** ** Bytes of one group, read back by [get_uint] *)

Lemma firstn_exact {A} (a b : list A) n : List.length a = n -> firstn n (a ++ b) = a.
Proof.
  intros <-. rewrite firstn_app, Nat.sub_diag, firstn_all. cbn [firstn]. now rewrite app_nil_r.
Qed.

Lemma skipn_exact {A} (a b : list A) n : List.length a = n -> skipn n (a ++ b) = b.
Proof.
  intros <-. rewrite skipn_app, Nat.sub_diag, skipn_all. reflexivity.
Qed.

Lemma bytes_E_length e n v : List.length (bytes_E e n v) = n.
Proof. destruct e; [apply le_bytes_length | apply be_bytes_length]. Qed.

Lemma of_E_bytes_E e n v : v < 256 ^ N.of_nat n -> of_E e (bytes_E e n v) = v.
Proof.
  intros H. destruct e; cbn [of_E bytes_E].
  - now apply of_le_le_bytes_small.
  - rewrite of_be_be_bytes. now apply N.mod_small.
Qed.

Lemma pow256_nbytes bits : bits mod 8 = 0 -> 256 ^ N.of_nat (nbytes bits) = 2 ^ bits.
Proof.
  intros H. unfold nbytes. rewrite N2Nat.id, pow256. f_equal.
  pose proof (N.div_mod bits 8). lia.
Qed.

Definition gooddec {A} (r : dres A) (P : A -> Prop) : Prop :=
  match r with
  | Ok a => P a
  | Panic GenAssert => True
  | _ => False
  end.

Lemma gooddec_bind {A B} (x : dres A) (f : A -> dres B) (P : A -> Prop) (Q : B -> Prop) :
  gooddec x P -> (forall a, P a -> gooddec (f a) Q) -> gooddec (bind x f) Q.
Proof.
  unfold gooddec, bind. destruct x as [a| |k|]; try tauto.
  intros Ha Hf. exact (Hf a Ha).
Qed.

Lemma gooddec_impl {A} (r : dres A) (P Q : A -> Prop) :
  gooddec r P -> (forall a, P a -> Q a) -> gooddec r Q.
Proof. unfold gooddec. destruct r as [a| |k|]; try tauto. intros H HPQ. exact (HPQ a H). Qed.

(** ** Items: the decoder's pending chunk seen from the reference side *)

Definition item := (field * N * N)%type.       (* field, value, width *)

Definition vw (its : list item) : list (N * N) := map (fun it : item => (snd (fst it), snd it)) its.
Definition gsum (its : list item) : N := group_sum (vw its) 0.
Definition gbits (its : list item) : N := group_bits (vw its).

Fixpoint chunk_of (its : list item) (sh : N) : list (N * field) :=
  match its with
  | [] => []
  | (f, _, w) :: rest => (sh, f) :: chunk_of rest (sh + w)
  end.

Lemma vw_app a b : vw (a ++ b) = (vw a ++ vw b)%list.
Proof. unfold vw. apply map_app. Qed.

Lemma chunk_of_app a b sh : chunk_of (a ++ b) sh = (chunk_of a sh ++ chunk_of b (sh + gbits a))%list.
Proof.
  revert sh. induction a as [|[[f v] w] a IH]; intros sh.
  - cbn. now rewrite N.add_0_r.
  - cbn [app chunk_of]. rewrite IH. unfold gbits. cbn [vw map group_bits fst snd].
    rewrite N.add_assoc. reflexivity.
Qed.

(** what the decoder records for the items of a chunk *)
Definition item_vals (its : list item) : list (string * value) :=
  flat_map (fun it : item =>
              match f_desc (fst (fst it)) with
              | Scalar id _ | Typedef id _ => [(id, VNum (snd (fst it)))]
              | _ => []
              end) its.

Lemma item_vals_app a b : item_vals (a ++ b) = (item_vals a ++ item_vals b)%list.
Proof. unfold item_vals. apply flat_map_app. Qed.

Section RoundTrip.
  Variable oc : bool.
  Variable fl : file.
  Variable sch : schema.
  Variable rec : string -> list byte -> dres (value * list byte).
  Variable lf : nat.
  Variable d : decl.
  Variable refrec : string -> value -> option (list seg).
  Variable all_fields : list field.
  Variable obj : list (string * value).
  Variable payload : list seg.

  Hypothesis Hsch : schema_knows_enums fl sch.

  (** every integer the reference reads as a variant of an enum of the file is accepted by
      the emitted [TryFrom] (C15; established from the analyzer's check below) *)
  Definition enums_exact : Prop :=
    forall tid i tags w x e,
      lookup_decl fl tid = Some (DEnum i tags w) ->
      spec_enum_of_N tags w x = Some e ->
      exists e', rust_enum_try_from tags w x = Some (TOk e').
  Hypothesis Henum : enums_exact.

  (** the check [chunk_field] performs on the value of a field *)
  Definition chunk_check (f : field) (v : N) : Prop :=
    match f_desc f with
    | Scalar _ _ | Reserved _ => True
    | FixedScalar _ value => v = value
    | FixedEnum eid tid =>
        exists tags ew, enum_tags fl eid = Some (tags, ew) /\ enum_tag_value tags tid = Some v
    | Typedef _ tid => enum_check fl tid v = Ok tt
    | _ => False
    end.

  Definition item_ok (it : item) : Prop :=
    let '(f, v, w) := it in
    v < 2 ^ w /\ field_size sch d f = Some (SStatic w) /\ chunk_check f v.

  Lemma items_group_ok its : Forall item_ok its -> group_ok (vw its).
  Proof.
    unfold group_ok, vw. intros H. rewrite Forall_map. eapply Forall_impl; [|exact H].
    intros [[f v] w] [Hv _]. exact Hv.
  Qed.

  Definition same_but_vals (st st' : dstate) (vals : list (string * value)) : Prop :=
    st_span st' = st_span st /\ st_vals st' = (st_vals st ++ vals)%list /\ st_payload st' = st_payload st.

  Lemma chunk_field_item pre f v w post single ctw size st :
    Forall item_ok pre -> item_ok (f, v, w) -> Forall item_ok post ->
    gbits (pre ++ (f, v, w) :: post) <= ctw ->
    (single = true -> pre = [] /\ post = []) ->
    gooddec (chunk_field fl sch single (gsum (pre ++ (f, v, w) :: post)) ctw size st d (gbits pre, f))
            (fun st' => same_but_vals st st' (item_vals [(f, v, w)])).
  Proof.
    intros Hpre [Hv [Hfs Hck]] Hpost Hcw Hsingle.
    unfold chunk_field. rewrite Hfs.
    destruct (integer_width w) as [vtw|] eqn:Etw; [|exact I].
    destruct (integer_width_bounds _ _ Etw) as [Hle _].
    unfold gsum, gbits in *. rewrite vw_app in *. cbn [vw map fst snd] in *.
    fold (vw pre) in *. fold (vw post) in *.
    assert (Hs' : single = true -> vw pre = [] /\ vw post = []).
    { intros Hs. destruct (Hsingle Hs) as [-> ->]. split; reflexivity. }
    pose proof (read_back (vw pre) v w (vw post) single vtw ctw
                          (items_group_ok _ Hpre) Hv (items_group_ok _ Hpost) Hle Hcw Hs') as Hrb.
    cbv zeta. rewrite Hrb. clear Hrb.
    unfold item_vals, same_but_vals. cbn [flat_map fst snd app].
    unfold chunk_check in Hck.
    destruct (f_desc f) eqn:Ed; try contradiction; cbn [gooddec].
    - (* FixedScalar *) subst value. rewrite N.eqb_refl. cbn. rewrite ?app_nil_r. repeat split; reflexivity.
    - (* FixedEnum *)
      destruct Hck as (tags & ew & Het & Htv). rewrite Het, Htv, N.eqb_refl. cbn.
      rewrite ?app_nil_r. repeat split; reflexivity.
    - (* Reserved *) cbn. rewrite ?app_nil_r. repeat split; reflexivity.
    - (* Scalar *) cbn. rewrite ?app_nil_r. repeat split; reflexivity.
    - (* Typedef *) rewrite Hck. cbn [bind gooddec]. cbn. rewrite ?app_nil_r. repeat split; reflexivity.
  Qed.

  Lemma chunk_fields_items single ctw size : forall post pre st,
    Forall item_ok pre -> Forall item_ok post ->
    gbits (pre ++ post) <= ctw ->
    (single = true -> exists it, (pre ++ post)%list = [it]) ->
    gooddec (chunk_fields fl sch single (gsum (pre ++ post)) ctw size st d (chunk_of post (gbits pre)))
            (fun st' => same_but_vals st st' (item_vals post)).
  Proof.
    induction post as [|[[f v] w] post IH]; intros pre st Hpre Hpost Hcw Hsingle.
    - cbn. unfold same_but_vals. now rewrite app_nil_r.
    - inversion Hpost as [|? ? Hit Hpost']; subst.
      cbn [chunk_of chunk_fields].
      eapply gooddec_bind.
      + apply (chunk_field_item pre f v w post single ctw size st Hpre Hit Hpost' Hcw).
        intros Hs. destruct (Hsingle Hs) as [it Hone].
        destruct pre as [|p0 pre]; [|destruct pre; discriminate].
        split; [reflexivity|]. cbn [app] in Hone. inversion Hone. reflexivity.
      + intros st1 [Hsp [Hvals Hpl]].
        assert (Hgb : gbits pre + w = gbits (pre ++ [(f, v, w)])).
        { unfold gbits. rewrite vw_app, group_bits_app. cbn. lia. }
        cbv beta.
        change ((f, v, w) :: post) with ([(f, v, w)] ++ post)%list in Hcw, Hsingle |- *.
        rewrite app_assoc in Hcw, Hsingle |- *. rewrite Hgb.
        assert (Hpre' : Forall item_ok (pre ++ [(f, v, w)])).
        { apply Forall_app. split; [exact Hpre | constructor; [exact Hit | constructor]]. }
        specialize (IH (pre ++ [(f, v, w)])%list st1 Hpre' Hpost' Hcw Hsingle).
        eapply gooddec_impl; [exact IH|]. intros st2 [Hsp2 [Hvals2 Hpl2]]. unfold same_but_vals.
        rewrite Hsp2, Hvals2, Hpl2, Hsp, Hvals, Hpl.
        rewrite item_vals_app, app_assoc. repeat split; reflexivity.
  Qed.

  (** what the decoder records for a field list of the fragment, read from the value *)
  Definition vals_of (fs : list field) : list (string * value) :=
    flat_map (fun f =>
                match f_desc f with
                | Scalar id _ | Typedef id _ =>
                    match assoc id obj with Some (VNum n) => [(id, VNum n)] | _ => [] end
                | _ => []
                end) fs.

  Definition pending_items (its : list item) : Prop := its = [] \/ gbits its mod 8 <> 0.

  (** a reference bit-field of the fragment is an item the decoder will accept *)
  Lemma ref_item f v w :
    bf_field fl f = true ->
    ref_bitfield fl refrec d all_fields [] obj payload f = Some (v, w) ->
    v < 2 ^ w ->
    item_ok (f, v, w) /\ item_vals [(f, v, w)] = vals_of [f].
  Proof.
    intros Hbf Hrb Hv. unfold item_ok, item_vals, vals_of, chunk_check. cbn [flat_map fst snd].
    unfold bf_field in Hbf. unfold ref_bitfield in Hrb. unfold field_size.
    destruct (f_cond f); [discriminate|].
    destruct (f_desc f) eqn:Ed; try discriminate.
    - (* FixedScalar *) inversion Hrb; subst. repeat split; try assumption; reflexivity.
    - (* FixedEnum *)
      destruct (enum_tags fl enum_id) as [[tags ew]|] eqn:Eet; [|discriminate].
      destruct (enum_tag_value tags tag_id) as [tv|] eqn:Etv; [|discriminate].
      cbn [option_map] in Hrb. inversion Hrb; subst.
      split; [|reflexivity]. split; [exact Hv|]. split.
      + unfold enum_tags in Eet. destruct (lookup_decl fl enum_id) as [[]|] eqn:El; try discriminate.
        inversion Eet; subst. apply (Hsch enum_id tags w). right. eexists; exact El.
      + exists tags, w. split; [reflexivity | exact Etv].
    - (* Reserved *) inversion Hrb; subst. repeat split; try assumption; reflexivity.
    - (* Scalar *)
      cbn [find_constraint find] in Hrb.
      destruct (assoc id obj) as [[n| | |]|] eqn:Ea; try discriminate.
      inversion Hrb; subst. repeat split; try assumption; reflexivity.
    - (* Typedef *)
      destruct (enum_tags fl type_id) as [[tags ew]|] eqn:Eet; [|discriminate].
      cbn [find_constraint find] in Hrb.
      destruct (assoc id obj) as [[n| | |]|] eqn:Ea; try discriminate.
      destruct (spec_enum_of_N tags ew n) as [e|] eqn:Esp; [|discriminate].
      inversion Hrb; subst.
      unfold enum_tags in Eet. destruct (lookup_decl fl type_id) as [[]|] eqn:El; try discriminate.
      inversion Eet; subst.
      split; [|reflexivity]. split; [exact Hv|]. split.
      + apply (Hsch type_id tags w). right. eexists; exact El.
      + unfold enum_check. rewrite El.
        destruct (Henum type_id _ tags w v e El Esp) as [e' He']. rewrite He'. reflexivity.
  Qed.

  Lemma single_one (its : list item) :
    (match chunk_of its 0 with [_] => true | _ => false end) = true -> exists it, its = [it].
  Proof.
    destruct its as [|[[f v] w] [|[[f2 v2] w2] r]]; cbn; intros H; try discriminate.
    eexists; reflexivity.
  Qed.

  Lemma single_reserved_vals (its : list item) :
    is_single_reserved (chunk_of its 0) = true -> item_vals its = [].
  Proof.
    destruct its as [|[[f v] w] [|[[f2 v2] w2] r]]; cbn; intros H; try discriminate; try reflexivity.
    unfold item_vals. cbn [flat_map fst snd]. destruct (f_desc f); try discriminate; reflexivity.
  Qed.

  Lemma len_app_ge (a b : list byte) n : List.length a = n -> (len (a ++ b) <? N.of_nat n) = false.
  Proof. intros <-. unfold len. rewrite app_length. lia. Qed.

  (** The decoder on the reference bytes of a field list of the fragment. *)
  Theorem dec_fields_reference : forall fs its st tl ss,
    forallb (bf_field fl) fs = true ->
    Forall item_ok its -> pending_items its ->
    ref_enc_fields fl refrec d all_fields [] obj payload fs (gsum its) (gbits its) = Some ss ->
    st_span st = (render (f_endian fl) ss ++ tl)%list ->
    gooddec (dec_fields oc fl sch rec lf d fs st (chunk_of its 0) (gbits its))
            (fun st' => st_span st' = tl
                        /\ st_vals st' = (st_vals st ++ item_vals its ++ vals_of fs)%list
                        /\ st_payload st' = st_payload st).
  Proof.
    induction fs as [|f rest IH]; intros its st tl ss Hbf Hits Hpend Href Hspan.
    - cbn [ref_enc_fields] in Href. destruct (gbits its =? 0) eqn:E0; [|discriminate].
      inversion Href; subst ss. apply N.eqb_eq in E0.
      destruct Hpend as [-> | Hne]; [|rewrite E0 in Hne; exfalso; apply Hne; reflexivity].
      cbn. cbn in Hspan. repeat split; [exact Hspan | now rewrite app_nil_r].
    - cbn [forallb] in Hbf. apply andb_prop in Hbf. destruct Hbf as [Hf Hrest].
      pose proof (bf_is_bitfield fl f Hf) as Hbit.
      assert (Hc : f_cond f = None) by (unfold bf_field in Hf; destruct (f_cond f); [discriminate|reflexivity]).
      cbn [ref_enc_fields dec_fields] in *. rewrite Hc, Hbit in *.
      destruct (ref_bitfield fl refrec d all_fields [] obj payload f) as [[v w]|] eqn:Erb; [|discriminate].
      destruct (v <? 2 ^ w) eqn:Ev; [|discriminate]. apply N.ltb_lt in Ev.
      destruct (ref_item f v w Hf Erb Ev) as [Hit Hvals].
      assert (Hfs : field_size sch d f = Some (SStatic w)) by (destruct Hit as [_ [H _]]; exact H).
      rewrite Hfs.
      set (its' := (its ++ [(f, v, w)])%list).
      assert (Hits' : Forall item_ok its').
      { apply Forall_app. split; [exact Hits | constructor; [exact Hit | constructor]]. }
      assert (Hgb : gbits its + w = gbits its').
      { unfold gbits, its'. rewrite vw_app, group_bits_app. cbn. lia. }
      assert (Hgs : gsum its + v * 2 ^ gbits its = gsum its').
      { unfold gsum, gbits, its'. rewrite vw_app, group_sum_app. cbn [vw map fst snd group_sum].
        rewrite N.add_0_l, N.add_0_r. reflexivity. }
      assert (Hch : (chunk_of its 0 ++ [(gbits its, f)])%list = chunk_of its' 0).
      { unfold its'. rewrite chunk_of_app. cbn [chunk_of]. now rewrite N.add_0_l. }
      assert (Hiv : (item_vals its ++ vals_of (f :: rest))%list = (item_vals its' ++ vals_of rest)%list).
      { unfold its'. rewrite item_vals_app, Hvals, <- app_assoc. f_equal.
        unfold vals_of. cbn [flat_map]. rewrite app_nil_r. reflexivity. }
      rewrite Hgb, Hgs, Hch in *. rewrite Hiv.
      destruct (gbits its' mod 8 =? 0) eqn:Em.
      + (* the chunk completes *)
        apply N.eqb_eq in Em.
        destruct (ref_enc_fields fl refrec d all_fields [] obj payload rest 0 0) as [b|] eqn:Eb; [|discriminate].
        inversion Href; subst ss. clear Href.
        rewrite render_cons, render_int_seg, <- app_assoc in Hspan.
        set (n := nbytes (gbits its')) in *.
        assert (Hn : N.of_nat n = gbits its' / 8) by (unfold n, nbytes; apply N2Nat.id).
        assert (Hlen : List.length (bytes_E (f_endian fl) n (gsum its')) = n) by apply bytes_E_length.
        unfold check_size. rewrite Hspan, <- Hn, (len_app_ge _ _ n Hlen). cbn [bind].
        destruct (integer_width (gbits its')) as [ctw|] eqn:Ectw; [|exact I].
        destruct (integer_width_bounds _ _ Ectw) as [Hcw _].
        assert (Hnil : Forall item_ok ([] : list item)) by constructor.
        assert (Hrec : forall st1,
                   st_span st1 = (render (f_endian fl) b ++ tl)%list ->
                   st_vals st1 = (st_vals st ++ item_vals its')%list ->
                   st_payload st1 = st_payload st ->
                   gooddec (dec_fields oc fl sch rec lf d rest st1 [] 0)
                           (fun st' => st_span st' = tl
                                       /\ st_vals st' = (st_vals st ++ item_vals its' ++ vals_of rest)%list
                                       /\ st_payload st' = st_payload st)).
        { intros st1 Hsp1 Hv1 Hp1.
          specialize (IH [] st1 tl b Hrest Hnil (or_introl eq_refl) Eb Hsp1).
          cbn [chunk_of gbits vw map group_bits] in IH.
          eapply gooddec_impl; [exact IH|]. intros st2 [H1 [H2 H3]].
          rewrite H2, Hv1, H3, Hp1. cbn [item_vals flat_map app].
          rewrite <- app_assoc. repeat split; [exact H1]. }
        destruct (is_single_reserved (chunk_of its' 0)) eqn:Esr.
        * unfold advance. rewrite (len_app_ge _ _ n Hlen). cbn [bind].
          rewrite Nat2N.id, (skipn_exact _ _ n Hlen).
          apply Hrec; cbn [st_span st_vals st_payload set_span]; try reflexivity.
          rewrite (single_reserved_vals its' Esr). now rewrite app_nil_r.
        * unfold get_uint, Decode.E. rewrite <- Hn, (len_app_ge _ _ n Hlen). cbn [bind].
          rewrite Nat2N.id, (skipn_exact _ _ n Hlen), (firstn_exact _ _ n Hlen).
          assert (Hbound : gsum its' < 256 ^ N.of_nat n).
          { unfold n. rewrite pow256_nbytes by exact Em.
            destruct (group_sum_bound (vw its') 0 (items_group_ok _ Hits')) as [Hb _].
            rewrite N.add_0_l in Hb. exact Hb. }
          rewrite (of_E_bytes_E _ _ _ Hbound).
          eapply gooddec_bind.
          -- pose proof (chunk_fields_items
                           (match chunk_of its' 0 with [_] => true | _ => false end)
                           ctw (N.of_nat n)
                           its' [] (set_span st (render (f_endian fl) b ++ tl)%list)
                           Hnil Hits') as Hcf.
             cbn [app] in Hcf. apply Hcf; [exact Hcw|]. apply single_one.
          -- intros st1 [Hsp1 [Hv1 Hp1]]. cbn [st_span st_vals st_payload set_span] in *.
             apply Hrec; assumption.
      + (* the chunk goes on *)
        apply N.eqb_neq in Em.
        apply (IH its' st tl ss Hrest Hits' (or_intror Em) Href Hspan).
  Qed.
End RoundTrip.

(** ** Enums accepted by the analyzer are exact (from C15) *)

Lemma accepted_enums_exact fl :
  (forall tid i tags w,
      lookup_decl fl tid = Some (DEnum i tags w) ->
      check_enum_declaration (DEnum i tags w) = []
      /\ integer_width w <> None /\ enum_is_complete tags (scalar_max w) <> None) ->
  enums_exact fl.
Proof.
  intros H tid i tags w x e Hl Hsp.
  destruct (H tid i tags w Hl) as [Hacc [Hw Hc]].
  destruct (integer_width w) as [bw|] eqn:Ebw; [|contradiction].
  destruct (enum_is_complete tags (scalar_max w)) as [c|] eqn:Ec; [|contradiction].
  destruct (accepted_enum_is_wellformed i tags w Hacc) as [Hwf Hb].
  assert (Hx : x < 2 ^ bw).
  { unfold spec_enum_of_N in Hsp. destruct (2 ^ w <=? x) eqn:E; [discriminate|].
    apply N.leb_gt in E. destruct (integer_width_bounds _ _ Ebw) as [Hle _].
    eapply N.lt_le_trans; [exact E | apply pow2_le_mono; exact Hle]. }
  pose proof (rust_try_from_exact tags w bw c x Hwf Hb Ebw Ec Hx) as Hex.
  rewrite Hsp in Hex. eexists; exact Hex.
Qed.

(** ** Whole declarations *)

Lemma fragment_no_payload fl d :
  forallb (bf_field fl) (decl_fields d) = true -> decl_payload d = None.
Proof.
  intros Hbf. unfold decl_payload. apply find_none_all. intros f Hin.
  rewrite forallb_forall in Hbf. specialize (Hbf f Hin).
  unfold bf_field in Hbf. unfold is_payload, is_payload_desc.
  destruct (f_cond f); [discriminate|]. destruct (f_desc f); try discriminate; reflexivity.
Qed.

(** the decoder on the reference bytes of a root declaration of the fragment *)
Theorem rust_dec_decl_reference fuel oc fl sch refrec d all_fields o payload ss tl :
  schema_knows_enums fl sch -> enums_exact fl ->
  get_parent fl d = None ->
  forallb (bf_field fl) (decl_fields d) = true ->
  ref_enc_fields fl refrec d all_fields [] o payload (decl_fields d) 0 0 = Some ss ->
  gooddec (rust_dec_decl (S fuel) oc fl sch d (render (f_endian fl) ss ++ tl))
          (fun r => r = (VObj (vals_of o (decl_fields d)), tl)).
Proof.
  intros Hsch Hen Hpar Hbf Href.
  cbn [rust_dec_decl]. rewrite Hpar.
  pose proof (dec_fields_reference oc fl sch (rec_of (rust_dec_decl fuel oc fl sch) fl) fuel d refrec
                                   all_fields o payload Hsch Hen (decl_fields d) []
                                   (init_state (render (f_endian fl) ss ++ tl)) tl ss Hbf
                                   (Forall_nil _) (or_introl eq_refl) Href eq_refl) as H.
  cbn [chunk_of gbits vw map group_bits] in H.
  eapply gooddec_bind; [exact H|]. intros st [Hsp [Hv _]]. cbv beta.
  unfold payload_entry. rewrite (fragment_no_payload fl d Hbf). cbn [bind app gooddec].
  rewrite Hsp, Hv. reflexivity.
Qed.

(** a value of the generated Rust type: exactly the data fields, in declaration order *)
Definition canonical_obj (o : list (string * value)) (fs : list field) : Prop := vals_of o fs = o.

(** ENCODE THEN DECODE IS THE IDENTITY on root declarations of the bit-field fragment:
    for every value the reference can encode (scalars within their widths, enum values
    that the enum declares), any bytes [tl] that follow, both byte orders and overflow
    modes: the emitted encoder produces the reference bytes [bs], and the emitted decoder
    run on [bs ++ tl] returns the value and [tl] -- unless the generator refuses the
    declaration (a bit-field group wider than 64 bits). *)
Theorem rust_roundtrip_fragment fuel fuel' oc fl sch id d o bs tl :
  schema_knows_enums fl sch -> enums_exact fl ->
  lookup_decl fl id = Some d ->
  root_of_fragment fl d ->
  canonical_obj o (decl_fields d) ->
  ref_encode (S fuel) fl id (VObj o) = Some bs ->
  match rust_encode (S fuel) fl sch id (VObj o) with
  | Ok bs' =>
      bs' = bs /\
      gooddec (rust_decode (S fuel') oc fl sch id (bs' ++ tl)) (fun r => r = (VObj o, tl))
  | Panic GenAssert => True
  | _ => False
  end.
Proof.
  intros Hsch Hen Hl Hroot Hcan Href.
  pose proof (rust_encode_fragment fuel fl sch id d (VObj o) bs Hsch Hl Hroot Href) as Henc.
  unfold good in Henc.
  destruct (rust_encode (S fuel) fl sch id (VObj o)) as [bs'| |k|]; try exact Henc.
  subst bs'. split; [reflexivity|].
  destruct Hroot as [[did [fs Hd]] Hbf].
  assert (Hpar : get_parent fl d = None) by (destruct Hd as [-> | ->]; reflexivity).
  assert (Hcs : iter_constraints fl d = []).
  { unfold iter_constraints. rewrite parents_self_root by exact Hpar.
    destruct Hd as [-> | ->]; reflexivity. }
  pose proof (fragment_no_payload fl d Hbf) as Hpl.
  unfold ref_encode, ref_segments in Href. rewrite Hl in Href.
  rewrite Hcs, Hpl in Href.
  assert (Hss : exists ss, ref_enc_decl (S fuel) fl d (iter_fields fl d) [] o [raw_seg []] = Some ss
                           /\ bs = render (f_endian fl) ss).
  { destruct Hd as [-> | ->].
    - destruct (obj_payload o) as [[|b0 pl]|]; try discriminate.
      cbn [option_map] in Href.
      destruct (ref_enc_decl (S fuel) fl (DPacket did [] fs None) (iter_fields fl (DPacket did [] fs None)) [] o [raw_seg []]) as [ss|] eqn:Es;
        [|discriminate].
      inversion Href; subst. exists ss. split; reflexivity.
    - destruct (obj_payload o) as [[|b0 pl]|]; try discriminate.
      cbn [option_map] in Href.
      destruct (ref_enc_decl (S fuel) fl (DStruct did [] fs None) (iter_fields fl (DStruct did [] fs None)) [] o [raw_seg []]) as [ss|] eqn:Es;
        [|discriminate].
      inversion Href; subst. exists ss. split; reflexivity. }
  destruct Hss as [ss [Hss ->]].
  cbn [ref_enc_decl] in Hss. rewrite Hpar in Hss.
  match type of Hss with
  | match ?x with _ => _ end = _ => destruct x as [ss'|] eqn:Ef; [|discriminate]
  end.
  inversion Hss; subst ss'. clear Hss.
  unfold rust_decode. rewrite Hl.
  pose proof (rust_dec_decl_reference fuel' oc fl sch _ d _ o _ ss tl Hsch Hen Hpar Hbf Ef) as Hdec.
  unfold canonical_obj in Hcan. rewrite Hcan in Hdec.
  destruct Hd as [-> | ->]; exact Hdec.
Qed.
