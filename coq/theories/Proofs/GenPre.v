(** When does the Rust generator's enum code panic?  Exactly when the enum is wider
    than 64 bits or has no value / range tag at all (the [unwrap] in enum_is_complete). *)
From Coq Require Import NArith ZArith List String Bool Lia ZifyN ZifyBool.
From PDL Require Import Base.Bits Lang.Ast Lang.Sexp Rust.Enum.
Import ListNotations.
Open Scope N_scope.

Lemma insert_sorted_nonempty x l : insert_sorted x l <> [].
Proof. destruct l as [|y l]; cbn [insert_sorted]; [discriminate|]. destruct (pair_leb x y); discriminate. Qed.

Lemma sort_pairs_nil l : sort_pairs l = [] <-> l = [].
Proof.
  split; [|intros ->; reflexivity].
  destruct l as [|x l]; [reflexivity|]. unfold sort_pairs. cbn [fold_right].
  intros H. exfalso. eapply insert_sorted_nonempty; exact H.
Qed.

Theorem enum_is_complete_defined tags mx :
  enum_is_complete tags mx = None <-> flat_map tag_span tags = [].
Proof.
  unfold enum_is_complete.
  destruct (sort_pairs (flat_map tag_span tags)) as [|f r] eqn:E.
  - split; [intros _; now apply sort_pairs_nil | reflexivity].
  - split; [discriminate|]. intros H. apply sort_pairs_nil in H. congruence.
Qed.

Lemma integer_width_defined w : integer_width w <> None <-> w <= 64.
Proof.
  unfold integer_width.
  destruct (w <=? 8) eqn:E1; [split; [lia|discriminate]|].
  destruct (w <=? 16) eqn:E2; [split; [lia|discriminate]|].
  destruct (w <=? 32) eqn:E3; [split; [lia|discriminate]|].
  destruct (w <=? 64) eqn:E4; [split; [lia|discriminate]|].
  split; [congruence | lia].
Qed.

(** the generator produces the TryFrom match iff the width fits and some tag has a value *)
Theorem from_cases_defined tags w :
  from_cases tags w <> None <-> (w <= 64 /\ flat_map tag_span tags <> []).
Proof.
  unfold from_cases.
  destruct (integer_width w) as [bw|] eqn:Ew.
  - assert (Hw : w <= 64) by (apply integer_width_defined; congruence).
    destruct (enum_is_complete tags (scalar_max w)) as [c|] eqn:Ec.
    + split; [|discriminate]. intros _. split; [exact Hw|].
      intros Hn. apply (enum_is_complete_defined tags (scalar_max w)) in Hn. congruence.
    + split; [congruence|]. intros [_ Hn]. exfalso. apply Hn. now apply (enum_is_complete_defined tags (scalar_max w)).
  - split; [congruence|]. intros [Hw _]. exfalso.
    apply (integer_width_defined w) in Hw. congruence.
Qed.
