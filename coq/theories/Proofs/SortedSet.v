(** The order in which generate_specialize_impl emits its match arms and discriminant
    fields is that of a BTreeMap / BTreeSet: it depends on the SET of identifiers only,
    not on the order in which a HashMap iteration or the declaration list delivered
    them.  [sort_dedup] is the model of `collect::<BTreeSet<String>>()`. *)
From Coq Require Import NArith ZArith List String Ascii Bool Lia ZifyN ZifyBool Permutation.
From PDL Require Import Base.Bits Lang.Ast Lang.Sexp Rust.Inherit.
Import ListNotations.

Lemma N_of_ascii_inj a b : N_of_ascii a = N_of_ascii b -> a = b.
Proof. intros H. rewrite <- (ascii_N_embedding a), <- (ascii_N_embedding b). now rewrite H. Qed.

Lemma str_ltb_irrefl a : str_ltb a a = false.
Proof.
  induction a as [|c a IH]; cbn [str_ltb]; [reflexivity|].
  rewrite N.ltb_irrefl. exact IH.
Qed.

Lemma str_ltb_trichotomy a : forall b, a = b \/ str_ltb a b = true \/ str_ltb b a = true.
Proof.
  induction a as [|x a IH]; intros [|y b]; cbn [str_ltb]; auto.
  destruct (N.lt_trichotomy (N_of_ascii x) (N_of_ascii y)) as [H|[H|H]].
  - right; left. apply N.ltb_lt in H. now rewrite H.
  - apply N_of_ascii_inj in H. subst y. rewrite N.ltb_irrefl.
    destruct (IH b) as [->|[H|H]]; auto.
  - right; right. apply N.ltb_lt in H. now rewrite H.
Qed.

Lemma str_ltb_asym a : forall b, str_ltb a b = true -> str_ltb b a = false.
Proof.
  induction a as [|x a IH]; intros [|y b]; cbn [str_ltb]; try discriminate; try reflexivity.
  destruct (N_of_ascii x <? N_of_ascii y) eqn:E1.
  - intros _. assert (E2 : (N_of_ascii y <? N_of_ascii x) = false) by lia. now rewrite E2.
  - destruct (N_of_ascii y <? N_of_ascii x) eqn:E2; [discriminate|]. apply IH.
Qed.

Lemma str_ltb_trans a : forall b c, str_ltb a b = true -> str_ltb b c = true -> str_ltb a c = true.
Proof.
  induction a as [|x a IH]; intros [|y b] [|z c]; cbn [str_ltb]; try discriminate; try reflexivity.
  destruct (N_of_ascii x <? N_of_ascii y) eqn:Exy.
  - intros _. destruct (N_of_ascii y <? N_of_ascii z) eqn:Eyz.
    + intros _. assert (E : (N_of_ascii x <? N_of_ascii z) = true) by lia. now rewrite E.
    + destruct (N_of_ascii z <? N_of_ascii y) eqn:Ezy; [discriminate|].
      intros _. assert (N_of_ascii y = N_of_ascii z) by lia.
      assert (E : (N_of_ascii x <? N_of_ascii z) = true) by lia. now rewrite E.
  - destruct (N_of_ascii y <? N_of_ascii x) eqn:Eyx; [discriminate|].
    assert (Hxy : N_of_ascii x = N_of_ascii y) by lia.
    intros Hab. destruct (N_of_ascii y <? N_of_ascii z) eqn:Eyz.
    + intros _. assert (E : (N_of_ascii x <? N_of_ascii z) = true) by lia. now rewrite E.
    + destruct (N_of_ascii z <? N_of_ascii y) eqn:Ezy; [discriminate|].
      intros Hbc.
      assert (E1 : (N_of_ascii x <? N_of_ascii z) = false) by lia.
      assert (E2 : (N_of_ascii z <? N_of_ascii x) = false) by lia.
      rewrite E1, E2. eapply IH; eassumption.
Qed.

(** strictly increasing lists *)
Inductive ssorted : list string -> Prop :=
| ss_nil : ssorted []
| ss_one x : ssorted [x]
| ss_cons x y l : str_ltb x y = true -> ssorted (y :: l) -> ssorted (x :: y :: l).

Lemma ssorted_tail x l : ssorted (x :: l) -> ssorted l.
Proof. intros H. inversion H; subst; [constructor | assumption]. Qed.

Lemma ssorted_head_lt x l : ssorted (x :: l) -> forall y, In y l -> str_ltb x y = true.
Proof.
  revert x. induction l as [|z l IH]; intros x H y Hy; [destruct Hy|].
  inversion H; subst. destruct Hy as [<-|Hy]; [assumption|].
  eapply str_ltb_trans; [eassumption|]. eapply IH; eassumption.
Qed.

Lemma insert_str_in s l x : In x (insert_str s l) <-> x = s \/ In x l.
Proof.
  induction l as [|y l IH]; cbn [insert_str]; [simpl; intuition|].
  destruct (String.eqb s y) eqn:E.
  - apply String.eqb_eq in E. subst. simpl. intuition.
  - destruct (str_ltb s y); simpl; [intuition|]. rewrite IH. intuition.
Qed.

Lemma insert_str_sorted s l : ssorted l -> ssorted (insert_str s l).
Proof.
  induction l as [|y l IH]; intros Hs; cbn [insert_str]; [constructor|].
  destruct (String.eqb s y) eqn:E; [exact Hs|].
  destruct (str_ltb s y) eqn:Elt; [constructor; assumption|].
  assert (Hys : str_ltb y s = true).
  { destruct (str_ltb_trichotomy s y) as [->|[H|H]]; [rewrite String.eqb_refl in E; discriminate | congruence | exact H]. }
  specialize (IH (ssorted_tail _ _ Hs)).
  destruct l as [|z l]; cbn [insert_str] in *.
  - constructor; [exact Hys | constructor].
  - destruct (String.eqb s z) eqn:E2; [exact Hs|].
    destruct (str_ltb s z) eqn:Elt2.
    + constructor; [exact Hys | exact IH].
    + inversion Hs; subst. constructor; [assumption | exact IH].
Qed.

Lemma sort_dedup_sorted l : ssorted (sort_dedup l).
Proof. unfold sort_dedup. induction l as [|x l IH]; cbn [fold_right]; [constructor | now apply insert_str_sorted]. Qed.

Lemma sort_dedup_in l x : In x (sort_dedup l) <-> In x l.
Proof.
  unfold sort_dedup. induction l as [|y l IH]; cbn [fold_right]; [tauto|].
  rewrite insert_str_in, IH. simpl. intuition.
Qed.

(** strictly sorted lists with the same elements are equal *)
Lemma ssorted_ext : forall l l', ssorted l -> ssorted l' -> (forall x, In x l <-> In x l') -> l = l'.
Proof.
  induction l as [|a l IH]; intros [|b l'] Hs Hs' Hin.
  - reflexivity.
  - exfalso. apply (proj2 (Hin b)). left; reflexivity.
  - exfalso. apply (proj1 (Hin a)). left; reflexivity.
  - assert (Hab : a = b).
    { destruct (proj1 (Hin a) (or_introl eq_refl)) as [->|Ha]; [reflexivity|].
      destruct (proj2 (Hin b) (or_introl eq_refl)) as [->|Hb]; [reflexivity|].
      pose proof (ssorted_head_lt _ _ Hs' _ Ha) as H1.
      pose proof (ssorted_head_lt _ _ Hs _ Hb) as H2.
      rewrite (str_ltb_asym _ _ H1) in H2. discriminate. }
    subst b. f_equal. apply IH; [eapply ssorted_tail; eassumption | eapply ssorted_tail; eassumption|].
    intros x. split; intros Hx.
    + destruct (proj1 (Hin x) (or_intror Hx)) as [<-|H]; [|exact H].
      pose proof (ssorted_head_lt _ _ Hs _ Hx) as H1. rewrite str_ltb_irrefl in H1. discriminate.
    + destruct (proj2 (Hin x) (or_intror Hx)) as [<-|H]; [|exact H].
      pose proof (ssorted_head_lt _ _ Hs' _ Hx) as H1. rewrite str_ltb_irrefl in H1. discriminate.
Qed.

Theorem sort_dedup_order_independent l l' :
  (forall x, In x l <-> In x l') -> sort_dedup l = sort_dedup l'.
Proof.
  intros H. apply ssorted_ext; try apply sort_dedup_sorted.
  intros x. rewrite !sort_dedup_in. apply H.
Qed.

Corollary sort_dedup_permutation l l' : Permutation l l' -> sort_dedup l = sort_dedup l'.
Proof.
  intros Hp. apply sort_dedup_order_independent. intros x. split; apply Permutation_in; [exact Hp | apply Permutation_sym; exact Hp].
Qed.
