(** The schema that [mk_schema] (Schema.v, model of [Schema::new]) actually computes
    satisfies the premise [schema_knows_enums] that the backend theorems of
    BitfieldEncode.v and StaticSize.v carry about an arbitrary schema.

    - [mk_schema_go] prepends, [assoc] takes the first match, [lookup_decl] takes the
      LAST declaration with the identifier: both pick the same declaration, so the
      statement needs NO distinctness of identifiers.
    - It does need every enum width to fit [usize]: [type_total] recomputes
      [decl + parent + payload] with the overflow check of [impl Add for Size], so an
      enum wider than [usize::MAX] is annotated by [mk_schema] but has no total
      ([enum_width_counter_example] below).  The side condition is decidable and sharp
      ([mk_schema_enum_total]).
    - The total size of a root declaration of the bit-field fragment is the sum of its
      field widths; this one needs distinct identifiers ([frag_total_needs_distinct_ids]). *)
From Coq Require Import NArith ZArith List String Bool Lia ZifyN ZifyBool.
From Coq Require Import Strings.Byte.
From PDL Require Import Base.Bits Base.Outcome Lang.Ast Lang.Sexp Analyzer.Schema Rust.Enum
     Sem.RefEncode Rust.Encode Proofs.Pack Proofs.BitfieldEncode Proofs.StaticSize
     Proofs.AnalyzerSound.
Import ListNotations.
Open Scope N_scope.

(** ** Lists and lookups *)

Lemma se_find_app {A} (f : A -> bool) l1 l2 :
  find f (l1 ++ l2)%list = match find f l1 with Some x => Some x | None => find f l2 end.
Proof.
  induction l1 as [|a l1 IH]; [reflexivity|]. cbn [app find]. destruct (f a); [reflexivity | exact IH].
Qed.

Lemma has_id_spec tid d : has_id tid d = true <-> decl_id d = Some tid.
Proof.
  unfold has_id. destruct (decl_id d) as [i|]; [|split; discriminate].
  rewrite String.eqb_eq. split; [intros ->; reflexivity | intros H; inversion H; reflexivity].
Qed.

Lemma lookup_decl_id fl tid d : lookup_decl fl tid = Some d -> decl_id d = Some tid.
Proof.
  unfold lookup_decl. intros H. apply find_some in H. destruct H as [_ H]. now apply has_id_spec.
Qed.

Lemma lookup_decl_In fl tid d : lookup_decl fl tid = Some d -> In d (f_decls fl).
Proof.
  unfold lookup_decl. intros H. apply find_some in H. destruct H as [H _]. now apply in_rev.
Qed.

(** the second disjunct of [schema_knows_enums] says no more than the first *)
Lemma lookup_decl_enum_id fl tid i tags w : lookup_decl fl tid = Some (DEnum i tags w) -> i = tid.
Proof. intros H. apply lookup_decl_id in H. cbn [decl_id] in H. now inversion H. Qed.

(** ** One step of [mk_schema_go] *)

Definition sch_step (all : list string) (sch : schema) (d : decl) : option schema :=
  if match decl_parent_id d with
     | Some p => match assoc p sch with
                 | Some _ => true
                 | None => negb (existsb (String.eqb p) all)
                 end
     | None => true
     end
  then
    match annotate_decl sch d with
    | Some e => Some (match decl_id d with Some id => (id, e) :: sch | None => sch end)
    | None => None
    end
  else None.

Lemma go_cons d rest all sch :
  mk_schema_go (d :: rest) all sch =
  match sch_step all sch d with Some s => mk_schema_go rest all s | None => None end.
Proof.
  cbn [mk_schema_go]. unfold sch_step. cbv zeta.
  match goal with |- (if ?c then _ else _) = _ => destruct c; [|reflexivity] end.
  destruct (annotate_decl sch d); [|reflexivity]. destruct (decl_id d); reflexivity.
Qed.

Lemma sch_step_inv all sch d s :
  sch_step all sch d = Some s ->
  exists e, annotate_decl sch d = Some e
            /\ s = match decl_id d with Some id => (id, e) :: sch | None => sch end.
Proof.
  unfold sch_step.
  match goal with |- (if ?c then _ else _) = _ -> _ => destruct c; [|discriminate] end.
  destruct (annotate_decl sch d) as [e|]; [|discriminate].
  intros H. inversion H. exists e. split; reflexivity.
Qed.

(** ** What the final schema records for an identifier: the annotation of the LAST
    declaration carrying it, computed against the schema of the declarations before. *)
Lemma go_lookup : forall ds all sch0 sch,
  mk_schema_go ds all sch0 = Some sch ->
  forall tid,
    match find (has_id tid) (rev ds) with
    | Some d =>
        exists pre post s' e,
          ds = (pre ++ d :: post)%list
          /\ mk_schema_go pre all sch0 = Some s'
          /\ annotate_decl s' d = Some e
          /\ assoc tid sch = Some e
    | None => assoc tid sch = assoc tid sch0
    end.
Proof.
  induction ds as [|d rest IH]; intros all sch0 sch Hgo tid.
  - cbn [mk_schema_go] in Hgo. inversion Hgo; subst. cbn [rev find]. reflexivity.
  - rewrite go_cons in Hgo.
    destruct (sch_step all sch0 d) as [s1|] eqn:Es; [|discriminate].
    pose proof (IH all s1 sch Hgo tid) as Hrest.
    cbn [rev]. rewrite se_find_app.
    destruct (find (has_id tid) (rev rest)) as [d'|].
    + destruct Hrest as (pre & post & s' & e & Hsplit & Hpre & Hann & Has).
      exists (d :: pre), post, s', e. repeat split; try assumption.
      * rewrite Hsplit. reflexivity.
      * rewrite go_cons, Es. exact Hpre.
    + destruct (sch_step_inv _ _ _ _ Es) as (e & Hann & Hs1).
      cbn [find]. destruct (has_id tid d) eqn:Eh.
      * apply has_id_spec in Eh. rewrite Eh in Hs1. subst s1.
        exists [], rest, sch0, e. repeat split; try assumption.
        rewrite Hrest. cbn [assoc]. now rewrite String.eqb_refl.
      * rewrite Hrest. subst s1. unfold has_id in Eh.
        destruct (decl_id d) as [id|]; [|reflexivity].
        cbn [assoc]. rewrite String.eqb_sym, Eh. reflexivity.
Qed.

(** ** Enums *)

Lemma annotate_enum s i tags w e :
  annotate_decl s (DEnum i tags w) = Some e -> e = mkDs (SStatic w) (SStatic 0) (SStatic 0).
Proof.
  unfold annotate_decl. cbn [decl_parent_id decl_fields annotate_fields].
  intros H. inversion H. reflexivity.
Qed.

Lemma ds_total_static n :
  ds_total (mkDs (SStatic n) (SStatic 0) (SStatic 0)) = if fits_usize n then Some (SStatic n) else None.
Proof.
  unfold ds_total. cbn [ds_decl ds_parent ds_payload size_add]. rewrite !N.add_0_r.
  destruct (fits_usize n) eqn:E; [|reflexivity].
  cbn [size_add]. rewrite N.add_0_r, E. reflexivity.
Qed.

(** every enum declaration's width fits [usize] (the Rust parser reads widths as [usize]) *)
Definition enum_widths_fit (fl : file) : bool :=
  forallb (fun d => match d with DEnum _ _ w => fits_usize w | _ => true end) (f_decls fl).

(** the sharp form: what the real schema answers for an enum *)
Theorem mk_schema_enum_total fl sch tid i tags w :
  mk_schema fl = Some sch ->
  lookup_decl fl tid = Some (DEnum i tags w) ->
  type_total sch tid = if fits_usize w then Some (SStatic w) else None.
Proof.
  intros Hmk Hl.
  pose proof (go_lookup (f_decls fl) (decl_ids fl) [] sch Hmk tid) as Hg.
  unfold lookup_decl in Hl. rewrite Hl in Hg.
  destruct Hg as (pre & post & s' & e & _ & _ & Hann & Has).
  apply annotate_enum in Hann. subst e.
  unfold type_total. rewrite Has. apply ds_total_static.
Qed.

Theorem mk_schema_knows_enums fl sch :
  enum_widths_fit fl = true ->
  mk_schema fl = Some sch ->
  schema_knows_enums fl sch.
Proof.
  intros Hfit Hmk tid tags w Hl.
  assert (Hex : exists i, lookup_decl fl tid = Some (DEnum i tags w))
    by (destruct Hl as [H|H]; [eexists; exact H | exact H]).
  destruct Hex as [i Hi].
  rewrite (mk_schema_enum_total fl sch tid i tags w Hmk Hi).
  unfold enum_widths_fit in Hfit. rewrite forallb_forall in Hfit.
  pose proof (Hfit _ (lookup_decl_In _ _ _ Hi)) as Hw. cbn beta iota in Hw.
  rewrite Hw. reflexivity.
Qed.

(** the side condition is necessary for the enums that lookups can see *)
Theorem mk_schema_knows_enums_iff fl sch :
  mk_schema fl = Some sch ->
  (schema_knows_enums fl sch <->
   forall tid i tags w, lookup_decl fl tid = Some (DEnum i tags w) -> fits_usize w = true).
Proof.
  intros Hmk. split.
  - intros Hk tid i tags w Hl.
    pose proof (Hk tid tags w (or_intror (ex_intro _ i Hl))) as Ht.
    rewrite (mk_schema_enum_total fl sch tid i tags w Hmk Hl) in Ht.
    destruct (fits_usize w); [reflexivity | discriminate].
  - intros Hfit tid tags w Hl.
    assert (Hex : exists i, lookup_decl fl tid = Some (DEnum i tags w))
      by (destruct Hl as [H|H]; [eexists; exact H | exact H]).
    destruct Hex as [i Hi].
    rewrite (mk_schema_enum_total fl sch tid i tags w Hmk Hi), (Hfit _ _ _ _ Hi). reflexivity.
Qed.

(** ** The backend theorems about the schema that is actually constructed *)

Theorem rust_encode_fragment_real_schema fuel fl sch id d v bs :
  enum_widths_fit fl = true ->
  mk_schema fl = Some sch ->
  lookup_decl fl id = Some d ->
  root_of_fragment fl d ->
  ref_encode (S fuel) fl id v = Some bs ->
  good (rust_encode (S fuel) fl sch id v) bs.
Proof.
  intros Hfit Hmk. apply rust_encode_fragment. exact (mk_schema_knows_enums fl sch Hfit Hmk).
Qed.

Theorem static_exact_fragment_real_schema fl sch rec d all_fields obj payload fs n psz ss :
  enum_widths_fit fl = true ->
  mk_schema fl = Some sch ->
  forallb (bf_field fl) fs = true ->
  annotate_fields sch d fs (SStatic 0) (SStatic 0) = Some (SStatic n, psz) ->
  ref_enc_fields fl rec d all_fields [] obj payload fs 0 0 = Some ss ->
  8 * seg_len ss = n.
Proof.
  intros Hfit Hmk. apply (static_exact_fragment fl sch). exact (mk_schema_knows_enums fl sch Hfit Hmk).
Qed.

(** ** The size of a root declaration of the fragment, as the real schema answers it

    The declaration is annotated against the schema of the declarations BEFORE it, while
    [frag_bits] reads enum widths through [lookup_decl], i.e. from the LAST declaration
    of an identifier: the two agree when identifiers are distinct, which is what
    [Scope::new] (E1, [scope_new_nodup]) guarantees. *)

Lemma decl_id_in_list d l i : In d l -> decl_id d = Some i -> In i (decl_id_list l).
Proof.
  induction l as [|a l IH]; intros Hin Hid; [destruct Hin|].
  cbn [decl_id_list]. destruct Hin as [Ha|Hin].
  - subst a. rewrite Hid. left; reflexivity.
  - destruct (decl_id a); [right|]; apply IH; assumption.
Qed.

Lemma unique_by_id l :
  NoDup (decl_id_list l) ->
  forall x y i, In x l -> In y l -> decl_id x = Some i -> decl_id y = Some i -> x = y.
Proof.
  induction l as [|a l IH]; intros Hnd x y i Hx Hy Hix Hiy; [destruct Hx|].
  cbn [decl_id_list] in Hnd.
  destruct Hx as [Hx|Hx]; destruct Hy as [Hy|Hy].
  - congruence.
  - subst a. rewrite Hix in Hnd. inversion Hnd as [|? ? Hnotin _]; subst.
    exfalso. apply Hnotin. eapply decl_id_in_list; eassumption.
  - subst a. rewrite Hiy in Hnd. inversion Hnd as [|? ? Hnotin _]; subst.
    exfalso. apply Hnotin. eapply decl_id_in_list; eassumption.
  - assert (Hnd' : NoDup (decl_id_list l))
      by (destruct (decl_id a); [inversion Hnd; assumption | exact Hnd]).
    exact (IH Hnd' x y i Hx Hy Hix Hiy).
Qed.

(** a schema that may not know every enum yet, but is right about those it knows *)
Definition schema_agrees_enums (fl : file) (s : schema) : Prop :=
  forall tid i tags w sz,
    lookup_decl fl tid = Some (DEnum i tags w) -> type_total s tid = Some sz -> sz = SStatic w.

Lemma prefix_agrees fl pre all s' :
  NoDup (decl_id_list (f_decls fl)) ->
  (forall x, In x pre -> In x (f_decls fl)) ->
  mk_schema_go pre all [] = Some s' ->
  schema_agrees_enums fl s'.
Proof.
  intros Hnd Hsub Hpre tid i tags w sz Hl Ht.
  pose proof (go_lookup pre all [] s' Hpre tid) as Hg.
  unfold type_total in Ht.
  destruct (find (has_id tid) (rev pre)) as [d''|] eqn:Ef.
  - destruct Hg as (pre' & post' & s'' & e & _ & _ & Hann & Has).
    apply find_some in Ef. destruct Ef as [Hin Hid].
    apply in_rev in Hin. apply has_id_spec in Hid.
    assert (Heq : d'' = DEnum i tags w).
    { apply (unique_by_id _ Hnd d'' (DEnum i tags w) tid).
      - apply Hsub. exact Hin.
      - eapply lookup_decl_In. exact Hl.
      - exact Hid.
      - eapply lookup_decl_id. exact Hl. }
    subst d''. apply annotate_enum in Hann. subst e.
    rewrite Has, ds_total_static in Ht.
    destruct (fits_usize w); inversion Ht; reflexivity.
  - rewrite Hg in Ht. cbn [assoc] in Ht. discriminate.
Qed.

Lemma field_size_agrees fl s d f sz :
  schema_agrees_enums fl s ->
  bf_field fl f = true -> field_size s d f = Some sz -> sz = SStatic (frag_width fl f).
Proof.
  unfold bf_field, field_size, frag_width. intros Hag. destruct (f_cond f); [discriminate|].
  destruct (f_desc f); try discriminate; intros Hbf H; try (inversion H; reflexivity).
  - destruct (lookup_decl fl enum_id) as [[]|] eqn:El; try discriminate.
    eapply Hag; eassumption.
  - destruct (lookup_decl fl type_id) as [[]|] eqn:El; try discriminate.
    eapply Hag; eassumption.
Qed.

Lemma annotate_fields_agrees fl s d :
  schema_agrees_enums fl s ->
  forall fs a p dsz psz,
    forallb (bf_field fl) fs = true ->
    annotate_fields s d fs (SStatic a) p = Some (dsz, psz) ->
    dsz = SStatic (a + frag_bits fl fs) /\ psz = p
    /\ (fits_usize a = true -> fits_usize (a + frag_bits fl fs) = true).
Proof.
  intros Hag. induction fs as [|f rest IH]; intros a p dsz psz Hbf H; cbn [annotate_fields frag_bits] in *.
  - inversion H; subst. split; [f_equal; lia|]. split; [reflexivity|].
    intros Ha. rewrite N.add_0_r. exact Ha.
  - cbn [forallb] in Hbf. apply andb_prop in Hbf. destruct Hbf as [Hf Hrest].
    destruct (field_size s d f) as [sz|] eqn:Efs; [|discriminate].
    apply (field_size_agrees fl s d f sz Hag Hf) in Efs. subst sz.
    rewrite (bf_not_payload fl f Hf), (next_padding_fragment fl rest Hrest) in H.
    cbn [size_add] in H.
    destruct (fits_usize (a + frag_width fl f)) eqn:Efit; [|discriminate].
    destruct (IH _ _ _ _ Hrest H) as (Hd & Hp & Hfits). subst dsz psz.
    split; [f_equal; lia|]. split; [reflexivity|].
    intros _. rewrite N.add_assoc. apply Hfits. exact Efit.
Qed.

Lemma annotate_root s d did fs :
  d = DPacket did [] fs None \/ d = DStruct did [] fs None ->
  decl_fields d = fs
  /\ annotate_decl s d =
     match annotate_fields s d fs (SStatic 0) (SStatic 0) with
     | Some (dsz, psz) => Some (mkDs dsz (SStatic 0) psz)
     | None => None
     end.
Proof.
  intros [Hd|Hd]; subst d; (split; [reflexivity|]);
    unfold annotate_decl; cbn [decl_parent_id decl_fields];
    match goal with |- context [annotate_fields ?a ?b ?c ?x ?y] =>
      destruct (annotate_fields a b c x y) as [[dsz psz]|]; reflexivity end.
Qed.

(** [decl_size], [parent_size], [payload_size] and [total_size] of a fragment root *)
Theorem mk_schema_fragment_total fl sch id d :
  NoDup (decl_id_list (f_decls fl)) ->
  mk_schema fl = Some sch ->
  lookup_decl fl id = Some d ->
  root_of_fragment fl d ->
  assoc id sch = Some (mkDs (SStatic (frag_bits fl (decl_fields d))) (SStatic 0) (SStatic 0))
  /\ type_total sch id = Some (SStatic (frag_bits fl (decl_fields d))).
Proof.
  intros Hnd Hmk Hl [[did [fs Hd]] Hbf].
  pose proof (go_lookup (f_decls fl) (decl_ids fl) [] sch Hmk id) as Hg.
  unfold lookup_decl in Hl. rewrite Hl in Hg.
  destruct Hg as (pre & post & s' & e & Hsplit & Hpre & Hann & Has).
  assert (Hag : schema_agrees_enums fl s').
  { apply (prefix_agrees fl pre (decl_ids fl) s' Hnd); [|exact Hpre].
    intros x Hx. rewrite Hsplit. apply in_or_app. left. exact Hx. }
  destruct (annotate_root s' d did fs Hd) as [Hfs Hroot].
  rewrite Hfs in *. rewrite Hroot in Hann.
  destruct (annotate_fields s' d fs (SStatic 0) (SStatic 0)) as [[dsz psz]|] eqn:Ea; [|discriminate].
  destruct (annotate_fields_agrees fl s' d Hag fs 0 (SStatic 0) dsz psz Hbf Ea) as (Hd' & Hp & Hfits).
  rewrite N.add_0_l in Hd', Hfits. subst dsz psz. inversion Hann; subst e.
  split; [exact Has|].
  unfold type_total. rewrite Has, ds_total_static, (Hfits eq_refl). reflexivity.
Qed.

(** the same from the analyzer's own check *)
Corollary mk_schema_fragment_total_scope fl sch id d :
  Passes.scope_new fl = [] ->
  mk_schema fl = Some sch ->
  lookup_decl fl id = Some d ->
  root_of_fragment fl d ->
  type_total sch id = Some (SStatic (frag_bits fl (decl_fields d))).
Proof.
  intros Hs Hmk Hl Hr. apply scope_new_nodup in Hs.
  exact (proj2 (mk_schema_fragment_total fl sch id d Hs Hmk Hl Hr)).
Qed.

(** C16 for the real schema: the constant the public query returns for a fragment root is
    the number of bits of every reference encoding of its fields. *)
Theorem static_total_exact_real_schema fl sch id d rec all_fields obj payload n ss :
  NoDup (decl_id_list (f_decls fl)) ->
  mk_schema fl = Some sch ->
  lookup_decl fl id = Some d ->
  root_of_fragment fl d ->
  type_total sch id = Some (SStatic n) ->
  ref_enc_fields fl rec d all_fields [] obj payload (decl_fields d) 0 0 = Some ss ->
  8 * seg_len ss = n.
Proof.
  intros Hnd Hmk Hl Hr Ht Hss.
  rewrite (proj2 (mk_schema_fragment_total fl sch id d Hnd Hmk Hl Hr)) in Ht.
  inversion Ht; subst n. destruct Hr as [_ Hbf].
  rewrite (ref_fragment_bits fl rec d all_fields obj payload (decl_fields d) 0 0 ss Hbf Hss). lia.
Qed.

(** ** Non-vacuity and counter-examples, by computation *)

Local Open Scope string_scope.

Definition ex_file : file :=
  mkFile LittleEndian
    [ DEnum "A" [TagValue "X" 0; TagValue "Y" 1] 3;
      DEnum "B" [TagValue "Z" 2] 5;
      DPacket "P" [] [mkField (Typedef "a" "A") None; mkField (Typedef "b" "B") None;
                      mkField (Scalar "c" 8) None] None ].

Example ex_side_conditions :
  enum_widths_fit ex_file = true
  /\ NoDup (decl_id_list (f_decls ex_file))
  /\ mk_schema ex_file
     = Some [("P", mkDs (SStatic 16) (SStatic 0) (SStatic 0));
             ("B", mkDs (SStatic 5) (SStatic 0) (SStatic 0));
             ("A", mkDs (SStatic 3) (SStatic 0) (SStatic 0))].
Proof.
  split; [vm_compute; reflexivity|]. split; [|vm_compute; reflexivity].
  apply scope_new_nodup. vm_compute. reflexivity.
Qed.

Example ex_knows_enums : exists sch, mk_schema ex_file = Some sch /\ schema_knows_enums ex_file sch.
Proof.
  destruct ex_side_conditions as (Hfit & _ & Hmk).
  eexists. split; [exact Hmk|]. exact (mk_schema_knows_enums _ _ Hfit Hmk).
Qed.

Example ex_packet_total :
  exists sch d, mk_schema ex_file = Some sch /\ lookup_decl ex_file "P" = Some d
                /\ root_of_fragment ex_file d /\ type_total sch "P" = Some (SStatic 16).
Proof.
  destruct ex_side_conditions as (_ & Hnd & Hmk).
  eexists. eexists. split; [exact Hmk|]. split; [vm_compute; reflexivity|].
  assert (Hroot : root_of_fragment ex_file
            (DPacket "P" [] [mkField (Typedef "a" "A") None; mkField (Typedef "b" "B") None;
                             mkField (Scalar "c" 8) None] None)).
  { split; [eexists; eexists; left; reflexivity | vm_compute; reflexivity]. }
  split; [exact Hroot|].
  exact (proj2 (mk_schema_fragment_total ex_file _ "P" _ Hnd Hmk eq_refl Hroot)).
Qed.

(** Without the width condition the statement is false: [mk_schema] succeeds and the
    enum has no total size. *)
Definition cex_wide_enum : file := mkFile LittleEndian [DEnum "E" [] 18446744073709551616].

Eval vm_compute in (mk_schema cex_wide_enum,
                    match mk_schema cex_wide_enum with Some s => type_total s "E" | None => None end).

Example enum_width_counter_example :
  exists sch, mk_schema cex_wide_enum = Some sch /\ ~ schema_knows_enums cex_wide_enum sch.
Proof.
  eexists. split; [vm_compute; reflexivity|]. intros Hk.
  pose proof (Hk "E" [] 18446744073709551616 (or_introl eq_refl)) as H.
  vm_compute in H. discriminate.
Qed.

(** Duplicate identifiers: [schema_knows_enums] still holds (no [NoDup] among its side
    conditions), but the struct was sized with the enum declared before it. *)
Definition cex_dup : file :=
  mkFile LittleEndian
    [ DEnum "E" [] 8; DStruct "S" [] [mkField (Typedef "e" "E") None] None; DEnum "E" [] 16 ].

Eval vm_compute in (mk_schema cex_dup).

Example frag_total_needs_distinct_ids :
  exists sch d, mk_schema cex_dup = Some sch
                /\ schema_knows_enums cex_dup sch
                /\ lookup_decl cex_dup "S" = Some d /\ root_of_fragment cex_dup d
                /\ type_total sch "S" = Some (SStatic 8)
                /\ frag_bits cex_dup (decl_fields d) = 16.
Proof.
  assert (Hmk : mk_schema cex_dup
                = Some [("E", mkDs (SStatic 16) (SStatic 0) (SStatic 0));
                        ("S", mkDs (SStatic 8) (SStatic 0) (SStatic 0));
                        ("E", mkDs (SStatic 8) (SStatic 0) (SStatic 0))])
    by (vm_compute; reflexivity).
  eexists. eexists. split; [exact Hmk|].
  split; [apply mk_schema_knows_enums; [vm_compute; reflexivity | exact Hmk]|].
  split; [vm_compute; reflexivity|].
  split; [split; [eexists; eexists; right; reflexivity | vm_compute; reflexivity]|].
  split; vm_compute; reflexivity.
Qed.

Print Assumptions mk_schema_knows_enums.
Print Assumptions mk_schema_enum_total.
Print Assumptions mk_schema_knows_enums_iff.
Print Assumptions rust_encode_fragment_real_schema.
Print Assumptions static_exact_fragment_real_schema.
Print Assumptions mk_schema_fragment_total.
Print Assumptions mk_schema_fragment_total_scope.
Print Assumptions static_total_exact_real_schema.
Print Assumptions ex_side_conditions.
Print Assumptions enum_width_counter_example.
Print Assumptions frag_total_needs_distinct_ids.
