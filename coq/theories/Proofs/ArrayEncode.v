(** C03 beyond the bit-field fragment: count and size fields of arrays, and the arrays
    themselves (scalar or enum elements, optionally followed by a padding field).

    For every list of such fields, every value and both byte orders the emitted encoder
    either refuses at generation time ([Panic GenAssert]) or returns exactly the
    reference bytes, whenever the reference has an encoding.

    Side conditions found necessary (each is witnessed by a computed counter-example at
    the end of the file or explained there):
    - a [_size_] field is narrower than 64 bits (the generator computes
      [mask_bits(width)] = [(1 << width) - 1]);
    - the array named by a [_size_] field has no size modifier: the emitted encoder
      ignores it (the "TODO: size modifier" of encoder.rs) while the reference adds it;
    - an array field and the FIRST array of the declaration with its name (the one the
      reference looks up) have the same element width -- true when names are unique. *)
From Coq Require Import NArith ZArith List String Bool Lia ZifyN ZifyBool.
From Coq Require Import Strings.Byte.
From PDL Require Import Base.Bits Base.Outcome Lang.Ast Lang.Sexp Analyzer.Schema Rust.Enum
     Sem.RefEncode Rust.Encode Proofs.Pack Proofs.BitfieldEncode Proofs.SchemaEnums.
Import ListNotations.
Open Scope N_scope.

Ltac Zify.zify_post_hook ::= Z.div_mod_to_equations.

(** ** Lists of segments *)

Lemma render_app e a b : render e (a ++ b)%list = (render e a ++ render e b)%list.
Proof. unfold render. rewrite map_app, concat_app. reflexivity. Qed.

Lemma render_raw e bs : render e [raw_seg bs] = bs.
Proof. unfold render, raw_seg. cbn [map List.concat render_seg]. destruct e; apply app_nil_r. Qed.

Lemma seg_len_app a b : seg_len (a ++ b)%list = seg_len a + seg_len b.
Proof. unfold seg_len. rewrite map_app, concat_app, app_length. apply Nat2N.inj_add. Qed.

Lemma seg_len_nil : seg_len [] = 0.
Proof. reflexivity. Qed.

Lemma seg_len_int n v : seg_len [int_seg n v] = N.of_nat n.
Proof.
  unfold seg_len, int_seg. cbn [map fst List.concat]. rewrite app_nil_r, le_bytes_length. reflexivity.
Qed.

Lemma len_cons {A} (x : A) l : len (x :: l) = 1 + len l.
Proof. unfold len. cbn [List.length]. rewrite Nat2N.inj_succ. lia. Qed.

Lemma nbytes_N w : N.of_nat (nbytes w) = w / 8.
Proof. unfold nbytes. apply N2Nat.id. Qed.

(** ** The value field of a size field is the array the reference looks up *)

Definition is_array_named (fid : string) (f : field) : bool :=
  match f_desc f with Array i _ _ _ _ => String.eqb i fid | _ => false end.

Lemma array_field_eq d fid : array_field d fid = find (is_array_named fid) (decl_fields d).
Proof. reflexivity. Qed.

Definition sized_desc (x : fdesc) : Prop :=
  match x with Payload _ | Body | Array _ _ _ _ _ => True | _ => False end.

Lemma value_field_find fs more fid af :
  String.eqb fid "_payload_" || String.eqb fid "_body_" = false ->
  find (is_array_named fid) fs = Some af ->
  exists vf, value_field (fs ++ more)%list fid = Some vf /\ (vf = af \/ ~ sized_desc (f_desc vf)).
Proof.
  intros Hfid. apply orb_false_elim in Hfid. destruct Hfid as [Hp Hb].
  induction fs as [|g fs IH]; intros Hfind; [discriminate|].
  unfold value_field in *. cbn [app find] in *.
  unfold is_array_named in Hfind at 1.
  destruct (f_desc g) as [c|n|sf sw|cf cw|ef ew| |pm|fw fv|fe ft|rw|ai aw aty am asz|si sw|gi gu|ti tt|gg gc] eqn:Eg;
    unfold Ast.field_id at 1; rewrite ?Eg;
    try (apply IH; exact Hfind);
    try (rewrite ?Hp, ?Hb in IH |- *; apply IH; exact Hfind).
  - (* Array *)
    destruct (String.eqb ai fid) eqn:Ei.
    + inversion Hfind; subst. eexists; split; [reflexivity | left; reflexivity].
    + apply IH; exact Hfind.
  - (* Scalar *)
    destruct (String.eqb si fid) eqn:Ei.
    + eexists; split; [reflexivity|]. right. rewrite Eg. intros [].
    + apply IH; exact Hfind.
  - (* Flag *)
    destruct (String.eqb gi fid) eqn:Ei.
    + eexists; split; [reflexivity|]. right. rewrite Eg. intros [].
    + apply IH; exact Hfind.
  - (* Typedef *)
    destruct (String.eqb ti fid) eqn:Ei.
    + eexists; split; [reflexivity|]. right. rewrite Eg. intros [].
    + apply IH; exact Hfind.
Qed.

Lemma find_array_named fid fs af :
  find (is_array_named fid) fs = Some af ->
  exists w t m s, f_desc af = Array fid w t m s.
Proof.
  intros H. apply find_some in H. destruct H as [_ H]. unfold is_array_named in H.
  destruct (f_desc af); try discriminate. apply String.eqb_eq in H. subst. repeat eexists.
Qed.

Lemma next_padding_spec rest :
  next_padding rest = option_map (fun n => 8 * n) (next_is_padding rest).
Proof.
  unfold next_padding, next_is_padding. destruct rest as [|g rest]; [reflexivity|].
  destruct (f_desc g); reflexivity.
Qed.

Lemma iter_fields_own fl d : exists more, iter_fields fl d = (decl_fields d ++ more)%list.
Proof.
  unfold iter_fields. destruct (chain_fuel fl); cbn [parents_and_self flat_map]; eexists; reflexivity.
Qed.

Section ArrayFragment.
  Variable fl : file.
  Variable sch : schema.
  Variable rec : string -> value -> option (list seg).
  Variable rec_enc : string -> value -> eres (list byte).
  Variable rec_len : string -> value -> option N.
  Variable d : decl.
  Variable all_fields : list field.
  Variable obj : list (string * value).
  Variable payload : list seg.
  Variable payload_act : eres (list byte).
  Variable payload_size : N.

  (** the schema knows the width of every enum *)
  Hypothesis enum_sizes : schema_knows_enums fl sch.
  (** the fields of the chain start with the declaration's own: true of [iter_fields] *)
  Hypothesis own_first : exists more, all_fields = (decl_fields d ++ more)%list.

  (** element width of an array of scalars or of enum values *)
  Definition arr_width (f : field) : option N :=
    match f_desc f with
    | Array _ (Some ew) _ _ _ => Some ew
    | Array _ None (Some tid) _ _ =>
        match lookup_decl fl tid with Some (DEnum _ _ ew) => Some ew | _ => None end
    | _ => None
    end.

  Definition is_enum (tid : string) : bool :=
    match lookup_decl fl tid with Some (DEnum _ _ _) => true | _ => false end.

  Definition not_payload_id (fid : string) : bool :=
    negb (String.eqb fid "_payload_" || String.eqb fid "_body_").

  Definition ar_field (f : field) : bool :=
    match f_cond f with
    | Some _ => false
    | None =>
        match f_desc f with
        | Scalar _ _ | FixedScalar _ _ | Reserved _ | Count _ _ | Padding _ => true
        | Typedef _ tid | FixedEnum tid _ => is_enum tid
        | Size fid w =>
            (w <? 64) && not_payload_id fid && (array_modifier d fid =? 0) &&
            match array_field d fid with
            | Some af => match arr_width af with Some _ => true | None => false end
            | None => false
            end
        | Array id _ _ _ _ =>
            match arr_width f, array_field d id with
            | Some ew, Some af =>
                match arr_width af with Some ew' => ew' =? ew | None => false end
            | _, _ => false
            end
        | _ => false
        end
    end.

  Lemma ar_bitfield f :
    ar_field f = true ->
    is_bitfield fl f = match f_desc f with Array _ _ _ _ _ | Padding _ => false | _ => true end.
  Proof.
    unfold ar_field, is_bitfield, is_enum. destruct (f_cond f); [discriminate|].
    destruct (f_desc f); try discriminate; try reflexivity.
    destruct (lookup_decl fl type_id) as [[]|]; try discriminate; reflexivity.
  Qed.

  (** *** Elements *)

  Lemma ref_elem_num af ai w t m s ew v segs :
    f_desc af = Array ai w t m s -> arr_width af = Some ew ->
    ref_enc_elem fl rec w t v = Some segs ->
    exists n, v = VNum n /\ n < 2 ^ ew /\ segs = [int_seg (nbytes ew) n].
  Proof.
    intros Haf Hw Hr. unfold arr_width in Hw. rewrite Haf in Hw. unfold ref_enc_elem in Hr.
    destruct w as [w0|].
    - inversion Hw; subst w0. destruct v as [n| |l|o]; try discriminate.
      destruct (n <? 2 ^ ew) eqn:En; [|discriminate]. apply N.ltb_lt in En.
      destruct (ew mod 8 =? 0); [|discriminate]. cbn [andb] in Hr. inversion Hr; subst.
      exists n. repeat split; assumption.
    - destruct t as [tid|]; [|discriminate].
      destruct (lookup_decl fl tid) as [[| |eid tags w0| | | |]|]; try discriminate.
      inversion Hw; subst w0. destruct v as [n| |l|o]; try discriminate.
      unfold spec_enum_of_N in Hr.
      destruct (2 ^ ew <=? n) eqn:En; [discriminate|]. apply N.leb_gt in En.
      match type of Hr with match ?x with _ => _ end = _ => destruct x; [|discriminate] end.
      destruct (ew mod 8 =? 0); [|discriminate]. inversion Hr; subst.
      exists n. repeat split; assumption.
  Qed.

  Lemma put_elem_num f ew n :
    arr_width f = Some ew -> put_elem fl rec_enc f (VNum n) = Ok (put_chunk fl ew n).
  Proof.
    unfold arr_width, put_elem. destruct (f_desc f) as [c|pn|sf sw|cf cw|ef ew'| |pm|fw fv|fe ft|rw|ai aw aty am asz|si sw|gi gu|ti tt|gg gc];
      try discriminate.
    destruct aw as [w0|].
    - intros H; inversion H; reflexivity.
    - destruct aty as [tid|]; [|discriminate].
      destruct (lookup_decl fl tid) as [[| |eid tags w0| | | |]|]; try discriminate.
      intros H; inversion H; reflexivity.
  Qed.

  Lemma put_chunk_small ew n :
    n < 2 ^ ew -> put_chunk fl ew n = render (f_endian fl) [int_seg (nbytes ew) n].
  Proof.
    intros Hn. unfold put_chunk, Encode.E. rewrite N.mod_small by exact Hn.
    rewrite render_cons, render_int_seg. cbn [render List.concat map]. now rewrite app_nil_r.
  Qed.

  Lemma elems_agree af f ai w t m s ew :
    f_desc af = Array ai w t m s -> arr_width af = Some ew -> arr_width f = Some ew ->
    forall vs ebs,
      ref_enc_elems fl rec w t vs = Some ebs ->
      put_elems fl rec_enc f vs = Ok (render (f_endian fl) (List.concat ebs))
      /\ seg_len (List.concat ebs) = len vs * (ew / 8).
  Proof.
    intros Haf Hwa Hwf. induction vs as [|v vs IH]; intros ebs Hr.
    - cbn [ref_enc_elems] in Hr. inversion Hr; subst. split; reflexivity.
    - cbn [ref_enc_elems] in Hr.
      destruct (ref_enc_elem fl rec w t v) as [segs|] eqn:Ee; [|discriminate].
      destruct (ref_enc_elems fl rec w t vs) as [r|] eqn:Er; [|discriminate].
      inversion Hr; subst ebs. clear Hr.
      destruct (ref_elem_num af ai w t m s ew v segs Haf Hwa Ee) as [n [-> [Hn ->]]].
      destruct (IH r eq_refl) as [IHp IHl].
      cbn [put_elems List.concat]. rewrite (put_elem_num f ew n Hwf), IHp. cbn [bind].
      split.
      + rewrite render_app, (put_chunk_small ew n Hn). reflexivity.
      + rewrite seg_len_app, seg_len_int, nbytes_N, IHl, len_cons. lia.
  Qed.

  Lemma array_octets_width f ew vs :
    arr_width f = Some ew -> array_octets fl rec_len f vs = Some (len vs * (ew / 8)).
  Proof.
    unfold arr_width, array_octets. destruct (f_desc f) as [c|pn|sf sw|cf cw|ef ew'| |pm|fw fv|fe ft|rw|ai aw aty am asz|si sw|gi gu|ti tt|gg gc];
      try discriminate.
    destruct aw as [w0|].
    - intros H; inversion H; reflexivity.
    - destruct aty as [tid|]; [|discriminate].
      destruct (lookup_decl fl tid) as [[| |eid tags w0| | | |]|]; try discriminate.
      intros H; inversion H; reflexivity.
  Qed.

  Lemma array_octets_schema_width f ew vs :
    arr_width f = Some ew -> array_octets_schema sch rec_len f vs = Some (len vs * (ew / 8)).
  Proof.
    unfold arr_width, array_octets_schema. destruct (f_desc f) as [c|pn|sf sw|cf cw|ef ew'| |pm|fw fv|fe ft|rw|ai aw aty am asz|si sw|gi gu|ti tt|gg gc];
      try discriminate.
    destruct aw as [w0|].
    - intros H; inversion H; reflexivity.
    - destruct aty as [tid|]; [|discriminate].
      destruct (lookup_decl fl tid) as [[| |eid tags w0| | | |]|] eqn:El; try discriminate.
      intros H; inversion H; subst w0. unfold type_static_bits.
      rewrite (enum_sizes tid tags ew (or_intror (ex_intro _ eid El))). reflexivity.
  Qed.

  (** *** The field list *)

  Notation RF := (ref_enc_fields fl rec d all_fields [] obj payload).
  Notation EF := (enc_fields fl sch rec_enc rec_len d all_fields [] obj payload_act payload_size).

  Definition fields_ok (rest : list field) : Prop :=
    forall p acc bits ss,
      inv p acc bits -> RF rest acc bits = Some ss -> good (EF rest p bits) (render (f_endian fl) ss).

  (** what happens after a bit-field has been accounted for, on both sides *)
  Lemma tail_ok' rest (IH : fields_ok rest) p' acc' bits' ss :
    inv p' acc' bits' ->
    (if bits' mod 8 =? 0
     then match RF rest 0 0 with
          | Some b => Some (int_seg (nbytes bits') acc' :: b)
          | None => None
          end
     else RF rest acc' bits') = Some ss ->
    good (if bits' mod 8 =? 0
          then let* chunk := pack_bit_fields fl p' bits' in
               let* more := EF rest [] 0 in
               Ok (chunk ++ more)%list
          else EF rest p' bits')
         (render (f_endian fl) ss).
  Proof.
    intros Hinv Href.
    destruct (bits' mod 8 =? 0) eqn:Em.
    - apply N.eqb_eq in Em.
      destruct (RF rest 0 0) as [b|] eqn:Eb; [|discriminate].
      inversion Href; subst. rewrite render_cons.
      apply good_bind_app.
      + pose proof (close_group fl p' acc' bits' Hinv Em) as Hc. unfold good.
        destruct (pack_bit_fields fl p' bits') as [bs| |k|]; try tauto.
      + apply (IH [] 0 0 b inv_init Eb).
    - apply (IH p' acc' bits' ss Hinv Href).
  Qed.

  Lemma inv_zero p acc : inv p acc 0 -> acc = 0.
  Proof. intros [Hacc _]. rewrite N.pow_0_r in Hacc. lia. Qed.

  Lemma good_ok_app bs more want_more :
    good more want_more ->
    good (let* here := Ok bs in let* m := more in Ok (here ++ m)%list) (bs ++ want_more)%list.
  Proof. intros H. apply good_bind_app; [reflexivity | exact H]. Qed.

  Theorem enc_fields_arrays : forall fs,
    forallb ar_field fs = true -> fields_ok fs.
  Proof.
    induction fs as [|f rest IH]; intros Hbf p acc bits ss Hinv Href.
    - cbn [ref_enc_fields] in Href. destruct (bits =? 0); [|discriminate]. inversion Href; subst.
      reflexivity.
    - cbn [forallb] in Hbf. apply andb_prop in Hbf. destruct Hbf as [Hf Hrest].
      specialize (IH Hrest).
      pose proof (ar_bitfield f Hf) as Hbit.
      cbn [ref_enc_fields enc_fields] in *.
      unfold ar_field in Hf.
      destruct (f_cond f) eqn:Ec; [discriminate|].
      rewrite Hbit in *. clear Hbit.
      unfold field_size. rewrite Ec. unfold ref_bitfield in Href.
      destruct (f_desc f) as [c|pn|sf sw|cf cw|ef ew'| |pm|fw fv|fe ft|rw|ai aw aty am asz|si sw|gi gu|ti tt|gg gc] eqn:Ed;
        try discriminate.
      + (* Padding *)
        destruct (bits =? 0) eqn:Eb; [|discriminate]. apply N.eqb_eq in Eb. subst bits.
        cbn [negb] in Href.
        destruct (RF rest 0 0) as [b|] eqn:Er; [|discriminate]. inversion Href; subst ss.
        pose proof (inv_zero _ _ Hinv); subst acc.
        apply (good_ok_app [] _ _ (IH p 0 0 b Hinv Er)).
      + (* Size *)
        apply andb_prop in Hf. destruct Hf as [Hf Haf].
        apply andb_prop in Hf. destruct Hf as [Hf Hmod0].
        apply andb_prop in Hf. destruct Hf as [Hw64 Hnp].
        unfold not_payload_id in Hnp. apply negb_true_iff in Hnp. rewrite Hnp in Href.
        apply N.eqb_eq in Hmod0. rewrite Hmod0 in Href.
        destruct (ref_array_elems fl rec d obj sf) as [ebs|] eqn:Era; [|discriminate].
        cbv beta iota in Href.
        destruct (seg_len (List.concat ebs) + 0 <? 2 ^ sw) eqn:Ev; [|discriminate].
        apply N.ltb_lt in Ev.
        unfold ref_array_elems in Era.
        destruct (array_field d sf) as [af|] eqn:Eaf; [|discriminate].
        destruct (arr_width af) as [ew|] eqn:Ewa; [|discriminate]. clear Haf.
        destruct (assoc sf obj) as [[n| |vs|o]|] eqn:Ea; try discriminate.
        destruct (find_array_named sf _ af Eaf) as [w' [t' [m' [s' Hdaf]]]].
        rewrite Hdaf in Era.
        destruct (ref_enc_elems fl rec w' t' vs) as [ebs0|] eqn:Ee; [|discriminate].
        assert (Hebs : ebs0 = ebs).
        { destruct s' as [k|]; [destruct (len vs =? k); [|discriminate]|]; inversion Era; reflexivity. }
        subst ebs0.
        destruct (elems_agree af af sf w' t' m' s' ew Hdaf Ewa Ewa vs ebs Ee) as [_ Hlen].
        rewrite Hlen, N.add_0_r in Href. rewrite Hlen, N.add_0_r in Ev.
        unfold mask_bits. rewrite Hw64.
        destruct (integer_width sw) as [tw|] eqn:Etw; [|exact I].
        destruct (integer_width_bounds _ _ Etw) as [Hle Htw64].
        pose proof own_first as Hown. destruct Hown as [more Hall].
        destruct (value_field_find (decl_fields d) more sf af Hnp Eaf) as [vf [Hvf Hcase]].
        rewrite <- Hall in Hvf. rewrite Hvf.
        destruct Hcase as [-> | Hns].
        * rewrite Hdaf. cbv beta iota. unfold obj_list. rewrite Ea.
          rewrite (array_octets_width af ew vs Ewa).
          set (a := len vs * (ew / 8)) in *.
          assert (Hm : (2 ^ sw - 1 <? a) = false) by lia. rewrite Hm.
          assert (Hmod : a mod 2 ^ tw = a).
          { apply N.mod_small. eapply N.lt_le_trans; [exact Ev|]. apply pow2_le_mono. exact Hle. }
          rewrite Hmod. cbn [bind].
          apply (tail_ok' rest IH _ _ _ ss (inv_push _ _ _ _ _ _ Hinv Ev Hle) Href).
        * destruct (f_desc vf); try (exfalso; apply Hns; exact I); exact I.
      + (* Count *)
        destruct (assoc cf obj) as [[n| |vs|o]|] eqn:Ea; try discriminate.
        cbv beta iota in Href.
        destruct (len vs <? 2 ^ cw) eqn:Ev; [|discriminate]. apply N.ltb_lt in Ev.
        unfold obj_list. rewrite Ea.
        destruct (integer_width cw) as [tw|] eqn:Etw; [|exact I].
        destruct (integer_width_bounds _ _ Etw) as [Hle Htw64].
        assert (Hmod : len vs mod 2 ^ tw = len vs).
        { apply N.mod_small. eapply N.lt_le_trans; [exact Ev|]. apply pow2_le_mono. exact Hle. }
        rewrite Hmod.
        assert (Hentry :
          (if cw <? tw
           then match mask_bits cw with
                | Some m => if m <? len vs then Err CountOverflow else Ok (Some (len vs, tw, bits))
                | None => Panic ArithOverflow
                end
           else Ok (Some (len vs, tw, bits))) = (Ok (Some (len vs, tw, bits)) : eres (option (N * N * N)))).
        { destruct (cw <? tw) eqn:Ewt; [|reflexivity].
          unfold mask_bits. assert (Hw64 : (cw <? 64) = true) by lia. rewrite Hw64.
          assert (Hm : (2 ^ cw - 1 <? len vs) = false) by lia. rewrite Hm. reflexivity. }
        rewrite Hentry. cbn [bind].
        apply (tail_ok' rest IH _ _ _ ss (inv_push _ _ _ _ _ _ Hinv Ev Hle) Href).
      + (* FixedScalar *)
        destruct (fv <? 2 ^ fw) eqn:Ev; [|discriminate]. apply N.ltb_lt in Ev.
        destruct (integer_width fw) as [tw|] eqn:Etw; [|exact I].
        destruct (integer_width_bounds _ _ Etw) as [Hle _]. cbn [bind].
        apply (tail_ok' rest IH _ _ _ ss (inv_push _ _ _ _ _ _ Hinv Ev Hle) Href).
      + (* FixedEnum *)
        destruct (enum_tags fl fe) as [[tags ew]|] eqn:Eet; [|discriminate].
        destruct (enum_tag_value tags ft) as [tv|] eqn:Etv; [|discriminate].
        cbn [option_map] in Href. cbv beta iota in Href.
        destruct (tv <? 2 ^ ew) eqn:Ev; [|discriminate]. apply N.ltb_lt in Ev.
        assert (Htt : type_total sch fe = Some (SStatic ew)).
        { unfold enum_tags in Eet. destruct (lookup_decl fl fe) as [[]|] eqn:El; try discriminate.
          inversion Eet; subst. apply (enum_sizes fe tags ew). right. eexists; exact El. }
        rewrite Htt.
        destruct (integer_width ew) as [tw|] eqn:Etw; [|exact I].
        destruct (integer_width_bounds _ _ Etw) as [Hle _]. cbn [bind].
        apply (tail_ok' rest IH _ _ _ ss (inv_push _ _ _ _ _ _ Hinv Ev Hle) Href).
      + (* Reserved *)
        destruct (0 <? 2 ^ rw) eqn:Ev; [|discriminate].
        cbn [bind]. rewrite N.mul_0_l, N.add_0_r in Href.
        apply (tail_ok' rest IH p acc (bits + rw) ss (inv_skip _ _ _ _ Hinv) Href).
      + (* Array *)
        destruct (arr_width f) as [ew|] eqn:Ewf; [|discriminate].
        destruct (array_field d ai) as [af|] eqn:Eaf; [|discriminate].
        destruct (arr_width af) as [ew0|] eqn:Ewa; [|discriminate].
        apply N.eqb_eq in Hf. subst ew0.
        destruct (bits =? 0) eqn:Eb; [|discriminate]. apply N.eqb_eq in Eb. subst bits.
        cbn [negb] in Href |- *.
        pose proof (inv_zero _ _ Hinv); subst acc.
        destruct (ref_array_elems fl rec d obj ai) as [ebs|] eqn:Era; [|discriminate].
        unfold ref_array_elems in Era. rewrite Eaf in Era.
        destruct (assoc ai obj) as [[n| |vs|o]|] eqn:Ea; try discriminate.
        destruct (find_array_named ai _ af Eaf) as [w' [t' [m' [s' Hdaf]]]].
        rewrite Hdaf in Era.
        destruct (ref_enc_elems fl rec w' t' vs) as [ebs0|] eqn:Ee; [|discriminate].
        assert (Hebs : ebs0 = ebs).
        { destruct s' as [k|]; [destruct (len vs =? k); [|discriminate]|]; inversion Era; reflexivity. }
        subst ebs0.
        destruct (elems_agree af f ai w' t' m' s' ew Hdaf Ewa Ewf vs ebs Ee) as [Hput Hlen].
        unfold obj_list. rewrite Ea.
        destruct (match decl_element_size d ai with Some _ => all_same_length ebs | None => true end);
          [|discriminate].
        rewrite next_padding_spec.
        destruct (next_is_padding rest) as [pn|] eqn:Enp; cbn [option_map].
        * rewrite (array_octets_schema_width f ew vs Ewf).
          rewrite Hlen in Href.
          set (a := len vs * (ew / 8)) in *.
          assert (Hp8 : 8 * pn / 8 = pn) by lia. rewrite Hp8.
          destruct (a <=? pn) eqn:Ele; [|discriminate].
          assert (Hlt : (pn <? a) = false) by lia. rewrite Hlt, Hput. cbn [bind].
          destruct (RF rest 0 0) as [b|] eqn:Er; [|discriminate]. inversion Href; subst ss.
          rewrite !render_app, render_raw.
          apply (good_ok_app _ _ _ (IH p 0 0 b Hinv Er)).
        * rewrite Hput.
          destruct (RF rest 0 0) as [b|] eqn:Er; [|discriminate]. inversion Href; subst ss.
          rewrite render_app.
          apply (good_ok_app _ _ _ (IH p 0 0 b Hinv Er)).
      + (* Scalar *)
        cbn [find_constraint find] in Href.
        destruct (assoc si obj) as [[n| | |]|] eqn:Ea; try discriminate.
        cbv beta iota in Href.
        destruct (n <? 2 ^ sw) eqn:Ev; [|discriminate]. apply N.ltb_lt in Ev.
        unfold get_num. cbn [find_constraint find]. rewrite Ea.
        destruct (integer_width sw) as [tw|] eqn:Etw; [|exact I].
        destruct (integer_width_bounds _ _ Etw) as [Hle Htw64].
        assert (Hentry :
          (if sw <? tw
           then match mask_bits sw with
                | Some m => if m <? n then Err InvalidScalarValue else Ok (Some (n, tw, bits))
                | None => Panic ArithOverflow
                end
           else Ok (Some (n, tw, bits))) = (Ok (Some (n, tw, bits)) : eres (option (N * N * N)))).
        { destruct (sw <? tw) eqn:Ewt; [|reflexivity].
          unfold mask_bits. assert (Hw64 : (sw <? 64) = true) by lia. rewrite Hw64.
          assert (Hm : (2 ^ sw - 1 <? n) = false) by lia. rewrite Hm. reflexivity. }
        rewrite Hentry. cbn [bind].
        apply (tail_ok' rest IH _ _ _ ss (inv_push _ _ _ _ _ _ Hinv Ev Hle) Href).
      + (* Typedef : enum *)
        destruct (enum_tags fl tt) as [[tags ew]|] eqn:Eet; [|discriminate].
        cbn [find_constraint find] in Href.
        destruct (assoc ti obj) as [[n| | |]|] eqn:Ea; try discriminate.
        destruct (spec_enum_of_N tags ew n); [|discriminate].
        cbv beta iota in Href.
        destruct (n <? 2 ^ ew) eqn:Ev; [|discriminate]. apply N.ltb_lt in Ev.
        assert (Htt : type_total sch tt = Some (SStatic ew)).
        { unfold enum_tags in Eet. destruct (lookup_decl fl tt) as [[]|] eqn:El; try discriminate.
          inversion Eet; subst. apply (enum_sizes tt tags ew). right. eexists; exact El. }
        rewrite Htt.
        unfold get_num. cbn [find_constraint find]. rewrite Ea.
        destruct (integer_width ew) as [tw|] eqn:Etw; [|exact I].
        destruct (integer_width_bounds _ _ Etw) as [Hle _]. cbn [bind].
        apply (tail_ok' rest IH _ _ _ ss (inv_push _ _ _ _ _ _ Hinv Ev Hle) Href).
  Qed.
End ArrayFragment.

(** ** Whole declarations *)

Definition root_of_array_fragment (fl : file) (d : decl) : Prop :=
  (exists id fs, d = DPacket id [] fs None \/ d = DStruct id [] fs None)
  /\ forallb (ar_field fl d) (decl_fields d) = true.

(** the bit-field fragment is included *)
Lemma bf_field_ar_field fl d f : bf_field fl f = true -> ar_field fl d f = true.
Proof.
  unfold bf_field, ar_field, is_enum. destruct (f_cond f); [discriminate|].
  destruct (f_desc f); try discriminate; auto.
Qed.

Lemma root_of_fragment_arrays fl d : root_of_fragment fl d -> root_of_array_fragment fl d.
Proof.
  intros [Hd Hbf]. split; [exact Hd|]. rewrite forallb_forall in *.
  intros f Hin. apply bf_field_ar_field. apply Hbf. exact Hin.
Qed.

Lemma array_frag_core fuel fl sch d o ss :
  schema_knows_enums fl sch ->
  get_parent fl d = None ->
  forallb (ar_field fl d) (decl_fields d) = true ->
  ref_enc_decl (S fuel) fl d (iter_fields fl d) [] o [raw_seg []] = Some ss ->
  good (rust_enc_decl (S fuel) fl sch d (iter_fields fl d) [] o (Ok []) 0) (render (f_endian fl) ss).
Proof.
  intros Hsch Hpar Hbf Hss.
  cbn [ref_enc_decl] in Hss. rewrite Hpar in Hss.
  match type of Hss with
  | match ?x with _ => _ end = _ => destruct x as [ss'|] eqn:Ef; [|discriminate]
  end.
  inversion Hss; subst ss'. clear Hss.
  cbn [rust_enc_decl]. rewrite Hpar.
  eapply enc_fields_arrays; [exact Hsch | apply iter_fields_own | exact Hbf | apply inv_init | exact Ef].
Qed.

Theorem rust_encode_array_fragment fuel fl sch id d v bs :
  schema_knows_enums fl sch ->
  lookup_decl fl id = Some d ->
  root_of_array_fragment fl d ->
  ref_encode (S fuel) fl id v = Some bs ->
  good (rust_encode (S fuel) fl sch id v) bs.
Proof.
  intros Hsch Hl [[did [fs Hd]] Hbf] Href.
  assert (Hpar : get_parent fl d = None) by (destruct Hd as [-> | ->]; reflexivity).
  assert (Hcs : iter_constraints fl d = []).
  { unfold iter_constraints. rewrite parents_self_root by exact Hpar.
    destruct Hd as [-> | ->]; reflexivity. }
  assert (Hpl : decl_payload d = None).
  { unfold decl_payload. apply find_none_all. intros f Hin.
    rewrite forallb_forall in Hbf. specialize (Hbf f Hin).
    unfold ar_field in Hbf. unfold is_payload, is_payload_desc.
    destruct (f_cond f); [discriminate|]. destruct (f_desc f); try discriminate; reflexivity. }
  unfold ref_encode, ref_segments in Href. unfold rust_encode. rewrite Hl in *.
  destruct v as [n| |l|o]; try (destruct Hd as [-> | ->]; discriminate).
  assert (Hcore : forall ss,
             ref_enc_decl (S fuel) fl d (iter_fields fl d) [] o [raw_seg []] = Some ss ->
             good (rust_enc_decl (S fuel) fl sch d (iter_fields fl d) [] o (Ok []) 0) (render (f_endian fl) ss))
    by (intros ss; apply array_frag_core; assumption).
  rewrite Hcs, Hpl in *.
  destruct Hd as [-> | ->].
  - destruct (obj_payload o) as [[|b0 pl]|]; try discriminate.
    cbn [option_map] in Href.
    destruct (ref_enc_decl (S fuel) fl (DPacket did [] fs None) (iter_fields fl (DPacket did [] fs None)) [] o [raw_seg []]) as [ss|] eqn:Es;
      [|discriminate].
    inversion Href; subst. apply (Hcore ss eq_refl).
  - destruct (obj_payload o) as [[|b0 pl]|]; try discriminate.
    cbn [option_map] in Href.
    destruct (ref_enc_decl (S fuel) fl (DStruct did [] fs None) (iter_fields fl (DStruct did [] fs None)) [] o [raw_seg []]) as [ss|] eqn:Es;
      [|discriminate].
    inversion Href; subst. apply (Hcore ss eq_refl).
Qed.

(** the same about the schema that [Schema::new] actually constructs *)
Theorem rust_encode_array_fragment_real_schema fuel fl sch id d v bs :
  enum_widths_fit fl = true ->
  mk_schema fl = Some sch ->
  lookup_decl fl id = Some d ->
  root_of_array_fragment fl d ->
  ref_encode (S fuel) fl id v = Some bs ->
  good (rust_encode (S fuel) fl sch id v) bs.
Proof.
  intros Hfit Hmk. apply rust_encode_array_fragment. exact (mk_schema_knows_enums fl sch Hfit Hmk).
Qed.

(** ** Non-vacuity: a declaration of the class with every new kind of field *)

Definition arr_file : file :=
  mkFile BigEndian
    [DEnum "E" [TagValue "A" 1; TagValue "B" 2] 8;
     DPacket "P" []
       [mkField (Scalar "a" 5) None; mkField (Count "y" 3) None;
        mkField (Size "x" 4) None; mkField (Reserved 4) None;
        mkField (Array "x" (Some 16) None None None) None;
        mkField (Array "y" None (Some "E") None None) None;
        mkField (Padding 4) None;
        mkField (Array "z" (Some 24) None None (Some 1)) None] None].

Definition arr_value : value :=
  VObj [("a", VNum 21); ("x", VList [VNum 258; VNum 772]); ("y", VList [VNum 1; VNum 2; VNum 1]);
        ("z", VList [VNum 66051])].

Example arr_example_in_class :
  exists sch d,
    mk_schema arr_file = Some sch /\ enum_widths_fit arr_file = true /\
    lookup_decl arr_file "P" = Some d /\ root_of_array_fragment arr_file d /\
    ref_encode 5 arr_file "P" arr_value
      = Some [x75; x04; x01; x02; x03; x04; x01; x02; x01; x00; x01; x02; x03] /\
    rust_encode 5 arr_file sch "P" arr_value
      = Ok [x75; x04; x01; x02; x03; x04; x01; x02; x01; x00; x01; x02; x03].
Proof.
  eexists. eexists. split; [vm_compute; reflexivity|]. split; [vm_compute; reflexivity|].
  split; [vm_compute; reflexivity|].
  split; [split; [eexists; eexists; left; reflexivity | vm_compute; reflexivity]|].
  split; vm_compute; reflexivity.
Qed.

(** ** Why the side conditions: the statement is false without them *)

(** A size modifier on the array: the reference counts it in the size field, the emitted
    encoder does not (encoder.rs, Size arm: "TODO: size modifier"; only the payload
    modifier is added).  [packet M { _size_(x) : 8, x : 8[+2] }] with [x = [1, 2]]. *)
Definition mod_file : file :=
  mkFile LittleEndian
    [DPacket "M" [] [mkField (Size "x" 8) None;
                     mkField (Array "x" (Some 8) None (Some 2) None) None] None].

Example size_modifier_counter_example :
  exists sch, mk_schema mod_file = Some sch /\
    ref_encode 5 mod_file "M" (VObj [("x", VList [VNum 1; VNum 2])]) = Some [x04; x01; x02] /\
    rust_encode 5 mod_file sch "M" (VObj [("x", VList [VNum 1; VNum 2])]) = Ok [x02; x01; x02].
Proof. eexists. split; [vm_compute; reflexivity|]. split; vm_compute; reflexivity. Qed.

(** A 64-bit size field: the generator evaluates [mask_bits(64)] = [(1 << 64) - 1], an
    arithmetic overflow in pdlc itself, where the reference has an encoding. *)
Definition wide_file : file :=
  mkFile LittleEndian
    [DPacket "W" [] [mkField (Size "x" 64) None;
                     mkField (Array "x" (Some 8) None None None) None] None].

Example size64_counter_example :
  exists sch, mk_schema wide_file = Some sch /\
    ref_encode 5 wide_file "W" (VObj [("x", VList [VNum 1])])
      = Some [x01; x00; x00; x00; x00; x00; x00; x00; x01] /\
    rust_encode 5 wide_file sch "W" (VObj [("x", VList [VNum 1])]) = Panic ArithOverflow.
Proof. eexists. split; [vm_compute; reflexivity|]. split; vm_compute; reflexivity. Qed.

(** Two arrays with one name (rejected by the analyzer, E-duplicate-field): the reference
    looks the array up by name and finds the first, the emitted code writes each with its
    own element width.  Hence the comparison of widths in [ar_field]. *)
Definition dup_file : file :=
  mkFile LittleEndian
    [DPacket "D" [] [mkField (Array "x" (Some 8) None None None) None;
                     mkField (Array "x" (Some 16) None None None) None] None].

Example duplicate_name_counter_example :
  exists sch, mk_schema dup_file = Some sch /\
    ref_encode 5 dup_file "D" (VObj [("x", VList [VNum 1])]) = Some [x01; x01] /\
    rust_encode 5 dup_file sch "D" (VObj [("x", VList [VNum 1])]) = Ok [x01; x01; x00].
Proof. eexists. split; [vm_compute; reflexivity|]. split; vm_compute; reflexivity. Qed.


Print Assumptions enc_fields_arrays.
Print Assumptions rust_encode_array_fragment.
Print Assumptions rust_encode_array_fragment_real_schema.
Print Assumptions arr_example_in_class.
Print Assumptions size_modifier_counter_example.
Print Assumptions size64_counter_example.
Print Assumptions duplicate_name_counter_example.
