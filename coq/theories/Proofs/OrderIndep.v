(** Lookups by identifier do not depend on the order of declarations (the basis of
    C09's "forward references are legal, order is irrelevant"). *)
From Coq Require Import NArith List String Bool Permutation.
From PDL Require Import Base.Bits Lang.Ast Lang.Sexp Proofs.AnalyzerSound.
Import ListNotations.

Lemma in_decl_id_list d ds i : In d ds -> decl_id d = Some i -> In i (decl_id_list ds).
Proof.
  induction ds as [|x rest IH]; intros Hin Hid; [destruct Hin|].
  cbn [decl_id_list]. destruct Hin as [->|Hin].
  - rewrite Hid. left; reflexivity.
  - destruct (decl_id x); [right|]; now apply IH.
Qed.

Lemma unique_by_id ds : NoDup (decl_id_list ds) ->
  forall x y i, In x ds -> In y ds -> decl_id x = Some i -> decl_id y = Some i -> x = y.
Proof.
  induction ds as [|d rest IH]; intros Hnd x y i Hx Hy Hix Hiy; [destruct Hx|].
  cbn [decl_id_list] in Hnd.
  destruct Hx as [<-|Hx]; destruct Hy as [<-|Hy]; try reflexivity.
  - rewrite Hix in Hnd. inversion Hnd as [|? ? Hnotin _]; subst.
    exfalso. apply Hnotin. eapply in_decl_id_list; eassumption.
  - rewrite Hiy in Hnd. inversion Hnd as [|? ? Hnotin _]; subst.
    exfalso. apply Hnotin. eapply in_decl_id_list; eassumption.
  - destruct (decl_id d); [inversion Hnd; subst|]; eapply IH; eassumption.
Qed.

Lemma find_unique {A} (f : A -> bool) l x :
  In x l -> f x = true -> (forall y, In y l -> f y = true -> y = x) -> find f l = Some x.
Proof.
  induction l as [|a l IH]; intros Hin Hfx Huniq; [destruct Hin|].
  cbn [find]. destruct (f a) eqn:Efa.
  - f_equal. apply Huniq; [left; reflexivity | exact Efa].
  - destruct Hin as [->|Hin]; [congruence|].
    apply IH; [exact Hin | exact Hfx|]. intros y Hy. apply Huniq. right; exact Hy.
Qed.

Lemma find_none_perm {A} (f : A -> bool) l l' : Permutation l l' -> find f l = None -> find f l' = None.
Proof.
  intros Hp Hn. destruct (find f l') as [y|] eqn:E; [|reflexivity].
  apply find_some in E. destruct E as [Hin Hf].
  apply (Permutation_in _ (Permutation_sym Hp)) in Hin.
  pose proof (find_none _ _ Hn _ Hin) as Hc. congruence.
Qed.

Theorem lookup_decl_order_independent e e' ds ds' id :
  NoDup (decl_id_list ds) -> Permutation ds ds' ->
  lookup_decl (mkFile e ds) id = lookup_decl (mkFile e' ds') id.
Proof.
  intros Hnd Hp. unfold lookup_decl. cbn [f_decls].
  assert (Hp' : Permutation (rev ds) (rev ds')).
  { eapply Permutation_trans; [apply Permutation_sym, Permutation_rev|].
    eapply Permutation_trans; [exact Hp | apply Permutation_rev]. }
  destruct (find (has_id id) (rev ds)) as [x|] eqn:E.
  - apply find_some in E. destruct E as [Hin Hf].
    symmetry. apply find_unique.
    + eapply Permutation_in; eassumption.
    + exact Hf.
    + intros y Hy Hfy.
      apply (Permutation_in _ (Permutation_sym Hp')) in Hy.
      apply in_rev in Hy. apply in_rev in Hin.
      unfold has_id in Hf, Hfy.
      destruct (decl_id x) as [ix|] eqn:Eix; [|discriminate].
      destruct (decl_id y) as [iy|] eqn:Eiy; [|discriminate].
      apply String.eqb_eq in Hf, Hfy. subst ix iy.
      eapply unique_by_id; eassumption.
  - symmetry. eapply find_none_perm; eassumption.
Qed.
