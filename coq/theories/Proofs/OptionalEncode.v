(** C03 on optional fields and their flags: the class of [BitfieldEncode] (scalars, enum
    typedefs, fixed fields, reserved bits) extended with [Flag id uses] bit-fields and
    optional fields ([f_cond f = Some c]) of scalar or enum type.  For every such field
    list, every value and both byte orders the emitted encoder either refuses at
    generation time ([Panic GenAssert]) or returns exactly the reference bytes.

    No side condition on the condition values is needed: the reference [flag_value]
    has no encoding when a condition value exceeds 1, and when it has one the uses are
    consistent, so neither [Panic ArithOverflow] nor [Err InconsistentConditionValue]
    can happen where the reference encodes. *)
From Coq Require Import NArith ZArith List String Bool Lia ZifyN ZifyBool.
From Coq Require Import Strings.Byte.
From PDL Require Import Base.Bits Base.Outcome Lang.Ast Lang.Sexp Analyzer.Schema Rust.Enum
     Sem.RefEncode Rust.Encode Proofs.Pack Proofs.BitfieldEncode.
Import ListNotations.
Open Scope N_scope.

(** ** Flags: the reference value against the emitted consistency check *)

Definition fstep (obj : list (string * value)) (acc : option (bool * bool)) (u : string * N)
  : option (bool * bool) :=
  match acc, is_present obj (fst u) with
  | Some (z, o), Some p =>
      if snd u =? 1 then Some (z || negb p, o || p) else Some (z || p, o || negb p)
  | _, _ => None
  end.

Lemma flag_consistent_fold obj uses :
  flag_consistent obj uses =
  match fold_left (fstep obj) uses (Some (false, false)) with
  | Some (z, o) => Some (negb (z && o))
  | None => None
  end.
Proof. reflexivity. Qed.

Lemma flag_value_head obj oid setv more v :
  flag_value obj ((oid, setv) :: more) = Some (Some v) ->
  exists pr r, is_present obj oid = Some pr /\ flag_value obj more = Some r /\ (1 <? setv) = false /\
               v = (if pr then setv else 1 - setv) /\ (r = None \/ r = Some v).
Proof.
  cbn [flag_value]. intros H.
  destruct (is_present obj oid) as [pr|]; [|discriminate].
  destruct (flag_value obj more) as [r|]; [|discriminate].
  destruct (1 <? setv) eqn:Es; [discriminate|]. cbv zeta in H.
  exists pr, r. split; [reflexivity|]. split; [reflexivity|]. split; [reflexivity|].
  destruct r as [v'|].
  - destruct ((if pr then setv else 1 - setv) =? v') eqn:Ev; [|discriminate].
    apply N.eqb_eq in Ev. inversion H; subst. split; [reflexivity|]. right. reflexivity.
  - inversion H; subst. split; [reflexivity|]. left. reflexivity.
Qed.

Lemma fold_flag obj uses : forall r z o,
  flag_value obj uses = Some r ->
  fold_left (fstep obj) uses (Some (z, o))
  = Some (match r with None => (z, o) | Some v => (z || (v =? 0), o || (v =? 1)) end).
Proof.
  induction uses as [|[oid setv] rest IH]; intros r z o H.
  - cbn [flag_value] in H. inversion H; subst. reflexivity.
  - destruct r as [v|].
    2:{ cbn [flag_value] in H.
        destruct (is_present obj oid); [|discriminate].
        destruct (flag_value obj rest) as [[v'|]|]; try discriminate;
          destruct (1 <? setv); try discriminate.
        destruct (_ =? v'); discriminate. }
    destruct (flag_value_head _ _ _ _ _ H) as [pr [r' [Ep [Er [Es [Hv Hr']]]]]].
    cbn [fold_left]. unfold fstep at 2. cbn [fst snd]. rewrite Ep.
    assert (Hs : setv = 0 \/ setv = 1) by lia.
    assert (Hstep : (if setv =? 1 then Some (z || negb pr, o || pr) else Some (z || pr, o || negb pr))
                    = Some (z || (v =? 0), o || (v =? 1))).
    { destruct Hs as [-> | ->]; destruct pr; subst v; reflexivity. }
    rewrite Hstep. rewrite (IH r' _ _ Er).
    destruct Hr' as [-> | ->]; [reflexivity|].
    f_equal. f_equal.
    + destruct z, (v =? 0); reflexivity.
    + destruct o, (v =? 1); reflexivity.
Qed.

Lemma flag_consistent_of_value obj uses v :
  flag_value obj uses = Some (Some v) -> flag_consistent obj uses = Some true.
Proof.
  intros H. rewrite flag_consistent_fold, (fold_flag obj uses _ false false H).
  cbn [orb]. destruct (v =? 0) eqn:E0; [|reflexivity].
  apply N.eqb_eq in E0. subst v. reflexivity.
Qed.

Lemma render_app e a b : render e (a ++ b) = (render e a ++ render e b)%list.
Proof. unfold render. rewrite map_app, concat_app. reflexivity. Qed.

Section Optional.
  Variable fl : file.
  Variable sch : schema.
  Variable rec : string -> value -> option (list seg).
  Variable rec_enc : string -> value -> eres (list byte).
  Variable rec_len : string -> value -> option N.
  Variable d : decl.
  Variable all_fields : list field.
  Variable obj : list (string * value).
  Variable payload : list seg.
  Variable payload_act : eres (list byte).
  Variable payload_size : N.

  Hypothesis enum_sizes : schema_knows_enums fl sch.

  (** the class: bit-fields of [bf_field], flags, optional scalars and optional enums *)
  Definition of_field (f : field) : bool :=
    match f_cond f with
    | Some _ =>
        match f_desc f with
        | Scalar _ _ => true
        | Typedef _ tid =>
            match lookup_decl fl tid with Some (DEnum _ _ _) => true | _ => false end
        | _ => false
        end
    | None =>
        match f_desc f with
        | Flag _ _ => true
        | _ => bf_field fl f
        end
    end.

  Lemma of_is_bitfield f : f_cond f = None -> of_field f = true -> is_bitfield fl f = true.
  Proof.
    intros Ec H. unfold of_field in H. rewrite Ec in H.
    destruct (f_desc f) eqn:Ed; try (apply bf_is_bitfield; exact H).
    unfold is_bitfield. rewrite Ed. reflexivity.
  Qed.

  Lemma inv_zero p acc : inv p acc 0 -> inv p 0 0.
  Proof.
    intros H. assert (E : acc = 0) by (destruct H as [Ha _]; cbn in Ha; lia).
    subst acc. exact H.
  Qed.

  Lemma put_chunk_small w n :
    n < 2 ^ w -> put_chunk fl w n = render_seg (f_endian fl) (int_seg (nbytes w) n).
  Proof.
    intros Hn. unfold put_chunk, Encode.E. rewrite N.mod_small by exact Hn.
    rewrite render_int_seg. reflexivity.
  Qed.

  Lemma render_single s : render (f_endian fl) [s] = render_seg (f_endian fl) s.
  Proof. unfold render. cbn [map concat]. apply app_nil_r. Qed.

  (** after a bit-field, on both sides (cf. [tail_ok] of [BitfieldEncode]) *)
  Lemma tail_ok_opt rest
        (IH : forall p acc bits ss,
            forallb of_field rest = true -> inv p acc bits ->
            ref_enc_fields fl rec d all_fields [] obj payload rest acc bits = Some ss ->
            good (enc_fields fl sch rec_enc rec_len d all_fields [] obj payload_act payload_size rest p bits)
                 (render (f_endian fl) ss))
        p' acc' bits' ss :
    forallb of_field rest = true ->
    inv p' acc' bits' ->
    (if bits' mod 8 =? 0
     then match ref_enc_fields fl rec d all_fields [] obj payload rest 0 0 with
          | Some b => Some (int_seg (nbytes bits') acc' :: b)
          | None => None
          end
     else ref_enc_fields fl rec d all_fields [] obj payload rest acc' bits') = Some ss ->
    good (if bits' mod 8 =? 0
          then let* chunk := pack_bit_fields fl p' bits' in
               let* more := enc_fields fl sch rec_enc rec_len d all_fields [] obj payload_act payload_size rest [] 0 in
               Ok (chunk ++ more)%list
          else enc_fields fl sch rec_enc rec_len d all_fields [] obj payload_act payload_size rest p' bits')
         (render (f_endian fl) ss).
  Proof.
    intros Hrest Hinv Href.
    destruct (bits' mod 8 =? 0) eqn:Em.
    - apply N.eqb_eq in Em.
      destruct (ref_enc_fields fl rec d all_fields [] obj payload rest 0 0) as [b|] eqn:Eb; [|discriminate].
      inversion Href; subst. rewrite render_cons.
      apply good_bind_app.
      + pose proof (close_group fl p' acc' bits' Hinv Em) as Hc. unfold good.
        destruct (pack_bit_fields fl p' bits') as [bs| |k|]; try tauto.
      + apply (IH [] 0 0 b Hrest inv_init Eb).
    - apply (IH p' acc' bits' ss Hrest Hinv Href).
  Qed.

  Theorem enc_fields_optional : forall fs p acc bits ss,
    forallb of_field fs = true ->
    inv p acc bits ->
    ref_enc_fields fl rec d all_fields [] obj payload fs acc bits = Some ss ->
    good (enc_fields fl sch rec_enc rec_len d all_fields [] obj payload_act payload_size fs p bits)
         (render (f_endian fl) ss).
  Proof.
    induction fs as [|f rest IH]; intros p acc bits ss Hbf Hinv Href.
    - cbn [ref_enc_fields] in Href. destruct (bits =? 0); [|discriminate]. inversion Href; subst.
      reflexivity.
    - cbn [forallb] in Hbf. apply andb_prop in Hbf. destruct Hbf as [Hf Hrest].
      cbn [ref_enc_fields enc_fields] in *.
      destruct (f_cond f) as [c|] eqn:Ec.
      + (* an optional field *)
        destruct (bits =? 0) eqn:Eb; cbn [negb] in *; [|discriminate].
        apply N.eqb_eq in Eb. subst bits. apply inv_zero in Hinv.
        unfold of_field in Hf. rewrite Ec in Hf.
        destruct (assoc match field_id f with Some i => i | None => EmptyString end obj) as [v|];
          [|discriminate].
        assert (Hmore : forall b, ref_enc_fields fl rec d all_fields [] obj payload rest 0 0 = Some b ->
                   good (enc_fields fl sch rec_enc rec_len d all_fields [] obj payload_act payload_size rest p 0)
                        (render (f_endian fl) b)).
        { intros b Hb. apply (IH p 0 0 b Hrest Hinv Hb). }
        destruct v as [n| |l|o].
        * (* a number *)
          destruct (f_desc f) as [ | | | | | | | | | | |sid w| |tyid tid| ] eqn:Ed; try discriminate.
          -- (* Scalar *)
             unfold ref_enc_elem in Href.
             destruct (n <? 2 ^ w) eqn:En; [|discriminate]. apply N.ltb_lt in En.
             destruct (w mod 8 =? 0); [|discriminate]. cbn [andb] in Href.
             destruct (ref_enc_fields fl rec d all_fields [] obj payload rest 0 0) as [b|] eqn:Eb; [|discriminate].
             inversion Href; subst ss. clear Href.
             cbn [app]. rewrite render_cons.
             destruct (integer_width w) as [bw|] eqn:Ebw; [|exact I].
             destruct (integer_width_bounds _ _ Ebw) as [Hle H64].
             assert (Hhere :
               (if bw <=? w then Ok (put_chunk fl w n)
                else match mask_bits w with
                     | Some m => if m <? n then Err InvalidScalarValue else Ok (put_chunk fl w n)
                     | None => Panic ArithOverflow
                     end) = (Ok (put_chunk fl w n) : eres (list byte))).
             { destruct (bw <=? w) eqn:Ew; [reflexivity|].
               unfold mask_bits. assert (Hw64 : (w <? 64) = true) by lia. rewrite Hw64.
               assert (Hm : (2 ^ w - 1 <? n) = false) by lia. rewrite Hm. reflexivity. }
             rewrite Hhere. apply good_bind_app; [|apply (Hmore b eq_refl)].
             unfold good. apply put_chunk_small. exact En.
          -- (* Typedef : enum *)
             unfold ref_enc_elem in Href.
             destruct (lookup_decl fl tid) as [[| |eid tags w| | | |]|] eqn:El; try discriminate.
             unfold spec_enum_of_N in Href.
             destruct (2 ^ w <=? n) eqn:En; [discriminate|]. apply N.leb_gt in En.
             match type of Href with
             | match match ?x with _ => _ end with _ => _ end = _ => destruct x; [|discriminate]
             end.
             destruct (w mod 8 =? 0); [|discriminate].
             destruct (ref_enc_fields fl rec d all_fields [] obj payload rest 0 0) as [b|] eqn:Eb; [|discriminate].
             inversion Href; subst ss. clear Href.
             cbn [app]. rewrite render_cons.
             destruct (integer_width w) as [bw|] eqn:Ebw; [|exact I].
             apply good_bind_app; [|apply (Hmore b eq_refl)].
             unfold good. apply put_chunk_small. exact En.
        * (* absent *)
          change (render (f_endian fl) ss) with ([] ++ render (f_endian fl) ss)%list.
          apply good_bind_app; [reflexivity|]. apply (Hmore ss Href).
        * (* a list: no reference encoding *)
          exfalso.
          destruct (f_desc f) as [ | | | | | | | | | | |sid w| |tyid tid| ]; try discriminate.
          unfold ref_enc_elem in Href.
          destruct (lookup_decl fl tid) as [[| |eid tags w| | | |]|]; discriminate.
        * (* an object: no reference encoding in the class *)
          exfalso.
          destruct (f_desc f) as [ | | | | | | | | | | |sid w| |tyid tid| ]; try discriminate.
          unfold ref_enc_elem in Href.
          destruct (lookup_decl fl tid) as [[| |eid tags w| | | |]|]; discriminate.
      + (* a bit-field *)
        pose proof (of_is_bitfield f Ec Hf) as Hbit.
        rewrite Hbit in *.
        destruct (ref_bitfield fl rec d all_fields [] obj payload f) as [[v w]|] eqn:Erb; [|discriminate].
        destruct (v <? 2 ^ w) eqn:Ev; [|discriminate]. apply N.ltb_lt in Ev.
        unfold of_field in Hf. rewrite Ec in Hf.
        unfold ref_bitfield in Erb. unfold field_size. rewrite Ec.
        destruct (f_desc f) as [cf|pn|sf sw|cf cw|ef ew| |pm|width value|enum_id tag_id|width
                                |ai aw aty am asz|id width|fid uses|id type_id|gg gc] eqn:Ed; try discriminate;
          try (unfold bf_field in Hf; rewrite Ec, Ed in Hf; discriminate).
        * (* FixedScalar width value *)
          inversion Erb; subst. clear Erb.
          destruct (integer_width w) as [tw|] eqn:Etw; [|exact I].
          destruct (integer_width_bounds _ _ Etw) as [Hle _].
          cbn [bind].
          apply (tail_ok_opt rest IH (p ++ [(v, tw, bits)])%list (acc + v * 2 ^ bits) (bits + w) ss Hrest
                         (inv_push _ _ _ _ _ _ Hinv Ev Hle) Href).
        * (* FixedEnum enum_id tag_id *)
          destruct (enum_tags fl enum_id) as [[tags ew]|] eqn:Eet; [|discriminate].
          destruct (enum_tag_value tags tag_id) as [tv|] eqn:Etv; [|discriminate].
          cbn [option_map] in Erb. inversion Erb; subst. clear Erb.
          assert (Htt : type_total sch enum_id = Some (SStatic w)).
          { unfold enum_tags in Eet. destruct (lookup_decl fl enum_id) as [[]|] eqn:El; try discriminate.
            inversion Eet; subst. apply (enum_sizes enum_id tags w). right. eexists; exact El. }
          rewrite Htt.
          destruct (integer_width w) as [tw|] eqn:Etw; [|exact I].
          destruct (integer_width_bounds _ _ Etw) as [Hle _].
          cbn [bind].
          apply (tail_ok_opt rest IH (p ++ [(v, tw, bits)])%list (acc + v * 2 ^ bits) (bits + w) ss Hrest
                         (inv_push _ _ _ _ _ _ Hinv Ev Hle) Href).
        * (* Reserved width *)
          inversion Erb; subst. clear Erb.
          cbn [bind]. rewrite N.mul_0_l, N.add_0_r in Href.
          apply (tail_ok_opt rest IH p acc (bits + w) ss Hrest (inv_skip _ _ _ _ Hinv) Href).
        * (* Scalar id width *)
          cbn [find_constraint find] in Erb.
          destruct (assoc id obj) as [[n| | |]|] eqn:Ea; try discriminate.
          inversion Erb; subst. clear Erb.
          unfold get_num. cbn [find_constraint find]. rewrite Ea.
          destruct (integer_width w) as [tw|] eqn:Etw; [|exact I].
          destruct (integer_width_bounds _ _ Etw) as [Hle Htw64].
          assert (Hentry :
            (if w <? tw
             then match mask_bits w with
                  | Some m => if m <? v then Err InvalidScalarValue else Ok (Some (v, tw, bits))
                  | None => Panic ArithOverflow
                  end
             else Ok (Some (v, tw, bits))) = (Ok (Some (v, tw, bits)) : eres (option (N * N * N)))).
          { destruct (w <? tw) eqn:Ewt; [|reflexivity].
            unfold mask_bits. assert (Hw64 : (w <? 64) = true) by lia. rewrite Hw64.
            assert (Hm : (2 ^ w - 1 <? v) = false) by lia. rewrite Hm. reflexivity. }
          rewrite Hentry. cbn [bind].
          apply (tail_ok_opt rest IH (p ++ [(v, tw, bits)])%list (acc + v * 2 ^ bits) (bits + w) ss Hrest
                         (inv_push _ _ _ _ _ _ Hinv Ev Hle) Href).
        * (* Flag id uses *)
          destruct (flag_value obj uses) as [[fv|]|] eqn:Efv; try discriminate.
          inversion Erb; subst fv w. clear Erb.
          pose proof (flag_consistent_of_value _ _ _ Efv) as Hcons.
          destruct uses as [|[oid setv] more]; [cbn [flag_value] in Efv; discriminate|].
          destruct (flag_value_head _ _ _ _ _ Efv) as [pr [r' [Ep [_ [Es [Hv _]]]]]].
          rewrite Es, Hcons, Ep. rewrite <- Hv.
          assert (H18 : 1 <= 8) by lia.
          destruct more as [|u more']; cbn [bind];
          apply (tail_ok_opt rest IH (p ++ [(v, 8, bits)])%list (acc + v * 2 ^ bits) (bits + 1) ss Hrest
                         (inv_push _ _ _ _ _ _ Hinv Ev H18) Href).
        * (* Typedef id type_id : enum *)
          destruct (enum_tags fl type_id) as [[tags ew]|] eqn:Eet; [|discriminate].
          cbn [find_constraint find] in Erb.
          destruct (assoc id obj) as [[n| | |]|] eqn:Ea; try discriminate.
          destruct (spec_enum_of_N tags ew n); [|discriminate].
          inversion Erb; subst. clear Erb.
          assert (Htt : type_total sch type_id = Some (SStatic w)).
          { unfold enum_tags in Eet. destruct (lookup_decl fl type_id) as [[]|] eqn:El; try discriminate.
            inversion Eet; subst. apply (enum_sizes type_id tags w). right. eexists; exact El. }
          rewrite Htt.
          unfold get_num. cbn [find_constraint find]. rewrite Ea.
          destruct (integer_width w) as [tw|] eqn:Etw; [|exact I].
          destruct (integer_width_bounds _ _ Etw) as [Hle _].
          cbn [bind].
          apply (tail_ok_opt rest IH (p ++ [(v, tw, bits)])%list (acc + v * 2 ^ bits) (bits + w) ss Hrest
                         (inv_push _ _ _ _ _ _ Hinv Ev Hle) Href).
  Qed.
End Optional.

(** ** Whole declarations of the class *)

Definition root_of_optional_fragment (fl : file) (d : decl) : Prop :=
  (exists id fs, d = DPacket id [] fs None \/ d = DStruct id [] fs None)
  /\ forallb (of_field fl) (decl_fields d) = true.

Lemma opt_core fuel fl sch d o ss :
  schema_knows_enums fl sch ->
  get_parent fl d = None ->
  forallb (of_field fl) (decl_fields d) = true ->
  ref_enc_decl (S fuel) fl d (iter_fields fl d) [] o [raw_seg []] = Some ss ->
  good (rust_enc_decl (S fuel) fl sch d (iter_fields fl d) [] o (Ok []) 0) (render (f_endian fl) ss).
Proof.
  intros Hsch Hpar Hbf Hss.
  cbn [ref_enc_decl] in Hss. rewrite Hpar in Hss.
  match type of Hss with
  | match ?x with _ => _ end = _ => destruct x as [ss'|] eqn:Ef; [|discriminate]
  end.
  inversion Hss; subst ss'. clear Hss.
  cbn [rust_enc_decl]. rewrite Hpar.
  eapply enc_fields_optional; [exact Hsch | exact Hbf | apply inv_init | exact Ef].
Qed.

Theorem rust_encode_optional fuel fl sch id d v bs :
  schema_knows_enums fl sch ->
  lookup_decl fl id = Some d ->
  root_of_optional_fragment fl d ->
  ref_encode (S fuel) fl id v = Some bs ->
  good (rust_encode (S fuel) fl sch id v) bs.
Proof.
  intros Hsch Hl [[did [fs Hd]] Hbf] Href.
  assert (Hpar : get_parent fl d = None) by (destruct Hd as [-> | ->]; reflexivity).
  assert (Hcs : iter_constraints fl d = []).
  { unfold iter_constraints. rewrite parents_self_root by exact Hpar.
    destruct Hd as [-> | ->]; reflexivity. }
  assert (Hpl : decl_payload d = None).
  { unfold decl_payload. apply find_none_all. intros f Hin.
    rewrite forallb_forall in Hbf. specialize (Hbf f Hin).
    unfold of_field, bf_field in Hbf. unfold is_payload, is_payload_desc.
    destruct (f_cond f); destruct (f_desc f); try discriminate; reflexivity. }
  unfold ref_encode, ref_segments in Href. unfold rust_encode. rewrite Hl in *.
  destruct v as [n| |l|o]; try (destruct Hd as [-> | ->]; discriminate).
  assert (Hcore : forall ss,
             ref_enc_decl (S fuel) fl d (iter_fields fl d) [] o [raw_seg []] = Some ss ->
             good (rust_enc_decl (S fuel) fl sch d (iter_fields fl d) [] o (Ok []) 0) (render (f_endian fl) ss))
    by (intros ss; apply opt_core; assumption).
  rewrite Hcs, Hpl in *.
  destruct Hd as [-> | ->].
  - destruct (obj_payload o) as [[|b0 pl]|]; try discriminate.
    cbn [option_map] in Href.
    destruct (ref_enc_decl (S fuel) fl (DPacket did [] fs None) (iter_fields fl (DPacket did [] fs None)) [] o [raw_seg []]) as [ss|] eqn:Es;
      [|discriminate].
    inversion Href; subst. apply (Hcore ss eq_refl).
  - destruct (obj_payload o) as [[|b0 pl]|]; try discriminate.
    cbn [option_map] in Href.
    destruct (ref_enc_decl (S fuel) fl (DStruct did [] fs None) (iter_fields fl (DStruct did [] fs None)) [] o [raw_seg []]) as [ss|] eqn:Es;
      [|discriminate].
    inversion Href; subst. apply (Hcore ss eq_refl).
Qed.

(** ** Non-vacuity:
    [packet Msg { kind : 7, short_form : 1, ext : 16 if short_form = 0, tail : 8 }] *)

Definition opt_file : file :=
  mkFile BigEndian
    [DPacket "Msg" []
       [mkField (Scalar "kind" 7) None;
        mkField (Flag "short_form" [("ext", 0)]) None;
        mkField (Scalar "ext" 16) (Some (mkConstr "short_form" (Some 0) None));
        mkField (Scalar "tail" 8) None] None].

Definition opt_present : value :=
  VObj [("kind", VNum 5); ("ext", VNum 4660); ("tail", VNum 255)].
Definition opt_absent : value :=
  VObj [("kind", VNum 5); ("ext", VNull); ("tail", VNum 255)].

Example opt_example_in_class :
  exists sch d,
    mk_schema opt_file = Some sch /\
    lookup_decl opt_file "Msg" = Some d /\ root_of_optional_fragment opt_file d /\
    (* present: the flag takes the condition value 0 *)
    ref_encode 5 opt_file "Msg" opt_present = Some [x05; x12; x34; xff] /\
    rust_encode 5 opt_file sch "Msg" opt_present = Ok [x05; x12; x34; xff] /\
    (* absent: the flag takes the other value *)
    ref_encode 5 opt_file "Msg" opt_absent = Some [x85; xff] /\
    rust_encode 5 opt_file sch "Msg" opt_absent = Ok [x85; xff].
Proof.
  eexists. eexists. split; [vm_compute; reflexivity|].
  split; [vm_compute; reflexivity|].
  split; [split; [eexists; eexists; left; reflexivity | vm_compute; reflexivity]|].
  repeat split; vm_compute; reflexivity.
Qed.

(** a flag governing two optional fields with opposite condition values, and values on
    which the uses disagree: the reference has no encoding, the emitted code reports
    [InconsistentConditionValue] (outside the theorem's precondition, for the record) *)
Definition opt2_file : file :=
  mkFile LittleEndian
    [DPacket "Two" []
       [mkField (Flag "c" [("a", 1); ("b", 0)]) None; mkField (Reserved 7) None;
        mkField (Scalar "a" 8) (Some (mkConstr "c" (Some 1) None));
        mkField (Scalar "b" 8) (Some (mkConstr "c" (Some 0) None))] None].

Example opt2_examples :
  exists sch,
    mk_schema opt2_file = Some sch /\
    ref_encode 5 opt2_file "Two" (VObj [("a", VNum 7); ("b", VNull)]) = Some [x01; x07] /\
    rust_encode 5 opt2_file sch "Two" (VObj [("a", VNum 7); ("b", VNull)]) = Ok [x01; x07] /\
    ref_encode 5 opt2_file "Two" (VObj [("a", VNum 7); ("b", VNum 9)]) = None /\
    rust_encode 5 opt2_file sch "Two" (VObj [("a", VNum 7); ("b", VNum 9)]) = Err InconsistentConditionValue.
Proof.
  eexists. split; [vm_compute; reflexivity|]. repeat split; vm_compute; reflexivity.
Qed.

Print Assumptions enc_fields_optional.
Print Assumptions rust_encode_optional.
Print Assumptions flag_consistent_of_value.
