(** Endianness duality of the reference semantics: the segments of an encoding do not
    depend on the declared byte order; the big-endian bytes are the little-endian
    bytes with every integer segment (bit-field group, multi-byte element, optional
    scalar/enum, sized custom field) reversed and every raw segment (payload,
    padding) unchanged. *)
From Coq Require Import NArith List String Bool Lia.
From Coq Require Import Strings.Byte.
From PDL Require Import Base.Bits Lang.Ast Lang.Sexp Rust.Enum Sem.RefEncode.
Import ListNotations.
Open Scope N_scope.

Definition flip (fl : file) : file :=
  mkFile (match f_endian fl with LittleEndian => BigEndian | BigEndian => LittleEndian end) (f_decls fl).

Section Indep.
  Variables e e' : endian.
  Variable ds : list decl.
  Let fl := mkFile e ds.
  Let fl' := mkFile e' ds.
  Variables rec rec' : string -> value -> option (list seg).
  Hypothesis Hrec : forall t v, rec t v = rec' t v.

  Lemma enc_elem_indep w t v : ref_enc_elem fl rec w t v = ref_enc_elem fl' rec' w t v.
  Proof.
    unfold ref_enc_elem. destruct w; [reflexivity|]. destruct t as [t|]; [|reflexivity].
    change (lookup_decl fl t) with (lookup_decl fl' t).
    destruct (lookup_decl fl' t) as [[]|]; try reflexivity. apply Hrec.
  Qed.

  Lemma enc_elems_indep w t vs : ref_enc_elems fl rec w t vs = ref_enc_elems fl' rec' w t vs.
  Proof.
    induction vs as [|v vs IH]; cbn [ref_enc_elems]; [reflexivity|].
    rewrite enc_elem_indep, IH. reflexivity.
  Qed.

  Lemma array_elems_indep d obj id : ref_array_elems fl rec d obj id = ref_array_elems fl' rec' d obj id.
  Proof.
    unfold ref_array_elems. destruct (array_field d id); [|reflexivity].
    destruct (assoc id obj) as [[]|]; try reflexivity.
    destruct (f_desc f); try reflexivity. rewrite enc_elems_indep. reflexivity.
  Qed.

  Lemma bitfield_indep d all cs obj payload f :
    ref_bitfield fl rec d all cs obj payload f = ref_bitfield fl' rec' d all cs obj payload f.
  Proof.
    unfold ref_bitfield. destruct (f_desc f); try reflexivity.
    - destruct (_ || _); [reflexivity|]. rewrite array_elems_indep. reflexivity.
    - rewrite array_elems_indep. reflexivity.
  Qed.

  Lemma is_bitfield_indep f : is_bitfield fl f = is_bitfield fl' f.
  Proof. unfold is_bitfield. destruct (f_desc f); reflexivity. Qed.

  Lemma enc_fields_indep d all cs obj payload fs : forall acc bits,
    ref_enc_fields fl rec d all cs obj payload fs acc bits =
    ref_enc_fields fl' rec' d all cs obj payload fs acc bits.
  Proof.
    induction fs as [|f rest IH]; intros acc bits; cbn [ref_enc_fields]; [reflexivity|].
    destruct (f_cond f).
    - destruct (negb (bits =? 0)); [reflexivity|].
      destruct (assoc _ obj) as [v|]; [|reflexivity].
      rewrite !IH.
      destruct v; try reflexivity;
        (destruct (f_desc f); try reflexivity; rewrite enc_elem_indep; reflexivity).
    - rewrite is_bitfield_indep.
      destruct (is_bitfield fl' f).
      + rewrite bitfield_indep.
        destruct (ref_bitfield fl' rec' d all cs obj payload f) as [[v w]|]; [|reflexivity].
        destruct (v <? 2 ^ w); [|reflexivity].
        destruct ((bits + w) mod 8 =? 0); rewrite IH; reflexivity.
      + destruct (negb (bits =? 0)); [reflexivity|].
        rewrite !IH.
        destruct (f_desc f); try reflexivity.
        * rewrite array_elems_indep. reflexivity.
        * destruct (assoc id obj); [|reflexivity]. rewrite enc_elem_indep. reflexivity.
  Qed.
End Indep.

Lemma parents_indep e e' ds : forall n d,
  parents_and_self n (mkFile e ds) d = parents_and_self n (mkFile e' ds) d.
Proof.
  induction n as [|n IH]; intros d; cbn [parents_and_self]; [reflexivity|].
  change (get_parent (mkFile e ds) d) with (get_parent (mkFile e' ds) d).
  destruct (get_parent (mkFile e' ds) d); [rewrite IH|]; reflexivity.
Qed.

Lemma iter_fields_indep e e' ds d : iter_fields (mkFile e ds) d = iter_fields (mkFile e' ds) d.
Proof. unfold iter_fields, chain_fuel. cbn [f_decls]. now rewrite (parents_indep e e'). Qed.

Lemma iter_constraints_indep e e' ds d : iter_constraints (mkFile e ds) d = iter_constraints (mkFile e' ds) d.
Proof. unfold iter_constraints, chain_fuel. cbn [f_decls]. now rewrite (parents_indep e e'). Qed.

Lemma enc_decl_indep e e' ds : forall fuel d all cs obj payload,
  ref_enc_decl fuel (mkFile e ds) d all cs obj payload = ref_enc_decl fuel (mkFile e' ds) d all cs obj payload.
Proof.
  induction fuel as [|fuel IH]; intros d all cs obj payload; [reflexivity|].
  cbn [ref_enc_decl].
  rewrite (enc_fields_indep e e' ds _ (ref_rec_of (ref_enc_decl fuel (mkFile e' ds)) (mkFile e' ds))).
  2: { intros t v. unfold ref_rec_of.
       change (lookup_decl (mkFile e ds) t) with (lookup_decl (mkFile e' ds) t).
       destruct (lookup_decl (mkFile e' ds) t); [|reflexivity].
       destruct v; try reflexivity. destruct (obj_payload kv); [|reflexivity].
       rewrite (iter_fields_indep e e'), (iter_constraints_indep e e').
       apply IH. }
  destruct (ref_enc_fields _ _ d all cs obj payload (decl_fields d) 0 0); [|reflexivity].
  change (get_parent (mkFile e ds) d) with (get_parent (mkFile e' ds) d).
  destruct (get_parent (mkFile e' ds) d); [apply IH | reflexivity].
Qed.

Theorem segments_flip fuel fl id v : ref_segments fuel (flip fl) id v = ref_segments fuel fl id v.
Proof.
  destruct fl as [e ds]. unfold flip. cbn [f_endian f_decls].
  set (e' := match e with LittleEndian => BigEndian | BigEndian => LittleEndian end).
  unfold ref_segments.
  change (lookup_decl (mkFile e' ds) id) with (lookup_decl (mkFile e ds) id).
  destruct (lookup_decl (mkFile e ds) id) as [d|]; [|reflexivity].
  destruct v; try reflexivity.
  destruct d; try reflexivity;
    (destruct (obj_payload kv) as [pl|]; [|reflexivity];
     rewrite (iter_fields_indep e' e), (iter_constraints_indep e' e);
     match goal with |- context [decl_payload ?d] => destruct (decl_payload d) end;
     [apply enc_decl_indep | destruct pl; [apply enc_decl_indep | reflexivity]]).
Qed.

(** [swap]: reverse the integer segments, keep the raw ones. *)
Definition swap_segments (ss : list seg) : list byte :=
  List.concat (map (fun s : seg => if snd s then rev (fst s) else fst s) ss).

Lemma render_le ss : render LittleEndian ss = List.concat (map fst ss).
Proof.
  unfold render. induction ss as [|[bs b] ss IH]; [reflexivity|].
  cbn [map List.concat fst render_seg]. now rewrite IH.
Qed.

Lemma render_be ss : render BigEndian ss = swap_segments ss.
Proof.
  unfold render, swap_segments. induction ss as [|[bs b] ss IH]; [reflexivity|].
  cbn [map List.concat fst snd render_seg]. rewrite IH. destruct b; reflexivity.
Qed.

Lemma render_length e ss : List.length (render e ss) = List.length (List.concat (map fst ss)).
Proof.
  unfold render. induction ss as [|[bs b] ss IH]; [reflexivity|].
  cbn [map List.concat fst]. rewrite !app_length, IH. f_equal.
  destruct e, b; cbn; try reflexivity. apply rev_length.
Qed.

Theorem ref_duality fuel fl id v ss :
  f_endian fl = LittleEndian ->
  ref_segments fuel fl id v = Some ss ->
  ref_encode fuel fl id v = Some (List.concat (map fst ss))
  /\ ref_encode fuel (flip fl) id v = Some (swap_segments ss).
Proof.
  intros He Hs. unfold ref_encode. rewrite segments_flip, Hs. cbn [option_map].
  unfold flip. rewrite He. cbn [f_endian]. rewrite render_le, render_be. split; reflexivity.
Qed.

Theorem ref_duality_length fuel fl id v :
  option_map (@List.length byte) (ref_encode fuel fl id v) =
  option_map (@List.length byte) (ref_encode fuel (flip fl) id v).
Proof.
  unfold ref_encode. rewrite segments_flip.
  destruct (ref_segments fuel fl id v) as [ss|]; [|reflexivity].
  cbn [option_map]. f_equal. rewrite !render_length. reflexivity.
Qed.
