(** [SourceLocation::new]: the line / column it reports are consistent with the byte
    offset, for every offset and every list of line starts. *)
From Coq Require Import NArith ZArith List String Bool Lia ZifyN ZifyBool.
From PDL Require Import Front.Loc.
Import ListNotations.
Open Scope N_scope.

(** [consistent ls0 offset r]: [r] names a line start [s <= offset] of [ls0] (or the
    implicit start 0 of the initial value) and its column is the distance to it *)
Definition consistent (ls0 : list N) (offset : N) (r : srcloc) : Prop :=
  l_offset r = offset /\
  exists s, (s = 0 \/ In s ls0) /\ s <= offset /\ l_column r = offset - s.

Lemma loc_scan_consistent ls0 offset : forall ls line cur,
  (forall s, In s ls -> In s ls0) ->
  consistent ls0 offset cur ->
  consistent ls0 offset (loc_scan offset ls line cur).
Proof.
  induction ls as [|start ls IH]; intros line cur Hsub Hcur; cbn [loc_scan]; [exact Hcur|].
  destruct (offset <? start) eqn:E; [exact Hcur|].
  apply IH; [intros s Hs; apply Hsub; right; exact Hs|].
  split; [reflexivity|]. exists start. split; [right; apply Hsub; left; reflexivity|].
  split; [lia | reflexivity].
Qed.

Theorem source_location_consistent offset ls :
  consistent ls offset (source_location offset ls).
Proof.
  unfold source_location. apply loc_scan_consistent; [tauto|].
  split; [reflexivity|]. exists 0. split; [left; reflexivity|]. split; [lia|]. cbn. lia.
Qed.

(** the line reported is the LAST start not above the offset when starts ascend *)
Lemma loc_scan_line offset : forall ls line cur,
  l_line (loc_scan offset ls line cur) = l_line cur \/
  (line <= l_line (loc_scan offset ls line cur) /\ l_line (loc_scan offset ls line cur) < line + N.of_nat (List.length ls)).
Proof.
  induction ls as [|start ls IH]; intros line cur; cbn [loc_scan]; [left; reflexivity|].
  destruct (offset <? start); [left; reflexivity|].
  right. destruct (IH (line + 1) (mkLoc offset line (offset - start))) as [H|[H1 H2]].
  - rewrite H. cbn [l_line List.length]. lia.
  - cbn [List.length]. lia.
Qed.

Theorem source_location_line_in_range offset ls :
  ls <> [] -> l_line (source_location offset ls) < N.of_nat (List.length ls).
Proof.
  intros Hne. unfold source_location.
  destruct (loc_scan_line offset ls 0 (mkLoc offset 0 offset)) as [H|[_ H]].
  - rewrite H. cbn [l_line]. destruct ls; [congruence|]. cbn [List.length]. lia.
  - lia.
Qed.
