(** [specialize()] (Rust/Inherit.v, [rust_specialize]) characterised in terms of the
    specialize cases gathered by the generator:

    - the gathered cases are exactly the declarations of each direct child's subtree,
      each with the constraints (on the parent's data fields) accumulated along the path
      ([all_cases_spec]);
    - [Ok None] is returned only when NO kept case matches the parent's values, and is
      never returned when one does ([specialize_none], [specialize_not_none]);
    - when a child is returned, a case of that child matches in full (not only the child's
      own constraints), the child is the least one in NAME order among the matching
      children, and the value is what [try_from_parent] returns ([specialize_some]);
      conversely the least matching child is always the one tried ([specialize_exact]);
    - the generator's ambiguity check makes the matching child unique when the cases
      constrain the same set of fields ([determinacy], [specialize_exactly_when]); it does
      NOT when siblings constrain different fields ([overlap_counter_example]). *)
From Coq Require Import NArith List String Ascii Bool Lia ZifyN ZifyBool.
From Coq Require Import Strings.Byte.
From PDL Require Import Base.Bits Base.Outcome Lang.Ast Lang.Sexp Analyzer.Schema Rust.Enum
     Sem.RefEncode Rust.Encode Rust.Decode Rust.Inherit Proofs.SortedSet.
Import ListNotations.
Open Scope string_scope.
Open Scope N_scope.

(** * 1. What [gather] / [all_cases] collect *)

(** folding [option (list _)] accumulators, as both [gather] and [all_cases] do *)
Section FoldOpt.
  Context {A B : Type}.
  Variable g : A -> option (list B).
  Variable f : option (list B) -> A -> option (list B).
  Hypothesis Hf : forall acc k,
      f acc k = match acc, g k with Some a, Some b => Some (a ++ b)%list | _, _ => None end.

  Lemma fold_opt_none l : fold_left f l None = None.
  Proof.
    induction l as [|a l IH]; cbn [fold_left]; [reflexivity|].
    rewrite Hf. exact IH.
  Qed.

  Lemma fold_opt_spec l : forall a0 r,
      fold_left f l (Some a0) = Some r ->
      (forall k, In k l -> exists b, g k = Some b) /\
      (forall x, In x r <-> In x a0 \/ exists k b, In k l /\ g k = Some b /\ In x b).
  Proof.
    induction l as [|a l IH]; intros a0 r H; cbn [fold_left] in H.
    - inversion H; subst r. split; [intros k []|].
      intros x. split; [auto|]. intros [Hx|[k [b [[] _]]]]. exact Hx.
    - rewrite Hf in H. destruct (g a) as [b|] eqn:Eg.
      + destruct (IH _ _ H) as [H1 H2]. split.
        * intros k [<-|Hk]; [eauto | auto].
        * intros x. rewrite H2, in_app_iff. split.
          -- intros [[Hx|Hx]|[k [b' [Hk [Hg Hx]]]]].
             ++ auto.
             ++ right. exists a, b. cbn [In]. auto.
             ++ right. exists k, b'. cbn [In]. auto.
          -- intros [Hx|[k [b' [[<-|Hk] [Hg Hx]]]]].
             ++ auto.
             ++ rewrite Eg in Hg. inversion Hg; subst b'. auto.
             ++ right. exists k, b'. auto.
      + rewrite fold_opt_none in H. discriminate.
  Qed.
End FoldOpt.

(** the environment after a declaration's own constraints on the parent's data fields *)
Definition local_env (fl : file) (dfs : list field) (k : decl) (inh : list (string * N))
  : option (list (string * N)) :=
  fold_left (fun acc c =>
               match acc with
               | None => None
               | Some env =>
                   if is_data_field dfs (c_id c) then
                     match constraint_N fl dfs c with
                     | Some v => Some ((c_id c, v) :: env)
                     | None => None
                     end
                   else Some env
               end) (decl_constraints k) (Some inh).

(** [schema.decl_size(key) + schema.payload_size(key)] *)
Definition decl_total_size (sch : schema) (k : decl) : option size :=
  match decl_id k with
  | Some id =>
      match assoc id sch with
      | Some ds => size_add (ds_decl ds) (ds_payload ds)
      | None => None
      end
  | None => None
  end.

(** [subtree_case k inh env s]: some declaration of the subtree rooted at [k] has total
    size [s], and [env] is [inh] extended with the constraints met on the way down to it. *)
Inductive subtree_case (fl : file) (sch : schema) (dfs : list field)
  : decl -> list (string * N) -> list (string * N) -> size -> Prop :=
| stc_self k inh env s :
    local_env fl dfs k inh = Some env -> decl_total_size sch k = Some s ->
    subtree_case fl sch dfs k inh env s
| stc_child k inh env k2 env' s :
    local_env fl dfs k inh = Some env -> In k2 (iter_children fl k) ->
    subtree_case fl sch dfs k2 env env' s ->
    subtree_case fl sch dfs k inh env' s.

Lemma gather_S fuel fl sch top d dfs inh :
  gather (S fuel) fl sch top d dfs inh =
  match local_env fl dfs d inh with
  | None => None
  | Some env =>
      match fold_left (fun acc k =>
                         match acc, gather fuel fl sch top k dfs env with
                         | Some a, Some b => Some (a ++ b)%list
                         | _, _ => None
                         end) (iter_children fl d) (Some []),
            decl_total_size sch d with
      | Some ks, Some s => Some (ks ++ [mkCase top env s])%list
      | _, _ => None
      end
  end.
Proof. reflexivity. Qed.

Lemma gather_sound fl sch dfs top : forall fuel k inh cs c,
    gather fuel fl sch top k dfs inh = Some cs -> In c cs ->
    sc_id c = top /\ subtree_case fl sch dfs k inh (sc_constraints c) (sc_size c).
Proof.
  induction fuel as [|fuel IH]; intros k inh cs c Hg Hc; [discriminate|].
  rewrite gather_S in Hg.
  destruct (local_env fl dfs k inh) as [env|] eqn:El; [|discriminate].
  match type of Hg with match ?x with _ => _ end = _ => destruct x as [ks|] eqn:Ek end;
    [|discriminate].
  destruct (decl_total_size sch k) as [s|] eqn:Es; [|discriminate].
  inversion Hg; subst cs. apply in_app_or in Hc. destruct Hc as [Hc|[<-|[]]].
  - destruct (fold_opt_spec (fun k2 => gather fuel fl sch top k2 dfs env) _
                            (fun acc k2 => eq_refl) _ _ _ Ek) as [_ H2].
    apply H2 in Hc. destruct Hc as [[]|[k2 [b [Hk2 [Hb Hcb]]]]].
    destruct (IH _ _ _ _ Hb Hcb) as [Hid Hsub]. split; [exact Hid|].
    eapply stc_child; eassumption.
  - cbn [sc_id sc_constraints sc_size]. split; [reflexivity|]. apply stc_self; assumption.
Qed.

Lemma gather_complete fl sch dfs top : forall fuel k inh cs env s,
    gather fuel fl sch top k dfs inh = Some cs ->
    subtree_case fl sch dfs k inh env s -> In (mkCase top env s) cs.
Proof.
  induction fuel as [|fuel IH]; intros k inh cs env s Hg Hsub; [discriminate|].
  rewrite gather_S in Hg.
  destruct (local_env fl dfs k inh) as [env0|] eqn:El; [|discriminate].
  match type of Hg with match ?x with _ => _ end = _ => destruct x as [ks|] eqn:Ek end;
    [|discriminate].
  destruct (decl_total_size sch k) as [s0|] eqn:Es; [|discriminate].
  inversion Hg; subst cs. apply in_or_app.
  inversion Hsub as [k' inh' env' s' Hl Hs|k' inh' env1 k2 env' s' Hl Hk2 Hsub2]; subst.
  - right. rewrite El in Hl. rewrite Es in Hs. inversion Hl; inversion Hs; subst. left; reflexivity.
  - left. rewrite El in Hl. inversion Hl; subst env1.
    destruct (fold_opt_spec (fun k2 => gather fuel fl sch top k2 dfs env0) _
                            (fun acc k2 => eq_refl) _ _ _ Ek) as [H1 H2].
    destruct (H1 _ Hk2) as [b Hb]. apply H2. right. exists k2, b.
    split; [exact Hk2|]. split; [exact Hb|]. eapply IH; eassumption.
Qed.

(** The gathered cases are exactly: for each direct child [k] of [d], one case named after
    [k] per declaration of [k]'s subtree. *)
Theorem all_cases_spec fl sch d cases :
  all_cases fl sch d = Some cases ->
  forall c, In c cases <->
            exists k, In k (iter_children fl d) /\ decl_id k = Some (sc_id c) /\
                      subtree_case fl sch (data_fields fl d) k []
                                   (sc_constraints c) (sc_size c).
Proof.
  intros Ha c. unfold all_cases in Ha.
  set (dfs := data_fields fl d) in *.
  set (g := fun k => match decl_id k with
                     | Some kid => gather (S (List.length (f_decls fl))) fl sch kid k dfs []
                     | None => None
                     end).
  assert (Hf : forall (acc : option (list spec_case)) k,
             match acc, decl_id k with
             | Some a, Some kid =>
                 match gather (S (List.length (f_decls fl))) fl sch kid k dfs [] with
                 | Some b => Some (a ++ b)%list
                 | None => None
                 end
             | _, _ => None
             end = match acc, g k with Some a, Some b => Some (a ++ b)%list | _, _ => None end).
  { intros acc k. unfold g. destruct acc as [a|]; [|reflexivity].
    destruct (decl_id k) as [kid|]; reflexivity. }
  destruct (fold_opt_spec g _ Hf _ _ _ Ha) as [H1 H2].
  rewrite H2. split.
  - intros [[]|[k [b [Hk [Hg Hc]]]]]. unfold g in Hg.
    destruct (decl_id k) as [kid|] eqn:Eid; [|discriminate].
    destruct (gather_sound _ _ _ _ _ _ _ _ _ Hg Hc) as [Hid Hsub].
    exists k. rewrite Hid. auto.
  - intros [k [Hk [Hid Hsub]]]. right. destruct (H1 _ Hk) as [b Hb].
    exists k, b. split; [exact Hk|]. split; [exact Hb|].
    unfold g in Hb. rewrite Hid in Hb.
    pose proof (gather_complete _ _ _ _ _ _ _ _ _ _ Hb Hsub) as Hin.
    destruct c as [i cs s]. exact Hin.
Qed.

(** * 2. Matching a case against the parent's values *)

Fixpoint go_match (vs : list N) (ps : list (option N)) : bool :=
  match vs, ps with
  | [], [] => true
  | v :: vs', p :: ps' => (match p with Some x => v =? x | None => true end) && go_match vs' ps'
  | _, _ => false
  end.

Lemma pattern_matches_eq vals plen ws pat :
  pattern_matches vals plen ws pat =
  go_match vals (fst pat)
  && (if ws then match snd pat with SStatic s => plen =? s / 8 | _ => true end else true).
Proof. reflexivity. Qed.

Definition unw (o : option N) : N := match o with Some v => v | None => 0 end.
Definition is_none (o : option N) : bool := match o with None => true | Some _ => false end.
Definition is_some (o : option N) : bool := match o with Some _ => true | None => false end.

(** all the constraints of the case hold of the values [val] of the parent's fields *)
Definition case_holds (val : string -> option N) (c : spec_case) : Prop :=
  forall id x, assoc id (sc_constraints c) = Some x -> val id = Some x.

(** when sizes are matched, a case of static size matches that payload length only *)
Definition size_holds (ws : bool) (plen : N) (c : spec_case) : Prop :=
  ws = true -> forall s, sc_size c = SStatic s -> plen = s / 8.

(** the generator emits no pattern for a case that would be [(_, ..., _)] *)
Definition case_kept (ws : bool) (c : spec_case) : Prop :=
  sc_constraints c <> [] \/ (ws = true /\ sc_size c <> SUnknown).

Definition case_matches (val : string -> option N) (ws : bool) (plen : N) (c : spec_case) : Prop :=
  case_kept ws c /\ case_holds val c /\ size_holds ws plen c.

Lemma assoc_in_keys {A} id (l : list (string * A)) x : assoc id l = Some x -> In id (map fst l).
Proof.
  induction l as [|[k v] l IH]; cbn [assoc map fst]; [discriminate|].
  destruct (String.eqb id k) eqn:E.
  - apply String.eqb_eq in E. subst k. intros _. left; reflexivity.
  - intros H. right. exact (IH H).
Qed.

Lemma case_ids_in cases c id x :
  In c cases -> assoc id (sc_constraints c) = Some x -> In id (case_ids cases).
Proof.
  intros Hc Ha. unfold case_ids. apply sort_dedup_in. apply in_flat_map.
  exists c. split; [exact Hc|]. eapply assoc_in_keys; eassumption.
Qed.

Lemma existsb_is_none_false (val : string -> option N) (ids : list string) :
  existsb (fun o => match o with None => true | Some _ => false end) (map val ids) = false ->
  forall id, In id ids -> val id <> None.
Proof.
  induction ids as [|i ids IH]; cbn [map existsb]; intros H id Hin; [destruct Hin|].
  apply orb_false_iff in H. destruct H as [H1 H2]. destruct Hin as [<-|Hin].
  - intros E. rewrite E in H1. discriminate.
  - exact (IH H2 id Hin).
Qed.

Lemma existsb_is_none_false_conv (val : string -> option N) (ids : list string) :
  (forall id, In id ids -> val id <> None) ->
  existsb (fun o => match o with None => true | Some _ => false end) (map val ids) = false.
Proof.
  induction ids as [|i ids IH]; cbn [map existsb]; intros H; [reflexivity|].
  apply orb_false_iff. split.
  - destruct (val i) eqn:E; [reflexivity|]. exfalso. exact (H i (or_introl eq_refl) E).
  - apply IH. intros id Hin. apply H. right. exact Hin.
Qed.

Lemma go_match_spec val cs : forall ids,
    (forall id, In id ids -> val id <> None) ->
    go_match (map unw (map val ids)) (map (fun id => assoc id cs) ids) = true <->
    (forall id x, In id ids -> assoc id cs = Some x -> val id = Some x).
Proof.
  induction ids as [|i ids IH]; intros Hres; cbn [map go_match].
  - split; [intros _ id x []|reflexivity].
  - rewrite andb_true_iff, IH by (intros id Hin; apply Hres; right; exact Hin).
    assert (Hi : val i <> None) by (apply Hres; left; reflexivity).
    destruct (val i) as [vi|] eqn:Evi; [|congruence]. cbn [unw].
    split.
    + intros [H1 H2] id x [<-|Hin] Ha.
      * rewrite Ha in H1. apply N.eqb_eq in H1. rewrite Evi. congruence.
      * exact (H2 id x Hin Ha).
    + intros H. split.
      * destruct (assoc i cs) as [x|] eqn:Ea; [|reflexivity].
        specialize (H i x (or_introl eq_refl) Ea). rewrite Evi in H. inversion H. apply N.eqb_refl.
      * intros id x Hin Ha. exact (H id x (or_intror Hin) Ha).
Qed.

(** the condition under which a case contributes a pattern *)
Definition keepb (ids : list string) (ws : bool) (c : spec_case) : bool :=
  existsb (fun o => match o with Some _ => true | None => false end) (case_tuple ids c)
  || negb (size_eqb (if ws then sc_size c else SUnknown) SUnknown).

Lemma keepb_spec cases ws c :
  In c cases -> keepb (case_ids cases) ws c = true <-> case_kept ws c.
Proof.
  intros Hc. unfold keepb, case_kept. rewrite orb_true_iff. split.
  - intros [H|H].
    + left. apply existsb_exists in H. destruct H as [o [Ho Hs]].
      unfold case_tuple in Ho. apply in_map_iff in Ho. destruct Ho as [id [Ha _]].
      intros E. rewrite E in Ha. cbn [assoc] in Ha. subst o. discriminate.
    + right. destruct ws; [|discriminate]. split; [reflexivity|].
      intros E. rewrite E in H. discriminate.
  - intros [H|[-> H]].
    + left. destruct (sc_constraints c) as [|[id x] l] eqn:Ec; [congruence|].
      apply existsb_exists. exists (Some x). split; [|reflexivity].
      unfold case_tuple. apply in_map_iff. exists id.
      assert (Ha : assoc id (sc_constraints c) = Some x).
      { rewrite Ec. cbn [assoc]. rewrite String.eqb_refl. reflexivity. }
      split; [exact Ha|]. eapply case_ids_in; eassumption.
    + right. destruct (sc_size c); try reflexivity. congruence.
Qed.

Lemma case_pattern_matches val cases ws plen c :
  In c cases ->
  (forall id, In id (case_ids cases) -> val id <> None) ->
  pattern_matches (map unw (map val (case_ids cases))) plen ws
                  (case_tuple (case_ids cases) c, if ws then sc_size c else SUnknown) = true <->
  case_holds val c /\ size_holds ws plen c.
Proof.
  intros Hc Hres. rewrite pattern_matches_eq. cbn [fst snd]. rewrite andb_true_iff.
  unfold case_tuple. rewrite (go_match_spec val (sc_constraints c) _ Hres).
  unfold case_holds, size_holds. split.
  - intros [H1 H2]. split.
    + intros id x Ha. apply H1; [|exact Ha]. eapply case_ids_in; eassumption.
    + intros -> s Es. rewrite Es in H2. apply N.eqb_eq in H2. exact H2.
  - intros [H1 H2]. split.
    + intros id x _ Ha. exact (H1 id x Ha).
    + destruct ws; [|reflexivity]. destruct (sc_size c) as [s| |] eqn:Es; try reflexivity.
      apply N.eqb_eq. apply H2; reflexivity.
Qed.

(** * 3. The arms of the generated [match] *)

Definition keyed_of (ids : list string) (ws : bool) (cases : list spec_case)
  : list (string * (list (option N) * size)) :=
  flat_map (fun c =>
              let t := case_tuple ids c in
              let s := if ws then sc_size c else SUnknown in
              if existsb (fun o => match o with Some _ => true | None => false end) t
                 || negb (size_eqb s SUnknown)
              then [(sc_id c, (t, s))] else []) cases.

Definition arms_for (keyed : list (string * (list (option N) * size))) (cid : string) :=
  map snd (filter (fun p => String.eqb (fst p) cid) keyed).

Definition arms_of (keyed : list (string * (list (option N) * size))) :=
  map (fun cid => (cid, arms_for keyed cid)) (sort_dedup (map fst keyed)).

Definition with_size_of (cases : list spec_case) : bool :=
  negb (check_cases (case_ids cases) false cases).

Lemma specialize_plan_eq fl sch d :
  specialize_plan fl sch d =
  match all_cases fl sch d with
  | None => None
  | Some cases =>
      if negb (check_cases (case_ids cases) true cases) then None
      else Some (mkPlan (case_ids cases) (with_size_of cases)
                        (arms_of (keyed_of (case_ids cases) (with_size_of cases) cases)))
  end.
Proof. reflexivity. Qed.

Lemma keyed_in ids ws cases cid pat :
  In (cid, pat) (keyed_of ids ws cases) <->
  exists c, In c cases /\ keepb ids ws c = true /\ cid = sc_id c /\
            pat = (case_tuple ids c, if ws then sc_size c else SUnknown).
Proof.
  unfold keyed_of. rewrite in_flat_map. split.
  - intros [c [Hc Hin]]. exists c. split; [exact Hc|]. fold (keepb ids ws c) in Hin.
    destruct (keepb ids ws c); [|destruct Hin].
    destruct Hin as [E|[]]. inversion E. auto.
  - intros [c [Hc [Hk [-> ->]]]]. exists c. split; [exact Hc|]. fold (keepb ids ws c).
    rewrite Hk. left; reflexivity.
Qed.

Lemma arms_for_in keyed cid pat : In pat (arms_for keyed cid) <-> In (cid, pat) keyed.
Proof.
  unfold arms_for. rewrite in_map_iff. split.
  - intros [[i p] [Hp Hin]]. cbn [snd] in Hp. subst p. apply filter_In in Hin.
    destruct Hin as [Hin He]. cbn [fst] in He. apply String.eqb_eq in He. subst i. exact Hin.
  - intros Hin. exists (cid, pat). split; [reflexivity|]. apply filter_In.
    split; [exact Hin|]. cbn [fst]. apply String.eqb_refl.
Qed.

Definition hit (vs : list N) (plen : N) (ws : bool)
           (garms : string -> list (list (option N) * size)) (cid : string) : bool :=
  existsb (pattern_matches vs plen ws) (garms cid).

Section FirstArm.
  Variable vs : list N.
  Variable plen : N.
  Variable ws : bool.
  Variable garms : string -> list (list (option N) * size).

  Local Notation hit := (hit vs plen ws garms).

  Lemma first_arm_none l :
    first_arm vs plen ws (map (fun cid => (cid, garms cid)) l) = None <->
    forall cid, In cid l -> hit cid = false.
  Proof.
    induction l as [|a l IH]; cbn [map first_arm].
    - split; [intros _ cid []|reflexivity].
    - fold (hit a). destruct (hit a) eqn:Ea.
      + split; [discriminate|]. intros H. specialize (H a (or_introl eq_refl)). congruence.
      + rewrite IH. split.
        * intros H cid [<-|Hin]; [exact Ea | exact (H cid Hin)].
        * intros H cid Hin. exact (H cid (or_intror Hin)).
  Qed.

  Lemma first_arm_some l cid :
    ssorted l ->
    first_arm vs plen ws (map (fun cid => (cid, garms cid)) l) = Some cid <->
    In cid l /\ hit cid = true /\
    forall cid', In cid' l -> hit cid' = true -> cid' = cid \/ str_ltb cid cid' = true.
  Proof.
    induction l as [|a l IH]; intros Hs; cbn [map first_arm].
    - split; [discriminate|]. intros [[] _].
    - fold (hit a). pose proof (ssorted_tail _ _ Hs) as Hs'.
      destruct (hit a) eqn:Ea.
      + split.
        * intros E. inversion E; subst a. split; [left; reflexivity|]. split; [exact Ea|].
          intros cid' [<-|Hin] _; [left; reflexivity|]. right.
          eapply ssorted_head_lt; eassumption.
        * intros [Hin [Hh Hmin]]. f_equal.
          destruct (Hmin a (or_introl eq_refl) Ea) as [E|Hlt]; [exact E|].
          destruct Hin as [E|Hin]; [exact E|].
          pose proof (ssorted_head_lt _ _ Hs _ Hin) as Hlt'.
          rewrite (str_ltb_asym _ _ Hlt') in Hlt. discriminate.
      + rewrite (IH Hs'). split.
        * intros [Hin [Hh Hmin]]. split; [right; exact Hin|]. split; [exact Hh|].
          intros cid' [<-|Hin'] Hh'; [congruence|]. exact (Hmin cid' Hin' Hh').
        * intros [Hin [Hh Hmin]]. destruct Hin as [<-|Hin]; [congruence|].
          split; [exact Hin|]. split; [exact Hh|].
          intros cid' Hin' Hh'. exact (Hmin cid' (or_intror Hin') Hh').
  Qed.
End FirstArm.

(** a child's arm fires iff one of the kept cases named after it matches *)
Lemma hit_spec val cases ws plen cid :
  (forall id, In id (case_ids cases) -> val id <> None) ->
  existsb (pattern_matches (map unw (map val (case_ids cases))) plen ws)
          (arms_for (keyed_of (case_ids cases) ws cases) cid) = true <->
  exists c, In c cases /\ sc_id c = cid /\ case_matches val ws plen c.
Proof.
  intros Hres. rewrite existsb_exists. split.
  - intros [pat [Hin Hm]]. apply arms_for_in in Hin. apply keyed_in in Hin.
    destruct Hin as [c [Hc [Hk [-> ->]]]]. exists c. split; [exact Hc|]. split; [reflexivity|].
    apply (keepb_spec _ _ _ Hc) in Hk.
    apply (case_pattern_matches val cases ws plen c Hc Hres) in Hm.
    destruct Hm as [H1 H2]. split; [exact Hk|]. split; assumption.
  - intros [c [Hc [<- [Hk [H1 H2]]]]].
    exists (case_tuple (case_ids cases) c, if ws then sc_size c else SUnknown). split.
    + apply arms_for_in. apply keyed_in. exists c. split; [exact Hc|].
      split; [apply (keepb_spec _ _ _ Hc); exact Hk|]. split; reflexivity.
    + apply (case_pattern_matches val cases ws plen c Hc Hres). split; assumption.
Qed.

Lemma hit_in_order val cases ws plen c :
  In c cases -> case_matches val ws plen c ->
  In (sc_id c) (sort_dedup (map fst (keyed_of (case_ids cases) ws cases))).
Proof.
  intros Hc [Hk _]. apply sort_dedup_in. apply in_map_iff.
  exists (sc_id c, (case_tuple (case_ids cases) c, if ws then sc_size c else SUnknown)).
  split; [reflexivity|]. apply keyed_in. exists c. split; [exact Hc|].
  split; [apply (keepb_spec _ _ _ Hc); exact Hk|]. split; reflexivity.
Qed.

(** * 4. [rust_specialize] *)

(** [self.id()] on the parent *)
Definition pval (fl : file) (d : decl) (pobj : list (string * value)) (id : string) : option N :=
  get_num fl (iter_fields fl d) (iter_constraints fl d) pobj id.

(** what the arm of child [cid] evaluates to: [ParentChild::cid(self.try_into()?)] *)
Definition arm_result (fuel : nat) (oc : bool) (fl : file) (sch : schema) (d : decl)
           (pobj : list (string * value)) (cid : string) : dres (option (string * value)) :=
  match lookup_decl fl cid with
  | Some c =>
      let* v := try_from_parent fuel oc fl sch c d pobj in
      Ok (Some (cid, v))
  | None => Panic UnwrapFail
  end.

Lemma rust_specialize_eq fuel oc fl sch d pobj :
  rust_specialize fuel oc fl sch d pobj =
  match specialize_plan fl sch d with
  | None => Panic UnwrapFail
  | Some plan =>
      if existsb (fun o => match o with None => true | Some _ => false end)
                 (map (pval fl d pobj) (sp_ids plan))
      then Panic UnwrapFail
      else
        match first_arm (map unw (map (pval fl d pobj) (sp_ids plan)))
                        (obj_payload_len pobj) (sp_with_size plan) (sp_arms plan) with
        | None => Ok None
        | Some cid => arm_result fuel oc fl sch d pobj cid
        end
  end.
Proof. reflexivity. Qed.

(** The run of [specialize()] reduced to [first_arm] over the sorted child names. *)
Lemma rust_specialize_cases fuel oc fl sch d pobj cases :
  all_cases fl sch d = Some cases ->
  check_cases (case_ids cases) true cases = true ->
  (forall id, In id (case_ids cases) -> pval fl d pobj id <> None) ->
  rust_specialize fuel oc fl sch d pobj =
  match first_arm (map unw (map (pval fl d pobj) (case_ids cases)))
                  (obj_payload_len pobj) (with_size_of cases)
                  (arms_of (keyed_of (case_ids cases) (with_size_of cases) cases)) with
  | None => Ok None
  | Some cid => arm_result fuel oc fl sch d pobj cid
  end.
Proof.
  intros Ha Hchk Hres. rewrite rust_specialize_eq, specialize_plan_eq, Ha, Hchk.
  cbn [negb sp_ids sp_with_size sp_arms].
  rewrite (existsb_is_none_false_conv _ _ Hres). reflexivity.
Qed.

(** When [specialize()] does not panic in the generator or on an unresolved field, the case
    list exists, passed the ambiguity check, and every discriminant field has a value. *)
Lemma rust_specialize_inv fuel oc fl sch d pobj :
  (forall r, rust_specialize fuel oc fl sch d pobj = Ok r ->
   exists cases, all_cases fl sch d = Some cases /\
                 check_cases (case_ids cases) true cases = true /\
                 (forall id, In id (case_ids cases) -> pval fl d pobj id <> None)).
Proof.
  intros r H. rewrite rust_specialize_eq, specialize_plan_eq in H.
  destruct (all_cases fl sch d) as [cases|]; [|discriminate].
  destruct (check_cases (case_ids cases) true cases) eqn:Hchk; cbn [negb] in H; [|discriminate].
  cbn [sp_ids sp_with_size sp_arms] in H.
  destruct (existsb (fun o => match o with None => true | Some _ => false end)
                    (map (pval fl d pobj) (case_ids cases))) eqn:Ex; [discriminate|].
  exists cases. split; [reflexivity|]. split; [exact Hchk|].
  exact (existsb_is_none_false _ _ Ex).
Qed.

(** ** [None]: no gathered (kept) case matches *)
Theorem specialize_none fuel oc fl sch d pobj :
  rust_specialize fuel oc fl sch d pobj = Ok None ->
  exists cases,
    all_cases fl sch d = Some cases /\
    forall c, In c cases ->
              ~ case_matches (pval fl d pobj) (with_size_of cases) (obj_payload_len pobj) c.
Proof.
  intros H. destruct (rust_specialize_inv _ _ _ _ _ _ _ H) as [cases [Ha [Hchk Hres]]].
  exists cases. split; [exact Ha|]. intros c Hc Hm.
  rewrite (rust_specialize_cases _ _ _ _ _ _ _ Ha Hchk Hres) in H.
  unfold arms_of in H.
  destruct (first_arm _ _ _ _) as [cid|] eqn:Ef.
  - unfold arm_result in H. destruct (lookup_decl fl cid); [|discriminate].
    destruct (try_from_parent fuel oc fl sch d0 d pobj); discriminate.
  - pose proof (proj1 (first_arm_none _ _ _ _ _) Ef (sc_id c) (hit_in_order _ _ _ _ _ Hc Hm)) as Hh.
    assert (Ht : existsb (pattern_matches (map unw (map (pval fl d pobj) (case_ids cases)))
                                          (obj_payload_len pobj) (with_size_of cases))
                         (arms_for (keyed_of (case_ids cases) (with_size_of cases) cases) (sc_id c))
                 = true).
    { apply (hit_spec _ _ _ _ _ Hres). exists c. auto. }
    unfold hit in Hh. rewrite Ht in Hh. discriminate.
Qed.

(** ... and conversely: when some gathered case matches, the result is not [Ok None]. *)
Theorem specialize_not_none fuel oc fl sch d pobj cases c :
  all_cases fl sch d = Some cases ->
  In c cases ->
  case_matches (pval fl d pobj) (with_size_of cases) (obj_payload_len pobj) c ->
  rust_specialize fuel oc fl sch d pobj <> Ok None.
Proof.
  intros Ha Hc Hm H. destruct (specialize_none _ _ _ _ _ _ H) as [cases' [Ha' Hno]].
  rewrite Ha in Ha'. inversion Ha'; subst cases'. exact (Hno c Hc Hm).
Qed.

(** ** [Some]: a whole case of that child matches, the child is the least matching one in
    name order, and the value is [Child::try_from(&parent)]. *)
Theorem specialize_some fuel oc fl sch d pobj cid v :
  rust_specialize fuel oc fl sch d pobj = Ok (Some (cid, v)) ->
  exists cases,
    all_cases fl sch d = Some cases /\
    (exists c, In c cases /\ sc_id c = cid /\
               case_matches (pval fl d pobj) (with_size_of cases) (obj_payload_len pobj) c) /\
    (forall c', In c' cases ->
                case_matches (pval fl d pobj) (with_size_of cases) (obj_payload_len pobj) c' ->
                sc_id c' = cid \/ str_ltb cid (sc_id c') = true) /\
    exists cd, lookup_decl fl cid = Some cd /\
               try_from_parent fuel oc fl sch cd d pobj = Ok v.
Proof.
  intros H. destruct (rust_specialize_inv _ _ _ _ _ _ _ H) as [cases [Ha [Hchk Hres]]].
  exists cases. split; [exact Ha|].
  rewrite (rust_specialize_cases _ _ _ _ _ _ _ Ha Hchk Hres) in H.
  unfold arms_of in H.
  destruct (first_arm _ _ _ _) as [cid'|] eqn:Ef; [|discriminate].
  unfold arm_result in H. destruct (lookup_decl fl cid') as [cd|] eqn:El; [|discriminate].
  destruct (try_from_parent fuel oc fl sch cd d pobj) as [v'| | |] eqn:Et; cbn [bind] in H;
    try discriminate.
  inversion H; subst cid' v'.
  apply first_arm_some in Ef; [|apply sort_dedup_sorted].
  destruct Ef as [Hin [Hh Hmin]]. unfold hit in Hh, Hmin.
  split; [exact (proj1 (hit_spec _ _ _ _ _ Hres) Hh)|]. split.
  - intros c' Hc' Hm'. apply Hmin.
    + exact (hit_in_order _ _ _ _ _ Hc' Hm').
    + apply (hit_spec _ _ _ _ _ Hres). exists c'. auto.
  - exists cd. split; [exact El | exact Et].
Qed.

(** ** Exactly which arm runs: the least matching child in name order. *)
Theorem specialize_exact fuel oc fl sch d pobj cases c :
  all_cases fl sch d = Some cases ->
  check_cases (case_ids cases) true cases = true ->
  (forall id, In id (case_ids cases) -> pval fl d pobj id <> None) ->
  In c cases ->
  case_matches (pval fl d pobj) (with_size_of cases) (obj_payload_len pobj) c ->
  (forall c', In c' cases ->
              case_matches (pval fl d pobj) (with_size_of cases) (obj_payload_len pobj) c' ->
              sc_id c' = sc_id c \/ str_ltb (sc_id c) (sc_id c') = true) ->
  rust_specialize fuel oc fl sch d pobj = arm_result fuel oc fl sch d pobj (sc_id c).
Proof.
  intros Ha Hchk Hres Hc Hm Hmin.
  rewrite (rust_specialize_cases _ _ _ _ _ _ _ Ha Hchk Hres). unfold arms_of.
  assert (Ef : first_arm (map unw (map (pval fl d pobj) (case_ids cases)))
                         (obj_payload_len pobj) (with_size_of cases)
                         (map (fun cid => (cid, arms_for (keyed_of (case_ids cases) (with_size_of cases) cases) cid))
                              (sort_dedup (map fst (keyed_of (case_ids cases) (with_size_of cases) cases))))
               = Some (sc_id c)).
  { apply first_arm_some; [apply sort_dedup_sorted|].
    split; [exact (hit_in_order _ _ _ _ _ Hc Hm)|]. unfold hit. split.
    - apply (hit_spec _ _ _ _ _ Hres). exists c. auto.
    - intros cid' _ Hh. apply (hit_spec _ _ _ _ _ Hres) in Hh.
      destruct Hh as [c' [Hc' [<- Hm']]]. exact (Hmin c' Hc' Hm'). }
  rewrite Ef. reflexivity.
Qed.

(** * 5. Determinacy under the generator's ambiguity check *)

(** the two cases constrain the same fields *)
Definition same_keys (c1 c2 : spec_case) : Prop :=
  forall id, assoc id (sc_constraints c1) = None <-> assoc id (sc_constraints c2) = None.

Lemma tuple_eqb_holds val c1 c2 : forall ids,
    case_holds val c1 -> case_holds val c2 -> same_keys c1 c2 ->
    tuple_eqb (case_tuple ids c1) (case_tuple ids c2) = true.
Proof.
  intros ids H1 H2 Hk. unfold case_tuple.
  induction ids as [|i ids IH]; cbn [map tuple_eqb]; [reflexivity|].
  rewrite IH, andb_true_r.
  destruct (assoc i (sc_constraints c1)) as [x1|] eqn:E1;
    destruct (assoc i (sc_constraints c2)) as [x2|] eqn:E2; cbn [optN_eqb].
  - pose proof (H1 _ _ E1) as V1. pose proof (H2 _ _ E2) as V2.
    rewrite V1 in V2. inversion V2. apply N.eqb_refl.
  - apply (Hk i) in E2. congruence.
  - apply (Hk i) in E1. congruence.
  - reflexivity.
Qed.

Lemma check_cases_spec ids ws cases c1 c2 :
  check_cases ids ws cases = true -> In c1 cases -> In c2 cases ->
  tuple_eqb (case_tuple ids c1) (case_tuple ids c2) = true ->
  (ws = true -> size_eqb (sc_size c1) (sc_size c2) = true) ->
  sc_id c1 = sc_id c2.
Proof.
  intros Hchk Hc1 Hc2 Ht Hs. unfold check_cases in Hchk.
  rewrite forallb_forall in Hchk. specialize (Hchk c1 Hc1).
  rewrite forallb_forall in Hchk. specialize (Hchk c2 Hc2).
  rewrite Ht in Hchk. cbn [andb] in Hchk.
  destruct ws.
  - rewrite (Hs eq_refl) in Hchk. cbn [negb orb] in Hchk. apply String.eqb_eq. exact Hchk.
  - cbn [negb orb] in Hchk. apply String.eqb_eq. exact Hchk.
Qed.

(** When sizes are not needed, two matching cases that constrain the same fields name the
    same child: at most one direct child matches. *)
Theorem determinacy val cases c1 c2 :
  with_size_of cases = false ->
  In c1 cases -> In c2 cases ->
  case_holds val c1 -> case_holds val c2 -> same_keys c1 c2 ->
  sc_id c1 = sc_id c2.
Proof.
  intros Hws Hc1 Hc2 H1 H2 Hk. unfold with_size_of in Hws. apply negb_false_iff in Hws.
  eapply check_cases_spec; try eassumption.
  - eapply tuple_eqb_holds; eassumption.
  - discriminate.
Qed.

Lemma size_eqb_refl s : size_eqb s s = true.
Proof. destruct s; cbn [size_eqb]; [apply N.eqb_refl | reflexivity | reflexivity]. Qed.

(** The same with sizes, for the check the generator always makes: two matching cases that
    constrain the same fields and have the same size name the same child. *)
Theorem determinacy_sized val cases c1 c2 :
  check_cases (case_ids cases) true cases = true ->
  In c1 cases -> In c2 cases ->
  case_holds val c1 -> case_holds val c2 -> same_keys c1 c2 ->
  sc_size c1 = sc_size c2 ->
  sc_id c1 = sc_id c2.
Proof.
  intros Hchk Hc1 Hc2 H1 H2 Hk Hs.
  eapply check_cases_spec; try eassumption.
  - eapply tuple_eqb_holds; eassumption.
  - intros _. rewrite Hs. apply size_eqb_refl.
Qed.

(** "Exactly when": the generator accepted the cases without sizes, all the cases constrain
    the same fields (the usual discriminant), and a case of child [sc_id c] matches: then
    [specialize()] is that child's [try_from], whatever the order of the arms. *)
Theorem specialize_exactly_when fuel oc fl sch d pobj cases c :
  all_cases fl sch d = Some cases ->
  check_cases (case_ids cases) true cases = true ->
  with_size_of cases = false ->
  (forall c1 c2, In c1 cases -> In c2 cases -> same_keys c1 c2) ->
  (forall id, In id (case_ids cases) -> pval fl d pobj id <> None) ->
  In c cases -> sc_constraints c <> [] -> case_holds (pval fl d pobj) c ->
  rust_specialize fuel oc fl sch d pobj = arm_result fuel oc fl sch d pobj (sc_id c).
Proof.
  intros Ha Hchk Hws Hsame Hres Hc Hne Hh.
  apply (specialize_exact fuel oc fl sch d pobj cases c Ha Hchk Hres Hc).
  - split; [left; exact Hne|]. split; [exact Hh|]. rewrite Hws. intros E; discriminate.
  - intros c' Hc' [_ [Hh' _]]. left.
    exact (determinacy _ _ _ _ Hws Hc' Hc Hh' Hh (Hsame _ _ Hc' Hc)).
Qed.

(** A case holds or one of its constraints is violated (no excluded middle needed). *)
Lemma holds_or_witness val c :
  case_holds val c \/
  exists id x, assoc id (sc_constraints c) = Some x /\ val id <> Some x.
Proof.
  unfold case_holds. generalize (sc_constraints c). intros l.
  assert (Hdec : forall keys,
             (forall id x, In id keys -> assoc id l = Some x -> val id = Some x) \/
             (exists id x, assoc id l = Some x /\ val id <> Some x)).
  { induction keys as [|k keys IH].
    - left. intros id x [].
    - destruct IH as [IH|IH]; [|right; exact IH].
      destruct (assoc k l) as [x|] eqn:Ea.
      + destruct (val k) as [y|] eqn:Ev.
        * destruct (N.eq_dec y x) as [->|Hne].
          -- left. intros id x' [<-|Hin] Ha; [congruence | exact (IH id x' Hin Ha)].
          -- right. exists k, x. split; [exact Ea|]. congruence.
        * right. exists k, x. split; [exact Ea|]. congruence.
      + left. intros id x' [<-|Hin] Ha; [congruence | exact (IH id x' Hin Ha)]. }
  destruct (Hdec (map fst l)) as [H|H]; [|right; exact H].
  left. intros id x Ha. apply (H id x); [|exact Ha].
  eapply assoc_in_keys; eassumption.
Qed.

Lemma not_holds_witness val c :
  ~ case_holds val c ->
  exists id x, assoc id (sc_constraints c) = Some x /\ val id <> Some x.
Proof. intros Hn. destruct (holds_or_witness val c) as [H|H]; [contradiction | exact H]. Qed.

(** [None], spelled out on the declaration tree: for every direct child [k] and every
    declaration of [k]'s subtree (constraints [env] accumulated on the way, total size [s]),
    either the generator emitted no pattern for it (nothing constrained, no size), or one of
    the constraints is violated by the parent's values, or sizes are matched and the payload
    length is not the declaration's. *)
Theorem specialize_none_subtree fuel oc fl sch d pobj :
  rust_specialize fuel oc fl sch d pobj = Ok None ->
  exists cases,
    all_cases fl sch d = Some cases /\
    forall k kid env s,
      In k (iter_children fl d) -> decl_id k = Some kid ->
      subtree_case fl sch (data_fields fl d) k [] env s ->
      (env = [] /\ (with_size_of cases = false \/ s = SUnknown)) \/
      (exists id x, assoc id env = Some x /\ pval fl d pobj id <> Some x) \/
      (with_size_of cases = true /\
       exists n, s = SStatic n /\ obj_payload_len pobj <> n / 8).
Proof.
  intros H. destruct (specialize_none _ _ _ _ _ _ H) as [cases [Ha Hno]].
  exists cases. split; [exact Ha|]. intros k kid env s Hk Hid Hsub.
  assert (Hc : In (mkCase kid env s) cases).
  { apply (all_cases_spec _ _ _ _ Ha). exists k. auto. }
  specialize (Hno _ Hc). unfold case_matches, case_kept, size_holds in Hno.
  cbn [sc_constraints sc_size] in Hno.
  destruct (holds_or_witness (pval fl d pobj) (mkCase kid env s)) as [Hh|Hw];
    [|right; left; exact Hw].
  destruct (with_size_of cases) eqn:Ews.
  - destruct s as [n| |].
    + destruct (N.eq_dec (obj_payload_len pobj) (n / 8)) as [E|Hne].
      * exfalso. apply Hno. split; [right; split; [reflexivity|discriminate]|].
        split; [exact Hh|]. intros _ s0 Es. inversion Es; subst s0. exact E.
      * right; right. split; [reflexivity|]. exists n. auto.
    + exfalso. apply Hno. split; [right; split; [reflexivity|discriminate]|].
      split; [exact Hh|]. intros _ s0 Es. discriminate.
    + destruct env as [|p env']; [left; auto|].
      exfalso. apply Hno. split; [left; discriminate|].
      split; [exact Hh|]. intros _ s0 Es. discriminate.
  - destruct env as [|p env']; [left; auto|].
    exfalso. apply Hno. split; [left; discriminate|].
    split; [exact Hh|]. intros E. discriminate.
Qed.

(** * 6. Examples *)

Module Example.
  Definition fS id w := mkField (Scalar id w) None.
  Definition fP := mkField (Payload None) None.
  Definition cst id v := mkConstr id (Some v) None.

  (** packet P { k : 8, _payload_ }   packet A : P (k = 1) { a : 8 }
      packet B : P (k = 2) { m : 8, _payload_ }   packet BA : B (m = 7) { z : 8 } *)
  Definition P := DPacket "P" [] [fS "k" 8; fP] None.
  Definition A := DPacket "A" [cst "k" 1] [fS "a" 8] (Some "P").
  Definition B := DPacket "B" [cst "k" 2] [fS "m" 8; fP] (Some "P").
  Definition BA := DPacket "BA" [cst "m" 7] [fS "z" 8] (Some "B").
  Definition fl := mkFile LittleEndian [P; A; B; BA].
  Definition sch := match mk_schema fl with Some s => s | None => [] end.
  Definition pobj (k : N) (pl : list N) : list (string * value) :=
    [("k", VNum k); ("payload", VList (map VNum pl))].

  Definition cases :=
    [mkCase "A" [("k", 1)] (SStatic 8);
     mkCase "B" [("k", 2)] (SStatic 8);     (* BA: [m = 7] is not a field of P *)
     mkCase "B" [("k", 2)] SUnknown].

  Example cases_ok : all_cases fl sch P = Some cases.
  Proof. vm_compute. reflexivity. Qed.

  Example accepted : check_cases (case_ids cases) true cases = true /\ with_size_of cases = false.
  Proof. vm_compute. split; reflexivity. Qed.

  Example uniform c1 c2 : In c1 cases -> In c2 cases -> same_keys c1 c2.
  Proof.
    intros H1 H2 id. cbn [cases In] in H1, H2.
    destruct H1 as [<-|[<-|[<-|[]]]]; destruct H2 as [<-|[<-|[<-|[]]]];
      cbn [sc_constraints assoc]; destruct (String.eqb id "k"); split; intros E; congruence.
  Qed.

  (** the runs *)
  Example run_A : rust_specialize 10 false fl sch P (pobj 1 [5])
                  = Ok (Some ("A", VObj [("a", VNum 5)])).
  Proof. vm_compute. reflexivity. Qed.
  Example run_B : rust_specialize 10 false fl sch P (pobj 2 [7; 9])
                  = Ok (Some ("B", VObj [("payload", VList [VNum 9]); ("m", VNum 7)])).
  Proof. vm_compute. reflexivity. Qed.
  Example run_none : rust_specialize 10 false fl sch P (pobj 3 [7; 9]) = Ok None.
  Proof. vm_compute. reflexivity. Qed.
  Example run_err : rust_specialize 10 false fl sch P (pobj 1 [7; 9]) = Err TrailingBytesError.
  Proof. vm_compute. reflexivity. Qed.
  (** second level: B specializes to BA on its own field m *)
  Example run_BA :
    rust_specialize 10 false fl sch B [("k", VNum 2); ("m", VNum 7); ("payload", VList [VNum 9])]
    = Ok (Some ("BA", VObj [("z", VNum 9)])).
  Proof. vm_compute. reflexivity. Qed.

  (** the theorems apply: *)
  Example none_applies c :
    In c cases -> ~ case_matches (pval fl P (pobj 3 [7; 9])) false 2 c.
  Proof.
    intros Hc. destruct (specialize_none _ _ _ _ _ _ run_none) as [cs [Ha Hno]].
    rewrite cases_ok in Ha. inversion Ha; subst cs.
    rewrite (proj2 accepted) in Hno. exact (Hno c Hc).
  Qed.

  Example some_applies :
    exists c, In c cases /\ sc_id c = "B" /\
              case_matches (pval fl P (pobj 2 [7; 9])) false 2 c.
  Proof.
    destruct (specialize_some _ _ _ _ _ _ _ _ run_B) as [cs [Ha [Hex _]]].
    rewrite cases_ok in Ha. inversion Ha; subst cs.
    rewrite (proj2 accepted) in Hex. exact Hex.
  Qed.

  (** "exactly when" for every value of k: k = 2 runs B's conversion whatever the payload *)
  Example exactly_when_applies pl :
    rust_specialize 10 false fl sch P (pobj 2 pl) = arm_result 10 false fl sch P (pobj 2 pl) "B".
  Proof.
    apply (specialize_exactly_when 10 false fl sch P (pobj 2 pl) cases
                                   (mkCase "B" [("k", 2)] SUnknown) cases_ok
                                   (proj1 accepted) (proj2 accepted) uniform).
    - intros id Hin. vm_compute in Hin. destruct Hin as [<-|[]]. vm_compute. discriminate.
    - right; right; left; reflexivity.
    - discriminate.
    - intros id x. cbn [sc_constraints assoc].
      destruct (String.eqb id "k") eqn:E; [|discriminate].
      apply String.eqb_eq in E. subst id. intros Hx. inversion Hx. vm_compute. reflexivity.
  Qed.

  (** every case of the list comes from a declaration of the subtree *)
  Example subtree_applies :
    exists k, In k (iter_children fl P) /\ decl_id k = Some "B" /\
              subtree_case fl sch (data_fields fl P) k [] [("k", 2)] (SStatic 8).
  Proof.
    exact (proj1 (all_cases_spec fl sch P cases cases_ok (mkCase "B" [("k", 2)] (SStatic 8)))
                 (or_intror (or_introl eq_refl))).
  Qed.
End Example.

(** Determinacy FAILS when siblings constrain different fields: the generator's check
    compares whole tuples, [(Some 1, None)] and [(None, Some 2)] differ, so it accepts;
    both patterns [(1, _)] and [(_, 2)] match [k = 1, j = 2] and the first child in name
    order wins, although the value is a legal [Y] as well. *)
Module Overlap.
  Import Example.
  Definition P := DPacket "P" [] [fS "k" 8; fS "j" 8; fP] None.
  Definition X := DPacket "X" [cst "k" 1] [fS "a" 8] (Some "P").
  Definition Y := DPacket "Y" [cst "j" 2] [fS "b" 8] (Some "P").
  Definition fl := mkFile LittleEndian [P; Y; X].
  Definition sch := match mk_schema fl with Some s => s | None => [] end.
  Definition pobj : list (string * value) :=
    [("k", VNum 1); ("j", VNum 2); ("payload", VList [VNum 5])].

  Definition cases :=
    [mkCase "Y" [("j", 2)] (SStatic 8); mkCase "X" [("k", 1)] (SStatic 8)].

  Example overlap_counter_example :
    all_cases fl sch P = Some cases /\
    check_cases (case_ids cases) true cases = true /\ with_size_of cases = false /\
    case_matches (pval fl P pobj) false 1 (mkCase "X" [("k", 1)] (SStatic 8)) /\
    case_matches (pval fl P pobj) false 1 (mkCase "Y" [("j", 2)] (SStatic 8)) /\
    rust_specialize 10 false fl sch P pobj = Ok (Some ("X", VObj [("a", VNum 5); ("j", VNum 2)])) /\
    try_from_parent 10 false fl sch Y P pobj = Ok (VObj [("b", VNum 5); ("k", VNum 1)]).
  Proof.
    split; [vm_compute; reflexivity|]. split; [vm_compute; reflexivity|].
    split; [vm_compute; reflexivity|].
    assert (Hm : forall cid id v,
               pval fl P pobj id = Some v ->
               case_matches (pval fl P pobj) false 1 (mkCase cid [(id, v)] (SStatic 8))).
    { intros cid id v Hv. split; [left; discriminate|]. split; [|discriminate].
      intros id' x. cbn [sc_constraints assoc]. destruct (String.eqb id' id) eqn:E; [|discriminate].
      apply String.eqb_eq in E. subst id'. intros Hx. inversion Hx; subst x. exact Hv. }
    split; [apply Hm; vm_compute; reflexivity|]. split; [apply Hm; vm_compute; reflexivity|].
    split; vm_compute; reflexivity.
  Qed.
End Overlap.

(** A child that constrains no field of the parent gets no arm at all when sizes are not
    needed to tell the children apart: its case is [(_, ..., _)] with size [Unknown] and
    the generator drops it, so [specialize()] answers [None] although
    [Child::try_from(&parent)] succeeds.  (This is the one way a gathered case can "match"
    vacuously and still be skipped: [case_kept].) *)
Module Unconstrained.
  Import Example.
  Definition P := DPacket "P" [] [fS "k" 8; fP] None.
  Definition C := DPacket "C" [] [fS "a" 8] (Some "P").
  Definition fl := mkFile LittleEndian [P; C].
  Definition sch := match mk_schema fl with Some s => s | None => [] end.
  Definition pobj : list (string * value) := [("k", VNum 1); ("payload", VList [VNum 5])].

  Example unconstrained_child_skipped :
    all_cases fl sch P = Some [mkCase "C" [] (SStatic 8)] /\
    specialize_plan fl sch P = Some (mkPlan [] false []) /\
    rust_specialize 10 false fl sch P pobj = Ok None /\
    try_from_parent 10 false fl sch C P pobj = Ok (VObj [("a", VNum 5); ("k", VNum 1)]).
  Proof. repeat split; vm_compute; reflexivity. Qed.
End Unconstrained.

Print Assumptions all_cases_spec.
Print Assumptions specialize_none.
Print Assumptions specialize_not_none.
Print Assumptions specialize_some.
Print Assumptions specialize_exact.
Print Assumptions determinacy.
Print Assumptions determinacy_sized.
Print Assumptions specialize_exactly_when.
Print Assumptions specialize_none_subtree.
Print Assumptions not_holds_witness.
Print Assumptions Example.exactly_when_applies.
Print Assumptions Overlap.overlap_counter_example.
Print Assumptions Unconstrained.unconstrained_child_skipped.
