(** C16 beyond the bit-field fragment: arrays with a static count (scalar, enum and
    struct elements), arrays of ANY shape followed by a padding field, typedef fields
    of a struct type, next to the bit-field fragment of Proofs/StaticSize.v.

    When the schema's sum over such a field list is Static n, every reference
    encoding of every value of that field list occupies exactly n bits. *)
From Coq Require Import NArith ZArith List String Bool Lia ZifyN ZifyBool.
From Coq Require Import Strings.Byte.
From PDL Require Import Base.Bits Base.Outcome Lang.Ast Lang.Sexp Analyzer.Schema Rust.Enum
     Sem.RefEncode Rust.Encode Proofs.Pack Proofs.BitfieldEncode Proofs.StaticSize.
Import ListNotations.
Open Scope N_scope.

(** ** Segment lengths *)

Lemma seg_len_app (a b : list seg) : seg_len (a ++ b) = seg_len a + seg_len b.
Proof. unfold seg_len. rewrite map_app, concat_app, app_length. apply Nat2N.inj_add. Qed.

Lemma seg_len_nil : seg_len [] = 0.
Proof. reflexivity. Qed.

Lemma zeros_length k : List.length (zeros k) = k.
Proof. induction k as [|k IH]; [reflexivity|]. cbn [zeros List.length]. now rewrite IH. Qed.

Lemma seg_len_int k v : seg_len [int_seg k v] = N.of_nat k.
Proof.
  unfold seg_len, int_seg. cbn [map fst List.concat]. now rewrite app_nil_r, le_bytes_length.
Qed.

Lemma seg_len_raw_zeros k : seg_len [raw_seg (zeros k)] = N.of_nat k.
Proof.
  unfold seg_len, raw_seg. cbn [map fst List.concat]. now rewrite app_nil_r, zeros_length.
Qed.

Lemma seg_len_int_bits w v : w mod 8 = 0 -> 8 * seg_len [int_seg (nbytes w) v] = w.
Proof. intros Hm. rewrite seg_len_int. unfold nbytes. rewrite N2Nat.id. lia. Qed.

(** ** The size lattice *)

Lemma size_add_static_inv x y m :
  size_add x y = Some (SStatic m) -> exists a b, x = SStatic a /\ y = SStatic b /\ m = a + b.
Proof.
  destruct x as [x| |], y as [y| |]; cbn [size_add]; try discriminate.
  destruct (fits_usize (x + y)); [|discriminate]. intros H. inversion H. eauto.
Qed.

Definition opt_N_eqb (a b : option N) : bool :=
  match a, b with Some x, Some y => x =? y | None, None => true | _, _ => false end.

Definition opt_str_eqb (a b : option string) : bool :=
  match a, b with Some x, Some y => String.eqb x y | None, None => true | _, _ => false end.

Lemma opt_N_eqb_eq a b : opt_N_eqb a b = true -> a = b.
Proof.
  destruct a as [x|], b as [y|]; cbn [opt_N_eqb]; try discriminate; [|reflexivity].
  intros H. apply N.eqb_eq in H. now subst.
Qed.

Lemma opt_str_eqb_eq a b : opt_str_eqb a b = true -> a = b.
Proof.
  destruct a as [x|], b as [y|]; cbn [opt_str_eqb]; try discriminate; [|reflexivity].
  intros H. apply String.eqb_eq in H. now subst.
Qed.

(** Same element width, element type and count (identifier and size modifier do not
    enter the encoding of the array itself). *)
Definition same_array (a b : fdesc) : bool :=
  match a, b with
  | Array _ w t _ s, Array _ w' t' _ s' => opt_N_eqb w w' && opt_str_eqb t t' && opt_N_eqb s s'
  | _, _ => false
  end.

Section Arrays.
  Variable fl : file.
  Variable sch : schema.
  Variable rec : string -> value -> option (list seg).
  Variable d : decl.
  Variable all_fields : list field.
  Variable cs : list constr.
  Variable obj : list (string * value).
  Variable payload : list seg.
  Hypothesis Hsch : schema_knows_enums fl sch.

  Definition is_struct_id (tid : string) : bool :=
    match lookup_decl fl tid with Some (DStruct _ _ _ _) => true | _ => false end.

  Definition is_enum_id (tid : string) : bool :=
    match lookup_decl fl tid with Some (DEnum _ _ _) => true | _ => false end.

  (** The recursive encoder is sound for struct types of static total size. *)
  Hypothesis Hrec : forall tid v ss m,
    is_struct_id tid = true ->
    rec tid v = Some ss -> type_total sch tid = Some (SStatic m) -> 8 * seg_len ss = m.

  (** *** The fragment *)

  (** element types: scalars, enums, structs *)
  Definition elem_ok (w : option N) (t : option string) : bool :=
    match w, t with
    | Some _, _ => true
    | None, Some tid => is_enum_id tid || is_struct_id tid
    | None, None => false
    end.

  (** any unconditional array field (what may precede a padding field) *)
  Definition arr_any (f : field) : bool :=
    match f_cond f, f_desc f with
    | None, Array _ _ _ _ _ => true
    | _, _ => false
    end.

  (** array with a static count and fragment elements; [d] declares it the same way
      (the reference looks the array up by name in [d]) *)
  Definition arr_static (f : field) : bool :=
    match f_cond f, f_desc f with
    | None, Array id w t _ (Some _) =>
        elem_ok w t &&
        match array_field d id with
        | Some g => same_array (f_desc g) (f_desc f)
        | None => false
        end
    | _, _ => false
    end.

  (** typedef field of a struct type *)
  Definition td_struct (f : field) : bool :=
    match f_cond f, f_desc f with
    | None, Typedef _ tid => is_struct_id tid
    | _, _ => false
    end.

  Definition pad_field (f : field) : bool :=
    match f_cond f, f_desc f with
    | None, Padding _ => true
    | _, _ => false
    end.

  (** field not followed by padding *)
  Definition sa_field (f : field) : bool :=
    bf_field fl f || arr_static f || td_struct f.

  (** Field lists: a field followed by a padding field must be an array (then any
      array); the others are fragment fields, or a padding field itself. *)
  Fixpoint sa_fields (fs : list field) : bool :=
    match fs with
    | [] => true
    | f :: rest =>
        (match next_padding rest with
         | Some _ => arr_any f
         | None => sa_field f || pad_field f
         end) && sa_fields rest
    end.

  (** *** Elements *)

  (** the element size (in bits) the schema uses *)
  Definition elem_bits (w : option N) (t : option string) : option N :=
    match w, t with
    | Some w, _ => Some w
    | None, Some tid => match type_total sch tid with Some (SStatic m) => Some m | _ => None end
    | None, None => None
    end.

  Lemma elem_sound w t v ss m :
    elem_ok w t = true -> ref_enc_elem fl rec w t v = Some ss -> elem_bits w t = Some m ->
    8 * seg_len ss = m.
  Proof.
    unfold elem_ok, ref_enc_elem, elem_bits. intros Hok Hr Hb.
    destruct w as [w|].
    - inversion Hb; subst m. destruct v as [n| | |]; try discriminate.
      destruct (n <? 2 ^ w); [|discriminate]. cbn [andb] in Hr.
      destruct (w mod 8 =? 0) eqn:Em; [|discriminate]. inversion Hr; subst ss.
      apply seg_len_int_bits. now apply N.eqb_eq in Em.
    - destruct t as [tid|]; [|discriminate].
      destruct (type_total sch tid) as [[m'| |]|] eqn:Et; try discriminate.
      inversion Hb; subst m'.
      unfold is_enum_id, is_struct_id in Hok.
      destruct (lookup_decl fl tid) as [[]|] eqn:El; try discriminate.
      + (* enum *)
        assert (Hw : type_total sch tid = Some (SStatic width)).
        { apply (Hsch tid tags width). right. eexists; exact El. }
        rewrite Et in Hw. inversion Hw; subst m.
        destruct v as [n| | |]; try discriminate.
        destruct (spec_enum_of_N tags width n); [|discriminate].
        destruct (width mod 8 =? 0) eqn:Em; [|discriminate]. inversion Hr; subst ss.
        apply seg_len_int_bits. now apply N.eqb_eq in Em.
      + (* struct *)
        apply (Hrec tid v ss m); [|exact Hr|exact Et].
        unfold is_struct_id. now rewrite El.
  Qed.

  Lemma len_cons {A} (x : A) l : len (x :: l) = 1 + len l.
  Proof. unfold len. cbn [List.length]. lia. Qed.

  Lemma elems_sound w t m : elem_ok w t = true -> elem_bits w t = Some m ->
    forall vs ebs, ref_enc_elems fl rec w t vs = Some ebs ->
                   8 * seg_len (List.concat ebs) = len vs * m.
  Proof.
    intros Hok Hb. induction vs as [|v vs IH]; intros ebs H; cbn [ref_enc_elems] in H.
    - inversion H; subst. reflexivity.
    - destruct (ref_enc_elem fl rec w t v) as [b|] eqn:Eb; [|discriminate].
      destruct (ref_enc_elems fl rec w t vs) as [r|]; [|discriminate].
      inversion H; subst ebs. cbn [List.concat]. rewrite seg_len_app, len_cons.
      pose proof (elem_sound w t v b m Hok Eb Hb) as H1.
      pose proof (IH r eq_refl) as H2. lia.
  Qed.

  (** the unpadded array of a fragment array field *)
  Lemma array_sound f id w t md s ebs m :
    arr_static f = true -> f_desc f = Array id w t md (Some s) ->
    ref_array_elems fl rec d obj id = Some ebs -> elem_bits w t = Some m ->
    8 * seg_len (List.concat ebs) = s * m.
  Proof.
    unfold arr_static, ref_array_elems. intros Hf Hd Hr Hb. rewrite Hd in Hf.
    destruct (f_cond f); [discriminate|]. apply andb_prop in Hf. destruct Hf as [Hok Hsame].
    destruct (array_field d id) as [g|]; [|discriminate].
    destruct (assoc id obj) as [[| |vs|]|]; try discriminate.
    unfold same_array in Hsame.
    destruct (f_desc g) as [| | | | | | | | | |id' w' t' md' s'| | | |]; try discriminate.
    apply andb_prop in Hsame. destruct Hsame as [Hsame Hs].
    apply andb_prop in Hsame. destruct Hsame as [Hw Ht].
    apply opt_N_eqb_eq in Hw, Hs. apply opt_str_eqb_eq in Ht. subst w' t' s'.
    destruct (ref_enc_elems fl rec w t vs) as [ebs'|] eqn:Ee; [|discriminate].
    destruct (len vs =? s) eqn:El; [|discriminate]. inversion Hr; subst ebs'.
    apply N.eqb_eq in El. rewrite (elems_sound w t m Hok Hb vs ebs Ee). now rewrite El.
  Qed.

  (** the schema's size of a fragment array field *)
  Lemma array_size f id w t md s m :
    f_cond f = None -> f_desc f = Array id w t md (Some s) ->
    field_size sch d f = Some (SStatic m) ->
    exists e, elem_bits w t = Some e /\ m = s * e.
  Proof.
    unfold field_size, elem_bits. intros Hc Hd H. rewrite Hc, Hd in H.
    destruct w as [w|].
    - destruct (fits_usize (s * w)); [|discriminate]. inversion H. eauto.
    - destruct t as [tid|]; [|discriminate].
      destruct (type_total sch tid) as [[x| |]|]; try discriminate.
      cbn [size_mul_n] in H. destruct (fits_usize (x * s)); [|discriminate].
      inversion H. exists x. split; [reflexivity | lia].
  Qed.

  (** *** One step of the schema's sum *)

  Lemma annotate_static_acc : forall fs acc p n psz,
    annotate_fields sch d fs acc p = Some (SStatic n, psz) -> exists a, acc = SStatic a.
  Proof.
    induction fs as [|f rest IH]; intros acc p n psz H; cbn [annotate_fields] in H.
    - inversion H; eauto.
    - destruct (field_size sch d f) as [fsz|]; [|discriminate].
      destruct (is_payload f); [exact (IH _ _ _ _ H)|].
      destruct (next_padding rest) as [p8|].
      + destruct (fits_usize p8); [|discriminate].
        destruct (size_add acc (SStatic p8)) as [a0|] eqn:Ea; [|discriminate].
        destruct (IH _ _ _ _ H) as [a1 ->].
        destruct (size_add_static_inv _ _ _ Ea) as (x & y & -> & _). eauto.
      + destruct (size_add acc fsz) as [a0|] eqn:Ea; [|discriminate].
        destruct (IH _ _ _ _ H) as [a1 ->].
        destruct (size_add_static_inv _ _ _ Ea) as (x & y & -> & _). eauto.
  Qed.

  (** a non-payload field contributes a static [c]: the padded size when a padding
      field follows, its own size otherwise *)
  Lemma annotate_step f rest a p n psz :
    is_payload f = false ->
    annotate_fields sch d (f :: rest) (SStatic a) p = Some (SStatic n, psz) ->
    exists fsz c,
      field_size sch d f = Some fsz /\
      match next_padding rest with Some p8 => SStatic p8 | None => fsz end = SStatic c /\
      annotate_fields sch d rest (SStatic (a + c)) p = Some (SStatic n, psz).
  Proof.
    intros Hpl H. cbn [annotate_fields] in H. rewrite Hpl in H.
    destruct (field_size sch d f) as [fsz|]; [|discriminate]. exists fsz.
    destruct (next_padding rest) as [p8|].
    - destruct (fits_usize p8); [|discriminate].
      destruct (size_add (SStatic a) (SStatic p8)) as [a0|] eqn:Ea; [|discriminate].
      destruct (annotate_static_acc _ _ _ _ _ H) as [a1 ->].
      destruct (size_add_static_inv _ _ _ Ea) as (x & y & Ex & Ey & ->).
      inversion Ex; inversion Ey; subst x y. exists p8. auto.
    - destruct (size_add (SStatic a) fsz) as [a0|] eqn:Ea; [|discriminate].
      destruct (annotate_static_acc _ _ _ _ _ H) as [a1 ->].
      destruct (size_add_static_inv _ _ _ Ea) as (x & y & Ex & -> & ->).
      inversion Ex; subst x. exists y. auto.
  Qed.

  (** *** One step of the reference encoder *)

  (** what a field outside the bit-field groups contributes *)
  Definition here_of (f : field) (rest : list field) : option (list seg) :=
    match f_desc f with
    | Padding _ => Some []
    | Array id _ _ _ _ =>
        match ref_array_elems fl rec d obj id with
        | Some ebs =>
            let bs := List.concat ebs in
            let es_ok := match decl_element_size d id with
                         | Some _ => all_same_length ebs
                         | None => true
                         end in
            if es_ok then
              match next_is_padding rest with
              | Some p =>
                  if seg_len bs <=? p
                  then Some (bs ++ [raw_seg (zeros (N.to_nat (p - seg_len bs)))])%list
                  else None
              | None => Some bs
              end
            else None
        | None => None
        end
    | Typedef id t =>
        match assoc id obj with
        | Some v => ref_enc_elem fl rec None (Some t) v
        | None => None
        end
    | Payload _ | Body => Some payload
    | _ => None
    end.

  Lemma ref_step_nonbf f rest acc bits ss :
    f_cond f = None -> is_bitfield fl f = false ->
    ref_enc_fields fl rec d all_fields cs obj payload (f :: rest) acc bits = Some ss ->
    bits = 0 /\ exists a1 b,
      here_of f rest = Some a1 /\
      ref_enc_fields fl rec d all_fields cs obj payload rest 0 0 = Some b /\
      ss = (a1 ++ b)%list.
  Proof.
    intros Hc Hnb H. cbn [ref_enc_fields] in H. rewrite Hc, Hnb in H.
    destruct (bits =? 0) eqn:Eb; [|discriminate]. cbn [negb] in H.
    apply N.eqb_eq in Eb. split; [exact Eb|].
    match type of H with
    | match ?X with Some _ => _ | None => None end = _ => destruct X as [a1|] eqn:EX; [|discriminate]
    end.
    destruct (ref_enc_fields fl rec d all_fields cs obj payload rest 0 0) as [b|]; [|discriminate].
    inversion H; subst ss. exists a1, b. split; [exact EX|]. split; reflexivity.
  Qed.

  Lemma ref_bitfield_width_cs f v w :
    bf_field fl f = true ->
    ref_bitfield fl rec d all_fields cs obj payload f = Some (v, w) -> w = frag_width fl f.
  Proof.
    unfold bf_field, ref_bitfield, frag_width. destruct (f_cond f); [discriminate|].
    destruct (f_desc f); try discriminate; intros Hbf H.
    - inversion H; reflexivity.
    - unfold enum_tags in H. destruct (lookup_decl fl enum_id) as [[]|]; try discriminate.
      destruct (enum_tag_value tags tag_id); [|discriminate]. inversion H; reflexivity.
    - inversion H; reflexivity.
    - destruct (find_constraint cs id) as [c|].
      + destruct (constraint_N fl all_fields c); [|discriminate]. inversion H; reflexivity.
      + destruct (assoc id obj) as [[]|]; try discriminate. inversion H; reflexivity.
    - unfold enum_tags in H. destruct (lookup_decl fl type_id) as [[]|]; try discriminate.
      destruct (find_constraint cs id) as [c|].
      + destruct (constraint_N fl all_fields c); [|discriminate]. inversion H; reflexivity.
      + destruct (assoc id obj) as [[]|]; try discriminate.
        destruct (spec_enum_of_N tags width n); [|discriminate]. inversion H; reflexivity.
  Qed.

  Lemma next_padding_is rest :
    match next_padding rest with
    | Some p8 => exists p, next_is_padding rest = Some p /\ p8 = 8 * p
    | None => next_is_padding rest = None
    end.
  Proof.
    unfold next_padding, next_is_padding. destruct rest as [|g rest]; [reflexivity|].
    destruct (f_desc g); try reflexivity. eauto.
  Qed.

  (** *** The invariant, field by field *)

  (** [a] bits summed by the schema so far, [bits] of them still pending in the open
      bit-field group; [n] the schema's final sum. *)
  Definition step_ok (rest : list field) (a : N) (p : size) (n : N) (psz : size) (bits : N)
             (ss : list seg) : Prop :=
    exists a' acc' bits' ss',
      annotate_fields sch d rest (SStatic a') p = Some (SStatic n, psz) /\
      ref_enc_fields fl rec d all_fields cs obj payload rest acc' bits' = Some ss' /\
      a + 8 * seg_len ss + bits' = a' + 8 * seg_len ss' + bits.

  Lemma step_bf f rest a p n psz acc bits ss :
    bf_field fl f = true -> next_padding rest = None ->
    annotate_fields sch d (f :: rest) (SStatic a) p = Some (SStatic n, psz) ->
    ref_enc_fields fl rec d all_fields cs obj payload (f :: rest) acc bits = Some ss ->
    step_ok rest a p n psz bits ss.
  Proof.
    intros Hf Hnp Ha Hr.
    destruct (annotate_step f rest a p n psz (bf_not_payload fl f Hf) Ha) as (fsz & c & Hfs & Hc & Ha').
    rewrite Hnp in Hc. subst fsz. rewrite (field_size_fragment fl sch d Hsch f Hf) in Hfs.
    inversion Hfs; subst c. clear Hfs.
    cbn [ref_enc_fields] in Hr.
    assert (Hcond : f_cond f = None)
      by (unfold bf_field in Hf; destruct (f_cond f); [discriminate|reflexivity]).
    rewrite Hcond, (bf_is_bitfield fl f Hf) in Hr.
    destruct (ref_bitfield fl rec d all_fields cs obj payload f) as [[v w]|] eqn:Erb; [|discriminate].
    rewrite <- (ref_bitfield_width_cs f v w Hf Erb) in Ha'.
    destruct (v <? 2 ^ w); [|discriminate].
    destruct ((bits + w) mod 8 =? 0) eqn:Em.
    - destruct (ref_enc_fields fl rec d all_fields cs obj payload rest 0 0) as [b|] eqn:Eb; [|discriminate].
      inversion Hr; subst ss. exists (a + w), 0, 0, b. split; [exact Ha'|]. split; [exact Eb|].
      change (int_seg (nbytes (bits + w)) (acc + v * 2 ^ bits) :: b)
        with ([int_seg (nbytes (bits + w)) (acc + v * 2 ^ bits)] ++ b)%list.
      rewrite seg_len_app. apply N.eqb_eq in Em.
      pose proof (seg_len_int_bits (bits + w) (acc + v * 2 ^ bits) Em) as Hl. lia.
    - exists (a + w), (acc + v * 2 ^ bits), (bits + w), ss.
      split; [exact Ha'|]. split; [exact Hr|]. lia.
  Qed.

  Lemma arr_any_shape f : arr_any f = true ->
    f_cond f = None /\ exists id w t md s, f_desc f = Array id w t md s.
  Proof.
    unfold arr_any. destruct (f_cond f); [discriminate|].
    destruct (f_desc f); try discriminate. intros _. split; [reflexivity|]. eauto 6.
  Qed.

  Lemma array_not_payload f id w t md s : f_desc f = Array id w t md s -> is_payload f = false.
  Proof. unfold is_payload. now intros ->. Qed.

  Lemma array_not_bitfield f id w t md s : f_desc f = Array id w t md s -> is_bitfield fl f = false.
  Proof. unfold is_bitfield. now intros ->. Qed.

  (** any array followed by a padding field: both sides count the padded size *)
  Lemma step_padded f rest p8 a p n psz acc bits ss :
    arr_any f = true -> next_padding rest = Some p8 ->
    annotate_fields sch d (f :: rest) (SStatic a) p = Some (SStatic n, psz) ->
    ref_enc_fields fl rec d all_fields cs obj payload (f :: rest) acc bits = Some ss ->
    step_ok rest a p n psz bits ss.
  Proof.
    intros Hf Hnp Ha Hr. destruct (arr_any_shape f Hf) as (Hc & id & w & t & md & s & Hd).
    destruct (annotate_step f rest a p n psz (array_not_payload _ _ _ _ _ _ Hd) Ha)
      as (fsz & c & _ & Hcc & Ha').
    rewrite Hnp in Hcc. inversion Hcc; subst c. clear Hcc.
    destruct (ref_step_nonbf f rest acc bits ss Hc (array_not_bitfield _ _ _ _ _ _ Hd) Hr)
      as (Hb & a1 & b & Hh & Hb' & ->).
    exists (a + p8), 0, 0, b. split; [exact Ha'|]. split; [exact Hb'|].
    unfold here_of in Hh. rewrite Hd in Hh.
    destruct (ref_array_elems fl rec d obj id) as [ebs|]; [|discriminate].
    cbv zeta in Hh.
    destruct (match decl_element_size d id with Some _ => all_same_length ebs | None => true end);
      [|discriminate].
    pose proof (next_padding_is rest) as Hp. rewrite Hnp in Hp. destruct Hp as (pn & Hp & ->).
    rewrite Hp in Hh.
    destruct (seg_len (List.concat ebs) <=? pn) eqn:El; [|discriminate].
    inversion Hh; subst a1. rewrite !seg_len_app, seg_len_raw_zeros.
    apply N.leb_le in El. lia.
  Qed.

  (** fragment array, no padding *)
  Lemma step_arr f rest a p n psz acc bits ss :
    arr_static f = true -> next_padding rest = None ->
    annotate_fields sch d (f :: rest) (SStatic a) p = Some (SStatic n, psz) ->
    ref_enc_fields fl rec d all_fields cs obj payload (f :: rest) acc bits = Some ss ->
    step_ok rest a p n psz bits ss.
  Proof.
    intros Hf Hnp Ha Hr.
    assert (Hshape : f_cond f = None /\ exists id w t md s, f_desc f = Array id w t md (Some s)).
    { unfold arr_static in Hf. destruct (f_cond f); [discriminate|].
      destruct (f_desc f) as [| | | | | | | | | |id w t md [s|]| | | |]; try discriminate.
      split; [reflexivity|]. eauto 6. }
    destruct Hshape as (Hc & id & w & t & md & s & Hd).
    destruct (annotate_step f rest a p n psz (array_not_payload _ _ _ _ _ _ Hd) Ha)
      as (fsz & c & Hfs & Hcc & Ha').
    rewrite Hnp in Hcc. subst fsz.
    destruct (array_size f id w t md s c Hc Hd Hfs) as (e & He & ->).
    destruct (ref_step_nonbf f rest acc bits ss Hc (array_not_bitfield _ _ _ _ _ _ Hd) Hr)
      as (Hb & a1 & b & Hh & Hb' & ->).
    exists (a + s * e), 0, 0, b. split; [exact Ha'|]. split; [exact Hb'|].
    unfold here_of in Hh. rewrite Hd in Hh.
    destruct (ref_array_elems fl rec d obj id) as [ebs|] eqn:Ee; [|discriminate].
    cbv zeta in Hh.
    destruct (match decl_element_size d id with Some _ => all_same_length ebs | None => true end);
      [|discriminate].
    pose proof (next_padding_is rest) as Hp. rewrite Hnp in Hp. rewrite Hp in Hh.
    inversion Hh; subst a1. rewrite seg_len_app.
    pose proof (array_sound f id w t md s ebs e Hf Hd Ee He) as Hs. lia.
  Qed.

  (** typedef of a struct type *)
  Lemma step_td f rest a p n psz acc bits ss :
    td_struct f = true -> next_padding rest = None ->
    annotate_fields sch d (f :: rest) (SStatic a) p = Some (SStatic n, psz) ->
    ref_enc_fields fl rec d all_fields cs obj payload (f :: rest) acc bits = Some ss ->
    step_ok rest a p n psz bits ss.
  Proof.
    intros Hf Hnp Ha Hr.
    assert (Hshape : f_cond f = None /\ exists id t, f_desc f = Typedef id t /\ is_struct_id t = true).
    { unfold td_struct in Hf. destruct (f_cond f); [discriminate|].
      destruct (f_desc f); try discriminate. split; [reflexivity|]. eauto. }
    destruct Hshape as (Hc & id & t & Hd & Hst).
    assert (Hpl : is_payload f = false) by (unfold is_payload; now rewrite Hd).
    assert (Hnb : is_bitfield fl f = false).
    { unfold is_bitfield. rewrite Hd. unfold is_struct_id in Hst.
      destruct (lookup_decl fl t) as [[]|]; try discriminate; reflexivity. }
    destruct (annotate_step f rest a p n psz Hpl Ha) as (fsz & c & Hfs & Hcc & Ha').
    rewrite Hnp in Hcc. subst fsz.
    unfold field_size in Hfs. rewrite Hc, Hd in Hfs.
    destruct (ref_step_nonbf f rest acc bits ss Hc Hnb Hr) as (Hb & a1 & b & Hh & Hb' & ->).
    exists (a + c), 0, 0, b. split; [exact Ha'|]. split; [exact Hb'|].
    unfold here_of in Hh. rewrite Hd in Hh.
    destruct (assoc id obj) as [v|]; [|discriminate].
    rewrite seg_len_app.
    assert (Hs : 8 * seg_len a1 = c).
    { apply (elem_sound None (Some t) v a1 c).
      - cbn [elem_ok]. rewrite Hst. apply orb_true_r.
      - exact Hh.
      - cbn [elem_bits]. now rewrite Hfs. }
    lia.
  Qed.

  (** a padding field itself adds nothing *)
  Lemma step_pad f rest a p n psz acc bits ss :
    pad_field f = true -> next_padding rest = None ->
    annotate_fields sch d (f :: rest) (SStatic a) p = Some (SStatic n, psz) ->
    ref_enc_fields fl rec d all_fields cs obj payload (f :: rest) acc bits = Some ss ->
    step_ok rest a p n psz bits ss.
  Proof.
    intros Hf Hnp Ha Hr.
    assert (Hshape : f_cond f = None /\ exists k, f_desc f = Padding k).
    { unfold pad_field in Hf. destruct (f_cond f); [discriminate|].
      destruct (f_desc f); try discriminate. split; [reflexivity|]. eauto. }
    destruct Hshape as (Hc & k & Hd).
    assert (Hpl : is_payload f = false) by (unfold is_payload; now rewrite Hd).
    assert (Hnb : is_bitfield fl f = false) by (unfold is_bitfield; now rewrite Hd).
    destruct (annotate_step f rest a p n psz Hpl Ha) as (fsz & c & Hfs & Hcc & Ha').
    rewrite Hnp in Hcc. subst fsz.
    unfold field_size in Hfs. rewrite Hc, Hd in Hfs. inversion Hfs; subst c.
    destruct (ref_step_nonbf f rest acc bits ss Hc Hnb Hr) as (Hb & a1 & b & Hh & Hb' & ->).
    exists (a + 0), 0, 0, b. split; [exact Ha'|]. split; [exact Hb'|].
    unfold here_of in Hh. rewrite Hd in Hh. inversion Hh; subst a1.
    cbn [app]. lia.
  Qed.

  (** *** Main theorems *)

  Theorem static_exact_arrays_gen : forall fs a p n psz acc bits ss,
    sa_fields fs = true ->
    annotate_fields sch d fs (SStatic a) p = Some (SStatic n, psz) ->
    ref_enc_fields fl rec d all_fields cs obj payload fs acc bits = Some ss ->
    a + 8 * seg_len ss = n + bits.
  Proof.
    induction fs as [|f rest IH]; intros a p n psz acc bits ss Hfr Ha Hr.
    - cbn [annotate_fields] in Ha. cbn [ref_enc_fields] in Hr.
      destruct (bits =? 0) eqn:Eb; [|discriminate]. apply N.eqb_eq in Eb.
      inversion Ha; inversion Hr; subst. rewrite seg_len_nil. lia.
    - cbn [sa_fields] in Hfr. apply andb_prop in Hfr. destruct Hfr as [Hf Hrest].
      assert (Hstep : step_ok rest a p n psz bits ss).
      { destruct (next_padding rest) as [p8|] eqn:Enp.
        - exact (step_padded f rest p8 a p n psz acc bits ss Hf Enp Ha Hr).
        - unfold sa_field in Hf.
          apply orb_prop in Hf. destruct Hf as [Hf|Hf]; [|exact (step_pad _ _ _ _ _ _ _ _ _ Hf Enp Ha Hr)].
          apply orb_prop in Hf. destruct Hf as [Hf|Hf]; [|exact (step_td _ _ _ _ _ _ _ _ _ Hf Enp Ha Hr)].
          apply orb_prop in Hf. destruct Hf as [Hf|Hf]; [|exact (step_arr _ _ _ _ _ _ _ _ _ Hf Enp Ha Hr)].
          exact (step_bf _ _ _ _ _ _ _ _ _ Hf Enp Ha Hr). }
      destruct Hstep as (a' & acc' & bits' & ss' & Ha' & Hr' & Heq).
      pose proof (IH a' p n psz acc' bits' ss' Hrest Ha' Hr') as Hi. lia.
  Qed.

  (** Static n  ==>  every encoding occupies exactly n bits (with padding) *)
  Theorem static_exact_arrays fs n psz ss :
    sa_fields fs = true ->
    annotate_fields sch d fs (SStatic 0) (SStatic 0) = Some (SStatic n, psz) ->
    ref_enc_fields fl rec d all_fields cs obj payload fs 0 0 = Some ss ->
    8 * seg_len ss = n.
  Proof.
    intros Hfr Ha Hr. pose proof (static_exact_arrays_gen fs 0 _ n psz 0 0 ss Hfr Ha Hr). lia.
  Qed.

  (** without padding fields the fragment is a predicate on single fields *)
  Lemma sa_field_not_padding f : sa_field f = true -> forall k, f_desc f <> Padding k.
  Proof.
    unfold sa_field, bf_field, arr_static, td_struct. intros H k E. rewrite E in H.
    destruct (f_cond f); discriminate.
  Qed.

  Lemma sa_fields_of_forallb : forall fs, forallb sa_field fs = true -> sa_fields fs = true.
  Proof.
    induction fs as [|f rest IH]; [reflexivity|]. cbn [forallb sa_fields]. intros H.
    apply andb_prop in H. destruct H as [Hf Hrest]. rewrite (IH Hrest), andb_true_r.
    assert (Hnp : next_padding rest = None).
    { destruct rest as [|g rest']; [reflexivity|]. cbn [next_padding].
      cbn [forallb] in Hrest. apply andb_prop in Hrest. destruct Hrest as [Hg _].
      pose proof (sa_field_not_padding g Hg) as Hn.
      destruct (f_desc g); try reflexivity. exfalso. eapply Hn. reflexivity. }
    rewrite Hnp, Hf. reflexivity.
  Qed.

  Theorem static_exact_arrays_fields fs n psz ss :
    forallb sa_field fs = true ->
    annotate_fields sch d fs (SStatic 0) (SStatic 0) = Some (SStatic n, psz) ->
    ref_enc_fields fl rec d all_fields cs obj payload fs 0 0 = Some ss ->
    8 * seg_len ss = n.
  Proof. intros Hf. apply static_exact_arrays. now apply sa_fields_of_forallb. Qed.
End Arrays.

(** ** Non-vacuity: a concrete declaration of the fragment *)

Open Scope string_scope.

Definition fld (x : fdesc) : field := mkField x None.

Definition ex_enum : decl := DEnum "E" [TagValue "A" 1; TagValue "B" 2] 8.
Definition ex_struct : decl := DStruct "S" [] [fld (Scalar "x" 8); fld (Scalar "y" 16)] None.

(** packet P { a:3, b:5, e:E, xs:16[2], ys:8[3], _padding_[5], es:E[2], s:S, ss:S[2], c:8 } *)
Definition ex_fs : list field :=
  [ fld (Scalar "a" 3); fld (Scalar "b" 5); fld (Typedef "e" "E");
    fld (Array "xs" (Some 16) None None (Some 2));
    fld (Array "ys" (Some 8) None None (Some 3)); fld (Padding 5);
    fld (Array "es" None (Some "E") None (Some 2));
    fld (Typedef "s" "S");
    fld (Array "ss" None (Some "S") None (Some 2));
    fld (Scalar "c" 8) ].

Definition ex_packet : decl := DPacket "P" [] ex_fs None.
Definition ex_fl : file := mkFile BigEndian [ex_enum; ex_struct; ex_packet].
Definition ex_sch : schema := match mk_schema ex_fl with Some s => s | None => [] end.
Definition ex_rec : string -> value -> option (list seg) := ref_rec_of (ref_enc_decl 3 ex_fl) ex_fl.

Definition ex_obj : list (string * value) :=
  [ ("a", VNum 5); ("b", VNum 17); ("e", VNum 2);
    ("xs", VList [VNum 258; VNum 772]);
    ("ys", VList [VNum 1; VNum 2; VNum 3]);
    ("es", VList [VNum 1; VNum 2]);
    ("s", VObj [("x", VNum 7); ("y", VNum 513)]);
    ("ss", VList [VObj [("x", VNum 8); ("y", VNum 1)]; VObj [("x", VNum 9); ("y", VNum 2)]]);
    ("c", VNum 255) ].

(** the hypotheses of [static_exact_arrays] hold of this field list and value: the
    schema says Static 184 and the reference encoding has 23 octets *)
Example ex_fragment : sa_fields ex_fl ex_packet ex_fs = true.
Proof. vm_compute. reflexivity. Qed.

Example ex_fields_not_all_plain : forallb (sa_field ex_fl ex_packet) ex_fs = false.
Proof. vm_compute. reflexivity. Qed.

Example ex_schema :
  annotate_fields ex_sch ex_packet ex_fs (SStatic 0) (SStatic 0) = Some (SStatic 184, SStatic 0).
Proof. vm_compute. reflexivity. Qed.

Example ex_reference :
  option_map (render BigEndian)
             (ref_enc_fields ex_fl ex_rec ex_packet ex_fs [] ex_obj [] ex_fs 0 0)
  = Some ["141"; "002"; "001"; "002"; "003"; "004"; "001"; "002"; "003"; "000"; "000";
          "001"; "002"; "007"; "002"; "001"; "008"; "000"; "001"; "009"; "000"; "002";
          "255"]%byte.
Proof. vm_compute. reflexivity. Qed.

Example ex_reference_length :
  option_map seg_len (ref_enc_fields ex_fl ex_rec ex_packet ex_fs [] ex_obj [] ex_fs 0 0) = Some 23.
Proof. vm_compute. reflexivity. Qed.

(** The two section hypotheses hold of this file, its schema and the reference's own
    recursive encoder, so the theorem applies to EVERY value of P. *)
Lemma ex_lookup tid dd :
  lookup_decl ex_fl tid = Some dd ->
  (tid = "P" /\ dd = ex_packet) \/ (tid = "S" /\ dd = ex_struct) \/ (tid = "E" /\ dd = ex_enum).
Proof.
  unfold lookup_decl, ex_fl. cbn [f_decls rev app find]. unfold has_id.
  cbn [ex_packet ex_struct ex_enum decl_id].
  destruct (String.eqb_spec "P" tid) as [<-|_]; [intros H; inversion H; auto|].
  destruct (String.eqb_spec "S" tid) as [<-|_]; [intros H; inversion H; auto|].
  destruct (String.eqb_spec "E" tid) as [<-|_]; [intros H; inversion H; auto|].
  discriminate.
Qed.

Lemma ex_knows_enums : schema_knows_enums ex_fl ex_sch.
Proof.
  intros tid tags w H.
  assert (H' : exists i, lookup_decl ex_fl tid = Some (DEnum i tags w))
    by (destruct H as [H|H]; [eexists; exact H | exact H]).
  destruct H' as [i H'].
  destruct (ex_lookup tid _ H') as [[_ E]|[[_ E]|[-> E]]]; try discriminate.
  inversion E; subst. vm_compute. reflexivity.
Qed.

Lemma ex_rec_sound tid v ss m :
  is_struct_id ex_fl tid = true ->
  ex_rec tid v = Some ss -> type_total ex_sch tid = Some (SStatic m) -> 8 * seg_len ss = m.
Proof.
  unfold is_struct_id. intros Hs Hr Ht.
  destruct (lookup_decl ex_fl tid) as [dd|] eqn:El; [|discriminate].
  destruct (ex_lookup tid dd El) as [[_ ->]|[[-> ->]|[_ ->]]]; try discriminate.
  clear Hs. unfold ex_rec, ref_rec_of in Hr. rewrite El in Hr.
  destruct v as [| | |o]; try discriminate.
  destruct (obj_payload o) as [pl|]; [|discriminate].
  cbn [ref_enc_decl] in Hr.
  change (get_parent ex_fl ex_struct) with (@None decl) in Hr.
  change (iter_constraints ex_fl ex_struct) with (@nil constr) in Hr.
  match type of Hr with
  | match ?X with Some _ => _ | None => None end = _ => destruct X as [bs|] eqn:Eb; [|discriminate]
  end.
  inversion Hr; subst bs.
  eapply (static_exact_fragment ex_fl ex_sch _ ex_struct _ o _ ex_knows_enums
                                (decl_fields ex_struct) m (SStatic 0) ss);
    [vm_compute; reflexivity | | exact Eb].
  vm_compute in Ht. inversion Ht; subst m. vm_compute. reflexivity.
Qed.

(** every reference encoding of every value of P's fields has 184 bits *)
Theorem ex_every_value obj ss :
  ref_enc_fields ex_fl ex_rec ex_packet ex_fs [] obj [] ex_fs 0 0 = Some ss ->
  8 * seg_len ss = 184.
Proof.
  intros H.
  exact (static_exact_arrays ex_fl ex_sch ex_rec ex_packet ex_fs [] obj [] ex_knows_enums
                             ex_rec_sound ex_fs 184 (SStatic 0) ss ex_fragment ex_schema H).
Qed.

(** ** Why a padding field must follow an array

    [check_padding_fields] (analyzer.rs) rejects a padding field that does not follow
    an array field, so these field lists never reach [Schema::new]; on them the
    schema's sum (which replaces the size of WHATEVER precedes the padding by the
    padded size) and the reference (which pads arrays only) disagree. *)
Definition cex_fs : list field := [fld (Scalar "a" 8); fld (Padding 4)].
Definition cex_d : decl := DPacket "Q" [] cex_fs None.

Example cex_schema :
  annotate_fields [] cex_d cex_fs (SStatic 0) (SStatic 0) = Some (SStatic 32, SStatic 0).
Proof. vm_compute. reflexivity. Qed.

Example cex_reference :
  option_map seg_len
    (ref_enc_fields (mkFile LittleEndian [cex_d]) (fun _ _ => None) cex_d cex_fs []
                    [("a", VNum 1)] [] cex_fs 0 0) = Some 1.
Proof. vm_compute. reflexivity. Qed.

Print Assumptions static_exact_arrays_gen.
Print Assumptions static_exact_arrays.
Print Assumptions static_exact_arrays_fields.
Print Assumptions ex_every_value.
