(** The round trip of [Proofs/RoundTrip.v] for the schema the analyzer really computes
    ([mk_schema], the model of [Schema::new]) and for enums on which the analyzer's own
    enum check is silent: no hypothesis is left about an arbitrary schema or about the
    conversions of the enums. *)
From Coq Require Import NArith List String Bool.
From Coq Require Import Strings.Byte.
From PDL Require Import Base.Bits Base.Outcome Lang.Ast Lang.Sexp Analyzer.Schema Analyzer.Passes Rust.Enum
     Sem.RefEncode Rust.Encode Rust.Decode Proofs.BitfieldEncode Proofs.RoundTrip Proofs.SchemaEnums.
Import ListNotations.
Open Scope N_scope.

(** every enum of the file passes the analyzer's enum check and is one the Rust generator
    is defined on (width at most 64, at least one value or range tag) *)
Definition enums_accepted (fl : file) : Prop :=
  forall tid i tags w,
    lookup_decl fl tid = Some (DEnum i tags w) ->
    check_enum_declaration (DEnum i tags w) = []
    /\ integer_width w <> None /\ enum_is_complete tags (scalar_max w) <> None.

Theorem rust_roundtrip_fragment_real_schema fuel fuel' oc fl sch id d o bs tl :
  enum_widths_fit fl = true -> mk_schema fl = Some sch ->
  enums_accepted fl ->
  lookup_decl fl id = Some d ->
  root_of_fragment fl d ->
  canonical_obj o (decl_fields d) ->
  ref_encode (S fuel) fl id (VObj o) = Some bs ->
  match rust_encode (S fuel) fl sch id (VObj o) with
  | Ok bs' =>
      bs' = bs /\
      gooddec (rust_decode (S fuel') oc fl sch id (bs' ++ tl)) (fun r => r = (VObj o, tl))
  | Panic GenAssert => True
  | _ => False
  end.
Proof.
  intros Hw Hs He. apply rust_roundtrip_fragment.
  - apply mk_schema_knows_enums; assumption.
  - apply accepted_enums_exact. exact He.
Qed.

(** the decoder accepts every reference encoding of a root declaration of the fragment and
    returns the reference's field values and exactly the bytes that follow it *)
Theorem rust_decode_accepts_reference_real_schema fuel oc fl sch refrec d all_fields o payload ss tl :
  enum_widths_fit fl = true -> mk_schema fl = Some sch ->
  enums_accepted fl ->
  get_parent fl d = None ->
  forallb (bf_field fl) (decl_fields d) = true ->
  ref_enc_fields fl refrec d all_fields [] o payload (decl_fields d) 0 0 = Some ss ->
  gooddec (rust_dec_decl (S fuel) oc fl sch d (render (f_endian fl) ss ++ tl))
          (fun r => r = (VObj (vals_of o (decl_fields d)), tl)).
Proof.
  intros Hw Hs He. apply rust_dec_decl_reference.
  - apply mk_schema_knows_enums; assumption.
  - apply accepted_enums_exact. exact He.
Qed.
