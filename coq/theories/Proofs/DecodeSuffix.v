(** On success the remainder returned by the emitted [decode] is a suffix of the
    input: consumed ++ remainder = input.  For every description, every byte string. *)
From Coq Require Import NArith List String Bool Lia.
From Coq Require Import Strings.Byte.
From PDL Require Import Base.Bits Base.Outcome Lang.Ast Lang.Sexp Analyzer.Schema Rust.Enum
     Sem.RefEncode Rust.Encode Rust.Decode.
Import ListNotations.
Open Scope N_scope.

Definition suffix (a b : list byte) : Prop := exists c, b = (c ++ a)%list.

Lemma suffix_refl a : suffix a a.
Proof. exists []. reflexivity. Qed.

Lemma suffix_trans a b c : suffix a b -> suffix b c -> suffix a c.
Proof. intros [x Hx] [y Hy]. exists (y ++ x)%list. subst. now rewrite app_assoc. Qed.

Lemma suffix_skipn n l : suffix (skipn n l) l.
Proof. exists (firstn n l). symmetry. apply firstn_skipn. Qed.

Lemma suffix_nil l : suffix [] l.
Proof. exists l. now rewrite app_nil_r. Qed.

Lemma get_uint_suffix e w sp x sp' : get_uint e w sp = Ok (x, sp') -> suffix sp' sp.
Proof.
  unfold get_uint. destruct (len sp <? w / 8); [discriminate|].
  intros H. inversion H. apply suffix_skipn.
Qed.

Lemma advance_suffix n sp sp' : advance n sp = Ok sp' -> suffix sp' sp.
Proof. unfold advance. destruct (len sp <? n); [discriminate|]. intros H; inversion H. apply suffix_skipn. Qed.

Lemma split_at_suffix n sp h t : split_at n sp = Ok (h, t) -> suffix t sp.
Proof. unfold split_at. destruct (len sp <? n); [discriminate|]. intros H; inversion H. apply suffix_skipn. Qed.

Lemma slice_from_suffix n sp sp' : slice_from n sp = Ok sp' -> suffix sp' sp.
Proof. unfold slice_from. destruct (len sp <? n); [discriminate|]. intros H; inversion H. apply suffix_skipn. Qed.

(** an element parser that returns suffixes *)
Definition pe_suffix (pe : list byte -> dres (value * list byte)) : Prop :=
  forall sp v sp', pe sp = Ok (v, sp') -> suffix sp' sp.

Lemma loop_while_suffix pe lf : pe_suffix pe ->
  forall sp acc vs sp', loop_while pe lf sp acc = Ok (vs, sp') -> suffix sp' sp.
Proof.
  intros Hpe. induction lf as [|lf IH]; intros sp acc vs sp' H.
  - destruct sp; cbn in H; [inversion H; apply suffix_refl | discriminate].
  - destruct sp as [|b sp0]; cbn [loop_while] in H; [inversion H; apply suffix_refl|].
    unfold bind in H. destruct (pe (b :: sp0)) as [[v r]| | |] eqn:E; try discriminate.
    eapply suffix_trans; [eapply IH; exact H | eapply Hpe; exact E].
Qed.

Lemma loop_count_suffix pe lf : pe_suffix pe ->
  forall n sp acc vs sp', loop_count pe lf n sp acc = Ok (vs, sp') -> suffix sp' sp.
Proof.
  intros Hpe. induction lf as [|lf IH]; intros n sp acc vs sp' H; cbn [loop_count] in H.
  - destruct (n =? 0); [inversion H; apply suffix_refl | discriminate].
  - destruct (n =? 0); [inversion H; apply suffix_refl|].
    unfold bind in H. destruct (pe sp) as [[v r]| | |] eqn:E; try discriminate.
    eapply suffix_trans; [eapply IH; exact H | eapply Hpe; exact E].
Qed.

(** destruct the scrutinees of a hypothesis [H : ... = Ok _] until only the
    successful path is left *)
Ltac step_ok H :=
  match type of H with
  | bind ?x _ = Ok _ =>
      let E := fresh "E" in destruct x eqn:E; cbn [bind] in H; try discriminate
  | match ?x with _ => _ end = Ok _ =>
      let E := fresh "E" in destruct x eqn:E; try discriminate
  | (if ?c then _ else _) = Ok _ =>
      let E := fresh "E" in destruct c eqn:E; try discriminate
  end.

Section Fields.
  Variable oc : bool.
  Variable fl : file.
  Variable sch : schema.
  Variable rec : string -> list byte -> dres (value * list byte).
  Variable lf : nat.
  Hypothesis Hrec : forall tid, pe_suffix (rec tid).

  Lemma parse_element_suffix w t : pe_suffix (parse_element fl rec w t).
  Proof.
    intros sp v sp' H. unfold parse_element in H.
    destruct w as [w|].
    - unfold bind in H. destruct (get_uint _ w sp) as [[x r]| | |] eqn:E; try discriminate.
      inversion H; subst. eapply get_uint_suffix; exact E.
    - destruct t as [t|]; [|discriminate].
      destruct (lookup_decl fl t) as [[| | ? ? w | | | |]|] eqn:El; try (eapply Hrec; exact H).
      unfold bind in H. destruct (get_uint _ w sp) as [[x r]| | |] eqn:E; try discriminate.
      destruct (enum_check fl t x); try discriminate.
      inversion H; subst. eapply get_uint_suffix; exact E.
  Qed.

  Ltac inv_bind H :=
    match type of H with
    | bind ?x _ = Ok _ =>
        let E := fresh "E" in
        destruct x eqn:E; cbn [bind] in H; try discriminate
    end.

  Lemma add_array_field_suffix d st id w t sz pad st' :
    add_array_field oc fl sch rec lf d st id w t sz pad = Ok st' ->
    suffix (st_span st') (st_span st).
  Proof.
    unfold add_array_field. intros H.
    inv_bind H. rename a into ew.
    (* padding *)
    destruct pad as [pbits|].
    - (* padded: the span afterwards is the tail of the split *)
      inv_bind H. destruct a as [[work after] padded].
      inv_bind E0. inv_bind E0. destruct a0 as [h tl]. inversion E0; subst. clear E0.
      inv_bind H. destruct a0 as [vs work'].
      inversion H; subst. cbn. eapply split_at_suffix; exact E2.
    - cbn [bind] in H.
      inv_bind H. destruct a as [vs work'].
      inversion H; subst. cbn [st_span add_val set_span].
      (* every case leaves a suffix of the working span *)
      pose proof (parse_element_suffix w t) as Hpe.
      destruct ew as [e|esf|];
        destruct (match sz with
                  | Some n => ShStatic n
                  | None => match decl_array_size d id with
                            | Some g => match f_desc g with
                                        | Count _ _ => ShCount (count_ident id)
                                        | Size _ _ => ShSize (size_ident id)
                                        | _ => ShUnknown
                                        end
                            | None => ShUnknown
                            end
                  end) as [n|cf|sf|] eqn:Eshape; cbn [bind] in E0.
      all: repeat
             (match type of E0 with
              | bind ?x _ = Ok _ =>
                  let E := fresh "E" in destruct x eqn:E; cbn [bind] in E0; try discriminate
              | (if ?c then _ else _) = Ok _ => destruct c eqn:?; try discriminate
              | (let (_, _) := ?p in _) = Ok _ => destruct p
              end).
      all: try (inversion E0; subst; clear E0).
      all: try (eapply loop_count_suffix; [exact Hpe | eassumption]).
      all: try (eapply loop_while_suffix; [exact Hpe | eassumption]).
      all: try (eapply slice_from_suffix; eassumption).
      all: try (eapply split_at_suffix; eassumption).
      all: try apply suffix_nil.
  Qed.

  Lemma add_payload_field_suffix d st m shift st' :
    add_payload_field sch d st m shift = Ok st' -> suffix (st_span st') (st_span st).
  Proof.
    unfold add_payload_field. intros H.
    destruct (negb (shift =? 0)); [discriminate|].
    destruct (decl_payload_size d) as [szf|].
    - repeat
        (match type of H with
         | bind ?x _ = Ok _ =>
             let E := fresh "E" in destruct x eqn:E; cbn [bind] in H; try discriminate
         end).
      inversion H; subst. cbn. eapply advance_suffix; eassumption.
    - destruct (offset_from_end sch d) as [[|off]|]; try discriminate.
      + inversion H; subst. cbn. apply suffix_nil.
      + destruct (negb (N.pos off mod 8 =? 0)); [discriminate|].
        repeat
          (match type of H with
           | bind ?x _ = Ok _ =>
               let E := fresh "E" in destruct x eqn:E; cbn [bind] in H; try discriminate
           end).
        inversion H; subst. cbn. eapply advance_suffix; eassumption.
  Qed.

  Lemma add_typedef_field_suffix st id tid shift st' :
    add_typedef_field fl sch rec st id tid shift = Ok st' -> suffix (st_span st') (st_span st).
  Proof.
    unfold add_typedef_field. intros H.
    destruct (negb (shift =? 0)); [discriminate|].
    destruct (lookup_decl fl tid) as [td|]; [|discriminate].
    destruct (type_total sch tid) as [[w| |]|]; try discriminate.
    - destruct (negb (w mod 8 =? 0)); [discriminate|].
      destruct td; try discriminate.
      + unfold bind in H. destruct (get_uint _ w (st_span st)) as [[x r]| | |] eqn:E; try discriminate.
        inversion H; subst. cbn. eapply get_uint_suffix; exact E.
      + unfold bind in H. destruct (rec tid (st_span st)) as [[v r]| | |] eqn:E; try discriminate.
        inversion H; subst. cbn. eapply Hrec; exact E.
    - unfold bind in H. destruct (rec tid (st_span st)) as [[v r]| | |] eqn:E; try discriminate.
      inversion H; subst. cbn. eapply Hrec; exact E.
    - unfold bind in H. destruct (rec tid (st_span st)) as [[v r]| | |] eqn:E; try discriminate.
      inversion H; subst. cbn. eapply Hrec; exact E.
  Qed.

  Lemma add_optional_field_suffix st f c st' :
    add_optional_field fl rec st f c = Ok st' -> suffix (st_span st') (st_span st).
  Proof.
    unfold add_optional_field. intros H.
    repeat step_ok H.
    all: inversion H; subst; cbn [st_span add_val set_span].
    all: try apply suffix_refl.
    all: try (eapply get_uint_suffix; eassumption).
    all: try (eapply Hrec; eassumption).
  Qed.

  Lemma chunk_field_span single cv ctw size d c st st' :
    chunk_field fl sch single cv ctw size st d c = Ok st' -> st_span st' = st_span st.
  Proof.
    unfold chunk_field. intros H. destruct c as [fshift f].
    repeat step_ok H.
    all: inversion H; subst; reflexivity.
  Qed.

  Lemma chunk_fields_span single cv ctw size d cs : forall st st',
    chunk_fields fl sch single cv ctw size st d cs = Ok st' -> st_span st' = st_span st.
  Proof.
    induction cs as [|c cs IH]; intros st st' H; cbn [chunk_fields] in H.
    - inversion H; reflexivity.
    - step_ok H. rewrite (IH _ _ H). eapply chunk_field_span; eassumption.
  Qed.

  Lemma dec_fields_suffix d : forall fs st chunk shift st',
    dec_fields oc fl sch rec lf d fs st chunk shift = Ok st' -> suffix (st_span st') (st_span st).
  Proof.
    induction fs as [|f rest IH]; intros st chunk shift st' H; cbn [dec_fields] in H.
    - inversion H; subst. apply suffix_refl.
    - destruct (f_cond f) as [c|].
      + unfold bind in H. destruct (add_optional_field fl rec st f c) as [st1| | |] eqn:E; try discriminate.
        eapply suffix_trans; [eapply IH; exact H | eapply add_optional_field_suffix; exact E].
      + destruct (is_bitfield fl f).
        * destruct (field_size sch d f) as [[w| |]|]; try discriminate.
          destruct ((shift + w) mod 8 =? 0).
          -- unfold bind in H.
             destruct (check_size (st_span st) ((shift + w) / 8)); try discriminate.
             destruct (integer_width (shift + w)) as [ctw|]; try discriminate.
             destruct (is_single_reserved (chunk ++ [(shift, f)])).
             ++ destruct (advance ((shift + w) / 8) (st_span st)) as [sp'| | |] eqn:E; try discriminate.
                eapply suffix_trans; [eapply IH; exact H|]. cbn. eapply advance_suffix; exact E.
             ++ destruct (get_uint _ (shift + w) (st_span st)) as [[cv sp']| | |] eqn:E; try discriminate.
                match type of H with
                | match ?x with _ => _ end = _ => destruct x as [st1| | |] eqn:E1; try discriminate
                end.
                eapply suffix_trans; [eapply IH; exact H|].
                rewrite (chunk_fields_span _ _ _ _ _ _ _ _ E1). cbn. eapply get_uint_suffix; exact E.
          -- eapply IH; exact H.
        * destruct (f_desc f); try discriminate.
          -- eapply IH; exact H.
          -- unfold bind in H.
             match type of H with
             | match ?x with _ => _ end = _ => destruct x as [st1| | |] eqn:E; try discriminate
             end.
             eapply suffix_trans; [eapply IH; exact H | eapply add_payload_field_suffix; exact E].
          -- unfold bind in H.
             match type of H with
             | match ?x with _ => _ end = _ => destruct x as [st1| | |] eqn:E; try discriminate
             end.
             eapply suffix_trans; [eapply IH; exact H | eapply add_payload_field_suffix; exact E].
          -- unfold bind in H.
             match type of H with
             | match ?x with _ => _ end = _ => destruct x as [st1| | |] eqn:E; try discriminate
             end.
             eapply suffix_trans; [eapply IH; exact H | eapply add_array_field_suffix; exact E].
          -- unfold bind in H.
             match type of H with
             | match ?x with _ => _ end = _ => destruct x as [st1| | |] eqn:E; try discriminate
             end.
             eapply suffix_trans; [eapply IH; exact H | eapply add_typedef_field_suffix; exact E].
  Qed.
End Fields.

(** the whole decoder, any nesting depth, any inheritance depth *)
Theorem rust_dec_decl_suffix oc fl sch : forall fuel d bs v rest,
  rust_dec_decl fuel oc fl sch d bs = Ok (v, rest) -> suffix rest bs.
Proof.
  induction fuel as [|fuel IH]; intros d bs v rest H; [discriminate|].
  cbn [rust_dec_decl] in H.
  assert (Hrec : forall tid, pe_suffix (rec_of (rust_dec_decl fuel oc fl sch) fl tid)).
  { intros tid sp x sp' Hx. unfold rec_of in Hx.
    destruct (lookup_decl fl tid) as [[| ? [w|] ? | | | | |]|]; try discriminate;
      try (eapply IH; exact Hx).
    destruct (len sp <? w / 8); [discriminate|].
    unfold bind in Hx. destruct (get_uint (f_endian fl) w sp) as [[y r]| | |] eqn:E; try discriminate.
    inversion Hx; subst. eapply get_uint_suffix; exact E. }
  destruct (get_parent fl d) as [p|].
  - unfold bind in H.
    destruct (rust_dec_decl fuel oc fl sch p bs) as [[pv trailing]| | |] eqn:Ep; try discriminate.
    destruct pv; try discriminate.
    match type of H with
    | match ?x with _ => _ end = _ => destruct x; try discriminate
    end.
    inversion H; subst. eapply IH; exact Ep.
  - unfold bind in H.
    match type of H with
    | match ?x with _ => _ end = _ => destruct x as [st| | |] eqn:E; try discriminate
    end.
    destruct (payload_entry d st); try discriminate.
    inversion H; subst.
    eapply (dec_fields_suffix oc fl sch _ fuel Hrec) in E. exact E.
Qed.

Corollary rust_decode_suffix fuel oc fl sch id bs v rest :
  rust_decode fuel oc fl sch id bs = Ok (v, rest) -> exists consumed, bs = (consumed ++ rest)%list.
Proof.
  unfold rust_decode. intros H.
  destruct (lookup_decl fl id) as [[| ? [w|] ? | | | | |]|]; try discriminate;
    try (eapply rust_dec_decl_suffix; exact H).
  destruct (len bs <? w / 8); [discriminate|].
  unfold bind in H. destruct (get_uint (f_endian fl) w bs) as [[y r]| | |] eqn:E; try discriminate.
  inversion H; subst. eapply get_uint_suffix; exact E.
Qed.
