(** The bit-field group: what [pack_bit_fields] / [put_uint] write for a list of
    (value, Rust type width, shift) entries equals the LSB-first sum the reference
    prescribes, and [chunk_field]'s shift / mask / cast reads each field back. *)
From Coq Require Import NArith ZArith List String Bool Lia ZifyN ZifyBool.
From Coq Require Import Strings.Byte.
From PDL Require Import Base.Bits Base.Outcome Lang.Ast Lang.Sexp Analyzer.Schema Rust.Enum
     Sem.RefEncode Rust.Encode.
Import ListNotations.
Open Scope N_scope.

(** A group as the reference sees it: (value, declared width) LSB first. *)
Fixpoint group_sum (fs : list (N * N)) (sh : N) : N :=
  match fs with
  | [] => 0
  | (v, w) :: rest => v * 2 ^ sh + group_sum rest (sh + w)
  end.

Fixpoint group_bits (fs : list (N * N)) : N :=
  match fs with
  | [] => 0
  | (_, w) :: rest => w + group_bits rest
  end.

Definition group_ok (fs : list (N * N)) : Prop := Forall (fun p => fst p < 2 ^ snd p) fs.

Lemma group_sum_bound fs sh :
  group_ok fs -> group_sum fs sh < 2 ^ (sh + group_bits fs) /\ 2 ^ sh * (group_sum fs sh / 2 ^ sh) = group_sum fs sh.
Proof.
  revert sh. induction fs as [|[v w] rest IH]; intros sh Hok.
  - cbn. rewrite N.add_0_r. pose proof (pow2_pos sh). split; [lia|].
    rewrite N.div_0_l by lia. lia.
  - inversion Hok as [|? ? Hv Hrest]; subst. cbn [fst snd] in Hv.
    cbn [group_sum group_bits].
    destruct (IH (sh + w) Hrest) as [Hb Hd].
    pose proof (pow2_pos sh) as Hp. pose proof (pow2_pos w) as Hpw.
    pose proof (pow2_pos (group_bits rest)) as Hpb.
    set (R := group_sum rest (sh + w)) in *.
    set (k := R / 2 ^ (sh + w)) in *.
    assert (Hk : R = k * (2 ^ sh * 2 ^ w)) by (rewrite <- N.pow_add_r; lia).
    assert (E1 : 2 ^ (sh + w + group_bits rest) = 2 ^ sh * 2 ^ w * 2 ^ group_bits rest)
      by (rewrite !N.pow_add_r; reflexivity).
    assert (E2 : 2 ^ (sh + (w + group_bits rest)) = 2 ^ sh * 2 ^ w * 2 ^ group_bits rest)
      by (rewrite !N.pow_add_r; lia).
    rewrite E1 in Hb. rewrite E2. rewrite Hk in *.
    assert (Hkb : k < 2 ^ group_bits rest).
    { apply (N.mul_lt_mono_pos_r (2 ^ sh * 2 ^ w)); [lia|]. rewrite (N.mul_comm (2 ^ group_bits rest)). exact Hb. }
    split.
    + replace (v * 2 ^ sh + k * (2 ^ sh * 2 ^ w)) with (2 ^ sh * (v + k * 2 ^ w)) by lia.
      replace (2 ^ sh * 2 ^ w * 2 ^ group_bits rest) with (2 ^ sh * (2 ^ w * 2 ^ group_bits rest)) by lia.
      apply N.mul_lt_mono_pos_l; [exact Hp|].
      assert (2 ^ w * (k + 1) <= 2 ^ w * 2 ^ group_bits rest) by (apply N.mul_le_mono_l; lia).
      lia.
    + replace (v * 2 ^ sh + k * (2 ^ sh * 2 ^ w)) with ((v + k * 2 ^ w) * 2 ^ sh) by lia.
      rewrite N.div_mul by lia. lia.
Qed.

(** pending entries of the encoder built from a reference group: Rust type widths
    [tw i >= w i], shifts accumulate *)
Fixpoint pending_of (fs : list (N * N * N)) (sh : N) : pending :=
  match fs with
  | [] => []
  | (v, w, tw) :: rest => (v, tw, sh) :: pending_of rest (sh + w)
  end.

Definition entry_ok (e : N * N * N) : Prop :=
  fst (fst e) < 2 ^ snd (fst e) /\ snd (fst e) <= snd e.

Definition strip (fs : list (N * N * N)) : list (N * N) := map (fun '(v, w, _) => (v, w)) fs.

Lemma fold_lor_acc (p : pending) cw acc :
  fold_left (fun a '(v, tw, sh) => N.lor a ((N.shiftl (v mod 2 ^ tw) sh) mod 2 ^ cw)) p acc =
  N.lor acc (pack_value cw p).
Proof.
  unfold pack_value. revert acc. induction p as [|[[v tw] sh] p IH]; intros acc; cbn [fold_left].
  - now rewrite N.lor_0_r.
  - rewrite IH. rewrite (IH (N.lor 0 _)). rewrite N.lor_0_l. now rewrite N.lor_assoc.
Qed.

(** The central lemma: OR of casts and shifts = LSB-first sum. *)
Lemma pack_value_sum (fs : list (N * N * N)) sh cw :
  Forall entry_ok fs ->
  sh + group_bits (strip fs) <= cw ->
  pack_value cw (pending_of fs sh) = group_sum (strip fs) sh.
Proof.
  revert sh. induction fs as [|[[v w] tw] rest IH]; intros sh Hok Hcw.
  - reflexivity.
  - inversion Hok as [|? ? Hhead Hrest]; subst. destruct Hhead as [Hv Htw]. cbn [fst snd] in Hv, Htw.
    change (strip ((v, w, tw) :: rest)) with ((v, w) :: strip rest) in *.
    cbn [pending_of group_sum group_bits] in *.
    unfold pack_value. cbn [fold_left]. rewrite fold_lor_acc, N.lor_0_l.
    rewrite IH by (try exact Hrest; lia).
    assert (Hvt : v mod 2 ^ tw = v).
    { apply N.mod_small. eapply N.lt_le_trans; [exact Hv|]. apply pow2_le_mono. exact Htw. }
    rewrite Hvt. rewrite N.shiftl_mul_pow2.
    assert (Hlt : v * 2 ^ sh < 2 ^ cw).
    { eapply N.lt_le_trans with (2 ^ (sh + w)).
      - rewrite N.pow_add_r. pose proof (pow2_pos sh). nia.
      - apply pow2_le_mono. lia. }
    rewrite (N.mod_small _ _ Hlt).
    (* v*2^sh < 2^(sh+w) and the rest is a multiple of 2^(sh+w): OR = + *)
    assert (Hokr : group_ok (strip rest)).
    { unfold group_ok, strip. rewrite Forall_map. eapply Forall_impl; [|exact Hrest].
      intros [[a b] c] [H1 _]. exact H1. }
    destruct (group_sum_bound (strip rest) (sh + w) Hokr) as [_ Hd].
    set (r := group_sum (strip rest) (sh + w)) in *.
    assert (Hr : r = N.shiftl (r / 2 ^ (sh + w)) (sh + w)) by (rewrite N.shiftl_mul_pow2; lia).
    rewrite Hr at 1. rewrite lor_shiftl_add.
    + rewrite N.shiftl_mul_pow2 in Hr. rewrite <- Hr. reflexivity.
    + rewrite N.pow_add_r. pose proof (pow2_pos sh). nia.
Qed.

(** [put_uint] of the packed chunk = the reference group bytes *)
Lemma put_chunk_group fl (fs : list (N * N * N)) cw :
  Forall entry_ok fs ->
  group_bits (strip fs) <= cw ->
  put_chunk fl (group_bits (strip fs)) (pack_value cw (pending_of fs 0)) =
  bytes_E (f_endian fl) (nbytes (group_bits (strip fs))) (group_sum (strip fs) 0).
Proof.
  intros Hok Hcw. unfold put_chunk, Encode.E.
  rewrite pack_value_sum by (try exact Hok; lia).
  f_equal. apply N.mod_small.
  assert (Hokr : group_ok (strip fs)).
  { unfold group_ok, strip. rewrite Forall_map. eapply Forall_impl; [|exact Hok].
    intros [[a b] c] [H1 _]. exact H1. }
  destruct (group_sum_bound (strip fs) 0 Hokr) as [Hb _]. now rewrite N.add_0_l in Hb.
Qed.

(** ** reading back: shift, mask, cast *)

Lemma extract_group_sum pre v w post :
  group_ok pre -> v < 2 ^ w -> group_ok post ->
  extract (group_bits pre) w (group_sum (pre ++ (v, w) :: post) 0 ) = v.
Proof.
  intros Hpre Hv Hpost.
  assert (Hgen : forall sh, group_sum (pre ++ (v, w) :: post) sh =
                            group_sum pre sh + v * 2 ^ (sh + group_bits pre)
                            + group_sum post (sh + group_bits pre + w)).
  { clear. induction pre as [|[a b] pre IH]; intros sh; cbn [app group_sum group_bits].
    - rewrite N.add_0_r. lia.
    - rewrite IH. rewrite !N.add_assoc. lia. }
  rewrite Hgen. rewrite !N.add_0_l.
  destruct (group_sum_bound pre 0 Hpre) as [Hb _]. rewrite N.add_0_l in Hb.
  destruct (group_sum_bound post (group_bits pre + w) Hpost) as [_ Hd].
  set (s := group_bits pre) in *.
  set (r := group_sum post (s + w)) in *.
  assert (Hr : r = (r / 2 ^ (s + w)) * 2 ^ (s + w)) by lia.
  rewrite Hr. rewrite N.pow_add_r.
  replace (group_sum pre 0 + v * 2 ^ s + r / (2 ^ s * 2 ^ w) * (2 ^ s * 2 ^ w))
    with (group_sum pre 0 + (v + (r / (2 ^ s * 2 ^ w)) * 2 ^ w) * 2 ^ s) by lia.
  rewrite extract_add_low by exact Hb.
  pose proof (pow2_pos w). rewrite N.mod_add by lia. now apply N.mod_small.
Qed.
