(** C05, the LENGTH LAW: whenever the emitted [encode] succeeds, the number of bytes it
    wrote is what the emitted [encoded_len()] computes.

    [enc_fields] and [len_fields] walk the same field list with the same bit shift.  A
    bit-field group that closes at [shift'] contributes [shift' / 8] to [encoded_len] and
    [nbytes shift'] bytes ([pack_bit_fields]) to [encode], whatever values are pending,
    so NO invariant relating the pending list to the shift is needed: the law holds
    for every [(p, shift)], the bytes of a still-open group being accounted on both
    sides when it closes (and on neither side when it never does).

    The field-level theorem [enc_fields_len] covers EVERY field kind the encoder
    handles.  Its premises about the environment are:
    - [rec_enc] / [rec_len] of the struct and unsized custom types the field list refers
      to ([rec_tid]) obey the law themselves ([Hrec]), and agree with the schema where
      the schema gives the type a static size ([Hstatic]);
    - the schema records the width of enums and sized custom fields ([Hsch], [Hcust];
      both are theorems about [mk_schema], see [mk_schema_knows_customs]);
    - the payload action writes [payload_size] bytes ([Hpay]).
    Tying the knot ([rust_enc_decl_len], [rust_encode_len]) discharges [Hrec] and [Hpay]
    through parents and nested types by induction on the fuel; [Hstatic] stays a premise
    (it fails in the model for ill-typed values, see [static_array_ill_typed]). *)
From Coq Require Import NArith ZArith List String Bool Lia ZifyN ZifyBool.
From Coq Require Import Strings.Byte.
From PDL Require Import Base.Bits Base.Outcome Lang.Ast Lang.Sexp Analyzer.Schema Rust.Enum
     Sem.RefEncode Rust.Encode Proofs.BitfieldEncode Proofs.SchemaEnums.
Import ListNotations.
Open Scope N_scope.

Ltac Zify.zify_post_hook ::= Z.div_mod_to_equations.

(** ** Small facts *)

Lemma bind_ok {E A B} (x : outcome E A) (k : A -> outcome E B) (b : B) :
  bind x k = Ok b -> exists a, x = Ok a /\ k a = Ok b.
Proof. destruct x as [a| | |]; cbn [bind]; intros H; try discriminate. exists a. split; [reflexivity|exact H]. Qed.

Lemma len_app {A} (a b : list A) : len (a ++ b) = len a + len b.
Proof. unfold len. rewrite app_length. lia. Qed.

Lemma len_nil {A} : len (@nil A) = 0.
Proof. reflexivity. Qed.

Lemma len_cons {A} (x : A) (l : list A) : len (x :: l) = 1 + len l.
Proof. unfold len. cbn [List.length]. lia. Qed.

Lemma zeros_len k : len (zeros k) = N.of_nat k.
Proof. unfold len. f_equal. induction k as [|k IH]; [reflexivity|]. cbn [zeros List.length]. now rewrite IH. Qed.

Lemma bytes_E_len e n v : len (bytes_E e n v) = N.of_nat n.
Proof. unfold len, bytes_E. destruct e; [rewrite le_bytes_length | rewrite be_bytes_length]; reflexivity. Qed.

Lemma nbytes_N bits : N.of_nat (nbytes bits) = bits / 8.
Proof. unfold nbytes. apply N2Nat.id. Qed.

Lemma put_chunk_len fl w n : len (put_chunk fl w n) = w / 8.
Proof. unfold put_chunk. rewrite bytes_E_len. apply nbytes_N. Qed.

Lemma pack_bit_fields_len fl p shift bs : pack_bit_fields fl p shift = Ok bs -> len bs = shift / 8.
Proof.
  unfold pack_bit_fields. destruct (integer_width shift) as [cw|]; [|discriminate].
  destruct p as [|e p']; intros H; inversion H; subst bs.
  - rewrite zeros_len. apply nbytes_N.
  - apply put_chunk_len.
Qed.

(** The type identifier through which a field reaches [rec_enc] / [rec_len], if any:
    a struct (or unsized custom) typedef, an array of such elements. *)
Definition rec_tid (fl : file) (f : field) : option string :=
  match f_desc f with
  | Typedef _ tid =>
      match lookup_decl fl tid with
      | Some (DEnum _ _ _) => None
      | Some (DCustomField _ (Some _) _) => None
      | _ => Some tid
      end
  | Array _ None (Some tid) _ _ =>
      match lookup_decl fl tid with
      | Some (DEnum _ _ _) => None
      | _ => Some tid
      end
  | _ => None
  end.

(** an array has an element width or an element type (the parser produces nothing else;
    for [Array _ None None _ _] the model's [put_elems] of the empty list succeeds while
    [array_octets_schema] is undefined) *)
Definition arr_wf (f : field) : bool :=
  match f_desc f with
  | Array _ None None _ _ => false
  | _ => true
  end.

(** the schema knows the width of every sized custom field *)
Definition schema_knows_customs (fl : file) (sch : schema) : Prop :=
  forall tid i w fn, lookup_decl fl tid = Some (DCustomField i (Some w) fn) ->
                     type_total sch tid = Some (SStatic w).

Section Len.
  Variable fl : file.
  Variable sch : schema.
  Variable rec_enc : string -> value -> eres (list byte).
  Variable rec_len : string -> value -> option N.
  Variable d : decl.
  Variable all_fields : list field.
  Variable cs : list constr.
  Variable obj : list (string * value).
  Variable payload_act : eres (list byte).
  Variable payload_size : N.
  (** the type identifiers whose [encode] is known to obey the law *)
  Variable T : string -> Prop.

  Hypothesis Hsch : schema_knows_enums fl sch.
  Hypothesis Hcust : schema_knows_customs fl sch.
  Hypothesis Hrec : forall tid v bs, T tid -> rec_enc tid v = Ok bs -> rec_len tid v = Some (len bs).
  Hypothesis Hstatic : forall tid v bs w, T tid -> rec_enc tid v = Ok bs ->
                                          type_static_bits sch tid = Some w -> len bs = w / 8.
  Hypothesis Hpay : forall pl, payload_act = Ok pl -> len pl = payload_size.

  Lemma enum_static tid i tags w :
    lookup_decl fl tid = Some (DEnum i tags w) -> type_static_bits sch tid = Some w.
  Proof.
    intros Hl. unfold type_static_bits.
    rewrite (Hsch tid tags w (or_intror (ex_intro _ i Hl))). reflexivity.
  Qed.

  Lemma custom_static tid i w fn :
    lookup_decl fl tid = Some (DCustomField i (Some w) fn) -> type_static_bits sch tid = Some w.
  Proof. intros Hl. unfold type_static_bits. rewrite (Hcust tid i w fn Hl). reflexivity. Qed.

  (** *** arrays *)

  (** every element of a scalar / enum array is [w / 8] bytes *)
  Lemma put_elems_fixed f w :
    (forall v bs, put_elem fl rec_enc f v = Ok bs -> len bs = w / 8) ->
    forall vs bs, put_elems fl rec_enc f vs = Ok bs -> len bs = len vs * (w / 8).
  Proof.
    intros Hel. induction vs as [|v vs IH]; intros bs H; cbn [put_elems] in H.
    - inversion H. unfold len. cbn [List.length]. lia.
    - apply bind_ok in H. destruct H as [a [Ha H]].
      apply bind_ok in H. destruct H as [b [Hb H]]. inversion H; subst bs.
      rewrite len_app, len_cons, (Hel _ _ Ha), (IH _ Hb). lia.
  Qed.

  Lemma put_elems_sum f tid :
    (forall v bs, put_elem fl rec_enc f v = Ok bs -> rec_len tid v = Some (len bs)) ->
    forall vs bs, put_elems fl rec_enc f vs = Ok bs -> sum_len rec_len tid vs = Some (len bs).
  Proof.
    intros Hel. induction vs as [|v vs IH]; intros bs H; cbn [put_elems] in H.
    - inversion H. reflexivity.
    - apply bind_ok in H. destruct H as [a [Ha H]].
      apply bind_ok in H. destruct H as [b [Hb H]]. inversion H; subst bs.
      unfold sum_len. cbn [fold_right]. fold (sum_len rec_len tid vs).
      rewrite (Hel _ _ Ha), (IH _ Hb), len_app. reflexivity.
  Qed.

  Lemma put_elems_len f aid ow ot md sz vs bs :
    f_desc f = Array aid ow ot md sz ->
    arr_wf f = true ->
    (forall tid, rec_tid fl f = Some tid -> T tid) ->
    put_elems fl rec_enc f vs = Ok bs ->
    array_octets_schema sch rec_len f vs = Some (len bs).
  Proof.
    intros Ed Hwf HT H. unfold array_octets_schema. unfold arr_wf in Hwf.
    rewrite Ed in *. destruct ow as [w|]; destruct ot as [tid|]; try discriminate Hwf.
    1,2: f_equal; symmetry; eapply put_elems_fixed; [|exact H]; intros v bs0 Hv;
         unfold put_elem in Hv; rewrite Ed in Hv;
         destruct v; try discriminate; inversion Hv; apply put_chunk_len.
    (* typed elements *)
    unfold rec_tid in HT. rewrite Ed in HT.
    destruct (lookup_decl fl tid) as [dd|] eqn:El.
    - destruct dd as [ | |i tags w| | | | ].
      3:{ rewrite (enum_static _ _ _ _ El). f_equal. symmetry.
          eapply put_elems_fixed; [|exact H]. intros v bs0 Hv.
          unfold put_elem in Hv. rewrite Ed, El in Hv.
          destruct v; try discriminate. inversion Hv. apply put_chunk_len. }
      all: pose proof (HT tid eq_refl) as Ht;
        destruct (type_static_bits sch tid) as [w|] eqn:Es;
        [ f_equal; symmetry; eapply put_elems_fixed; [|exact H]; intros v bs0 Hv;
          unfold put_elem in Hv; rewrite Ed, El in Hv; exact (Hstatic _ _ _ _ Ht Hv Es)
        | eapply put_elems_sum; [|exact H]; intros v bs0 Hv;
          unfold put_elem in Hv; rewrite Ed, El in Hv; exact (Hrec _ _ _ Ht Hv) ].
    - pose proof (HT tid eq_refl) as Ht.
      destruct (type_static_bits sch tid) as [w|] eqn:Es;
        [ f_equal; symmetry; eapply put_elems_fixed; [|exact H]; intros v bs0 Hv;
          unfold put_elem in Hv; rewrite Ed, El in Hv; exact (Hstatic _ _ _ _ Ht Hv Es)
        | eapply put_elems_sum; [|exact H]; intros v bs0 Hv;
          unfold put_elem in Hv; rewrite Ed, El in Hv; exact (Hrec _ _ _ Ht Hv) ].
  Qed.
  (** *** one typedef field of struct / custom type *)
  Lemma rec_here tid id v here :
    T tid -> rec_enc tid v = Ok here -> assoc id obj = Some v ->
    match type_static_bits sch tid with
    | Some s => Some (s / 8)
    | None => match assoc id obj with Some v0 => rec_len tid v0 | None => None end
    end = Some (len here).
  Proof.
    intros Ht He Ha. destruct (type_static_bits sch tid) as [s|] eqn:Es.
    - rewrite (Hstatic _ _ _ _ Ht He Es). reflexivity.
    - rewrite Ha. exact (Hrec _ _ _ Ht He).
  Qed.

  (** the class: arrays are well formed, and the struct types reached are trusted *)
  Definition cls (fs : list field) : Prop :=
    forall f, In f fs -> arr_wf f = true /\ (forall tid, rec_tid fl f = Some tid -> T tid).

  (** ** The length law, field lists.  Any pending list, any shift. *)
  Theorem enc_fields_len : forall fs p shift bs,
    cls fs ->
    enc_fields fl sch rec_enc rec_len d all_fields cs obj payload_act payload_size fs p shift = Ok bs ->
    len_fields fl sch rec_len d obj payload_size fs shift = Some (len bs).
  Proof.
    induction fs as [|f rest IH]; intros p shift bs Hcls Henc.
    - cbn [enc_fields] in Henc. inversion Henc. reflexivity.
    - cbn [enc_fields] in Henc. cbn [len_fields].
      assert (Hcls' : cls rest) by (intros f' Hin; apply Hcls; right; exact Hin).
      destruct (Hcls f (or_introl eq_refl)) as [Hwf Hf].
      destruct (f_cond f) as [c|] eqn:Ec.
      + (* optional field *)
        destruct (shift =? 0) eqn:Es; cbn [negb] in Henc; [|discriminate].
        apply bind_ok in Henc. destruct Henc as [here [Hhere Henc]]. cbv beta in Henc.
        apply bind_ok in Henc. destruct Henc as [more [Hmore Henc]]. inversion Henc; subst bs.
        rewrite (IH _ _ _ Hcls' Hmore). rewrite len_app.
        match goal with
        | |- match ?h with _ => _ end = _ => assert (Hh : h = Some (len here)); [|rewrite Hh; reflexivity]
        end.
        destruct (assoc _ obj) as [v|]; [|discriminate].
        destruct (f_desc f) as [ | | | | | | | | | | |sid w| |tyid tid| ] eqn:Ed;
          try (destruct v; try discriminate; inversion Hhere; reflexivity).
        * (* Scalar *)
          destruct v as [n| | |]; try (inversion Hhere; reflexivity);
            destruct (integer_width w) as [bw|]; try discriminate.
          destruct (bw <=? w).
          -- inversion Hhere. rewrite put_chunk_len. reflexivity.
          -- destruct (mask_bits w) as [m|]; [|discriminate].
             destruct (m <? n); [discriminate|]. inversion Hhere. rewrite put_chunk_len. reflexivity.
        * (* Typedef *)
          unfold rec_tid in Hf. rewrite Ed in Hf.
          destruct (lookup_decl fl tid) as [dd|] eqn:El;
            [|destruct v; try discriminate; inversion Hhere; reflexivity].
          destruct dd as [ | |i tags w| |i cs0 fs0 par| | ];
            try (destruct v; try discriminate; inversion Hhere; reflexivity).
          -- destruct v as [n| | |]; try (inversion Hhere; reflexivity);
               destruct (integer_width w); try discriminate.
             inversion Hhere. rewrite put_chunk_len. reflexivity.
          -- pose proof (Hf tid eq_refl) as Ht.
             destruct v; try (inversion Hhere; reflexivity); exact (Hrec _ _ _ Ht Hhere).
      + destruct (is_bitfield fl f) eqn:Ebf.
        * (* bit-field: whatever value it carries *)
          destruct (field_size sch d f) as [[width| |]|] eqn:Efs; try discriminate.
          apply bind_ok in Henc. destruct Henc as [entry [_ Henc]]. cbv beta zeta in Henc.
          destruct ((shift + width) mod 8 =? 0) eqn:Em.
          -- apply bind_ok in Henc. destruct Henc as [chunk [Hchunk Henc]]. cbv beta in Henc.
             apply bind_ok in Henc. destruct Henc as [more [Hmore Henc]]. inversion Henc; subst bs.
             rewrite (IH _ _ _ Hcls' Hmore). cbn [option_map].
             rewrite len_app, (pack_bit_fields_len _ _ _ _ Hchunk). reflexivity.
          -- exact (IH _ _ _ Hcls' Henc).
        * apply bind_ok in Henc. destruct Henc as [here [Hhere Henc]]. cbv beta in Henc.
          apply bind_ok in Henc. destruct Henc as [more [Hmore Henc]]. inversion Henc; subst bs.
          rewrite (IH _ _ _ Hcls' Hmore). rewrite len_app.
          match goal with
          | |- match ?h with _ => _ end = _ => assert (Hh : h = Some (len here)); [|rewrite Hh; reflexivity]
          end.
          destruct (f_desc f) as [ |pn| | | | |pm| | | |aid ow ot md sz| | |tyid tid| ] eqn:Ed;
            try discriminate Hhere.
          -- (* Padding *) inversion Hhere. reflexivity.
          -- (* Body *) rewrite (Hpay _ Hhere). reflexivity.
          -- (* Payload *) rewrite (Hpay _ Hhere). reflexivity.
          -- (* Array *)
             destruct (shift =? 0); cbn [negb] in Hhere; [|discriminate].
             destruct (obj_list obj aid) as [vs|] eqn:Eo; [|discriminate].
             destruct (next_padding rest) as [pbits|] eqn:Enp.
             ++ destruct (array_octets_schema sch rec_len f vs) as [asz|] eqn:Ea; [|discriminate].
                destruct (pbits / 8 <? asz) eqn:Elt; [discriminate|].
                apply bind_ok in Hhere. destruct Hhere as [ebs [Hebs Hhere]]. inversion Hhere.
                pose proof (put_elems_len f _ _ _ _ _ vs ebs Ed Hwf Hf Hebs) as Hlen.
                rewrite Ea in Hlen. inversion Hlen; subst asz.
                rewrite len_app, zeros_len, N2Nat.id. f_equal. lia.
             ++ exact (put_elems_len f _ _ _ _ _ vs here Ed Hwf Hf Hhere).
          -- (* Typedef of struct / custom type *)
             destruct (shift =? 0); cbn [negb] in Hhere; [|discriminate].
             unfold rec_tid in Hf. rewrite Ed in Hf.
             destruct (lookup_decl fl tid) as [dd|] eqn:El; [|discriminate].
             destruct (assoc tyid obj) as [v|] eqn:Ea.
             ++ destruct dd as [ |i [w|] fn|i tags w|i cs0 fs0 par|i cs0 fs0 par| | ]; try discriminate.
                ** destruct v as [n| | |]; try discriminate.
                   destruct (integer_width w); [|discriminate]. inversion Hhere.
                   rewrite (custom_static _ _ _ _ El), put_chunk_len. reflexivity.
                ** pose proof (rec_here _ _ _ _ (Hf tid eq_refl) Hhere Ea) as Hr.
                   rewrite Ea in Hr. exact Hr.
                ** pose proof (rec_here _ _ _ _ (Hf tid eq_refl) Hhere Ea) as Hr.
                   rewrite Ea in Hr. exact Hr.
             ++ destruct dd as [ |i [w|] fn| | | | | ]; discriminate.
  Qed.
End Len.

(** ** Tying the knot *)

Lemma bytes_of_value_len l pl : bytes_of_value (VList l) = Some pl -> len pl = len l.
Proof.
  revert pl. induction l as [|v l IH]; intros pl H.
  - cbn in H. inversion H. reflexivity.
  - cbn [bytes_of_value] in H. destruct v as [n| | |]; try discriminate.
    destruct (n <? 256); [|discriminate].
    match type of H with
    | option_map _ ?g = _ => change g with (bytes_of_value (VList l)) in H
    end.
    destruct (bytes_of_value (VList l)) as [pl'|]; [|discriminate].
    cbn [option_map] in H. inversion H. rewrite !len_cons, (IH pl' eq_refl). reflexivity.
Qed.

Lemma obj_payload_len_eq o pl : obj_payload o = Some pl -> len pl = obj_payload_len o.
Proof.
  unfold obj_payload, obj_payload_len. destruct (assoc "payload" o) as [v|].
  - destruct v as [n| |l|kv]; try discriminate. apply bytes_of_value_len.
  - intros H. inversion H. reflexivity.
Qed.

(** the law for the declaration [d] at fuel [fuel] *)
Definition decl_law (fuel : nat) (fl : file) (sch : schema) (d : decl) : Prop :=
  forall all_fields cs obj pa ps bs,
    (forall pl, pa = Ok pl -> len pl = ps) ->
    rust_enc_decl fuel fl sch d all_fields cs obj pa ps = Ok bs ->
    rust_len_decl fuel fl sch d obj ps = Some (len bs).

Section Step.
  Variable fl : file.
  Variable sch : schema.
  Hypothesis Hsch : schema_knows_enums fl sch.
  Hypothesis Hcust : schema_knows_customs fl sch.

  (** one declaration, given the law for the types it reaches and for its parent *)
  Lemma decl_step fuel (T : string -> Prop) d :
    (forall tid v bs, T tid -> rust_encode fuel fl sch tid v = Ok bs ->
                      rust_len_top fuel fl sch tid v = Some (len bs)) ->
    (forall tid v bs w, T tid -> rust_encode fuel fl sch tid v = Ok bs ->
                        type_static_bits sch tid = Some w -> len bs = w / 8) ->
    cls fl T (decl_fields d) ->
    (forall p, get_parent fl d = Some p -> decl_law fuel fl sch p) ->
    decl_law (S fuel) fl sch d.
  Proof.
    intros Hrec Hstatic Hcls Hpar all_fields cs obj pa ps bs Hpa H.
    pose proof (fun p0 s0 bs0 =>
      enc_fields_len fl sch (rust_encode fuel fl sch) (rust_len_top fuel fl sch) d all_fields cs obj
                     pa ps T Hsch Hcust Hrec Hstatic Hpa (decl_fields d) p0 s0 bs0 Hcls) as HF.
    cbn [rust_enc_decl] in H. cbn [rust_len_decl].
    match goal with
    | |- match ?L with _ => _ end = _ =>
        change L with (len_fields fl sch (rust_len_top fuel fl sch) d obj ps (decl_fields d) 0)
    end.
    destruct (get_parent fl d) as [p|] eqn:Egp.
    - destruct (len_fields fl sch (rust_len_top fuel fl sch) d obj ps (decl_fields d) 0)
        as [own_size|] eqn:El; [|discriminate].
      refine (Hpar p eq_refl all_fields cs obj _ own_size bs _ H).
      intros pl Hown. pose proof (HF _ _ _ Hown) as Hl. rewrite El in Hl. inversion Hl. reflexivity.
    - rewrite (HF _ _ _ H). reflexivity.
  Qed.

  (** the law for [T::encode] at a type identifier follows from the law for its declaration *)
  Lemma top_of_decl fuel id :
    (forall d, lookup_decl fl id = Some d -> decl_law fuel fl sch d) ->
    forall v bs, rust_encode fuel fl sch id v = Ok bs ->
                 rust_encoded_len fuel fl sch id v = Some (len bs).
  Proof.
    intros HA v bs H. unfold rust_encode in H. unfold rust_encoded_len, rust_len_top.
    destruct (lookup_decl fl id) as [dd|] eqn:El; [|discriminate].
    pose proof (HA dd eq_refl) as Hd.
    destruct dd as [ |i [w|] fn| |i cs0 fs0 par|i cs0 fs0 par| | ];
      destruct v as [n| |l|o]; try discriminate.
    - destruct (integer_width w); [|discriminate]. inversion H.
      rewrite bytes_E_len, nbytes_N. reflexivity.
    - destruct (obj_payload o) as [pl|] eqn:Ep; [|discriminate].
      rewrite <- (obj_payload_len_eq _ _ Ep).
      refine (Hd _ _ _ _ _ _ _ H). intros pl0 E. inversion E. reflexivity.
    - destruct (obj_payload o) as [pl|] eqn:Ep; [|discriminate].
      rewrite <- (obj_payload_len_eq _ _ Ep).
      refine (Hd _ _ _ _ _ _ _ H). intros pl0 E. inversion E. reflexivity.
  Qed.
End Step.

(** ** (I) Every declaration of a file, nested types and parents included.
    The one premise left about the emitted code is [Hstatic]: a type to which the
    schema gives a static size encodes to that many bytes. *)
Definition file_arrs_wf (fl : file) : bool :=
  forallb (fun d => forallb arr_wf (decl_fields d)) (f_decls fl).

Section Full.
  Variable fl : file.
  Variable sch : schema.
  Hypothesis Hsch : schema_knows_enums fl sch.
  Hypothesis Hcust : schema_knows_customs fl sch.
  Hypothesis Hwf : file_arrs_wf fl = true.
  Hypothesis Hstatic : forall fuel tid v bs w,
    rust_encode fuel fl sch tid v = Ok bs -> type_static_bits sch tid = Some w -> len bs = w / 8.

  Lemma decl_law_all : forall fuel id d, lookup_decl fl id = Some d -> decl_law fuel fl sch d.
  Proof.
    induction fuel as [|fuel IH]; intros id d Hl.
    - intros all_fields cs obj pa ps bs _ H. cbn [rust_enc_decl] in H. discriminate.
    - apply (decl_step fl sch Hsch Hcust fuel (fun _ => True) d).
      + intros tid v bs _ H. exact (top_of_decl fl sch fuel tid (IH tid) v bs H).
      + intros tid v bs w _ H Hs. exact (Hstatic fuel tid v bs w H Hs).
      + intros f Hin. split; [|intros; exact I].
        unfold file_arrs_wf in Hwf. rewrite forallb_forall in Hwf.
        pose proof (Hwf d (lookup_decl_In _ _ _ Hl)) as Hd. cbv beta in Hd.
        rewrite forallb_forall in Hd. exact (Hd f Hin).
      + intros p Hp. unfold get_parent in Hp.
        destruct (decl_parent_id d) as [pid|]; [|discriminate]. exact (IH pid p Hp).
  Qed.

  Theorem rust_encode_len : forall fuel id v bs,
    rust_encode fuel fl sch id v = Ok bs -> rust_encoded_len fuel fl sch id v = Some (len bs).
  Proof.
    intros fuel id v bs H. exact (top_of_decl fl sch fuel id (decl_law_all fuel id) v bs H).
  Qed.
End Full.

(** ** (II) No premise about the emitted code: declarations whose fields -- their own and
    their ancestors' -- never reach a struct or an unsized custom type.  Everything else
    is allowed: all bit-field kinds, optional scalars and enums, payload / body,
    padding, arrays of scalars and enums (padded or not), sized custom fields. *)
Definition rec_free (fl : file) (d : decl) : bool :=
  forallb (fun f => arr_wf f && match rec_tid fl f with None => true | Some _ => false end)
          (decl_fields d).

Fixpoint chain_rec_free (fuel : nat) (fl : file) (d : decl) : bool :=
  match fuel with
  | O => true
  | S k => rec_free fl d && match get_parent fl d with
                            | Some p => chain_rec_free k fl p
                            | None => true
                            end
  end.

Section RecFree.
  Variable fl : file.
  Variable sch : schema.
  Hypothesis Hsch : schema_knows_enums fl sch.
  Hypothesis Hcust : schema_knows_customs fl sch.

  Lemma decl_law_rec_free : forall fuel d, chain_rec_free fuel fl d = true -> decl_law fuel fl sch d.
  Proof.
    induction fuel as [|fuel IH]; intros d Hc.
    - intros all_fields cs obj pa ps bs _ H. cbn [rust_enc_decl] in H. discriminate.
    - cbn [chain_rec_free] in Hc. apply andb_true_iff in Hc. destruct Hc as [Hd Hp].
      apply (decl_step fl sch Hsch Hcust fuel (fun _ => False) d).
      + intros tid v bs [].
      + intros tid v bs w [].
      + intros f Hin. unfold rec_free in Hd. rewrite forallb_forall in Hd.
        pose proof (Hd f Hin) as Hf. apply andb_true_iff in Hf. destruct Hf as [Hwf Hr].
        split; [exact Hwf|]. intros tid Et. rewrite Et in Hr. discriminate.
      + intros p Egp. rewrite Egp in Hp. exact (IH p Hp).
  Qed.

  Theorem rust_encode_len_rec_free fuel id d v bs :
    lookup_decl fl id = Some d ->
    chain_rec_free fuel fl d = true ->
    rust_encode fuel fl sch id v = Ok bs ->
    rust_encoded_len fuel fl sch id v = Some (len bs).
  Proof.
    intros Hl Hc H. refine (top_of_decl fl sch fuel id _ v bs H).
    intros d' Hd'. rewrite Hl in Hd'. inversion Hd'; subst d'. exact (decl_law_rec_free fuel d Hc).
  Qed.

  (** root declarations *)
  Corollary rust_encode_len_root fuel id d v bs :
    lookup_decl fl id = Some d ->
    get_parent fl d = None ->
    rec_free fl d = true ->
    rust_encode (S fuel) fl sch id v = Ok bs ->
    rust_encoded_len (S fuel) fl sch id v = Some (len bs).
  Proof.
    intros Hl Hp Hr. apply (rust_encode_len_rec_free (S fuel) id d v bs Hl).
    cbn [chain_rec_free]. rewrite Hr, Hp. reflexivity.
  Qed.
End RecFree.

(** ** (III) The schema [mk_schema] computes knows the sized custom fields. *)
Definition custom_widths_fit (fl : file) : bool :=
  forallb (fun d => match d with DCustomField _ (Some w) _ => fits_usize w | _ => true end) (f_decls fl).

Lemma annotate_custom s i w fn e :
  annotate_decl s (DCustomField i (Some w) fn) = Some e -> e = mkDs (SStatic w) (SStatic 0) (SStatic 0).
Proof.
  unfold annotate_decl. cbn [decl_parent_id decl_fields annotate_fields].
  intros H. inversion H. reflexivity.
Qed.

Theorem mk_schema_knows_customs fl sch :
  custom_widths_fit fl = true -> mk_schema fl = Some sch -> schema_knows_customs fl sch.
Proof.
  intros Hfit Hmk tid i w fn Hl.
  pose proof (go_lookup (f_decls fl) (decl_ids fl) [] sch Hmk tid) as Hg.
  pose proof (lookup_decl_In _ _ _ Hl) as Hin.
  unfold lookup_decl in Hl. rewrite Hl in Hg.
  destruct Hg as (pre & post & s' & e & _ & _ & Hann & Has).
  apply annotate_custom in Hann. subst e.
  unfold type_total. rewrite Has, ds_total_static.
  unfold custom_widths_fit in Hfit. rewrite forallb_forall in Hfit.
  pose proof (Hfit _ Hin) as Hw. cbv beta iota in Hw. rewrite Hw. reflexivity.
Qed.

Theorem rust_encode_len_real_schema fuel fl sch id d v bs :
  enum_widths_fit fl = true -> custom_widths_fit fl = true ->
  mk_schema fl = Some sch ->
  lookup_decl fl id = Some d ->
  chain_rec_free fuel fl d = true ->
  rust_encode fuel fl sch id v = Ok bs ->
  rust_encoded_len fuel fl sch id v = Some (len bs).
Proof.
  intros He Hc Hmk. apply rust_encode_len_rec_free.
  - exact (mk_schema_knows_enums fl sch He Hmk).
  - exact (mk_schema_knows_customs fl sch Hc Hmk).
Qed.

(** ** (IV) Files in which no struct or packet has a static size: [Hstatic] is then a
    theorem (only sized custom fields have a static size and an [encode]), and the law
    holds for EVERY declaration, through nested structs, arrays of structs, optional
    structs and parents, with nothing assumed about the emitted code. *)
Definition no_static_structs (fl : file) (sch : schema) : bool :=
  forallb (fun d => match d with
                    | DStruct id _ _ _ | DPacket id _ _ _ =>
                        match type_static_bits sch id with None => true | Some _ => false end
                    | _ => true
                    end) (f_decls fl).

Lemma static_of_no_static_structs fl sch :
  schema_knows_customs fl sch -> no_static_structs fl sch = true ->
  forall fuel tid v bs w,
    rust_encode fuel fl sch tid v = Ok bs -> type_static_bits sch tid = Some w -> len bs = w / 8.
Proof.
  intros Hcust Hns fuel tid v bs w H Es. unfold rust_encode in H.
  destruct (lookup_decl fl tid) as [dd|] eqn:El; [|discriminate].
  pose proof (lookup_decl_In _ _ _ El) as Hin.
  pose proof (lookup_decl_id _ _ _ El) as Hid.
  unfold no_static_structs in Hns. rewrite forallb_forall in Hns.
  pose proof (Hns dd Hin) as Hd. cbv beta in Hd.
  destruct dd as [ |i [cw|] fn| |i cs0 fs0 par|i cs0 fs0 par| | ];
    destruct v as [n| |l|o]; try discriminate.
  - destruct (integer_width cw); [|discriminate]. inversion H.
    unfold type_static_bits in Es. rewrite (Hcust _ _ _ _ El) in Es. inversion Es; subst w.
    rewrite bytes_E_len, nbytes_N. reflexivity.
  - cbn [decl_id] in Hid. inversion Hid; subst i. rewrite Es in Hd. discriminate.
  - cbn [decl_id] in Hid. inversion Hid; subst i. rewrite Es in Hd. discriminate.
Qed.

Theorem rust_encode_len_dynamic_structs fuel fl sch id v bs :
  enum_widths_fit fl = true -> custom_widths_fit fl = true ->
  mk_schema fl = Some sch ->
  file_arrs_wf fl = true ->
  no_static_structs fl sch = true ->
  rust_encode fuel fl sch id v = Ok bs ->
  rust_encoded_len fuel fl sch id v = Some (len bs).
Proof.
  intros He Hc Hmk Hwf Hns.
  pose proof (mk_schema_knows_customs fl sch Hc Hmk) as Hcust.
  apply (rust_encode_len fl sch (mk_schema_knows_enums fl sch He Hmk) Hcust Hwf).
  exact (static_of_no_static_structs fl sch Hcust Hns).
Qed.

(** ** Non-vacuity (computed) *)
Open Scope string_scope.

Definition lfld (x : fdesc) : field := mkField x None.

(** every bit-field kind, an optional scalar under a flag, scalar and enum arrays (one
    padded), a sized custom field, a payload, and a child packet *)
Definition len_file : file :=
  mkFile LittleEndian
    [DEnum "E" [TagValue "A" 1; TagValue "B" 2] 8;
     DCustomField "C" (Some 16) "c";
     DPacket "P" []
       [lfld (Scalar "a" 4); lfld (Flag "fo" [("o", 1)]); lfld (Reserved 3);
        lfld (Typedef "e" "E");
        lfld (Size "_payload_" 8); lfld (Count "x" 8);
        lfld (Array "x" (Some 16) None None None);
        lfld (Array "y" None (Some "E") None None); lfld (Padding 4);
        lfld (Typedef "c" "C");
        mkField (Scalar "o" 16) (Some (mkConstr "fo" (Some 1) None));
        lfld (Payload None)] None;
     DPacket "Q" [] [lfld (Scalar "q" 8); lfld (FixedScalar 8 7); lfld (FixedEnum "E" "B")] (Some "P")].

Definition len_value : value :=
  VObj [("a", VNum 5); ("e", VNum 2); ("x", VList [VNum 258; VNum 772]); ("y", VList [VNum 1]);
        ("c", VNum 4660); ("o", VNum 7); ("q", VNum 9)].

Example len_example :
  exists sch d, mk_schema len_file = Some sch /\
    enum_widths_fit len_file = true /\ custom_widths_fit len_file = true /\
    lookup_decl len_file "Q" = Some d /\ chain_rec_free 5 len_file d = true /\
    rust_encode 5 len_file sch "Q" len_value
      = Ok [x15; x02; x03; x02; x02; x01; x04; x03; x01; x00; x00; x00; x34; x12; x07; x00; x09; x07; x02] /\
    rust_encoded_len 5 len_file sch "Q" len_value = Some 19.
Proof. do 2 eexists. repeat (split; [reflexivity|]). reflexivity. Qed.

(** the theorem applied: every value, not only the computed one *)
Example len_example_every_value sch v bs :
  mk_schema len_file = Some sch ->
  rust_encode 5 len_file sch "Q" v = Ok bs ->
  rust_encoded_len 5 len_file sch "Q" v = Some (len bs).
Proof.
  intros Hmk. eapply rust_encode_len_real_schema; try exact Hmk; reflexivity.
Qed.

(** nested dynamic structs: a typedef, an array and an optional field of struct type *)
Definition dyn_file : file :=
  mkFile BigEndian
    [DStruct "S" [] [lfld (Count "a" 8); lfld (Array "a" (Some 8) None None None)] None;
     DPacket "P" []
       [lfld (Flag "fo" [("o", 1)]); lfld (Reserved 7);
        lfld (Typedef "s" "S");
        mkField (Typedef "o" "S") (Some (mkConstr "fo" (Some 1) None));
        lfld (Array "ss" None (Some "S") None None)] None].

Definition dyn_S (l : list N) : value := VObj [("a", VList (map VNum l))].
Definition dyn_value : value :=
  VObj [("s", dyn_S [1; 2]); ("o", dyn_S [3]); ("ss", VList [dyn_S []; dyn_S [4; 5; 6]])].

Example dyn_example :
  exists sch, mk_schema dyn_file = Some sch /\
    file_arrs_wf dyn_file = true /\ no_static_structs dyn_file sch = true /\
    rust_encode 5 dyn_file sch "P" dyn_value
      = Ok [x01; x02; x01; x02; x01; x03; x00; x03; x04; x05; x06] /\
    rust_encoded_len 5 dyn_file sch "P" dyn_value = Some 11.
Proof. eexists. repeat (split; [reflexivity|]). reflexivity. Qed.

Example dyn_example_every_value fuel sch id v bs :
  mk_schema dyn_file = Some sch ->
  rust_encode fuel dyn_file sch id v = Ok bs ->
  rust_encoded_len fuel dyn_file sch id v = Some (len bs).
Proof.
  intros Hmk. apply rust_encode_len_dynamic_structs; try exact Hmk; try reflexivity.
  vm_compute in Hmk. inversion Hmk. reflexivity.
Qed.

(** ** Where the model's [encode] and [encoded_len] part ways.
    A struct with a constant-count array has a static size in the schema, so the packet
    that embeds it adds [16 / 8] without looking at the value; [encode] writes the
    elements it is given.  A list of three elements is not a value of the Rust type
    [[u8; 2]], so this is an ill-typed input of the MODEL, not an execution of the
    generated code: it is the reason [Hstatic] is a premise of [rust_encode_len]. *)
Definition st_file : file :=
  mkFile LittleEndian
    [DStruct "S" [] [lfld (Array "a" (Some 8) None None (Some 2))] None;
     DPacket "P" [] [lfld (Typedef "s" "S")] None].
Definition st_value (l : list value) : value := VObj [("s", VObj [("a", VList l)])].

Example static_array_ill_typed :
  exists sch, mk_schema st_file = Some sch /\
    rust_encode 5 st_file sch "P" (st_value [VNum 1; VNum 2; VNum 3]) = Ok [x01; x02; x03] /\
    rust_encoded_len 5 st_file sch "P" (st_value [VNum 1; VNum 2; VNum 3]) = Some 2 /\
    rust_encode 5 st_file sch "P" (st_value [VNum 1; VNum 2]) = Ok [x01; x02] /\
    rust_encoded_len 5 st_file sch "P" (st_value [VNum 1; VNum 2]) = Some 2.
Proof. eexists. repeat (split; [reflexivity|]). reflexivity. Qed.

Print Assumptions enc_fields_len.
Print Assumptions rust_encode_len.
Print Assumptions rust_encode_len_rec_free.
Print Assumptions rust_encode_len_root.
Print Assumptions rust_encode_len_real_schema.
Print Assumptions rust_encode_len_dynamic_structs.
Print Assumptions len_example_every_value.
Print Assumptions dyn_example_every_value.
