(** What the analyzer's [check_enum_declaration] establishes: when it reports nothing for an
    enum declaration, the tag list satisfies the two hypotheses under which the Rust
    conversions are exact (Proofs/EnumExact.v): [tags_bounded] and [wf_tagsb].  Together
    with [rust_try_from_exact] this makes C15 a statement about every enum the analyzer
    accepts, with no side condition left on the tags. *)
From Coq Require Import NArith List String Bool Lia ZifyN ZifyBool Permutation.
From PDL Require Import Base.Bits Lang.Ast Lang.Sexp Analyzer.Passes Rust.Enum Proofs.EnumExact.
Import ListNotations.
Open Scope N_scope.

(** ** every step of the fold only APPENDS diagnostics *)

Definition extends (st st' : estate) : Prop := exists X, ediags st' = (ediags st ++ X)%list.

Lemma extends_refl st : extends st st.
Proof. exists []. now rewrite app_nil_r. Qed.

Lemma extends_trans a b c : extends a b -> extends b c -> extends a c.
Proof. intros [X HX] [Y HY]. exists (X ++ Y)%list. rewrite HY, HX. now rewrite app_assoc. Qed.

Lemma extends_nil st st' : extends st st' -> ediags st' = [] -> ediags st = [].
Proof. intros [X HX] H. rewrite HX in H. now apply app_eq_nil in H. Qed.

Lemma insert_tag_id_ext st id : extends st (insert_tag_id st id).
Proof. unfold insert_tag_id. eexists. reflexivity. Qed.

Lemma epush_ext st ds : extends st (epush st ds).
Proof. unfold epush. eexists. reflexivity. Qed.

Lemma epush_nil st ds : ediags (epush st ds) = [] -> ds = [].
Proof. unfold epush. cbn [ediags]. intros H. now apply app_eq_nil in H. Qed.

Lemma check_tag_value_ext id v range rr st : extends st (check_tag_value id v range rr st).
Proof.
  unfold check_tag_value.
  eapply extends_trans; [apply insert_tag_id_ext|].
  eapply extends_trans; [|apply epush_ext].
  eapply extends_trans; [|apply epush_ext].
  eexists. cbn [ediags]. reflexivity.
Qed.

Lemma flat_map_nil {A B} (f : A -> list B) l :
  flat_map f l = [] -> forall x, In x l -> f x = [].
Proof.
  induction l as [|a l IH]; intros H x Hx; [destruct Hx|].
  cbn [flat_map] in H. apply app_eq_nil in H. destruct H as [Ha Hl].
  destruct Hx as [->|Hx]; [exact Ha | apply IH; assumption].
Qed.

(** what an empty result of [check_tag_value] says *)
Lemma check_tag_value_nil id v range rr st :
  ediags (check_tag_value id v range rr st) = [] ->
  range_contains range v = true /\
  forall r, In r rr -> range_contains (ordered_range r) v = false.
Proof.
  unfold check_tag_value. intros H.
  pose proof (epush_nil _ _ H) as H43.
  match type of H with ediags (epush ?s _) = [] =>
    assert (H1 : ediags s = []) by (eapply extends_nil; [apply epush_ext | exact H]) end.
  pose proof (epush_nil _ _ H1) as H14.
  split.
  - destruct (range_contains range v); [reflexivity | discriminate].
  - intros r Hr. pose proof (flat_map_nil _ _ H43 r Hr) as Hx. cbv beta in Hx.
    destruct (range_contains (ordered_range r) v); [discriminate | reflexivity].
Qed.

Lemma fold_value_ext range inner : forall st,
  extends st (fold_left (fun st (t : string * N) => check_tag_value (fst t) (snd t) range [] st) inner st).
Proof.
  induction inner as [|t inner IH]; intros st; cbn [fold_left]; [apply extends_refl|].
  eapply extends_trans; [apply check_tag_value_ext | apply IH].
Qed.

Lemma fold_value_nil range inner : forall st,
  ediags (fold_left (fun st (t : string * N) => check_tag_value (fst t) (snd t) range [] st) inner st) = [] ->
  forall t, In t inner -> range_contains range (snd t) = true.
Proof.
  induction inner as [|t0 inner IH]; intros st H t Ht; [destruct Ht|].
  cbn [fold_left] in H. destruct Ht as [->|Ht].
  - assert (H0 : ediags (check_tag_value (fst t) (snd t) range [] st) = [])
      by (eapply extends_nil; [apply fold_value_ext | exact H]).
    apply (check_tag_value_nil _ _ _ _ _ H0).
  - eapply IH; eassumption.
Qed.

Lemma check_tag_range_ext id tr inner range st : extends st (check_tag_range id tr inner range st).
Proof.
  unfold check_tag_range.
  eapply extends_trans; [apply insert_tag_id_ext|].
  eapply extends_trans; [apply epush_ext|].
  eapply extends_trans; [apply epush_ext|]. apply fold_value_ext.
Qed.

Lemma check_tag_range_nil id lo hi inner range st :
  ediags (check_tag_range id (lo, hi) inner range st) = [] ->
  range_contains range lo = true /\ range_contains range hi = true /\ lo < hi /\
  forall t, In t inner -> lo <= snd t <= hi.
Proof.
  unfold check_tag_range. cbn [fst snd]. intros H.
  match type of H with ediags (fold_left _ _ ?s) = [] =>
    assert (H1 : ediags s = []) by (eapply extends_nil; [apply fold_value_ext | exact H]) end.
  pose proof (epush_nil _ _ H1) as Hord.
  match type of H1 with ediags (epush ?s _) = [] =>
    assert (H2 : ediags s = []) by (eapply extends_nil; [apply epush_ext | exact H1]) end.
  pose proof (epush_nil _ _ H2) as Hin.
  assert (Hlt : lo < hi).
  { destruct (hi <=? lo) eqn:E; [discriminate|]. apply N.leb_gt in E. exact E. }
  assert (Hlo : range_contains range lo = true /\ range_contains range hi = true).
  { destruct (range_contains range lo), (range_contains range hi); cbn in Hin; try discriminate; split; reflexivity. }
  destruct Hlo as [Hlo Hhi]. repeat split; try assumption;
    pose proof (fold_value_nil _ _ _ H t H0) as Hc;
    unfold range_contains, ordered_range in Hc; cbn [fst snd] in Hc; lia.
Qed.

Lemma check_tag_other_ext id st : extends st (check_tag_other id st).
Proof.
  unfold check_tag_other. eapply extends_trans; [apply insert_tag_id_ext|].
  eexists. cbn [ediags]. reflexivity.
Qed.

(** ** the per-tag facts *)

Definition good_tag (range : N * N) (rr : list (N * N)) (t : tag) : Prop :=
  match t with
  | TagValue _ v => range_contains range v = true /\
                    forall r, In r rr -> range_contains (ordered_range r) v = false
  | TagRange _ lo hi inner =>
      range_contains range lo = true /\ range_contains range hi = true /\ lo < hi /\
      forall p, In p inner -> lo <= snd p <= hi
  | TagOther _ => True
  end.

Definition estep (range : N * N) (rr : list (N * N)) (st : estate) (t : tag) : estate :=
  match t with
  | TagValue id v => check_tag_value id v range rr st
  | TagRange id lo hi inner => check_tag_range id (lo, hi) inner range st
  | TagOther id => check_tag_other id st
  end.

Lemma estep_ext range rr st t : extends st (estep range rr st t).
Proof.
  destruct t; cbn [estep];
    [apply check_tag_value_ext | apply check_tag_range_ext | apply check_tag_other_ext].
Qed.

Lemma fold_estep_ext range rr tags : forall st, extends st (fold_left (estep range rr) tags st).
Proof.
  induction tags as [|t tags IH]; intros st; cbn [fold_left]; [apply extends_refl|].
  eapply extends_trans; [apply estep_ext | apply IH].
Qed.

Lemma fold_estep_nil range rr tags : forall st,
  ediags (fold_left (estep range rr) tags st) = [] -> Forall (good_tag range rr) tags.
Proof.
  induction tags as [|t tags IH]; intros st H; [constructor|].
  cbn [fold_left] in H. constructor; [|eapply IH; exact H].
  assert (H0 : ediags (estep range rr st t) = [])
    by (eapply extends_nil; [apply fold_estep_ext | exact H]).
  destruct t; cbn [estep good_tag] in *.
  - apply (check_tag_value_nil _ _ _ _ _ H0).
  - apply (check_tag_range_nil _ _ _ _ _ _ H0).
  - exact I.
Qed.

(** ** adjacent-disjoint in sorted order = pairwise disjoint *)

Definition ranges_of (tags : list tag) : list (N * N) :=
  flat_map (fun t => match t with TagRange _ lo hi _ => [(lo, hi)] | _ => [] end) tags.

Definition proper (r : N * N) : Prop := fst r < snd r.
Definition disjoint (a b : N * N) : Prop := snd a < fst b \/ snd b < fst a.

Lemma disjoint_sym a b : disjoint a b -> disjoint b a.
Proof. unfold disjoint. tauto. Qed.

Lemma insert_range_perm x l : Permutation (x :: l) (insert_range x l).
Proof.
  induction l as [|y l IH]; cbn [insert_range]; [apply Permutation_refl|].
  destruct (range_leb y x); [|apply Permutation_refl].
  eapply perm_trans; [apply perm_swap|]. apply perm_skip. exact IH.
Qed.

Lemma sort_ranges_perm_gen l : forall acc,
  Permutation (l ++ acc)%list (fold_left (fun acc x => insert_range x acc) l acc).
Proof.
  induction l as [|x l IH]; intros acc; cbn [fold_left app]; [apply Permutation_refl|].
  eapply perm_trans; [|apply IH].
  eapply perm_trans; [apply Permutation_middle|].
  apply Permutation_app_head. apply insert_range_perm.
Qed.

Lemma sort_ranges_perm l : Permutation l (sort_ranges l).
Proof.
  unfold sort_ranges. pose proof (sort_ranges_perm_gen l []) as H. now rewrite app_nil_r in H.
Qed.

(** sortedness: every element is [range_leb] every later one *)
Definition leb_all (x : N * N) (l : list (N * N)) : Prop := forall y, In y l -> range_leb x y = true.

Fixpoint sorted (l : list (N * N)) : Prop :=
  match l with
  | [] => True
  | x :: l' => leb_all x l' /\ sorted l'
  end.

Lemma range_leb_total a b : range_leb a b = false -> range_leb b a = true.
Proof. unfold range_leb. intros H. lia. Qed.

Lemma range_leb_trans a b c : range_leb a b = true -> range_leb b c = true -> range_leb a c = true.
Proof. unfold range_leb. intros H1 H2. lia. Qed.

Lemma insert_range_in x l y : In y (insert_range x l) -> y = x \/ In y l.
Proof.
  intros H. apply (Permutation_in y (Permutation_sym (insert_range_perm x l))) in H.
  destruct H as [->|H]; auto.
Qed.

Lemma insert_range_sorted x l : sorted l -> sorted (insert_range x l).
Proof.
  induction l as [|y l IH]; intros Hs; cbn [insert_range].
  - split; [intros ? []|exact I].
  - destruct Hs as [Hy Hl]. destruct (range_leb y x) eqn:E.
    + split; [|apply IH; exact Hl].
      intros z Hz. apply insert_range_in in Hz. destruct Hz as [->|Hz]; [exact E|apply Hy; exact Hz].
    + split; [|split; assumption].
      intros z [<-|Hz]; [apply range_leb_total; exact E|].
      eapply range_leb_trans; [apply range_leb_total; exact E | apply Hy; exact Hz].
Qed.

Lemma sort_ranges_sorted l : sorted (sort_ranges l).
Proof.
  unfold sort_ranges.
  assert (G : forall acc, sorted acc -> sorted (fold_left (fun acc x => insert_range x acc) l acc)).
  { induction l as [|x l IH]; intros acc Ha; cbn [fold_left]; [exact Ha|].
    apply IH. apply insert_range_sorted. exact Ha. }
  apply G. exact I.
Qed.

Fixpoint pairwise (P : N * N -> N * N -> Prop) (l : list (N * N)) : Prop :=
  match l with
  | [] => True
  | x :: l' => (forall y, In y l' -> P x y) /\ pairwise P l'
  end.

Lemma overlaps_nil_pairwise l :
  sorted l -> (forall r, In r l -> proper r) -> check_overlaps l = [] -> pairwise disjoint l.
Proof.
  induction l as [|a l IH]; intros Hs Hp Hc; [exact I|].
  destruct Hs as [Ha Hs].
  destruct l as [|b l'].
  - split; [intros ? []|exact I].
  - cbn [check_overlaps] in Hc. apply app_eq_nil in Hc. destruct Hc as [Hab Hc].
    assert (Hadj : snd a < fst b).
    { pose proof (Ha b (or_introl eq_refl)) as Hle. unfold range_leb in Hle.
      pose proof (Hp b (or_intror (or_introl eq_refl))) as Hpb. unfold proper in Hpb.
      destruct (negb ((snd a <? fst b) || (snd b <? fst a))) eqn:E; [discriminate|]. lia. }
    split.
    + intros y Hy. left.
      destruct Hy as [<-|Hy]; [exact Hadj|].
      destruct Hs as [Hb _]. pose proof (Hb y Hy) as Hby. unfold range_leb in Hby. lia.
    + apply IH; [exact Hs | intros r Hr; apply Hp; right; exact Hr | exact Hc].
Qed.

Lemma pairwise_perm (P : N * N -> N * N -> Prop) l l' :
  (forall a b, P a b -> P b a) -> Permutation l l' -> pairwise P l -> pairwise P l'.
Proof.
  intros Hsym Hp. induction Hp as [|x l l' Hp IH|x y l|l l' l'' H1 IH1 H2 IH2]; intros H.
  - exact I.
  - destruct H as [Hx Hl]. split; [|apply IH; exact Hl].
    intros z Hz. apply Hx. eapply Permutation_in; [apply Permutation_sym; exact Hp | exact Hz].
  - destruct H as [Hy [Hx Hl]]. split; [|split].
    + intros z [<-|Hz]; [apply Hsym; apply Hy; left; reflexivity | apply Hx; exact Hz].
    + intros z Hz. apply Hy. right. exact Hz.
    + exact Hl.
  - apply IH2. apply IH1. exact H.
Qed.

Lemma pairwise_split P a r1 b r2 c :
  pairwise P (a ++ r1 :: b ++ r2 :: c)%list -> P r1 r2.
Proof.
  induction a as [|x a IH]; cbn [app pairwise]; intros [H1 H2]; [|apply IH; exact H2].
  apply H1. apply in_or_app. right. left. reflexivity.
Qed.

Lemma map_id_on {A} (f : A -> A) l : (forall x, In x l -> f x = x) -> map f l = l.
Proof.
  induction l as [|a l IH]; intros H; [reflexivity|]. cbn [map].
  rewrite (H a (or_introl eq_refl)), IH; [reflexivity|]. intros x Hx. apply H. right. exact Hx.
Qed.

Lemma ordered_proper r : proper r -> ordered_range r = r.
Proof. destruct r as [lo hi]. unfold proper, ordered_range. cbn [fst snd]. intros H. f_equal; lia. Qed.

(** ** the result *)

Lemma ranges_of_good range rr tags :
  Forall (good_tag range rr) tags -> forall r, In r (ranges_of tags) -> proper r.
Proof.
  induction 1 as [|t tags Ht _ IH]; intros r Hr; [destruct Hr|].
  unfold ranges_of in Hr. cbn [flat_map] in Hr. apply in_app_or in Hr. destruct Hr as [Hr|Hr].
  - destruct t as [i v|i lo hi inner|i]; cbn [In] in Hr; try contradiction.
    destruct Hr as [<-|[]]. destruct Ht as (_ & _ & Hlt & _). exact Hlt.
  - apply IH. exact Hr.
Qed.

Lemma ranges_of_app a b : ranges_of (a ++ b) = (ranges_of a ++ ranges_of b)%list.
Proof. unfold ranges_of. apply flat_map_app. Qed.

Lemma wf_from_good range tags :
  Forall (good_tag range (ranges_of tags)) tags ->
  pairwise disjoint (ranges_of tags) ->
  wf_tagsb tags = true.
Proof.
  intros Hgood Hpw.
  (* generalise over a split of the list: pre ++ cur *)
  assert (G : forall pre cur, tags = (pre ++ cur)%list -> wf_tagsb cur = true).
  { intros pre cur. revert pre. induction cur as [|t cur IH]; intros pre E; [reflexivity|].
    assert (Hrest : wf_tagsb cur = true).
    { apply (IH (pre ++ [t])%list). rewrite E. now rewrite <- app_assoc. }
    destruct t as [id v|id lo hi inner|id]; cbn [wf_tagsb]; try exact Hrest.
    rewrite Hrest, andb_true_r. apply forallb_forall. intros p Hp.
    apply in_flat_map in Hp. destruct Hp as [t' [Ht' Hp]].
    assert (Hin' : In t' tags) by (rewrite E; apply in_or_app; right; right; exact Ht').
    assert (Hinr : In (lo, hi) (ranges_of tags)).
    { rewrite E, ranges_of_app. apply in_or_app. right. unfold ranges_of. cbn [flat_map]. left. reflexivity. }
    rewrite Forall_forall in Hgood. pose proof (Hgood t' Hin') as Gt'.
    assert (Hlh : lo < hi).
    { pose proof (Hgood (TagRange id lo hi inner)) as Gr. cbn [good_tag] in Gr.
      destruct Gr as (_ & _ & Hlt & _); [rewrite E; apply in_or_app; right; left; reflexivity | exact Hlt]. }
    destruct t' as [id' v'|id' lo' hi' inner'|id']; cbn [tag_values] in Hp.
    - destruct Hp as [<-|[]]. cbn [snd]. destruct Gt' as [_ Hout].
      pose proof (Hout (lo, hi) Hinr) as Ho. rewrite (ordered_proper (lo, hi) Hlh) in Ho.
      unfold range_contains in Ho. cbn [fst snd] in Ho. rewrite Ho. reflexivity.
    - destruct Gt' as (_ & _ & _ & Hinner). pose proof (Hinner p Hp) as Hv.
      (* (lo,hi) comes before (lo',hi') in ranges_of tags *)
      apply in_split in Ht'. destruct Ht' as [c1 [c2 Ec]].
      assert (Hd : disjoint (lo, hi) (lo', hi')).
      { apply (pairwise_split disjoint (ranges_of pre) (lo, hi) (ranges_of c1) (lo', hi') (ranges_of c2)).
        assert (Er : ranges_of tags =
                     (ranges_of pre ++ (lo, hi) :: ranges_of c1 ++ (lo', hi') :: ranges_of c2)%list).
        { rewrite E, Ec. rewrite ranges_of_app. f_equal.
          change (TagRange id lo hi inner :: c1 ++ TagRange id' lo' hi' inner' :: c2)%list
            with ([TagRange id lo hi inner] ++ c1 ++ [TagRange id' lo' hi' inner'] ++ c2)%list.
          rewrite !ranges_of_app. reflexivity. }
        rewrite <- Er. exact Hpw. }
      unfold disjoint in Hd. cbn [fst snd] in Hd.
      destruct ((lo <=? snd p) && (snd p <=? hi)) eqn:Eb; [exfalso; lia | reflexivity].
    - destruct Hp. }
  apply (G [] tags). reflexivity.
Qed.

Lemma bounded_from_good w rr tags :
  Forall (good_tag (0, scalar_max w) rr) tags -> tags_bounded (scalar_max w) tags = true.
Proof.
  intros H. unfold tags_bounded. apply forallb_forall. intros t Ht.
  rewrite Forall_forall in H. pose proof (H t Ht) as G.
  destruct t as [id v|id lo hi inner|id]; cbn [good_tag tag_bounded] in *.
  - destruct G as [G _]. unfold range_contains in G. cbn [fst snd] in G. lia.
  - destruct G as (Glo & Ghi & Hlt & Hin). unfold range_contains in Glo, Ghi. cbn [fst snd] in Glo, Ghi.
    apply andb_true_iff. split; [lia|].
    apply forallb_forall. intros p Hp. pose proof (Hin p Hp). lia.
  - reflexivity.
Qed.

Theorem accepted_enum_is_wellformed id tags w :
  check_enum_declaration (DEnum id tags w) = [] ->
  wf_tagsb tags = true /\ tags_bounded (scalar_max w) tags = true.
Proof.
  unfold check_enum_declaration. intros H.
  apply app_eq_nil in H. destruct H as [Hd Ho].
  change (fold_left _ tags (mkEstate [] [] false []))
    with (fold_left (estep (0, scalar_max w) (ranges_of tags)) tags (mkEstate [] [] false [])) in Hd.
  pose proof (fold_estep_nil _ _ _ _ Hd) as Hgood.
  split; [|eapply bounded_from_good; exact Hgood].
  apply (wf_from_good (0, scalar_max w)); [exact Hgood|].
  fold (ranges_of tags) in Ho.
  pose proof (ranges_of_good _ _ _ Hgood) as Hprop.
  rewrite (map_id_on ordered_range) in Ho by (intros r Hr; apply ordered_proper; apply Hprop; exact Hr).
  eapply pairwise_perm; [exact disjoint_sym | apply Permutation_sym; apply sort_ranges_perm |].
  apply overlaps_nil_pairwise; [apply sort_ranges_sorted | | exact Ho].
  intros r Hr. apply Hprop. eapply Permutation_in; [apply Permutation_sym; apply sort_ranges_perm | exact Hr].
Qed.
