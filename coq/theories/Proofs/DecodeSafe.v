(** The emitted decoder never panics AT RUN TIME and never diverges on declarations
    made of bit-fields only (scalars, enums, fixed, reserved, size/count/element-size,
    flags -- every field for which [is_bitfield] holds and that carries no condition):
    whatever the bytes, the overflow mode, the schema and the fuel, the result is a
    value, a [DecodeError], or a refusal of the GENERATOR (pdlc panics at generation time:
    no code is emitted, nothing runs).

    The run-time panic kinds ([BufUnderflow], [SliceIndex], [SplitAt], [ChunksZero],
    [DivZero], [ArithOverflow], [CapacityOverflow]) are the ones of Base/Outcome.v that
    stand for a panic of the emitted code; the generator kinds are [UnwrapFail], [GenTodo],
    [GenUnreachable], [GenAssert]. *)
From Coq Require Import NArith List String Bool Lia.
From Coq Require Import Strings.Byte.
From PDL Require Import Base.Bits Base.Outcome Lang.Ast Lang.Sexp Analyzer.Schema Rust.Enum
     Sem.RefEncode Rust.Encode Rust.Decode.
Import ListNotations.
Open Scope N_scope.

Definition gen_panic (k : panic_kind) : bool :=
  match k with
  | UnwrapFail | GenTodo | GenUnreachable | GenAssert => true
  | _ => false
  end.

(** a value, an error, or a refusal of the generator *)
Definition runtime_safe {E A} (x : outcome E A) : Prop :=
  match x with
  | Ok _ | Err _ => True
  | Panic k => gen_panic k = true
  | Diverge => False
  end.

Lemma safe_bind {E A B} (x : outcome E A) (f : A -> outcome E B) :
  runtime_safe x -> (forall a, x = Ok a -> runtime_safe (f a)) -> runtime_safe (bind x f).
Proof.
  intros Hx Hf. destruct x as [a|e|k|]; cbn [bind]; try exact Hx. apply Hf. reflexivity.
Qed.

Lemma check_size_safe sp n : runtime_safe (check_size sp n).
Proof. unfold check_size. destruct (len sp <? n); exact I. Qed.

Lemma check_size_ok sp n u : check_size sp n = Ok u -> (len sp <? n) = false.
Proof. unfold check_size. destruct (len sp <? n); [discriminate|reflexivity]. Qed.

Lemma get_uint_after_check e w sp :
  (len sp <? w / 8) = false -> exists x, get_uint e w sp = Ok x.
Proof. intros H. unfold get_uint. rewrite H. eexists. reflexivity. Qed.

Lemma advance_after_check n sp :
  (len sp <? n) = false -> exists sp', advance n sp = Ok sp'.
Proof. intros H. unfold advance. rewrite H. eexists. reflexivity. Qed.

Section Safe.
  Variable oc : bool.
  Variable fl : file.
  Variable sch : schema.
  Variable rec : string -> list byte -> dres (value * list byte).
  Variable lf : nat.

  Lemma enum_check_safe tid x : runtime_safe (enum_check fl tid x).
  Proof.
    unfold enum_check. destruct (lookup_decl fl tid) as [[]|]; try reflexivity.
    destruct (rust_enum_try_from _ _ _) as [[]|]; try exact I; reflexivity.
  Qed.

  Lemma chunk_field_safe single cv ctw size st d sf :
    runtime_safe (chunk_field fl sch single cv ctw size st d sf).
  Proof.
    unfold chunk_field. destruct sf as [fshift f].
    destruct (field_size sch d f) as [[w| |]|]; try reflexivity.
    destruct (integer_width w) as [vtw|]; [|reflexivity].
    destruct (f_desc f); try exact I; try reflexivity;
      repeat match goal with
      | |- runtime_safe (bind _ _) => apply safe_bind; [apply enum_check_safe | intros; exact I]
      | |- runtime_safe (match enum_tags ?a ?b with _ => _ end) =>
          destruct (enum_tags a b) as [[? ?]|]; [|reflexivity]
      | |- runtime_safe (match enum_tag_value ?a ?b with _ => _ end) =>
          destruct (enum_tag_value a b); [|reflexivity]
      | |- runtime_safe (if ?c then _ else _) => destruct c; exact I
      end.
  Qed.

  Lemma chunk_fields_safe single cv ctw size d cs : forall st,
    runtime_safe (chunk_fields fl sch single cv ctw size st d cs).
  Proof.
    induction cs as [|c cs IH]; intros st; cbn [chunk_fields]; [exact I|].
    apply safe_bind; [apply chunk_field_safe|]. intros st' _. apply IH.
  Qed.

  (** every field is an unconditional bit-field *)
  Definition bits_only (fs : list field) : Prop :=
    forall f, In f fs -> f_cond f = None /\ is_bitfield fl f = true.

  Theorem dec_fields_bits_safe d : forall fs st chunk shift,
    bits_only fs ->
    runtime_safe (dec_fields oc fl sch rec lf d fs st chunk shift).
  Proof.
    induction fs as [|f fs IH]; intros st chunk shift Hb; cbn [dec_fields]; [exact I|].
    destruct (Hb f (or_introl eq_refl)) as [Hc Hbf]. rewrite Hc, Hbf.
    assert (Hb' : bits_only fs) by (intros g Hg; apply Hb; right; exact Hg).
    destruct (field_size sch d f) as [[w| |]|]; try reflexivity.
    destruct ((shift + w) mod 8 =? 0); [|apply IH; exact Hb'].
    apply safe_bind; [apply check_size_safe|]. intros u Hu.
    apply check_size_ok in Hu.
    destruct (integer_width (shift + w)) as [ctw|]; [|reflexivity].
    destruct (is_single_reserved _).
    - destruct (advance_after_check _ _ Hu) as [sp' Hsp]. rewrite Hsp. cbn [bind].
      apply IH; exact Hb'.
    - destruct (get_uint_after_check (E fl) (shift + w) (st_span st) Hu) as [[cv sp'] Hg].
      rewrite Hg. cbn [bind].
      apply safe_bind; [apply chunk_fields_safe|]. intros st' _. apply IH; exact Hb'.
  Qed.
End Safe.

(** ** Whole root declarations made of bit-fields *)

Definition bits_root (fl : file) (d : decl) : Prop :=
  get_parent fl d = None /\ bits_only fl (decl_fields d).

Lemma payload_entry_safe d st : runtime_safe (payload_entry d st).
Proof.
  unfold payload_entry. destruct (decl_payload d); [|exact I].
  destruct (st_payload st); [exact I|reflexivity].
Qed.

Theorem rust_dec_decl_bits_safe fuel oc fl sch d bs :
  bits_root fl d ->
  runtime_safe (rust_dec_decl (S fuel) oc fl sch d bs).
Proof.
  intros [Hp Hb]. cbn [rust_dec_decl]. rewrite Hp.
  apply safe_bind; [apply dec_fields_bits_safe; exact Hb|]. intros st _.
  apply safe_bind; [apply payload_entry_safe|]. intros; exact I.
Qed.

Theorem rust_decode_bits_safe fuel oc fl sch id d bs :
  lookup_decl fl id = Some d ->
  (exists i cs fs p, d = DPacket i cs fs p \/ d = DStruct i cs fs p) ->
  bits_root fl d ->
  runtime_safe (rust_decode (S fuel) oc fl sch id bs).
Proof.
  intros Hl [i [cs [fs [p Hd]]]] Hr. unfold rust_decode. rewrite Hl.
  destruct Hd as [-> | ->]; apply rust_dec_decl_bits_safe; exact Hr.
Qed.

(** ** A larger class: everything but arrays and sized custom fields

    Bit-fields, optional fields (scalar, enum, struct), struct-typed fields, payload and
    body, padding -- in root and derived declarations, through struct recursion: the
    emitted code NEVER PANICS AT RUN TIME, for every input, overflow mode and fuel.
    ([Diverge] here only means that the model ran out of fuel; see
    [rust_dec_decl_bits_safe] for the bit-field class where it is excluded as well.)
    The two exclusions are exactly the listed findings: arrays (F02, F03: element-size
    zero and count * width overflow) and typedef fields of a sized custom-field type
    (F19: no length guard). *)

Definition no_rt_panic {E A} (x : outcome E A) : Prop :=
  match x with Panic k => gen_panic k = true | _ => True end.

Lemma nrp_bind {E A B} (x : outcome E A) (f : A -> outcome E B) :
  no_rt_panic x -> (forall a, x = Ok a -> no_rt_panic (f a)) -> no_rt_panic (bind x f).
Proof.
  intros Hx Hf. destruct x as [a|e|k|]; cbn [bind]; try exact Hx. apply Hf. reflexivity.
Qed.

Lemma safe_nrp {E A} (x : outcome E A) : runtime_safe x -> no_rt_panic x.
Proof. destruct x; cbn; auto. Qed.

Lemma slice_to_after_check n sp : (len sp <? n) = false -> exists p, slice_to n sp = Ok p.
Proof. intros H. unfold slice_to. rewrite H. eexists; reflexivity. Qed.

Section Simple.
  Variable oc : bool.
  Variable fl : file.
  Variable sch : schema.
  Variable rec : string -> list byte -> dres (value * list byte).
  Variable lf : nat.
  Hypothesis rec_ok : forall t sp, no_rt_panic (rec t sp).

  Definition safe_typedef (tid : string) : bool :=
    match lookup_decl fl tid, type_total sch tid with
    | Some (DCustomField _ _ _), Some (SStatic _) => false
    | _, _ => true
    end.

  Definition simple_field (f : field) : bool :=
    match f_cond f with
    | Some _ => true
    | None =>
        if is_bitfield fl f then true else
        match f_desc f with
        | Padding _ | Payload _ | Body => true
        | Typedef _ tid => safe_typedef tid
        | Array _ _ _ _ _ => false
        | _ => true            (* the generator refuses them *)
        end
    end.

  Lemma local_nrp st k : no_rt_panic (local st k).
  Proof. unfold local. destruct (assoc k (st_locals st)); [exact I|reflexivity]. Qed.

  Lemma optional_nrp st f c : no_rt_panic (add_optional_field fl rec st f c).
  Proof.
    unfold add_optional_field. destruct (c_value c) as [cv|]; [|reflexivity].
    apply nrp_bind; [apply local_nrp|]. intros flag _.
    destruct (f_desc f); try reflexivity.
    - (* Scalar *)
      destruct (flag =? cv); [|exact I].
      apply nrp_bind; [apply safe_nrp, check_size_safe|]. intros u Hu. apply check_size_ok in Hu.
      destruct (get_uint_after_check (E fl) _ _ Hu) as [[x sp'] Hg]. rewrite Hg. exact I.
    - (* Typedef *)
      destruct (lookup_decl fl _) as [[]|]; try reflexivity.
      + destruct (flag =? cv); [|exact I].
        apply nrp_bind; [apply safe_nrp, check_size_safe|]. intros u Hu. apply check_size_ok in Hu.
        destruct (get_uint_after_check (E fl) _ _ Hu) as [[x sp'] Hg]. rewrite Hg. cbn [bind].
        apply nrp_bind; [apply safe_nrp, enum_check_safe|]. intros; exact I.
      + destruct (flag =? cv); [|exact I].
        apply nrp_bind; [apply rec_ok|]. intros [v sp'] _. exact I.
  Qed.

  Lemma typedef_nrp st id tid shift :
    safe_typedef tid = true -> no_rt_panic (add_typedef_field fl sch rec st id tid shift).
  Proof.
    unfold add_typedef_field, safe_typedef. intros Hs.
    destruct (negb (shift =? 0)); [reflexivity|].
    destruct (lookup_decl fl tid) as [td|]; [|reflexivity].
    destruct (type_total sch tid) as [[w| |]|]; try reflexivity.
    - destruct (negb (w mod 8 =? 0)); [reflexivity|].
      destruct td; try reflexivity; try discriminate.
      apply nrp_bind; [apply rec_ok|]. intros [v sp'] _. exact I.
    - apply nrp_bind; [apply rec_ok|]. intros [v sp'] _. exact I.
    - apply nrp_bind; [apply rec_ok|]. intros [v sp'] _. exact I.
  Qed.

  Lemma payload_nrp d st m shift : no_rt_panic (add_payload_field sch d st m shift).
  Proof.
    unfold add_payload_field. destruct (negb (shift =? 0)); [reflexivity|].
    destruct (decl_payload_size d) as [szf|].
    - apply nrp_bind; [apply local_nrp|]. intros sz0 _.
      apply nrp_bind.
      { destruct m as [m|]; [destruct (sz0 <? m)|]; exact I. }
      intros sz _.
      apply nrp_bind; [apply safe_nrp, check_size_safe|]. intros u Hu. apply check_size_ok in Hu.
      destruct (slice_to_after_check _ _ Hu) as [p Hp]. rewrite Hp. cbn [bind].
      destruct (advance_after_check _ _ Hu) as [sp' Hsp]. rewrite Hsp. exact I.
    - destruct (offset_from_end sch d) as [off|]; [|reflexivity].
      destruct off as [|off]; [exact I|].
      destruct (negb (N.pos off mod 8 =? 0)); [reflexivity|].
      apply nrp_bind; [apply safe_nrp, check_size_safe|]. intros u Hu. apply check_size_ok in Hu.
      assert (Hn : (len (st_span st) <? len (st_span st) - N.pos off / 8) = false)
        by (apply N.ltb_ge; lia).
      destruct (slice_to_after_check _ _ Hn) as [p Hp]. rewrite Hp. cbn [bind].
      destruct (advance_after_check _ _ Hn) as [sp' Hsp]. rewrite Hsp. exact I.
  Qed.

  Theorem dec_fields_simple_nrp d : forall fs st chunk shift,
    forallb simple_field fs = true ->
    no_rt_panic (dec_fields oc fl sch rec lf d fs st chunk shift).
  Proof.
    induction fs as [|f fs IH]; intros st chunk shift Hb; cbn [dec_fields]; [exact I|].
    cbn [forallb] in Hb. apply andb_true_iff in Hb. destruct Hb as [Hf Hb].
    unfold simple_field in Hf.
    destruct (f_cond f) as [c|].
    { apply nrp_bind; [apply optional_nrp|]. intros st' _. apply IH; exact Hb. }
    destruct (is_bitfield fl f).
    - destruct (field_size sch d f) as [[w| |]|]; try reflexivity.
      destruct ((shift + w) mod 8 =? 0); [|apply IH; exact Hb].
      apply nrp_bind; [apply safe_nrp, check_size_safe|]. intros u Hu.
      apply check_size_ok in Hu.
      destruct (integer_width (shift + w)) as [ctw|]; [|reflexivity].
      destruct (is_single_reserved _).
      + destruct (advance_after_check _ _ Hu) as [sp' Hsp]. rewrite Hsp. cbn [bind].
        apply IH; exact Hb.
      + destruct (get_uint_after_check (E fl) (shift + w) (st_span st) Hu) as [[cv sp'] Hg].
        rewrite Hg. cbn [bind].
        apply nrp_bind; [apply safe_nrp, chunk_fields_safe|]. intros st' _. apply IH; exact Hb.
    - destruct (f_desc f); try reflexivity; try discriminate;
        first [ apply IH; exact Hb
              | apply nrp_bind; [apply typedef_nrp; exact Hf | intros st' _; apply IH; exact Hb]
              | apply nrp_bind; [apply payload_nrp | intros st' _; apply IH; exact Hb] ].
  Qed.
End Simple.

(** every declaration reachable by name has simple fields only *)
Definition simple_file (fl : file) (sch : schema) : Prop :=
  forall t d, lookup_decl fl t = Some d -> forallb (simple_field fl sch) (decl_fields d) = true.

Lemma rec_of_nrp fl (self : decl -> list byte -> dres (value * list byte)) :
  (forall t d sp, lookup_decl fl t = Some d -> no_rt_panic (self d sp)) ->
  forall t sp, no_rt_panic (rec_of self fl t sp).
Proof.
  intros Hs t sp. unfold rec_of.
  destruct (lookup_decl fl t) as [d|] eqn:El; [|reflexivity].
  destruct d; try reflexivity; try (apply (Hs t _ sp El)).
  match goal with |- no_rt_panic (match ?w with Some _ => _ | None => _ end) => destruct w as [w'|] end;
    [|reflexivity].
  destruct (len sp <? w' / 8) eqn:Hlen; [exact I|].
  destruct (get_uint_after_check (f_endian fl) _ _ Hlen) as [[x sp'] Hg]. rewrite Hg. exact I.
Qed.

Lemma decode_partial_nrp oc fl sch rec lf d p pobj :
  (forall t sp, no_rt_panic (rec t sp)) ->
  forallb (simple_field fl sch) (decl_fields d) = true ->
  no_rt_panic (decode_partial oc fl sch rec lf d p pobj).
Proof.
  intros Hrec Hd. unfold decode_partial.
  apply nrp_bind.
  { generalize (decl_constraints d). intros cs. induction cs as [|c cs IH]; [exact I|].
    destruct (get_num _ _ _ _ _); [|reflexivity].
    destruct (constraint_N _ _ _); [|reflexivity].
    match goal with |- context [if ?c then _ else _] => destruct c end; [exact IH|exact I]. }
  intros _ _.
  destruct (decl_payload p); [|exact I].
  destruct (obj_payload pobj) as [buf|]; [|reflexivity].
  apply nrp_bind; [apply dec_fields_simple_nrp; assumption|]. intros st _.
  destruct (st_span st); [|exact I].
  apply nrp_bind; [apply safe_nrp, payload_entry_safe|]. intros; exact I.
Qed.

Theorem rust_dec_decl_simple_nrp oc fl sch :
  simple_file fl sch ->
  forall fuel t d bs, lookup_decl fl t = Some d ->
                      no_rt_panic (rust_dec_decl fuel oc fl sch d bs).
Proof.
  intros Hfile. induction fuel as [|fuel IH]; intros t d bs Hl; [exact I|].
  cbn [rust_dec_decl].
  assert (Hrec : forall t' sp, no_rt_panic (rec_of (rust_dec_decl fuel oc fl sch) fl t' sp)).
  { apply rec_of_nrp. intros t' d' sp Hl'. apply (IH t' d' sp Hl'). }
  destruct (get_parent fl d) as [p|] eqn:Ep.
  - unfold get_parent in Ep. destruct (decl_parent_id d) as [pid|]; [|discriminate].
    apply nrp_bind; [apply (IH pid p bs Ep)|]. intros [pv trailing] _.
    destruct pv; try reflexivity.
    apply nrp_bind; [apply decode_partial_nrp; [exact Hrec | apply (Hfile t d Hl)]|].
    intros; exact I.
  - apply nrp_bind; [apply dec_fields_simple_nrp; [exact Hrec | apply (Hfile t d Hl)]|].
    intros st _. apply nrp_bind; [apply safe_nrp, payload_entry_safe|]. intros; exact I.
Qed.

Theorem rust_decode_simple_nrp fuel oc fl sch id bs :
  simple_file fl sch -> no_rt_panic (rust_decode fuel oc fl sch id bs).
Proof.
  intros Hfile. unfold rust_decode.
  destruct (lookup_decl fl id) as [d|] eqn:El; [|reflexivity].
  destruct d; try reflexivity; try (eapply rust_dec_decl_simple_nrp; eassumption).
  match goal with |- no_rt_panic (match ?w with Some _ => _ | None => _ end) => destruct w as [w'|] end;
    [|reflexivity].
  destruct (len bs <? w' / 8) eqn:Hlen; [exact I|].
  destruct (get_uint_after_check (f_endian fl) _ _ Hlen) as [[x sp'] Hg]. rewrite Hg. exact I.
Qed.

(** decidable form of [simple_file], for concrete files *)
Definition simple_fileb (fl : file) (sch : schema) : bool :=
  forallb (fun d => forallb (simple_field fl sch) (decl_fields d)) (f_decls fl).

Lemma simple_fileb_sound fl sch : simple_fileb fl sch = true -> simple_file fl sch.
Proof.
  unfold simple_fileb, simple_file, lookup_decl. intros H t d Hl.
  apply find_some in Hl. destruct Hl as [Hin _]. apply in_rev in Hin.
  rewrite forallb_forall in H. apply (H d Hin).
Qed.
