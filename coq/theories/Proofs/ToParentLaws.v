(** [Parent::try_from(&child)] (Rust/Inherit.v, [to_parent]): the parent value it builds

    - has the constraint constant in every constrained data field of the parent
      ([to_parent_constraint_value], [to_parent_get_num]);
    - therefore passes the constraint checks of [Child::try_from(&parent)]
      ([to_parent_checks_pass], [to_parent_converts_back_no_constraint_error]);
    - copies the other data fields of the parent unchanged from the child
      ([to_parent_copies_unconstrained]).

    The constant stored in field [id] is the one of the FIRST constraint on [id] in the
    child's chain; when a declaration constrains the same field twice the literal statement
    "every constraint's value is in the field" is false ([Dup.second_constraint_lost]). *)
From Coq Require Import NArith List String Ascii Bool Lia ZifyN ZifyBool.
From Coq Require Import Strings.Byte.
From PDL Require Import Base.Bits Base.Outcome Lang.Ast Lang.Sexp Analyzer.Schema Rust.Enum
     Sem.RefEncode Rust.Encode Rust.Decode Rust.Inherit Proofs.InheritLaws.
Import ListNotations.
Open Scope string_scope.
Open Scope N_scope.

(** ** Lists *)

Lemma find_app_first {A} (g : A -> bool) (l r : list A) :
  find g (l ++ r) = match find g l with Some x => Some x | None => find g r end.
Proof.
  induction l as [|a l IH]; [reflexivity|].
  cbn [app find]. destruct (g a); [reflexivity|exact IH].
Qed.

Lemma find_filter_same {A} (g h : A -> bool) (l : list A) :
  (forall x, g x = true -> h x = true) ->
  find g (filter h l) = find g l.
Proof.
  intros Hgh. induction l as [|a l IH]; [reflexivity|].
  cbn [filter find]. destruct (g a) eqn:Ega.
  - rewrite (Hgh a Ega). cbn [find]. rewrite Ega. reflexivity.
  - destruct (h a); [cbn [find]; rewrite Ega|]; exact IH.
Qed.

Lemma assoc_app_some {A} (k : string) (l r : list (string * A)) (v : A) :
  assoc k l = Some v -> assoc k (l ++ r) = Some v.
Proof.
  induction l as [|[k' v'] l IH]; intros Hl; [discriminate|].
  cbn [app assoc] in *. destruct (String.eqb k k'); [exact Hl|exact (IH Hl)].
Qed.

(** ** The field list built by [to_parent] *)

Definition tp_fields (fl : file) (all_cs : list constr) (F : list field)
           (obj : list (string * value)) (l : list field) : option (list (string * value)) :=
  fold_right (fun f acc =>
                match acc, field_id f with
                | Some r, Some id =>
                    match find_constraint all_cs id with
                    | Some c =>
                        match constraint_N fl F c with
                        | Some v => Some ((id, VNum v) :: r)
                        | None => None
                        end
                    | None =>
                        match assoc id obj with
                        | Some v => Some ((id, v) :: r)
                        | None => None
                        end
                    end
                | _, _ => None
                end) (Some []) l.

Lemma to_parent_eq fuel fl sch d p obj :
  to_parent fuel fl sch d p obj =
  match tp_fields fl (iter_constraints fl d) (data_fields fl p) obj (data_fields fl p) with
  | None => Panic UnwrapFail
  | Some fs =>
      match decl_payload p with
      | Some _ =>
          let* pl := rust_encode_partial fuel fl sch d obj in
          Ok (VObj (fs ++ [("payload", value_of_bytes pl)])%list)
      | None => Ok (VObj fs)
      end
  end.
Proof. reflexivity. Qed.

(** What a successful conversion returns: the built fields, then the payload entry. *)
Lemma to_parent_inv fuel fl sch d p obj v :
  to_parent fuel fl sch d p obj = Ok v ->
  exists fs tl,
    tp_fields fl (iter_constraints fl d) (data_fields fl p) obj (data_fields fl p) = Some fs /\
    v = VObj (fs ++ tl)%list.
Proof.
  rewrite to_parent_eq. intros Hv.
  destruct (tp_fields fl (iter_constraints fl d) (data_fields fl p) obj (data_fields fl p))
    as [fs|] eqn:Efs; [|discriminate].
  exists fs. destruct (decl_payload p) as [pf|].
  - destruct (rust_encode_partial fuel fl sch d obj) as [pl| | |] eqn:Epl;
      cbn [bind] in Hv; try discriminate.
    inversion Hv as [Hv']. eexists. split; reflexivity.
  - inversion Hv as [Hv']. exists []. rewrite app_nil_r. split; reflexivity.
Qed.

(** The entry of every listed field. *)
Lemma tp_fields_assoc fl all_cs F obj l fs :
  tp_fields fl all_cs F obj l = Some fs ->
  forall id, In (Some id) (map field_id l) ->
    exists v, assoc id fs = Some v /\
      match find_constraint all_cs id with
      | Some c => exists x, constraint_N fl F c = Some x /\ v = VNum x
      | None => assoc id obj = Some v
      end.
Proof.
  revert fs. induction l as [|f l IH]; intros fs Hfs id Hin; [destruct Hin|].
  cbn [tp_fields fold_right] in Hfs. fold (tp_fields fl all_cs F obj l) in Hfs.
  destruct (tp_fields fl all_cs F obj l) as [r|] eqn:Er; [|discriminate].
  destruct (field_id f) as [id0|] eqn:Eid0; [|discriminate].
  cbn [map In] in Hin. rewrite Eid0 in Hin.
  destruct (String.eqb id id0) eqn:Eeq.
  - apply String.eqb_eq in Eeq. subst id0.
    destruct (find_constraint all_cs id) as [c|] eqn:Ec.
    + destruct (constraint_N fl F c) as [x|] eqn:Ex; [|discriminate].
      inversion Hfs as [Hfs']. exists (VNum x). cbn [assoc]. rewrite String.eqb_refl.
      split; [reflexivity|]. exists x. split; reflexivity.
    + destruct (assoc id obj) as [v|] eqn:Ev; [|discriminate].
      inversion Hfs as [Hfs']. exists v. cbn [assoc]. rewrite String.eqb_refl.
      split; reflexivity.
  - assert (Hin' : In (Some id) (map field_id l)).
    { destruct Hin as [Hhd|Htl]; [|exact Htl].
      inversion Hhd as [Hhd']. subst id0. rewrite String.eqb_refl in Eeq. discriminate. }
    destruct (IH r eq_refl id Hin') as [v [Hv Hm]].
    assert (Hcons : forall w, assoc id ((id0, w) :: r) = Some v).
    { intros w. cbn [assoc]. rewrite Eeq. exact Hv. }
    destruct (find_constraint all_cs id0) as [c0|].
    + destruct (constraint_N fl F c0) as [x0|]; [|discriminate].
      inversion Hfs as [Hfs']. exists v. split; [apply Hcons|exact Hm].
    + destruct (assoc id0 obj) as [v0|]; [|discriminate].
      inversion Hfs as [Hfs']. exists v. split; [apply Hcons|exact Hm].
Qed.

(** ** Data fields of the parent *)

Definition is_pdata (fl : file) (p : decl) (id : string) : Prop :=
  In (Some id) (map field_id (data_fields fl p)).

Lemma is_data_field_pdata fl p id :
  is_data_field (data_fields fl p) id = true <-> is_pdata fl p id.
Proof.
  unfold is_data_field, is_pdata. rewrite existsb_exists, in_map_iff. split.
  - intros [f [Hin Hf]]. exists f. split; [|exact Hin].
    destruct (field_id f) as [i|]; [|discriminate].
    apply String.eqb_eq in Hf. subst i. reflexivity.
  - intros [f [Hf Hin]]. exists f. split; [exact Hin|].
    rewrite Hf. apply String.eqb_refl.
Qed.

(** A data field of [p] is not constrained in [p]'s own chain. *)
Lemma pdata_unconstrained fl p id :
  is_pdata fl p id -> find_constraint (iter_constraints fl p) id = None.
Proof.
  unfold is_pdata, data_fields. rewrite in_map_iff. intros [f [Hf Hin]].
  apply filter_In in Hin. destruct Hin as [_ Hkeep].
  rewrite Hf in Hkeep.
  destruct (find_constraint (iter_constraints fl p) id); [|reflexivity].
  destruct (f_desc f); discriminate.
Qed.

(** The constant of a constraint on a field not constrained by [p]'s chain is the same
    whether enum types are looked up in the data fields or in all the fields of [p]. *)
Lemma constraint_N_pdata fl p c :
  find_constraint (iter_constraints fl p) (c_id c) = None ->
  constraint_N fl (data_fields fl p) c = constraint_N fl (iter_fields fl p) c.
Proof.
  intros Hnone. unfold constraint_N, field_type_id, data_fields.
  rewrite find_filter_same; [reflexivity|].
  intros f. unfold field_id. destruct (f_desc f); intros Hg; try discriminate.
  apply String.eqb_eq in Hg. rewrite Hg, Hnone. reflexivity.
Qed.

(** The child's chain of constraints starts with its own. *)
Lemma iter_constraints_own fl d :
  exists rest, iter_constraints fl d = (decl_constraints d ++ rest)%list.
Proof.
  unfold iter_constraints. destruct (chain_fuel fl) as [|n];
    cbn [parents_and_self flat_map]; eexists; reflexivity.
Qed.

Lemma find_constraint_own fl d c id :
  find_constraint (decl_constraints d) id = Some c ->
  find_constraint (iter_constraints fl d) id = Some c.
Proof.
  intros Hc. destruct (iter_constraints_own fl d) as [rest Hrest]. rewrite Hrest.
  unfold find_constraint in *. rewrite find_app_first, Hc. reflexivity.
Qed.

(** [c] is the constraint that fixes its field: the first one of the declaration with that
    identifier.  Holds of every constraint when the identifiers are distinct. *)
Definition first_on_field (d : decl) (c : constr) : Prop :=
  find_constraint (decl_constraints d) (c_id c) = Some c.

Lemma nodup_first_on_field d :
  NoDup (map c_id (decl_constraints d)) ->
  forall c, In c (decl_constraints d) -> first_on_field d c.
Proof.
  unfold first_on_field, find_constraint. generalize (decl_constraints d) as cs.
  induction cs as [|a cs IH]; intros Hnd c Hin; [destruct Hin|].
  cbn [map] in Hnd. inversion Hnd as [|x xs Hnotin Hnd']; subst x xs.
  cbn [find]. destruct (String.eqb (c_id a) (c_id c)) eqn:Eac.
  - destruct Hin as [Heq|Hin']; [rewrite Heq; reflexivity|].
    apply String.eqb_eq in Eac. exfalso. apply Hnotin. rewrite Eac.
    apply in_map. exact Hin'.
  - destruct Hin as [Heq|Hin'].
    + subst a. rewrite String.eqb_refl in Eac. discriminate.
    + exact (IH Hnd' c Hin').
Qed.

(** ** 1. Constraint values *)

(** General form: the field holds the constant of the first constraint on it in the
    child's whole chain (own constraints, then inherited ones). *)
Theorem to_parent_constrained_field fuel fl sch d p obj pobj id c :
  to_parent fuel fl sch d p obj = Ok (VObj pobj) ->
  is_pdata fl p id ->
  find_constraint (iter_constraints fl d) id = Some c ->
  exists x, constraint_N fl (data_fields fl p) c = Some x /\
            assoc id pobj = Some (VNum x).
Proof.
  intros Hok Hdata Hc.
  destruct (to_parent_inv _ _ _ _ _ _ _ Hok) as [fs [tl [Hfs Hv]]].
  inversion Hv as [Hpobj].
  destruct (tp_fields_assoc _ _ _ _ _ _ Hfs id Hdata) as [v [Hassoc Hm]].
  rewrite Hc in Hm. destruct Hm as [x [Hx Hvx]]. subst v.
  exists x. split; [exact Hx|]. apply assoc_app_some. exact Hassoc.
Qed.

Theorem to_parent_constraint_value fuel fl sch d p obj pobj c x :
  to_parent fuel fl sch d p obj = Ok (VObj pobj) ->
  first_on_field d c ->
  is_pdata fl p (c_id c) ->
  constraint_N fl (iter_fields fl p) c = Some x ->
  assoc (c_id c) pobj = Some (VNum x).
Proof.
  intros Hok Hfirst Hdata Hx.
  destruct (to_parent_constrained_field _ _ _ _ _ _ _ _ _ Hok Hdata
              (find_constraint_own fl d c (c_id c) Hfirst)) as [y [Hy Hassoc]].
  rewrite (constraint_N_pdata fl p c (pdata_unconstrained fl p _ Hdata)) in Hy.
  rewrite Hx in Hy. inversion Hy as [Hxy]. exact Hassoc.
Qed.

(** The same through the parent's accessor, and the constant always resolves. *)
Theorem to_parent_get_num fuel fl sch d p obj pobj c :
  to_parent fuel fl sch d p obj = Ok (VObj pobj) ->
  first_on_field d c ->
  is_pdata fl p (c_id c) ->
  exists x, constraint_N fl (iter_fields fl p) c = Some x /\
            assoc (c_id c) pobj = Some (VNum x) /\
            get_num fl (iter_fields fl p) (iter_constraints fl p) pobj (c_id c) = Some x.
Proof.
  intros Hok Hfirst Hdata.
  destruct (to_parent_constrained_field _ _ _ _ _ _ _ _ _ Hok Hdata
              (find_constraint_own fl d c (c_id c) Hfirst)) as [x [Hx Hassoc]].
  rewrite (constraint_N_pdata fl p c (pdata_unconstrained fl p _ Hdata)) in Hx.
  exists x. split; [exact Hx|]. split; [exact Hassoc|].
  unfold get_num. rewrite (pdata_unconstrained fl p _ Hdata), Hassoc. reflexivity.
Qed.

(** ** 2. Converts back: the constraint checks of [Child::try_from(&parent)] pass *)

Section Back.
  Variables (fuel : nat) (fl : file) (sch : schema) (d p : decl).
  Variables (obj pobj : list (string * value)).
  Hypothesis Hok : to_parent fuel fl sch d p obj = Ok (VObj pobj).
  Hypothesis Hfirst : forall c, In c (decl_constraints d) -> first_on_field d c.
  Hypothesis Hdata : forall c, In c (decl_constraints d) -> is_pdata fl p (c_id c).

  Lemma to_parent_resolvable :
    Forall (resolvable fl (iter_fields fl p) (iter_constraints fl p) pobj) (decl_constraints d).
  Proof.
    apply Forall_forall. intros c Hin.
    destruct (to_parent_get_num _ _ _ _ _ _ _ c Hok (Hfirst c Hin) (Hdata c Hin))
      as [x [Hx [_ Hg]]].
    exists x, x. split; [exact Hg|exact Hx].
  Qed.

  Lemma to_parent_not_violated :
    ~ Exists (violated fl (iter_fields fl p) (iter_constraints fl p) pobj) (decl_constraints d).
  Proof.
    intros Hex. apply Exists_exists in Hex. destruct Hex as [c [Hin [a [e [Ha [He Hne]]]]]].
    destruct (to_parent_get_num _ _ _ _ _ _ _ c Hok (Hfirst c Hin) (Hdata c Hin))
      as [x [Hx [_ Hg]]].
    rewrite Hg in Ha. rewrite Hx in He. congruence.
  Qed.

  Theorem to_parent_checks_pass :
    check_loop fl (iter_fields fl p) (iter_constraints fl p) pobj (decl_constraints d) = Ok tt.
  Proof.
    destruct (check_loop_spec fl _ _ pobj _ to_parent_resolvable) as [[Hpass _]|[_ Hex]];
      [exact Hpass|].
    exfalso. exact (to_parent_not_violated Hex).
  Qed.

  (** [decode_partial] gets past its constraint checks: what it returns is what the rest
      of the conversion (the child's own fields, parsed from the payload) returns. *)
  Theorem to_parent_converts_back_past_checks oc :
    try_from_parent fuel oc fl sch d p pobj =
    (let copied :=
       filter (fun kv => mem_str (fst kv) (data_field_ids fl d)
                         && negb (mem_str (fst kv) (own_field_ids d))) pobj in
     match decl_payload p with
     | Some _ =>
         match obj_payload pobj with
         | Some buf =>
             let* st := dec_fields oc fl sch (rec_dec fuel oc fl sch) fuel d (decl_fields d)
                                   (init_state buf) [] 0 in
             match st_span st with
             | [] =>
                 let* pl := payload_entry d st in
                 Ok (VObj (pl ++ st_vals st ++ copied)%list)
             | _ => Err TrailingBytesError
             end
         | None => Panic UnwrapFail
         end
     | None => Ok (VObj copied)
     end).
  Proof.
    unfold try_from_parent, decode_partial.
    fold (check_loop fl (iter_fields fl p) (iter_constraints fl p) pobj).
    rewrite to_parent_checks_pass. reflexivity.
  Qed.

  (** A parent without payload: the conversion back succeeds. *)
  Theorem to_parent_converts_back_no_constraint_error oc :
    decl_payload p = None ->
    exists v, try_from_parent fuel oc fl sch d p pobj = Ok v.
  Proof.
    intros Hp.
    exact (try_from_parent_no_constraint_error fuel oc fl sch d p pobj
             to_parent_resolvable to_parent_not_violated Hp).
  Qed.
End Back.

(** ** 3. The other data fields are copied unchanged *)

Theorem to_parent_copies_unconstrained fuel fl sch d p obj pobj id :
  to_parent fuel fl sch d p obj = Ok (VObj pobj) ->
  is_pdata fl p id ->
  find_constraint (iter_constraints fl d) id = None ->
  exists v, assoc id obj = Some v /\ assoc id pobj = Some v.
Proof.
  intros Hok Hdata Hnone.
  destruct (to_parent_inv _ _ _ _ _ _ _ Hok) as [fs [tl [Hfs Hv]]].
  inversion Hv as [Hpobj].
  destruct (tp_fields_assoc _ _ _ _ _ _ Hfs id Hdata) as [v [Hassoc Hm]].
  rewrite Hnone in Hm. exists v. split; [exact Hm|].
  apply assoc_app_some. exact Hassoc.
Qed.

(** The result is always an object. *)
Lemma to_parent_is_object fuel fl sch d p obj v :
  to_parent fuel fl sch d p obj = Ok v -> exists pobj, v = VObj pobj.
Proof.
  intros Hok. destruct (to_parent_inv _ _ _ _ _ _ _ Hok) as [fs [tl [_ Hv]]].
  eexists. exact Hv.
Qed.

(** ** Example: packet P { k:8, j:8, _payload_ }   packet C : P (k = 1) { a:8 } *)
Module Example.
  Definition fS id w := mkField (Scalar id w) None.
  Definition fP := mkField (Payload None) None.
  Definition cst id v := mkConstr id (Some v) None.

  Definition P := DPacket "P" [] [fS "k" 8; fS "j" 8; fP] None.
  Definition C := DPacket "C" [cst "k" 1] [fS "a" 8] (Some "P").
  Definition fl := mkFile LittleEndian [P; C].
  Definition sch := match mk_schema fl with Some s => s | None => [] end.
  Definition cobj : list (string * value) := [("a", VNum 5); ("j", VNum 7)].
  Definition pobj : list (string * value) :=
    [("k", VNum 1); ("j", VNum 7); ("payload", VList [VNum 5])].

  Example converts : to_parent 10 fl sch C P cobj = Ok (VObj pobj).
  Proof. vm_compute. reflexivity. Qed.

  Example first_ok : forall c, In c (decl_constraints C) -> first_on_field C c.
  Proof. apply nodup_first_on_field. vm_compute. constructor; [intros []|constructor]. Qed.

  Example data_ok : forall c, In c (decl_constraints C) -> is_pdata fl P (c_id c).
  Proof. intros c [Hc|[]]. subst c. vm_compute. left. reflexivity. Qed.

  (** theorem 1 applies: k holds the constraint value *)
  Example k_is_one : assoc "k" pobj = Some (VNum 1).
  Proof.
    apply (to_parent_constraint_value 10 fl sch C P cobj pobj (cst "k" 1) 1 converts).
    - apply first_ok. left. reflexivity.
    - apply data_ok. left. reflexivity.
    - reflexivity.
  Qed.

  (** theorem 2 applies: the checks of C::try_from(&P) pass; and the whole conversion back
      yields the child *)
  Example checks_pass :
    check_loop fl (iter_fields fl P) (iter_constraints fl P) pobj (decl_constraints C) = Ok tt.
  Proof. exact (to_parent_checks_pass 10 fl sch C P cobj pobj converts first_ok data_ok). Qed.

  Example back : try_from_parent 10 false fl sch C P pobj = Ok (VObj cobj).
  Proof. vm_compute. reflexivity. Qed.

  (** theorem 3 applies: j is copied *)
  Example j_copied : exists v, assoc "j" cobj = Some v /\ assoc "j" pobj = Some v.
  Proof.
    apply (to_parent_copies_unconstrained 10 fl sch C P cobj pobj "j" converts).
    - vm_compute. right. left. reflexivity.
    - vm_compute. reflexivity.
  Qed.
End Example.

(** ** The literal statement fails when a declaration constrains a field twice:
    packet P { k:8, _payload_ }   packet C : P (k = 1, k = 2) { a:8 }.  The second
    constraint resolves to 2, the parent holds 1, and the conversion back reports
    ConstraintValueError.  ([first_on_field] is what excludes it.) *)
Module Dup.
  Import Example.
  Definition P := DPacket "P" [] [fS "k" 8; fP] None.
  Definition C := DPacket "C" [cst "k" 1; cst "k" 2] [fS "a" 8] (Some "P").
  Definition fl := mkFile LittleEndian [P; C].
  Definition sch := match mk_schema fl with Some s => s | None => [] end.
  Definition cobj : list (string * value) := [("a", VNum 5)].
  Definition pobj : list (string * value) := [("k", VNum 1); ("payload", VList [VNum 5])].

  Example second_constraint_lost :
    to_parent 10 fl sch C P cobj = Ok (VObj pobj) /\
    In (cst "k" 2) (decl_constraints C) /\
    constraint_N fl (iter_fields fl P) (cst "k" 2) = Some 2 /\
    assoc "k" pobj = Some (VNum 1) /\
    try_from_parent 10 false fl sch C P pobj = Err ConstraintValueError.
  Proof.
    split; [vm_compute; reflexivity|].
    split; [right; left; reflexivity|].
    split; [reflexivity|].
    split; vm_compute; reflexivity.
  Qed.
End Dup.

Print Assumptions to_parent_constrained_field.
Print Assumptions to_parent_constraint_value.
Print Assumptions to_parent_get_num.
Print Assumptions to_parent_checks_pass.
Print Assumptions to_parent_converts_back_past_checks.
Print Assumptions to_parent_converts_back_no_constraint_error.
Print Assumptions to_parent_copies_unconstrained.
Print Assumptions Example.converts.
Print Assumptions Example.k_is_one.
Print Assumptions Example.checks_pass.
Print Assumptions Example.back.
Print Assumptions Example.j_copied.
Print Assumptions Dup.second_constraint_lost.
