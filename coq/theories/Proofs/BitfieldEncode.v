(** C03 / C05 on the bit-field fragment: declarations whose fields are scalars, enum
    typedefs, fixed fields and reserved bits, in ANY composition.  For every such field
    list, every value and both byte orders the emitted encoder either refuses at
    generation time (a group wider than 64 bits: [Panic GenAssert]) or returns exactly
    the reference bytes; it returns an error only where the reference has no encoding. *)
From Coq Require Import NArith ZArith List String Bool Lia ZifyN ZifyBool.
From Coq Require Import Strings.Byte.
From PDL Require Import Base.Bits Base.Outcome Lang.Ast Lang.Sexp Analyzer.Schema Rust.Enum
     Sem.RefEncode Rust.Encode Proofs.Pack.
Import ListNotations.
Open Scope N_scope.

Section Fragment.
  Variable fl : file.
  Variable sch : schema.
  Variable rec : string -> value -> option (list seg).
  Variable rec_enc : string -> value -> eres (list byte).
  Variable rec_len : string -> value -> option N.
  Variable d : decl.
  Variable all_fields : list field.
  Variable obj : list (string * value).
  Variable payload : list seg.
  Variable payload_act : eres (list byte).
  Variable payload_size : N.

  (** the schema knows the width of every enum *)
  Hypothesis enum_sizes :
    forall tid tags w, lookup_decl fl tid = Some (DEnum tid tags w) \/ (exists i, lookup_decl fl tid = Some (DEnum i tags w)) ->
                       type_total sch tid = Some (SStatic w).

  Definition bf_field (f : field) : bool :=
    match f_cond f with
    | Some _ => false
    | None =>
        match f_desc f with
        | Scalar _ _ | FixedScalar _ _ | Reserved _ => true
        | Typedef _ tid | FixedEnum tid _ =>
            match lookup_decl fl tid with Some (DEnum _ _ _) => true | _ => false end
        | _ => false
        end
    end.

  Lemma bf_is_bitfield f : bf_field f = true -> is_bitfield fl f = true.
  Proof.
    unfold bf_field, is_bitfield. destruct (f_cond f); [discriminate|].
    destruct (f_desc f); try discriminate; try reflexivity.
    destruct (lookup_decl fl type_id) as [[]|]; try discriminate; reflexivity.
  Qed.

  (** invariant between the reference accumulator and the encoder's pending list *)
  Definition inv (p : pending) (acc bits : N) : Prop :=
    acc < 2 ^ bits /\ (forall cw, bits <= cw -> pack_value cw p = acc) /\ (p = [] -> acc = 0).

  Lemma pack_value_snoc cw (p : pending) v tw sh :
    pack_value cw (p ++ [(v, tw, sh)])%list = N.lor (pack_value cw p) ((N.shiftl (v mod 2 ^ tw) sh) mod 2 ^ cw).
  Proof. unfold pack_value. rewrite fold_left_app. reflexivity. Qed.

  Lemma inv_push (p : pending) acc bits v w tw :
    inv p acc bits -> v < 2 ^ w -> w <= tw ->
    inv (p ++ [(v, tw, bits)])%list (acc + v * 2 ^ bits) (bits + w).
  Proof.
    intros [Hacc [Hpack Hnil]] Hv Htw. split; [|split].
    - apply sum_lt_pow; assumption.
    - intros cw Hcw. rewrite pack_value_snoc, Hpack by lia.
      assert (Hvt : v mod 2 ^ tw = v).
      { apply N.mod_small. eapply N.lt_le_trans; [exact Hv|]. apply pow2_le_mono. exact Htw. }
      rewrite Hvt, N.shiftl_mul_pow2.
      assert (Hlt : v * 2 ^ bits < 2 ^ cw).
      { eapply N.lt_le_trans with (2 ^ (bits + w)).
        - rewrite N.pow_add_r. pose proof (pow2_pos bits). nia.
        - apply pow2_le_mono. lia. }
      rewrite (N.mod_small _ _ Hlt).
      rewrite <- (lor_shiftl_add acc v bits Hacc). now rewrite N.shiftl_mul_pow2.
    - intros E. destruct p; discriminate.
  Qed.

  Lemma inv_skip p acc bits w : inv p acc bits -> inv p acc (bits + w).
  Proof.
    intros [Hacc [Hpack Hnil]]. split; [|split].
    - eapply N.lt_le_trans; [exact Hacc|]. apply pow2_le_mono. lia.
    - intros cw Hcw. apply Hpack. lia.
    - exact Hnil.
  Qed.

  Lemma inv_init : inv [] 0 0.
  Proof. split; [cbn; lia|]. split; [reflexivity | reflexivity]. Qed.

  Lemma le_bytes_zero n : le_bytes n 0 = zeros n.
  Proof. induction n as [|n IH]; [reflexivity|]. cbn [le_bytes zeros]. rewrite N.div_0_l by lia. rewrite IH. reflexivity. Qed.

  Lemma rev_zeros n : rev (zeros n) = zeros n.
  Proof.
    induction n as [|n IH]; [reflexivity|]. cbn [zeros rev]. rewrite IH.
    clear IH. induction n as [|n IH]; [reflexivity|]. cbn [zeros app]. now rewrite IH.
  Qed.

  Lemma render_int_seg n v : render_seg (f_endian fl) (int_seg n v) = bytes_E (f_endian fl) n v.
  Proof. unfold render_seg, int_seg, bytes_E, be_bytes. destruct (f_endian fl); reflexivity. Qed.

  (** closing a group *)
  Lemma close_group p acc bits :
    inv p acc bits -> bits mod 8 = 0 ->
    match pack_bit_fields fl p bits with
    | Ok bs => bs = render_seg (f_endian fl) (int_seg (nbytes bits) acc)
    | Panic GenAssert => True
    | _ => False
    end.
  Proof.
    intros [Hacc [Hpack Hnil]] Hmod. unfold pack_bit_fields.
    destruct (integer_width bits) as [cw|] eqn:Ecw; [|exact I].
    assert (Hle : bits <= cw).
    { unfold integer_width in Ecw.
      destruct (bits <=? 8) eqn:E1; [inversion Ecw; lia|].
      destruct (bits <=? 16) eqn:E2; [inversion Ecw; lia|].
      destruct (bits <=? 32) eqn:E3; [inversion Ecw; lia|].
      destruct (bits <=? 64) eqn:E4; [inversion Ecw; lia| discriminate]. }
    rewrite render_int_seg.
    destruct p as [|e p'].
    - rewrite (Hnil eq_refl). unfold bytes_E, be_bytes. rewrite le_bytes_zero.
      destruct (f_endian fl); [reflexivity | now rewrite rev_zeros].
    - unfold put_chunk, Encode.E. rewrite (Hpack cw Hle).
      rewrite N.mod_small by exact Hacc. reflexivity.
  Qed.

  Definition good (r : eres (list byte)) (want : list byte) : Prop :=
    match r with
    | Ok bs => bs = want
    | Panic GenAssert => True
    | _ => False
    end.

  Lemma good_bind_app a b wa wb :
    good a wa -> good b wb ->
    good (let* x := a in let* y := b in Ok (x ++ y)%list) (wa ++ wb)%list.
  Proof.
    unfold good, bind. destruct a as [x| |k|]; try tauto.
    intros ->. destruct b as [y| |k|]; try tauto.
    intros ->. reflexivity.
  Qed.

  Lemma integer_width_bounds w tw : integer_width w = Some tw -> w <= tw /\ tw <= 64.
  Proof.
    unfold integer_width. intros H.
    destruct (w <=? 8) eqn:E1; [inversion H; lia|].
    destruct (w <=? 16) eqn:E2; [inversion H; lia|].
    destruct (w <=? 32) eqn:E3; [inversion H; lia|].
    destruct (w <=? 64) eqn:E4; [inversion H; lia| discriminate].
  Qed.

  Lemma render_cons s ss : render (f_endian fl) (s :: ss) = (render_seg (f_endian fl) s ++ render (f_endian fl) ss)%list.
  Proof. reflexivity. Qed.

  (** what happens after a field has been accounted for, on both sides *)
  Lemma tail_ok rest
        (IH : forall p acc bits ss,
            forallb bf_field rest = true -> inv p acc bits ->
            ref_enc_fields fl rec d all_fields [] obj payload rest acc bits = Some ss ->
            good (enc_fields fl sch rec_enc rec_len d all_fields [] obj payload_act payload_size rest p bits)
                 (render (f_endian fl) ss))
        p' acc' bits' ss :
    forallb bf_field rest = true ->
    inv p' acc' bits' ->
    (if bits' mod 8 =? 0
     then match ref_enc_fields fl rec d all_fields [] obj payload rest 0 0 with
          | Some b => Some (int_seg (nbytes bits') acc' :: b)
          | None => None
          end
     else ref_enc_fields fl rec d all_fields [] obj payload rest acc' bits') = Some ss ->
    good (if bits' mod 8 =? 0
          then let* chunk := pack_bit_fields fl p' bits' in
               let* more := enc_fields fl sch rec_enc rec_len d all_fields [] obj payload_act payload_size rest [] 0 in
               Ok (chunk ++ more)%list
          else enc_fields fl sch rec_enc rec_len d all_fields [] obj payload_act payload_size rest p' bits')
         (render (f_endian fl) ss).
  Proof.
    intros Hrest Hinv Href.
    destruct (bits' mod 8 =? 0) eqn:Em.
    - apply N.eqb_eq in Em.
      destruct (ref_enc_fields fl rec d all_fields [] obj payload rest 0 0) as [b|] eqn:Eb; [|discriminate].
      inversion Href; subst. rewrite render_cons.
      apply good_bind_app.
      + pose proof (close_group p' acc' bits' Hinv Em) as Hc. unfold good.
        destruct (pack_bit_fields fl p' bits') as [bs| |k|]; try tauto.
      + apply (IH [] 0 0 b Hrest inv_init Eb).
    - apply (IH p' acc' bits' ss Hrest Hinv Href).
  Qed.

  Theorem enc_fields_fragment : forall fs p acc bits ss,
    forallb bf_field fs = true ->
    inv p acc bits ->
    ref_enc_fields fl rec d all_fields [] obj payload fs acc bits = Some ss ->
    good (enc_fields fl sch rec_enc rec_len d all_fields [] obj payload_act payload_size fs p bits)
         (render (f_endian fl) ss).
  Proof.
    induction fs as [|f rest IH]; intros p acc bits ss Hbf Hinv Href.
    - cbn [ref_enc_fields] in Href. destruct (bits =? 0); [|discriminate]. inversion Href; subst.
      reflexivity.
    - cbn [forallb] in Hbf. apply andb_prop in Hbf. destruct Hbf as [Hf Hrest].
      pose proof (bf_is_bitfield f Hf) as Hbit.
      cbn [ref_enc_fields enc_fields] in *.
      unfold bf_field in Hf.
      destruct (f_cond f) eqn:Ec; [discriminate|].
      rewrite Hbit in *.
      destruct (ref_bitfield fl rec d all_fields [] obj payload f) as [[v w]|] eqn:Erb; [|discriminate].
      destruct (v <? 2 ^ w) eqn:Ev; [|discriminate]. apply N.ltb_lt in Ev.
      unfold ref_bitfield in Erb. unfold field_size. rewrite Ec.
      destruct (f_desc f) eqn:Ed; try discriminate.
      + (* FixedScalar width value *)
        inversion Erb; subst. clear Erb.
        destruct (integer_width w) as [tw|] eqn:Etw; [|exact I].
        destruct (integer_width_bounds _ _ Etw) as [Hle _].
        cbn [bind].
        apply (tail_ok rest IH (p ++ [(v, tw, bits)])%list (acc + v * 2 ^ bits) (bits + w) ss Hrest
                       (inv_push _ _ _ _ _ _ Hinv Ev Hle) Href).
      + (* FixedEnum enum_id tag_id *)
        destruct (enum_tags fl enum_id) as [[tags ew]|] eqn:Eet; [|discriminate].
        destruct (enum_tag_value tags tag_id) as [tv|] eqn:Etv; [|discriminate].
        cbn [option_map] in Erb. inversion Erb; subst. clear Erb.
        assert (Htt : type_total sch enum_id = Some (SStatic w)).
        { unfold enum_tags in Eet. destruct (lookup_decl fl enum_id) as [[]|] eqn:El; try discriminate.
          inversion Eet; subst. apply (enum_sizes enum_id tags w). right. eexists; exact El. }
        rewrite Htt.
        destruct (integer_width w) as [tw|] eqn:Etw; [|exact I].
        destruct (integer_width_bounds _ _ Etw) as [Hle _].
        cbn [bind].
        apply (tail_ok rest IH (p ++ [(v, tw, bits)])%list (acc + v * 2 ^ bits) (bits + w) ss Hrest
                       (inv_push _ _ _ _ _ _ Hinv Ev Hle) Href).
      + (* Reserved width *)
        inversion Erb; subst. clear Erb.
        cbn [bind]. rewrite N.mul_0_l, N.add_0_r in Href.
        apply (tail_ok rest IH p acc (bits + w) ss Hrest (inv_skip _ _ _ _ Hinv) Href).
      + (* Scalar id width *)
        cbn [find_constraint find] in Erb.
        destruct (assoc id obj) as [[n| | |]|] eqn:Ea; try discriminate.
        inversion Erb; subst. clear Erb.
        unfold get_num. cbn [find_constraint find]. rewrite Ea.
        destruct (integer_width w) as [tw|] eqn:Etw; [|exact I].
        destruct (integer_width_bounds _ _ Etw) as [Hle Htw64].
        assert (Hentry :
          (if w <? tw
           then match mask_bits w with
                | Some m => if m <? v then Err InvalidScalarValue else Ok (Some (v, tw, bits))
                | None => Panic ArithOverflow
                end
           else Ok (Some (v, tw, bits))) = (Ok (Some (v, tw, bits)) : eres (option (N * N * N)))).
        { destruct (w <? tw) eqn:Ewt; [|reflexivity].
          unfold mask_bits. assert (Hw64 : (w <? 64) = true) by lia. rewrite Hw64.
          assert (Hm : (2 ^ w - 1 <? v) = false) by lia. rewrite Hm. reflexivity. }
        rewrite Hentry. cbn [bind].
        apply (tail_ok rest IH (p ++ [(v, tw, bits)])%list (acc + v * 2 ^ bits) (bits + w) ss Hrest
                       (inv_push _ _ _ _ _ _ Hinv Ev Hle) Href).
      + (* Typedef id type_id : enum *)
        destruct (enum_tags fl type_id) as [[tags ew]|] eqn:Eet; [|discriminate].
        cbn [find_constraint find] in Erb.
        destruct (assoc id obj) as [[n| | |]|] eqn:Ea; try discriminate.
        destruct (spec_enum_of_N tags ew n); [|discriminate].
        inversion Erb; subst. clear Erb.
        assert (Htt : type_total sch type_id = Some (SStatic w)).
        { unfold enum_tags in Eet. destruct (lookup_decl fl type_id) as [[]|] eqn:El; try discriminate.
          inversion Eet; subst. apply (enum_sizes type_id tags w). right. eexists; exact El. }
        rewrite Htt.
        unfold get_num. cbn [find_constraint find]. rewrite Ea.
        destruct (integer_width w) as [tw|] eqn:Etw; [|exact I].
        destruct (integer_width_bounds _ _ Etw) as [Hle _].
        cbn [bind].
        apply (tail_ok rest IH (p ++ [(v, tw, bits)])%list (acc + v * 2 ^ bits) (bits + w) ss Hrest
                       (inv_push _ _ _ _ _ _ Hinv Ev Hle) Href).
  Qed.
End Fragment.

(** ** Whole declarations of the fragment *)

Definition schema_knows_enums (fl : file) (sch : schema) : Prop :=
  forall tid tags w,
    lookup_decl fl tid = Some (DEnum tid tags w) \/ (exists i, lookup_decl fl tid = Some (DEnum i tags w)) ->
    type_total sch tid = Some (SStatic w).

Definition root_of_fragment (fl : file) (d : decl) : Prop :=
  (exists id fs, d = DPacket id [] fs None \/ d = DStruct id [] fs None)
  /\ forallb (bf_field fl) (decl_fields d) = true.

Lemma find_none_all {A} (f : A -> bool) l : (forall x, In x l -> f x = false) -> find f l = None.
Proof.
  induction l as [|a l IH]; intros H; [reflexivity|]. cbn [find].
  rewrite (H a (or_introl eq_refl)). apply IH. intros x Hx. apply H. right. exact Hx.
Qed.

Lemma parents_self_root fl d n : get_parent fl d = None -> parents_and_self n fl d = [d].
Proof. intros H. destruct n; cbn [parents_and_self]; [reflexivity|]. now rewrite H. Qed.

Lemma frag_core fuel fl sch d o ss :
  schema_knows_enums fl sch ->
  get_parent fl d = None ->
  forallb (bf_field fl) (decl_fields d) = true ->
  ref_enc_decl (S fuel) fl d (iter_fields fl d) [] o [raw_seg []] = Some ss ->
  good (rust_enc_decl (S fuel) fl sch d (iter_fields fl d) [] o (Ok []) 0) (render (f_endian fl) ss).
Proof.
  intros Hsch Hpar Hbf Hss.
  cbn [ref_enc_decl] in Hss. rewrite Hpar in Hss.
  match type of Hss with
  | match ?x with _ => _ end = _ => destruct x as [ss'|] eqn:Ef; [|discriminate]
  end.
  inversion Hss; subst ss'. clear Hss.
  cbn [rust_enc_decl]. rewrite Hpar.
  eapply enc_fields_fragment; [exact Hsch | exact Hbf | apply inv_init | exact Ef].
Qed.

Theorem rust_encode_fragment fuel fl sch id d v bs :
  schema_knows_enums fl sch ->
  lookup_decl fl id = Some d ->
  root_of_fragment fl d ->
  ref_encode (S fuel) fl id v = Some bs ->
  good (rust_encode (S fuel) fl sch id v) bs.
Proof.
  intros Hsch Hl [[did [fs Hd]] Hbf] Href.
  assert (Hpar : get_parent fl d = None) by (destruct Hd as [-> | ->]; reflexivity).
  assert (Hcs : iter_constraints fl d = []).
  { unfold iter_constraints. rewrite parents_self_root by exact Hpar.
    destruct Hd as [-> | ->]; reflexivity. }
  assert (Hpl : decl_payload d = None).
  { unfold decl_payload. apply find_none_all. intros f Hin.
    rewrite forallb_forall in Hbf. specialize (Hbf f Hin).
    unfold bf_field in Hbf. unfold is_payload, is_payload_desc.
    destruct (f_cond f); [discriminate|]. destruct (f_desc f); try discriminate; reflexivity. }
  unfold ref_encode, ref_segments in Href. unfold rust_encode. rewrite Hl in *.
  destruct v as [n| |l|o]; try (destruct Hd as [-> | ->]; discriminate).
  assert (Hcore : forall ss,
             ref_enc_decl (S fuel) fl d (iter_fields fl d) [] o [raw_seg []] = Some ss ->
             good (rust_enc_decl (S fuel) fl sch d (iter_fields fl d) [] o (Ok []) 0) (render (f_endian fl) ss))
    by (intros ss; apply frag_core; assumption).
  rewrite Hcs, Hpl in *.
  destruct Hd as [-> | ->].
  - destruct (obj_payload o) as [[|b0 pl]|]; try discriminate.
    cbn [option_map] in Href.
    destruct (ref_enc_decl (S fuel) fl (DPacket did [] fs None) (iter_fields fl (DPacket did [] fs None)) [] o [raw_seg []]) as [ss|] eqn:Es;
      [|discriminate].
    inversion Href; subst. apply (Hcore ss eq_refl).
  - destruct (obj_payload o) as [[|b0 pl]|]; try discriminate.
    cbn [option_map] in Href.
    destruct (ref_enc_decl (S fuel) fl (DStruct did [] fs None) (iter_fields fl (DStruct did [] fs None)) [] o [raw_seg []]) as [ss|] eqn:Es;
      [|discriminate].
    inversion Href; subst. apply (Hcore ss eq_refl).
Qed.
