(** The emitted [TryFrom<uN>] match computes exactly the reference reading of an enum
    declaration, for every integer of the backing type. *)
From Coq Require Import NArith ZArith List String Bool Lia ZifyN ZifyBool.
From PDL Require Import Base.Bits Lang.Ast Lang.Sexp Rust.Enum.
Import ListNotations.
Open Scope N_scope.

(** Well-formedness the analyzer establishes (E14, E41, E43): no tag value declared
    AFTER a range lies inside that range. *)
Fixpoint wf_tagsb (tags : list tag) : bool :=
  match tags with
  | [] => true
  | TagRange _ lo hi _ :: rest =>
      forallb (fun p => negb ((lo <=? snd p) && (snd p <=? hi))) (flat_map tag_values rest)
      && wf_tagsb rest
  | _ :: rest => wf_tagsb rest
  end.

(** every tag value and range bound fits the width *)
Definition tag_bounded (mx : N) (t : tag) : bool :=
  match t with
  | TagValue _ v => v <=? mx
  | TagRange _ lo hi nested => (lo <=? mx) && (hi <=? mx) && forallb (fun p => snd p <=? mx) nested
  | TagOther _ => true
  end.

Definition tags_bounded (mx : N) (tags : list tag) : bool := forallb (tag_bounded mx) tags.

(** ** the value / range part of the match *)

Definition base_result (tags : list tag) (x : N) : option evariant :=
  match named_tag tags x with
  | Some id => Some (ENamed id x)
  | None => match enclosing_range tags x with
            | Some id => Some (ERange id x)
            | None => None
            end
  end.

Lemma first_match_app_vals nested tail x :
  first_match (map (fun p : string * N => CVal (snd p) (fst p)) nested ++ tail) x =
  match find (fun p : string * N => snd p =? x) nested with
  | Some (id, _) => TOk (ENamed id x)
  | None => first_match tail x
  end.
Proof.
  induction nested as [|[id v] nested IH]; cbn [map app find first_match fst snd]; [reflexivity|].
  rewrite (N.eqb_sym v x).
  destruct (x =? v) eqn:Exv.
  - apply N.eqb_eq in Exv. subst. reflexivity.
  - exact IH.
Qed.

Lemma find_app {A} (f : A -> bool) l1 l2 :
  find f (l1 ++ l2) = match find f l1 with Some a => Some a | None => find f l2 end.
Proof. induction l1 as [|a l1 IH]; simpl; [reflexivity|]. destruct (f a); auto. Qed.

Lemma find_none_forall {A} (f : A -> bool) l : find f l = None <-> forallb (fun a => negb (f a)) l = true.
Proof.
  induction l as [|a l IH]; simpl; [tauto|].
  destruct (f a); simpl; [split; discriminate | exact IH].
Qed.

Lemma base_cases tags tail x :
  wf_tagsb tags = true ->
  first_match (flat_map tag_from_cases tags ++ tail) x =
  match base_result tags x with
  | Some e => TOk e
  | None => first_match tail x
  end.
Proof.
  induction tags as [|t tags IH]; intros Hwf.
  - reflexivity.
  - destruct t as [id v|id lo hi nested|id]; cbn [flat_map tag_from_cases wf_tagsb] in *.
    + (* value tag *)
      cbn [app first_match]. unfold base_result, named_tag, enclosing_range.
      cbn [flat_map tag_values app find fst snd].
      rewrite (N.eqb_sym v x).
      destruct (x =? v) eqn:Exv.
      * apply N.eqb_eq in Exv; subst; reflexivity.
      * specialize (IH Hwf). unfold base_result, named_tag, enclosing_range in IH. exact IH.
    + (* range tag *)
      apply andb_prop in Hwf. destruct Hwf as [Hout Hwf].
      rewrite <- !app_assoc. rewrite first_match_app_vals.
      unfold base_result, named_tag, enclosing_range.
      cbn [flat_map tag_values]. rewrite find_app.
      destruct (find (fun p : string * N => snd p =? x) nested) as [[nid nv]|] eqn:En.
      * reflexivity.
      * cbn [app first_match find].
        destruct ((lo <=? x) && (x <=? hi)) eqn:Ein.
        -- (* inside the range: no later value equals x *)
           assert (Hnone : find (fun p : string * N => snd p =? x) (flat_map tag_values tags) = None).
           { apply find_none_forall. rewrite forallb_forall in Hout |- *.
             intros p Hp. specialize (Hout p Hp).
             destruct (snd p =? x) eqn:Epx; [|reflexivity].
             apply N.eqb_eq in Epx. rewrite Epx in Hout. rewrite Ein in Hout. discriminate. }
           rewrite Hnone. reflexivity.
        -- specialize (IH Hwf). unfold base_result, named_tag, enclosing_range in IH. exact IH.
    + (* default tag *)
      cbn [app]. specialize (IH Hwf).
      unfold base_result, named_tag, enclosing_range in *. cbn [flat_map tag_values app find]. exact IH.
Qed.

(** ** everything matched by a value or range arm is within the width *)

Lemma named_tag_bounded mx tags x id :
  tags_bounded mx tags = true -> named_tag tags x = Some id -> x <= mx.
Proof.
  unfold named_tag, tags_bounded. intros Hb H.
  destruct (find (fun p : string * N => snd p =? x) (flat_map tag_values tags)) as [[i v]|] eqn:E; [|discriminate].
  apply find_some in E. destruct E as [Hin Hv]. cbn in Hv. apply N.eqb_eq in Hv. subst v.
  apply in_flat_map in Hin. destruct Hin as [t [Ht Hin]].
  rewrite forallb_forall in Hb. specialize (Hb t Ht).
  destruct t as [tid v|tid lo hi nested|tid]; cbn in Hin, Hb.
  - destruct Hin as [Hin|[]]. inversion Hin; subst. lia.
  - apply andb_prop in Hb. destruct Hb as [_ Hn]. rewrite forallb_forall in Hn.
    specialize (Hn _ Hin). cbn in Hn. lia.
  - destruct Hin.
Qed.

Lemma enclosing_range_bounded mx tags x id :
  tags_bounded mx tags = true -> enclosing_range tags x = Some id -> x <= mx.
Proof.
  unfold enclosing_range, tags_bounded. intros Hb H.
  destruct (find _ tags) as [t|] eqn:E; [|discriminate].
  apply find_some in E. destruct E as [Hin Ht].
  rewrite forallb_forall in Hb. specialize (Hb t Hin).
  destruct t as [tid v|tid lo hi nested|tid]; try discriminate.
  cbn in Hb. lia.
Qed.

Lemma base_result_bounded mx tags x e :
  tags_bounded mx tags = true -> base_result tags x = Some e -> x <= mx.
Proof.
  unfold base_result. intros Hb H.
  destruct (named_tag tags x) eqn:E1.
  - eapply named_tag_bounded; eauto.
  - destruct (enclosing_range tags x) eqn:E2; [|discriminate].
    eapply enclosing_range_bounded; eauto.
Qed.

(** ** completeness: contiguous spans from 0 to max cover everything *)

Lemma last_nonempty_indep {A} (l : list A) x d d' : last (x :: l) d = last (x :: l) d'.
Proof.
  revert x. induction l as [|y l IH]; intros x; [reflexivity|].
  change (last (y :: l) d = last (y :: l) d'). apply IH.
Qed.

Lemma windows_cover (l : list (N * N)) a x :
  windows_ok (a :: l) = true -> fst a <= x -> x <= snd (last (a :: l) a) ->
  exists p, In p (a :: l) /\ fst p <= x /\ x <= snd p.
Proof.
  revert a. induction l as [|b l IH]; intros a Hw Hlo Hhi.
  - cbn in Hhi. exists a. split; [left; reflexivity | lia].
  - cbn [windows_ok] in Hw.
    apply andb_prop in Hw. destruct Hw as [Hw Hrest].
    apply andb_prop in Hw. destruct Hw as [Hnz Hadj].
    destruct (N.le_gt_cases x (snd a)) as [Hle|Hgt].
    + exists a. split; [left; reflexivity | lia].
    + assert (Hb : fst b <= x) by lia.
      assert (Hlast : last (a :: b :: l) a = last (b :: l) b).
      { change (last (a :: b :: l) a) with (last (b :: l) a). apply last_nonempty_indep. }
      rewrite Hlast in Hhi.
      destruct (IH b Hrest Hb Hhi) as [p [Hin Hp]].
      exists p. split; [right; exact Hin | exact Hp].
Qed.

Lemma insert_sorted_in x l p : In p (insert_sorted x l) <-> p = x \/ In p l.
Proof.
  induction l as [|y l IH]; cbn [insert_sorted].
  - simpl. intuition.
  - destruct (pair_leb x y).
    + simpl. intuition.
    + simpl. rewrite IH. intuition.
Qed.

Lemma sort_pairs_in l p : In p (sort_pairs l) <-> In p l.
Proof.
  unfold sort_pairs. induction l as [|x l IH]; cbn [fold_right]; [tauto|].
  rewrite insert_sorted_in, IH. simpl. intuition.
Qed.

Lemma complete_covers tags mx x :
  enum_is_complete tags mx = Some true -> x <= mx ->
  exists e, base_result tags x = Some e.
Proof.
  unfold enum_is_complete. intros H Hx.
  destruct (sort_pairs (flat_map tag_span tags)) as [|first rest] eqn:Es; [discriminate|].
  inversion H as [H1]. clear H.
  apply andb_prop in H1. destruct H1 as [H1 Hw].
  apply andb_prop in H1. destruct H1 as [Hf Hl].
  apply N.eqb_eq in Hf, Hl.
  change (snd (last (first :: rest) first) = mx) in Hl.
  destruct (windows_cover rest first x Hw) as [p [Hin [Hlo Hhi]]]; [rewrite Hf; lia | rewrite Hl; exact Hx |].
  assert (Hin' : In p (flat_map tag_span tags)).
  { apply sort_pairs_in. rewrite Es. exact Hin. }
  apply in_flat_map in Hin'. destruct Hin' as [t [Ht Hp]].
  unfold base_result.
  destruct (named_tag tags x) eqn:En; [eexists; reflexivity|].
  destruct t as [id v|id lo hi nested|id]; cbn in Hp.
  - (* a value tag with v = x: contradiction with named_tag = None *)
    destruct Hp as [Hp|[]]. subst p. cbn in Hlo, Hhi. assert (v = x) by lia. subst v.
    exfalso. unfold named_tag in En.
    destruct (find (fun p : string * N => snd p =? x) (flat_map tag_values tags)) as [[i v]|] eqn:Ef; [discriminate|].
    apply find_none_forall in Ef. rewrite forallb_forall in Ef.
    assert (Hin2 : In (id, x) (flat_map tag_values tags)).
    { apply in_flat_map. exists (TagValue id x). split; [exact Ht| left; reflexivity]. }
    specialize (Ef _ Hin2). cbn in Ef. rewrite N.eqb_refl in Ef. discriminate.
  - destruct Hp as [Hp|[]]. subst p. cbn in Hlo, Hhi.
    unfold enclosing_range.
    destruct (find (fun t => match t with TagRange _ lo hi _ => (lo <=? x) && (x <=? hi) | _ => false end) tags) eqn:Ef.
    + eexists; reflexivity.
    + exfalso. apply find_none_forall in Ef. rewrite forallb_forall in Ef.
      specialize (Ef _ Ht). cbn in Ef. lia.
  - destruct Hp.
Qed.

(** ** the theorem *)

Lemma scalar_max_le64 w : w <= 64 -> scalar_max w = 2 ^ w - 1.
Proof.
  intros H. unfold scalar_max. destruct (64 <=? w) eqn:E; [|reflexivity].
  assert (w = 64) by lia. subst. reflexivity.
Qed.

Lemma integer_width_ge w bw : integer_width w = Some bw -> w <= bw /\ bw <= 64.
Proof.
  unfold integer_width. intros H.
  destruct (w <=? 8) eqn:E1; [inversion H; lia|].
  destruct (w <=? 16) eqn:E2; [inversion H; lia|].
  destruct (w <=? 32) eqn:E3; [inversion H; lia|].
  destruct (w <=? 64) eqn:E4; [inversion H; lia| discriminate].
Qed.

Theorem rust_try_from_exact tags w bw c x :
  wf_tagsb tags = true ->
  tags_bounded (scalar_max w) tags = true ->
  integer_width w = Some bw ->
  enum_is_complete tags (scalar_max w) = Some c ->
  x < 2 ^ bw ->
  rust_enum_try_from tags w x =
  Some (match spec_enum_of_N tags w x with Some e => TOk e | None => TErr x end).
Proof.
  intros Hwf Hb Hbw Hc Hx.
  destruct (integer_width_ge _ _ Hbw) as [Hwbw Hbw64].
  assert (Hw64 : w <= 64) by lia.
  pose proof (scalar_max_le64 w Hw64) as Hmax.
  pose proof (pow2_pos w) as Hpw.
  unfold rust_enum_try_from, from_cases. rewrite Hbw, Hc. cbn [option_map]. f_equal.
  rewrite base_cases by exact Hwf.
  unfold spec_enum_of_N.
  fold (base_result tags x).
  destruct (base_result tags x) as [e|] eqn:Eb.
  - (* matched by a value or a range: x <= max < 2^w *)
    pose proof (base_result_bounded _ _ _ _ Hb Eb) as Hle.
    assert (Hlt : (2 ^ w <=? x) = false) by lia.
    rewrite Hlt.
    unfold base_result in Eb.
    destruct (named_tag tags x); [inversion Eb; reflexivity|].
    destruct (enclosing_range tags x); [inversion Eb; reflexivity | discriminate].
  - (* no value or range arm matches *)
    assert (Hnn : named_tag tags x = None /\ enclosing_range tags x = None).
    { unfold base_result in Eb. destruct (named_tag tags x); [discriminate|].
      destruct (enclosing_range tags x); [discriminate| split; reflexivity]. }
    destruct Hnn as [Hn He]. rewrite Hn, He.
    destruct (2 ^ w <=? x) eqn:Ebig.
    + (* at or above 2^w: only the error arm, which exists because bw > w *)
      assert (Hne : (bw =? w) = false) by (apply N.eqb_neq; intros ->; lia).
      destruct (enum_default_tag tags) as [oid|] eqn:Eo.
      * destruct c; cbn [negb app first_match].
        -- rewrite Hne. reflexivity.
        -- assert (Hgt : (x <=? scalar_max w) = false) by lia.
           rewrite Hgt. rewrite Hne. reflexivity.
      * cbn [app]. rewrite Hne. cbn [negb orb first_match]. reflexivity.
    + (* below 2^w and uncovered: the enum is not complete *)
      assert (Hxm : x <= scalar_max w) by lia.
      destruct c.
      * exfalso. destruct (complete_covers tags _ x Hc Hxm) as [e He']. congruence.
      * destruct (enum_default_tag tags) as [oid|] eqn:Eo; cbn [negb app first_match].
        -- assert (Hle : (x <=? scalar_max w) = true) by lia. rewrite Hle. reflexivity.
        -- rewrite orb_true_r. reflexivity.
Qed.

(** converting back yields the integer *)
Corollary rust_try_from_back tags w bw c x e :
  wf_tagsb tags = true -> tags_bounded (scalar_max w) tags = true ->
  integer_width w = Some bw -> enum_is_complete tags (scalar_max w) = Some c -> x < 2 ^ bw ->
  rust_enum_try_from tags w x = Some (TOk e) -> evariant_to_N e = x.
Proof.
  intros Hwf Hb Hbw Hc Hx H.
  rewrite (rust_try_from_exact _ _ _ _ _ Hwf Hb Hbw Hc Hx) in H.
  unfold spec_enum_of_N in H.
  destruct (2 ^ w <=? x); [discriminate|].
  destruct (named_tag tags x); [inversion H; reflexivity|].
  destruct (enclosing_range tags x); [inversion H; reflexivity|].
  destruct (enum_default_tag tags); [inversion H; reflexivity| discriminate].
Qed.
