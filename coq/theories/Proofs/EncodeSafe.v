(** The emitted ENCODER never panics at run time on declarations of the bit-field
    fragment (scalars, enum typedefs, fixed fields, reserved bits, in any composition),
    WHATEVER value it is given -- in range, out of range, ill-typed: the result is bytes,
    an [EncodeError], or a refusal of the generator (nothing was emitted).  This is the
    "never panics" half of C05 for that fragment; "never truncates silently" is
    [rust_encode_fragment] (the bytes are the reference's whenever the reference has an
    encoding) together with the range checks proved here to be the only other exit. *)
From Coq Require Import NArith List String Bool Lia.
From Coq Require Import Strings.Byte.
From PDL Require Import Base.Bits Base.Outcome Lang.Ast Lang.Sexp Analyzer.Schema Rust.Enum
     Sem.RefEncode Rust.Encode Rust.Decode Proofs.DecodeSafe Proofs.BitfieldEncode.
Import ListNotations.
Open Scope N_scope.

Section EncSafe.
  Variable fl : file.
  Variable sch : schema.
  Variable rec_enc : string -> value -> eres (list byte).
  Variable rec_len : string -> value -> option N.
  Variable d : decl.
  Variable all_fields : list field.
  Variable cs : list constr.
  Variable obj : list (string * value).
  Variable payload_act : eres (list byte).
  Variable payload_size : N.

  Lemma pack_bit_fields_nrp p shift : no_rt_panic (pack_bit_fields fl p shift).
  Proof.
    unfold pack_bit_fields. destruct (integer_width shift); [|reflexivity].
    destruct p; exact I.
  Qed.

  Lemma mask_bits_lt w tw : integer_width w = Some tw -> (w <? tw) = true -> exists m, mask_bits w = Some m.
  Proof.
    intros Hw Hlt. unfold mask_bits.
    destruct (integer_width_bounds w tw Hw) as [_ Hle].
    apply N.ltb_lt in Hlt.
    assert (H : (w <? 64) = true) by (apply N.ltb_lt; lia).
    rewrite H. eexists; reflexivity.
  Qed.

  Theorem enc_fields_fragment_nrp : forall fs p shift,
    forallb (bf_field fl) fs = true ->
    no_rt_panic (enc_fields fl sch rec_enc rec_len d all_fields cs obj payload_act payload_size fs p shift).
  Proof.
    induction fs as [|f fs IH]; intros p shift Hb; cbn [enc_fields]; [exact I|].
    cbn [forallb] in Hb. apply andb_true_iff in Hb. destruct Hb as [Hf Hb].
    pose proof (bf_is_bitfield fl f Hf) as Hbit.
    unfold bf_field in Hf.
    destruct (f_cond f); [discriminate|]. rewrite Hbit.
    destruct (field_size sch d f) as [[width| |]|]; try reflexivity.
    apply nrp_bind.
    - (* the entry *)
      destruct (f_desc f); try discriminate.
      + (* FixedScalar *) destruct (integer_width width); [exact I|reflexivity].
      + (* FixedEnum *)
        destruct (integer_width width); [|reflexivity].
        destruct (enum_tags fl _) as [[tags ?]|]; [|reflexivity].
        destruct (enum_tag_value tags _); [exact I|reflexivity].
      + (* Reserved *) exact I.
      + (* Scalar *)
        destruct (integer_width width0) as [tw|] eqn:Ew; [|reflexivity].
        destruct (get_num _ _ _ _ _); [|reflexivity].
        destruct (width0 <? tw) eqn:Elt; [|exact I].
        destruct (mask_bits_lt _ _ Ew Elt) as [m Hm]. rewrite Hm.
        destruct (m <? n); exact I.
      + (* Typedef *)
        destruct (integer_width width); [|reflexivity].
        destruct (get_num _ _ _ _ _); [exact I|reflexivity].
    - intros entry _.
      destruct ((shift + width) mod 8 =? 0).
      + apply nrp_bind; [apply pack_bit_fields_nrp|]. intros chunk _.
        apply nrp_bind; [apply IH; exact Hb|]. intros; exact I.
      + apply IH; exact Hb.
  Qed.
End EncSafe.

(** whole root declarations of the fragment *)
Theorem rust_encode_fragment_nrp fuel fl sch id d v :
  lookup_decl fl id = Some d ->
  root_of_fragment fl d ->
  no_rt_panic (rust_encode (S fuel) fl sch id v).
Proof.
  intros Hl [[did [fs Hd]] Hbf].
  assert (Hpar : get_parent fl d = None) by (destruct Hd as [-> | ->]; reflexivity).
  unfold rust_encode. rewrite Hl.
  assert (Hcore : forall o pa ps, no_rt_panic (rust_enc_decl (S fuel) fl sch d (iter_fields fl d) (iter_constraints fl d) o pa ps)).
  { intros o pa ps. cbn [rust_enc_decl]. rewrite Hpar. apply enc_fields_fragment_nrp. exact Hbf. }
  destruct Hd as [-> | ->]; destruct v; try reflexivity;
    repeat match goal with
           | |- no_rt_panic (match ?x with _ => _ end) => destruct x; try reflexivity
           end; try apply Hcore; try exact I.
Qed.
