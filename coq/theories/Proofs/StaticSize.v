(** C16 on the bit-field fragment: the constant size the schema computes for a
    declaration is exactly the number of bits every reference encoding occupies. *)
From Coq Require Import NArith ZArith List String Bool Lia ZifyN ZifyBool.
From Coq Require Import Strings.Byte.
From PDL Require Import Base.Bits Base.Outcome Lang.Ast Lang.Sexp Analyzer.Schema Rust.Enum
     Sem.RefEncode Rust.Encode Proofs.Pack Proofs.BitfieldEncode.
Import ListNotations.
Open Scope N_scope.

Section Frag.
  Variable fl : file.
  Variable sch : schema.
  Variable rec : string -> value -> option (list seg).
  Variable d : decl.
  Variable all_fields : list field.
  Variable obj : list (string * value).
  Variable payload : list seg.
  Hypothesis Hsch : schema_knows_enums fl sch.

  (** declared width of a fragment field *)
  Definition frag_width (f : field) : N :=
    match f_desc f with
    | Scalar _ w | FixedScalar w _ | Reserved w => w
    | Typedef _ tid | FixedEnum tid _ =>
        match lookup_decl fl tid with Some (DEnum _ _ w) => w | _ => 0 end
    | _ => 0
    end.

  Fixpoint frag_bits (fs : list field) : N :=
    match fs with [] => 0 | f :: rest => frag_width f + frag_bits rest end.

  Lemma seg_len_cons s ss : seg_len (s :: ss) = len (fst s) + seg_len ss.
  Proof. unfold seg_len, len. cbn [map List.concat]. rewrite app_length. lia. Qed.

  Lemma ref_bitfield_width f v w :
    bf_field fl f = true ->
    ref_bitfield fl rec d all_fields [] obj payload f = Some (v, w) -> w = frag_width f.
  Proof.
    unfold bf_field, ref_bitfield, frag_width. destruct (f_cond f); [discriminate|].
    destruct (f_desc f); try discriminate; intros Hbf H.
    - inversion H; reflexivity.
    - unfold enum_tags in H. destruct (lookup_decl fl enum_id) as [[]|]; try discriminate.
      destruct (enum_tag_value tags tag_id); [|discriminate]. inversion H; reflexivity.
    - inversion H; reflexivity.
    - cbn [find_constraint find] in H. destruct (assoc id obj) as [[]|]; try discriminate. inversion H; reflexivity.
    - unfold enum_tags in H. destruct (lookup_decl fl type_id) as [[]|]; try discriminate.
      cbn [find_constraint find] in H. destruct (assoc id obj) as [[]|]; try discriminate.
      destruct (spec_enum_of_N tags width n); [|discriminate]. inversion H; reflexivity.
  Qed.

  (** the reference encoding of a fragment field list occupies [bits + frag_bits fs] bits *)
  Theorem ref_fragment_bits : forall fs acc bits ss,
    forallb (bf_field fl) fs = true ->
    ref_enc_fields fl rec d all_fields [] obj payload fs acc bits = Some ss ->
    8 * seg_len ss = bits + frag_bits fs.
  Proof.
    induction fs as [|f rest IH]; intros acc bits ss Hbf H; cbn [ref_enc_fields frag_bits] in *.
    - destruct (bits =? 0) eqn:E; [|discriminate]. inversion H; subst. cbn. lia.
    - cbn [forallb] in Hbf. apply andb_prop in Hbf. destruct Hbf as [Hf Hrest].
      pose proof (bf_is_bitfield fl f Hf) as Hbit.
      assert (Hc : f_cond f = None) by (unfold bf_field in Hf; destruct (f_cond f); [discriminate|reflexivity]).
      rewrite Hc, Hbit in H.
      destruct (ref_bitfield fl rec d all_fields [] obj payload f) as [[v w]|] eqn:Erb; [|discriminate].
      rewrite <- (ref_bitfield_width f v w Hf Erb).
      destruct (v <? 2 ^ w); [|discriminate].
      destruct ((bits + w) mod 8 =? 0) eqn:Em.
      + destruct (ref_enc_fields fl rec d all_fields [] obj payload rest 0 0) as [b|] eqn:Eb; [|discriminate].
        inversion H; subst. rewrite seg_len_cons. specialize (IH 0 0 b Hrest Eb).
        unfold int_seg. cbn [fst]. unfold len. rewrite le_bytes_length. unfold nbytes.
        rewrite N2Nat.id. apply N.eqb_eq in Em. lia.
      + specialize (IH _ _ _ Hrest H). lia.
  Qed.

  (** the schema's sum over the same field list *)
  Lemma field_size_fragment f :
    bf_field fl f = true -> field_size sch d f = Some (SStatic (frag_width f)).
  Proof.
    unfold bf_field, field_size, frag_width. destruct (f_cond f); [discriminate|].
    destruct (f_desc f); try discriminate; intros Hbf; try reflexivity.
    - destruct (lookup_decl fl enum_id) as [[]|] eqn:El; try discriminate.
      apply (Hsch enum_id tags width). right. eexists; exact El.
    - destruct (lookup_decl fl type_id) as [[]|] eqn:El; try discriminate.
      apply (Hsch type_id tags width). right. eexists; exact El.
  Qed.

  Lemma next_padding_fragment rest : forallb (bf_field fl) rest = true -> next_padding rest = None.
  Proof.
    destruct rest as [|g rest]; [reflexivity|]. cbn [forallb next_padding]. intros H.
    apply andb_prop in H. destruct H as [Hg _]. unfold bf_field in Hg.
    destruct (f_cond g); [discriminate|]. destruct (f_desc g); try discriminate; reflexivity.
  Qed.

  Lemma bf_not_payload f : bf_field fl f = true -> is_payload f = false.
  Proof.
    unfold bf_field, is_payload, is_payload_desc. destruct (f_cond f); [discriminate|].
    destruct (f_desc f); try discriminate; reflexivity.
  Qed.

  Theorem schema_fragment_bits : forall fs a p dsz psz,
    forallb (bf_field fl) fs = true ->
    annotate_fields sch d fs (SStatic a) p = Some (dsz, psz) ->
    dsz = SStatic (a + frag_bits fs) /\ psz = p.
  Proof.
    induction fs as [|f rest IH]; intros a p dsz psz Hbf H; cbn [annotate_fields frag_bits] in *.
    - inversion H; subst. split; [f_equal; lia | reflexivity].
    - cbn [forallb] in Hbf. apply andb_prop in Hbf. destruct Hbf as [Hf Hrest].
      rewrite (field_size_fragment f Hf), (bf_not_payload f Hf), (next_padding_fragment rest Hrest) in H.
      cbn [size_add] in H.
      destruct (fits_usize (a + frag_width f)); [|discriminate].
      destruct (IH _ _ _ _ Hrest H) as [-> ->]. split; [f_equal; lia | reflexivity].
  Qed.

  (** Static n  ==>  every encoding occupies exactly n bits *)
  Theorem static_exact_fragment fs n psz ss :
    forallb (bf_field fl) fs = true ->
    annotate_fields sch d fs (SStatic 0) (SStatic 0) = Some (SStatic n, psz) ->
    ref_enc_fields fl rec d all_fields [] obj payload fs 0 0 = Some ss ->
    8 * seg_len ss = n.
  Proof.
    intros Hbf Ha Hr.
    destruct (schema_fragment_bits fs 0 _ _ _ Hbf Ha) as [E _]. inversion E; subst.
    rewrite (ref_fragment_bits fs 0 0 ss Hbf Hr). lia.
  Qed.
End Frag.
