(** C16, second half: the CLASSIFICATION of sizes into Static / Dynamic / Unknown.

    [field_size] (analyzer.rs [annotate_field]) is read literally:
    - a field is Dynamic exactly when it carries a condition, or is a payload/body whose
      declaration has a [_size_(_payload_|_body_)] field, or is an array without static
      count whose declaration has a size or count field for it, or is a typedef / fixed
      enum / group reference / array with a static count whose TYPE has a Dynamic total;
    - a field is Unknown exactly when it has no condition and is a payload/body without
      size field, an array with neither static count nor size/count field, or a typedef /
      static-count array whose TYPE has an Unknown total;
    - [size_add] is a join on the lattice Static < Dynamic < Unknown (laws below), so the
      sum over a field list is Unknown iff some contribution is, and Dynamic iff some
      contribution is Dynamic and none is Unknown.
    The contribution of a field is NOT always its own class: a field followed by
    [_padding_[n]] contributes Static (8 n) whatever its class, and a payload does not
    contribute to the declaration size (it is stored apart; the last payload wins).
    Counter-examples to a naive reading are evaluated at the end of the file. *)
From Coq Require Import NArith List String Bool Lia ZifyN ZifyBool.
From PDL Require Import Base.Bits Lang.Ast Lang.Sexp Analyzer.Schema Proofs.SchemaEnums.
Import ListNotations.
Open Scope N_scope.

(** * Lattice laws of [size_add] and [size_mul_n] *)

Lemma size_add_unknown_l b : size_add SUnknown b = Some SUnknown.
Proof. reflexivity. Qed.

Lemma size_add_unknown_r a : size_add a SUnknown = Some SUnknown.
Proof. destruct a; reflexivity. Qed.

Lemma size_add_dynamic_l b : b <> SUnknown -> size_add SDynamic b = Some SDynamic.
Proof. destruct b; intros H; try reflexivity. now elim H. Qed.

Lemma size_add_dynamic_r a : a <> SUnknown -> size_add a SDynamic = Some SDynamic.
Proof. destruct a; intros H; try reflexivity. now elim H. Qed.

Lemma size_add_dynamic_static n : size_add SDynamic (SStatic n) = Some SDynamic.
Proof. reflexivity. Qed.

Lemma size_add_comm a b : size_add a b = size_add b a.
Proof.
  destruct a as [x| |], b as [y| |]; try reflexivity.
  cbn [size_add]. rewrite (N.add_comm y x). reflexivity.
Qed.

Lemma size_add_zero_r a : size_add a (SStatic 0) = match a with
                                                  | SStatic x => if fits_usize x then Some a else None
                                                  | _ => Some a end.
Proof. destruct a as [x| |]; try reflexivity. cbn [size_add]. now rewrite N.add_0_r. Qed.

Definition obind {A B} (o : option A) (k : A -> option B) : option B :=
  match o with Some a => k a | None => None end.

(** Associativity: whenever BOTH intermediate sums are defined (no usize overflow). *)
Lemma size_add_assoc a b c ab bc :
  size_add a b = Some ab -> size_add b c = Some bc -> size_add ab c = size_add a bc.
Proof.
  destruct a as [x| |], b as [y| |], c as [z| |]; cbn [size_add]; intros Hab Hbc;
    repeat match goal with
           | H : (if ?c then _ else _) = Some _ |- _ => destruct c eqn:?; [|discriminate]
           | H : Some _ = Some _ |- _ => inversion H; clear H; subst
           end; cbn [size_add]; try reflexivity.
  now rewrite N.add_assoc.
Qed.

(** On Static sizes associativity is unconditional (both sides overflow together). *)
Lemma size_add_assoc_static x y z :
  obind (size_add (SStatic x) (SStatic y)) (fun s => size_add s (SStatic z))
  = obind (size_add (SStatic y) (SStatic z)) (size_add (SStatic x)).
Proof.
  cbn [size_add]. unfold fits_usize, usize_max.
  destruct (x + y <=? 18446744073709551615) eqn:E1; destruct (y + z <=? 18446744073709551615) eqn:E2;
    cbn [obind size_add]; unfold fits_usize, usize_max; rewrite ?N.add_assoc.
  - reflexivity.
  - destruct (x + y + z <=? 18446744073709551615) eqn:E3; [lia | reflexivity].
  - destruct (x + y + z <=? 18446744073709551615) eqn:E3; [lia | reflexivity].
  - reflexivity.
Qed.

(** ... but not in general: an overflowing partial sum is a panic even when the total
    would be absorbed by Unknown. *)
Example size_add_not_assoc :
  (obind (size_add (SStatic usize_max) (SStatic 1)) (fun s => size_add s SUnknown),
   obind (size_add (SStatic 1) SUnknown) (size_add (SStatic usize_max)))
  = (None, Some SUnknown).
Proof. vm_compute. reflexivity. Qed.

(** The three classes of a sum. *)
Lemma size_add_unknown_iff a b r :
  size_add a b = Some r -> (r = SUnknown <-> a = SUnknown \/ b = SUnknown).
Proof.
  destruct a as [x| |], b as [y| |]; cbn [size_add]; intros H;
    try (destruct (fits_usize (x + y)); [|discriminate]); inversion H; subst;
    split; intros H'; try discriminate; try (destruct H'; discriminate); auto.
Qed.

Lemma size_add_dynamic_iff a b r :
  size_add a b = Some r ->
  (r = SDynamic <-> (a = SDynamic \/ b = SDynamic) /\ a <> SUnknown /\ b <> SUnknown).
Proof.
  destruct a as [x| |], b as [y| |]; cbn [size_add]; intros H;
    try (destruct (fits_usize (x + y)); [|discriminate]); inversion H; subst; clear H;
    (split;
     [ intros E; try discriminate E; (split; [auto | split; discriminate])
     | intros [[E|E] [Ha Hb]]; try discriminate E; try reflexivity;
       try (now elim Ha); try (now elim Hb) ]).
Qed.

Lemma size_add_static_iff a b n :
  size_add a b = Some (SStatic n) <->
  exists x y, a = SStatic x /\ b = SStatic y /\ n = x + y /\ fits_usize (x + y) = true.
Proof.
  split.
  - destruct a as [x| |], b as [y| |]; cbn [size_add]; intros H; try discriminate.
    destruct (fits_usize (x + y)) eqn:E; [|discriminate]. inversion H; subst.
    exists x, y. repeat split; assumption.
  - intros (x & y & -> & -> & -> & Hf). cbn [size_add]. rewrite Hf. reflexivity.
Qed.

(** A sum that has a Dynamic or Unknown operand never overflows. *)
Lemma size_add_defined_nonstatic a b :
  (forall x, a <> SStatic x) \/ (forall y, b <> SStatic y) -> size_add a b <> None.
Proof.
  destruct a as [x| |], b as [y| |]; cbn [size_add]; intros [H|H]; try discriminate;
    now elim (H _ eq_refl).
Qed.

Lemma size_mul_n_class a n r :
  size_mul_n a n = Some r ->
  (r = SUnknown <-> a = SUnknown) /\ (r = SDynamic <-> a = SDynamic).
Proof.
  destruct a as [x| |]; cbn [size_mul_n]; intros H;
    try (destruct (fits_usize (x * n)); [|discriminate]); inversion H; subst;
    split; split; intros H'; try discriminate; reflexivity.
Qed.

Lemma ds_total_unknown_iff e r :
  ds_total e = Some r ->
  (r = SUnknown <-> ds_decl e = SUnknown \/ ds_parent e = SUnknown \/ ds_payload e = SUnknown).
Proof.
  unfold ds_total. destruct (size_add (ds_decl e) (ds_parent e)) as [s|] eqn:E1; [|discriminate].
  intros E2. rewrite (size_add_unknown_iff _ _ _ E2), (size_add_unknown_iff _ _ _ E1). tauto.
Qed.

Lemma ds_total_dynamic_iff e r :
  ds_total e = Some r ->
  (r = SDynamic <->
   (ds_decl e = SDynamic \/ ds_parent e = SDynamic \/ ds_payload e = SDynamic)
   /\ ds_decl e <> SUnknown /\ ds_parent e <> SUnknown /\ ds_payload e <> SUnknown).
Proof.
  unfold ds_total. destruct (size_add (ds_decl e) (ds_parent e)) as [s|] eqn:E1; [|discriminate].
  intros E2. rewrite (size_add_dynamic_iff _ _ _ E2), (size_add_dynamic_iff _ _ _ E1).
  pose proof (size_add_unknown_iff _ _ _ E1) as Hu. tauto.
Qed.

(** A total with a Dynamic part and no Unknown part is defined (no overflow can occur). *)
Lemma ds_total_dynamic_defined e :
  (ds_decl e = SDynamic \/ ds_parent e = SDynamic \/ ds_payload e = SDynamic) ->
  ds_decl e <> SUnknown -> ds_parent e <> SUnknown -> ds_payload e <> SUnknown ->
  (forall x y, ds_decl e = SStatic x -> ds_parent e = SStatic y -> fits_usize (x + y) = true) ->
  ds_total e = Some SDynamic.
Proof.
  unfold ds_total. destruct (ds_decl e) as [x| |], (ds_parent e) as [y| |], (ds_payload e) as [z| |];
    intros Hd H1 H2 H3 Hf; cbn [size_add]; try reflexivity;
    try (now elim H1); try (now elim H2); try (now elim H3);
    try (destruct Hd as [Hd|[Hd|Hd]]; discriminate).
  rewrite (Hf x y eq_refl eq_refl). reflexivity.
Qed.

(** * Field level: [field_size] read literally *)

(** the type a field refers to when its size is the total size of that type *)
Definition type_ref (x : fdesc) : option string :=
  match x with Typedef _ t | FixedEnum t _ | Group t _ => Some t | _ => None end.

(** an array without static count *)
Definition open_array (x : fdesc) : option string :=
  match x with Array id _ _ _ None => Some id | _ => None end.

(** an array of [s] elements of the declared type [t] (no scalar width) *)
Definition counted_typed_array (x : fdesc) : option (string * N) :=
  match x with Array _ None (Some t) _ (Some s) => Some (t, s) | _ => None end.

(** the constant width of the field kinds whose size depends on nothing *)
Definition const_width (x : fdesc) : option N :=
  match x with
  | Checksum _ | Padding _ => Some 0
  | Size _ w | Count _ w | ElementSize _ w | FixedScalar w _ | Reserved w | Scalar _ w => Some w
  | Flag _ _ => Some 1
  | Array _ (Some w) _ _ (Some s) => if fits_usize (s * w) then Some (s * w) else None
  | _ => None
  end.

Section Field.
  Variable sch : schema.
  Variable d : decl.

  Definition dyn_shape (f : field) : Prop :=
    f_cond f <> None
    \/ (is_payload f = true /\ has_payload_size d = true)
    \/ (exists id, open_array (f_desc f) = Some id /\ has_array_size d id = true)
    \/ (exists t, type_ref (f_desc f) = Some t /\ type_total sch t = Some SDynamic)
    \/ (exists t s, counted_typed_array (f_desc f) = Some (t, s) /\ type_total sch t = Some SDynamic).

  Definition unk_shape (f : field) : Prop :=
    f_cond f = None
    /\ ((is_payload f = true /\ has_payload_size d = false)
        \/ (exists id, open_array (f_desc f) = Some id /\ has_array_size d id = false)
        \/ (exists t, type_ref (f_desc f) = Some t /\ type_total sch t = Some SUnknown)
        \/ (exists t s, counted_typed_array (f_desc f) = Some (t, s) /\ type_total sch t = Some SUnknown)).

  Definition static_shape (f : field) (n : N) : Prop :=
    f_cond f = None
    /\ (const_width (f_desc f) = Some n
        \/ (exists t, type_ref (f_desc f) = Some t /\ type_total sch t = Some (SStatic n))
        \/ (exists t s x, counted_typed_array (f_desc f) = Some (t, s)
                          /\ type_total sch t = Some (SStatic x)
                          /\ n = x * s /\ fits_usize (x * s) = true)).

  (** ** Dynamic *)
  Theorem field_dynamic_iff f : field_size sch d f = Some SDynamic <-> dyn_shape f.
  Proof.
    unfold field_size, dyn_shape. split.
    - destruct (f_cond f) as [c|] eqn:Ec; [intros _; left; discriminate|].
      unfold is_payload. destruct (f_desc f) as [ | | | | | | | | | |id w t m s| | | | ] eqn:Ed;
        cbn [is_payload_desc type_ref open_array counted_typed_array]; intros H; try discriminate.
      + destruct (has_payload_size d) eqn:Ep; [|discriminate]. right; left. split; reflexivity.
      + destruct (has_payload_size d) eqn:Ep; [|discriminate]. right; left. split; reflexivity.
      + right; right; right; left. exists enum_id. split; [reflexivity | exact H].
      + destruct s as [s|].
        * destruct w as [w|].
          -- destruct (fits_usize (s * w)); discriminate.
          -- destruct t as [t|]; [|discriminate].
             destruct (type_total sch t) as [tt|] eqn:Et; [|discriminate].
             destruct (size_mul_n_class _ _ _ H) as [_ [Hd _]]. rewrite (Hd eq_refl) in Et.
             right; right; right; right. exists t, s. split; [reflexivity | exact Et].
        * destruct (has_array_size d id) eqn:Ea.
          -- right; right; left. exists id. split; [|exact Ea]. destruct w, t; reflexivity.
          -- destruct w, t; discriminate.
      + right; right; right; left. exists type_id. split; [reflexivity | exact H].
      + right; right; right; left. exists group_id. split; [reflexivity | exact H].
    - destruct (f_cond f) as [c|] eqn:Ec; [reflexivity|].
      intros [H|[[Hp Hs]|[(id & Ho & Ha)|[(t & Ht & Htt)|(t & s & Hc & Htt)]]]].
      + now elim H.
      + unfold is_payload in Hp. destruct (f_desc f); try discriminate; rewrite Hs; reflexivity.
      + destruct (f_desc f) as [ | | | | | | | | | |id' w t m s| | | | ]; try discriminate.
        destruct s; [destruct w, t; discriminate|].
        assert (id' = id) as -> by (destruct w, t; cbn in Ho; congruence).
        rewrite Ha. destruct w, t; reflexivity.
      + destruct (f_desc f); try discriminate; cbn [type_ref] in Ht; inversion Ht; subst; exact Htt.
      + destruct (f_desc f) as [ | | | | | | | | | |id' w t' m s'| | | | ]; try discriminate.
        destruct w; [discriminate|]. destruct t' as [t'|]; [|discriminate].
        destruct s' as [s'|]; [|discriminate]. cbn [counted_typed_array] in Hc. inversion Hc; subst.
        rewrite Htt. reflexivity.
  Qed.

  (** ** Unknown *)
  Theorem field_unknown_iff f : field_size sch d f = Some SUnknown <-> unk_shape f.
  Proof.
    unfold field_size, unk_shape. split.
    - destruct (f_cond f) as [c|] eqn:Ec; [discriminate|].
      unfold is_payload. destruct (f_desc f) as [ | | | | | | | | | |id w t m s| | | | ] eqn:Ed;
        cbn [is_payload_desc type_ref open_array counted_typed_array]; intros H; try discriminate;
        (split; [reflexivity|]).
      + destruct (has_payload_size d) eqn:Ep; [discriminate|]. left. split; reflexivity.
      + destruct (has_payload_size d) eqn:Ep; [discriminate|]. left. split; reflexivity.
      + right; right; left. exists enum_id. split; [reflexivity | exact H].
      + destruct s as [s|].
        * destruct w as [w|].
          -- destruct (fits_usize (s * w)); discriminate.
          -- destruct t as [t|]; [|discriminate].
             destruct (type_total sch t) as [tt|] eqn:Et; [|discriminate].
             destruct (size_mul_n_class _ _ _ H) as [[Hu _] _]. rewrite (Hu eq_refl) in Et.
             right; right; right. exists t, s. split; [reflexivity | exact Et].
        * destruct (has_array_size d id) eqn:Ea.
          -- destruct w, t; discriminate.
          -- right; left. exists id. split; [|exact Ea]. destruct w, t; reflexivity.
      + right; right; left. exists type_id. split; [reflexivity | exact H].
      + right; right; left. exists group_id. split; [reflexivity | exact H].
    - intros [Ec H]. rewrite Ec.
      destruct H as [[Hp Hs]|[(id & Ho & Ha)|[(t & Ht & Htt)|(t & s & Hc & Htt)]]].
      + unfold is_payload in Hp. destruct (f_desc f); try discriminate; rewrite Hs; reflexivity.
      + destruct (f_desc f) as [ | | | | | | | | | |id' w t m s| | | | ]; try discriminate.
        destruct s; [destruct w, t; discriminate|].
        assert (id' = id) as -> by (destruct w, t; cbn in Ho; congruence).
        rewrite Ha. destruct w, t; reflexivity.
      + destruct (f_desc f); try discriminate; cbn [type_ref] in Ht; inversion Ht; subst; exact Htt.
      + destruct (f_desc f) as [ | | | | | | | | | |id' w t' m s'| | | | ]; try discriminate.
        destruct w; [discriminate|]. destruct t' as [t'|]; [|discriminate].
        destruct s' as [s'|]; [|discriminate]. cbn [counted_typed_array] in Hc. inversion Hc; subst.
        rewrite Htt. reflexivity.
  Qed.

  (** ** Static (for completeness: the three shapes cover every defined [field_size]) *)
  Theorem field_static_iff f n : field_size sch d f = Some (SStatic n) <-> static_shape f n.
  Proof.
    unfold field_size, static_shape. split.
    - destruct (f_cond f) as [c|] eqn:Ec; [discriminate|].
      destruct (f_desc f) as [ | | | | | | | | | |id w t m s| | | | ] eqn:Ed;
        cbn [const_width type_ref counted_typed_array]; intros H; try discriminate;
        (split; [reflexivity|]); try (left; inversion H; reflexivity).
      + destruct (has_payload_size d); discriminate.
      + destruct (has_payload_size d); discriminate.
      + right; left. exists enum_id. split; [reflexivity | exact H].
      + destruct s as [s|].
        * destruct w as [w|].
          -- left. destruct (fits_usize (s * w)); [|discriminate]. inversion H; reflexivity.
          -- destruct t as [t|]; [|discriminate].
             destruct (type_total sch t) as [[x| |]|] eqn:Et; cbn [size_mul_n] in H; try discriminate. destruct (fits_usize (x * s)) eqn:Ef; [|discriminate].
             inversion H; subst. right; right. exists t, s, x. repeat split; assumption.
        * destruct w, t; destruct (has_array_size d id); discriminate.
      + right; left. exists type_id. split; [reflexivity | exact H].
      + right; left. exists group_id. split; [reflexivity | exact H].
    - intros [Ec H]. rewrite Ec.
      destruct H as [Hw|[(t & Ht & Htt)|(t & s & x & Hc & Htt & -> & Hf)]].
      + destruct (f_desc f) as [ | | | | | | | | | |id w t m s| | | | ]; cbn [const_width] in Hw;
          try discriminate; try (inversion Hw; reflexivity).
        destruct w as [w|]; [|discriminate]. destruct s as [s|]; [|discriminate].
        destruct (fits_usize (s * w)); [|discriminate]. inversion Hw; reflexivity.
      + destruct (f_desc f); try discriminate; cbn [type_ref] in Ht; inversion Ht; subst; exact Htt.
      + destruct (f_desc f) as [ | | | | | | | | | |id' w t' m s'| | | | ]; try discriminate.
        destruct w; [discriminate|]. destruct t' as [t'|]; [|discriminate].
        destruct s' as [s'|]; [|discriminate]. cbn [counted_typed_array] in Hc. inversion Hc; subst.
        rewrite Htt. cbn [size_mul_n]. rewrite Hf. reflexivity.
  Qed.

  (** Every defined field size is in exactly one of the three shapes. *)
  Corollary field_size_trichotomy f r :
    field_size sch d f = Some r ->
    (r = SDynamic /\ dyn_shape f) \/ (r = SUnknown /\ unk_shape f) \/ (exists n, r = SStatic n /\ static_shape f n).
  Proof.
    intros H. destruct r as [n| |].
    - right; right. exists n. split; [reflexivity|]. now apply field_static_iff.
    - left. split; [reflexivity|]. now apply field_dynamic_iff.
    - right; left. split; [reflexivity|]. now apply field_unknown_iff.
  Qed.

  Corollary shapes_exclusive f : dyn_shape f -> unk_shape f -> False.
  Proof.
    intros Hd Hu. apply field_dynamic_iff in Hd. apply field_unknown_iff in Hu. congruence.
  Qed.

  (** * Field lists: what [annotate_fields] adds up *)

  (** contribution of [f] to the declaration size, given the fields that follow it *)
  Definition contrib (f : field) (rest : list field) : option size :=
    match field_size sch d f with
    | None => None
    | Some fsz => match next_padding rest with Some p => Some (SStatic p) | None => Some fsz end
    end.

  (** the non-payload fields with their contributions *)
  Fixpoint contribs (fs : list field) : list (field * size) :=
    match fs with
    | [] => []
    | f :: rest =>
        if is_payload f then contribs rest
        else match contrib f rest with
             | Some s => (f, s) :: contribs rest
             | None => contribs rest
             end
    end.

  Lemma contribs_inv : forall fs f s,
    In (f, s) (contribs fs) ->
    exists pre rest, fs = (pre ++ f :: rest)%list /\ is_payload f = false /\ contrib f rest = Some s.
  Proof.
    induction fs as [|g rest IH]; intros f s Hin; cbn [contribs] in Hin; [contradiction|].
    assert (Hlater : In (f, s) (contribs rest) ->
                     exists pre rest', (g :: rest = pre ++ f :: rest')%list /\ is_payload f = false
                                       /\ contrib f rest' = Some s).
    { intros H. destruct (IH f s H) as (pre & rest' & -> & Hp & Hc).
      exists (g :: pre), rest'. repeat split; assumption. }
    destruct (is_payload g) eqn:Ep; [now apply Hlater|].
    destruct (contrib g rest) as [c|] eqn:Ec; [|now apply Hlater].
    destruct Hin as [Heq|Hin]; [|now apply Hlater].
    inversion Heq; subst. exists [], rest. repeat split; assumption.
  Qed.

  (** a Dynamic / Unknown contribution is the field's own class, and no padding follows *)
  Lemma contrib_nonstatic f rest s :
    contrib f rest = Some s -> (forall n, s <> SStatic n) ->
    field_size sch d f = Some s /\ next_padding rest = None.
  Proof.
    unfold contrib. destruct (field_size sch d f) as [fsz|]; [|discriminate].
    destruct (next_padding rest) as [p|]; intros H Hs; inversion H; subst.
    - now elim (Hs p).
    - split; reflexivity.
  Qed.

  Theorem annotate_fields_class : forall fs a p dsz psz,
    annotate_fields sch d fs a p = Some (dsz, psz) ->
    (dsz = SUnknown <-> a = SUnknown \/ exists f, In (f, SUnknown) (contribs fs))
    /\ (dsz = SDynamic <->
        (a = SDynamic \/ exists f, In (f, SDynamic) (contribs fs))
        /\ a <> SUnknown /\ forall f, ~ In (f, SUnknown) (contribs fs)).
  Proof.
    induction fs as [|g rest IH]; intros a p dsz psz H; cbn [annotate_fields contribs] in *.
    - inversion H; subst. split; split.
      + intros ->. left; reflexivity.
      + intros [Ha|[f []]]; exact Ha.
      + intros ->. split; [left; reflexivity | split; [discriminate | intros f []]].
      + intros [[Ha|[f []]] _]; exact Ha.
    - unfold contrib. destruct (field_size sch d g) as [fsz|] eqn:Eg; [|discriminate].
      destruct (is_payload g) eqn:Ep; [exact (IH _ _ _ _ H)|].
      remember (match next_padding rest with Some q => SStatic q | None => fsz end) as c eqn:Hcdef.
      assert (Ec : match next_padding rest with Some q => Some (SStatic q) | None => Some fsz end = Some c)
        by (rewrite Hcdef; destruct (next_padding rest); reflexivity).
      clear Hcdef.
      rewrite Ec.
      destruct (match next_padding rest with Some q => fits_usize q | None => true end); [|discriminate].
      destruct (size_add a c) as [a'|] eqn:Ea; [|discriminate].
      destruct (IH _ _ _ _ H) as [IHu IHd].
      pose proof (size_add_unknown_iff _ _ _ Ea) as Hu.
      pose proof (size_add_dynamic_iff _ _ _ Ea) as Hd.
      split.
      + rewrite IHu, Hu. split.
        * intros [[Ha|Hc]|[f Hf]].
          -- left; exact Ha.
          -- right. exists g. left. now rewrite Hc.
          -- right. exists f. right; exact Hf.
        * intros [Ha|[f [Hf|Hf]]].
          -- left; left; exact Ha.
          -- inversion Hf; subst. left; right. reflexivity.
          -- right. exists f; exact Hf.
      + rewrite IHd, Hd, Hu. split.
        * intros [[[[Ha|Hc] [Hna Hnc]]|[f Hf]] [Hn1 Hn2]].
          -- split; [left; exact Ha|]. split; [exact Hna|].
             intros f [Hf|Hf]; [inversion Hf; subst; now elim Hnc | exact (Hn2 f Hf)].
          -- split; [right; exists g; left; now rewrite Hc|]. split; [exact Hna|].
             intros f [Hf|Hf]; [inversion Hf; subst; now elim Hnc | exact (Hn2 f Hf)].
          -- split; [right; exists f; right; exact Hf|].
             split; [intros Ha; apply Hn1; left; exact Ha|].
             intros f' [Hf'|Hf']; [inversion Hf'; subst; apply Hn1; right; reflexivity | exact (Hn2 f' Hf')].
        * intros [Hex [Hna Hnu]].
          assert (Hnc : c <> SUnknown) by (intros Hc; apply (Hnu g); left; now rewrite Hc).
          split; [|split].
          -- destruct Hex as [Ha|[f [Hf|Hf]]].
             ++ left. split; [left; exact Ha | split; assumption].
             ++ inversion Hf; subst. left. split; [right; reflexivity | split; assumption].
             ++ right. exists f; exact Hf.
          -- intros [Ha|Hc]; [exact (Hna Ha) | exact (Hnc Hc)].
          -- intros f Hf. apply (Hnu f). right; exact Hf.
  Qed.

  (** the payload size is the size of the LAST payload/body field (or the initial one) *)
  Theorem annotate_fields_payload : forall fs a p dsz psz,
    annotate_fields sch d fs a p = Some (dsz, psz) ->
    Some psz = match find is_payload (rev fs) with
               | Some f => field_size sch d f
               | None => Some p
               end.
  Proof.
    induction fs as [|g rest IH]; intros a p dsz psz H; cbn [annotate_fields] in H.
    - inversion H; subst. reflexivity.
    - cbn [rev]. rewrite se_find_app. cbn [find].
      destruct (field_size sch d g) as [fsz|] eqn:Eg; [|discriminate].
      destruct (is_payload g) eqn:Ep.
      + rewrite (IH _ _ _ _ H). destruct (find is_payload (rev rest)); [reflexivity | now rewrite Eg].
      + destruct (match next_padding rest with Some q => fits_usize q | None => true end); [|discriminate].
        destruct (size_add a _) as [a'|]; [|discriminate].
        rewrite (IH _ _ _ _ H). destruct (find is_payload (rev rest)); reflexivity.
  Qed.

  (** Field-level reading of the sum: a Dynamic declaration size comes from a non-payload
      field of Dynamic shape that is not followed by padding, and no such field is Unknown. *)
  Corollary decl_size_dynamic fs dsz psz :
    annotate_fields sch d fs (SStatic 0) (SStatic 0) = Some (dsz, psz) ->
    dsz = SDynamic ->
    (exists pre f rest, fs = (pre ++ f :: rest)%list /\ is_payload f = false
                        /\ next_padding rest = None /\ dyn_shape f)
    /\ (forall pre f rest, fs = (pre ++ f :: rest)%list -> is_payload f = false ->
                           next_padding rest = None -> ~ unk_shape f).
  Proof.
    intros H Hd. destruct (annotate_fields_class _ _ _ _ _ H) as [_ Hdyn].
    destruct (proj1 Hdyn Hd) as [[Ha|[f Hf]] [_ Hnu]]; [discriminate|]. split.
    - destruct (contribs_inv _ _ _ Hf) as (pre & rest & Hfs & Hp & Hc).
      destruct (contrib_nonstatic _ _ _ Hc) as [Hsz Hpad]; [discriminate|].
      exists pre, f, rest. split; [exact Hfs|]. split; [exact Hp|]. split; [exact Hpad|]. now apply field_dynamic_iff.
    - intros pre f' rest Hfs Hp Hpad Hu. apply field_unknown_iff in Hu.
      apply (Hnu f'). subst fs. clear - Hp Hpad Hu.
      induction pre as [|g pre IH]; cbn [app contribs].
      + rewrite Hp. unfold contrib. rewrite Hu, Hpad. left; reflexivity.
      + destruct (is_payload g); [exact IH|]. destruct (contrib g _); [right|]; exact IH.
  Qed.

  Corollary decl_size_unknown fs dsz psz :
    annotate_fields sch d fs (SStatic 0) (SStatic 0) = Some (dsz, psz) ->
    dsz = SUnknown ->
    exists pre f rest, fs = (pre ++ f :: rest)%list /\ is_payload f = false
                       /\ next_padding rest = None /\ unk_shape f.
  Proof.
    intros H Hd. destruct (annotate_fields_class _ _ _ _ _ H) as [Hunk _].
    destruct (proj1 Hunk Hd) as [Ha|[f Hf]]; [discriminate|].
    destruct (contribs_inv _ _ _ Hf) as (pre & rest & Hfs & Hp & Hc).
    destruct (contrib_nonstatic _ _ _ Hc) as [Hsz Hpad]; [discriminate|].
    exists pre, f, rest. split; [exact Hfs|]. split; [exact Hp|]. split; [exact Hpad|]. now apply field_unknown_iff.
  Qed.
End Field.

(** * Declarations *)

Definition is_container (d : decl) : bool :=
  match d with DPacket _ _ _ _ | DStruct _ _ _ _ | DGroup _ _ => true | _ => false end.

(** what [annotate_decl] stores as [ds_parent]: the parent's own fields and the parent's
    parents, WITHOUT the parent's payload (which the child replaces) *)
Definition parent_size (sch : schema) (d : decl) : option size :=
  match decl_parent_id d with
  | Some p => match assoc p sch with
              | Some ds => size_add (ds_decl ds) (ds_parent ds)
              | None => Some (SStatic 0)
              end
  | None => Some (SStatic 0)
  end.

Lemma annotate_decl_container sch d e :
  is_container d = true -> annotate_decl sch d = Some e ->
  parent_size sch d = Some (ds_parent e)
  /\ annotate_fields sch d (decl_fields d) (SStatic 0) (SStatic 0) = Some (ds_decl e, ds_payload e).
Proof.
  unfold annotate_decl. fold (parent_size sch d). intros Hc H.
  destruct (parent_size sch d) as [ps|]; [|discriminate].
  destruct (annotate_fields sch d (decl_fields d) (SStatic 0) (SStatic 0)) as [[dsz psz]|]; [|discriminate].
  destruct d; try discriminate; inversion H; subst; split; reflexivity.
Qed.

(** Non-container declarations: enum, checksum, sized custom field are Static (never
    Dynamic nor Unknown); a custom field WITHOUT width is Dynamic by decree. *)
Lemma annotate_decl_leaf sch d e :
  is_container d = false -> annotate_decl sch d = Some e ->
  ds_parent e = SStatic 0 /\ ds_payload e = SStatic 0
  /\ ds_decl e = match d with
                 | DEnum _ _ w | DChecksum _ _ w | DCustomField _ (Some w) _ => SStatic w
                 | DCustomField _ None _ => SDynamic
                 | _ => SStatic 0
                 end.
Proof.
  unfold annotate_decl. intros Hc H.
  destruct d as [i fn w|i [w|] fn|i tg w| | | |t]; try discriminate;
    cbn [decl_parent_id decl_fields annotate_fields] in H; inversion H; subst; repeat split; reflexivity.
Qed.

Theorem leaf_total_dynamic_iff sch d e :
  is_container d = false -> annotate_decl sch d = Some e ->
  (ds_total e = Some SDynamic <-> exists i fn, d = DCustomField i None fn).
Proof.
  intros Hc H. destruct (annotate_decl_leaf _ _ _ Hc H) as (Hp & Hy & Hd).
  unfold ds_total. rewrite Hp, Hy, Hd.
  destruct d as [i fn w|i [w|] fn|i tg w| | | |t]; try discriminate; cbn [size_add]; rewrite ?N.add_0_r;
    try (destruct (fits_usize w); cbn [size_add]; rewrite ?N.add_0_r; try destruct (fits_usize w));
    split; intros H'; try discriminate; try (destruct H' as (? & ? & ?); discriminate).
  - exists i, fn; reflexivity.
  - reflexivity.
Qed.

Theorem leaf_total_never_unknown sch d e :
  is_container d = false -> annotate_decl sch d = Some e -> ds_total e <> Some SUnknown.
Proof.
  intros Hc H. destruct (annotate_decl_leaf _ _ _ Hc H) as (Hp & Hy & Hd). intros Ht.
  destruct (proj1 (ds_total_unknown_iff _ _ Ht) eq_refl) as [Hu|[Hu|Hu]]; try congruence.
  rewrite Hd in Hu. destruct d as [i fn w|i [w|] fn|i tg w| | | |t]; discriminate.
Qed.

(** the payload size of a container, by [annotate_fields_payload] *)
Definition payload_size_of (sch : schema) (d : decl) : option size :=
  match find is_payload (rev (decl_fields d)) with
  | Some f => field_size sch d f
  | None => Some (SStatic 0)
  end.

(** ** Main theorem for the total of a packet / struct / group.
    The total is [decl + parent + payload].  Whenever it is defined (no usize overflow)
    it is Dynamic iff one of
      (a) a non-payload field's contribution (Dynamic shape, no padding after it),
      (b) the parent's size [parent_size],
      (c) the (last) payload/body field
    is Dynamic and none of them is Unknown; it is Unknown iff one of them is Unknown. *)
Theorem container_total_class sch d e r :
  is_container d = true -> annotate_decl sch d = Some e -> ds_total e = Some r ->
  (r = SDynamic <->
   ((exists f, In (f, SDynamic) (contribs sch d (decl_fields d)))
    \/ parent_size sch d = Some SDynamic \/ payload_size_of sch d = Some SDynamic)
   /\ (forall f, ~ In (f, SUnknown) (contribs sch d (decl_fields d)))
   /\ parent_size sch d <> Some SUnknown /\ payload_size_of sch d <> Some SUnknown)
  /\ (r = SUnknown <->
      (exists f, In (f, SUnknown) (contribs sch d (decl_fields d)))
      \/ parent_size sch d = Some SUnknown \/ payload_size_of sch d = Some SUnknown).
Proof.
  intros Hc H Ht. destruct (annotate_decl_container _ _ _ Hc H) as [Hps Haf].
  pose proof (annotate_fields_payload _ _ _ _ _ _ _ Haf) as Hpay. fold (payload_size_of sch d) in Hpay.
  destruct (annotate_fields_class _ _ _ _ _ _ _ Haf) as [Hu Hd].
  assert (Hne : (forall f, ~ In (f, SUnknown) (contribs sch d (decl_fields d)))
                <-> ~ (exists f, In (f, SUnknown) (contribs sch d (decl_fields d)))).
  { split; [intros Hn [f Hf]; exact (Hn f Hf) | intros Hn f Hf; apply Hn; exists f; exact Hf]. }
  assert (Hu' : ds_decl e = SUnknown <-> exists f, In (f, SUnknown) (contribs sch d (decl_fields d))).
  { rewrite Hu. split; [intros [?|?]; [discriminate|assumption] | intros ?; right; assumption]. }
  assert (Hd' : ds_decl e = SDynamic <->
                (exists f, In (f, SDynamic) (contribs sch d (decl_fields d)))
                /\ ~ (exists f, In (f, SUnknown) (contribs sch d (decl_fields d)))).
  { rewrite Hd, Hne. split.
    - intros [[?|?] [_ ?]]; [discriminate|]. split; assumption.
    - intros [? ?]. split; [right; assumption|]. split; [discriminate | assumption]. }
  assert (Pd : parent_size sch d = Some SDynamic <-> ds_parent e = SDynamic) by (rewrite Hps; split; congruence).
  assert (Pu : parent_size sch d = Some SUnknown <-> ds_parent e = SUnknown) by (rewrite Hps; split; congruence).
  assert (Yd : payload_size_of sch d = Some SDynamic <-> ds_payload e = SDynamic) by (rewrite <- Hpay; split; congruence).
  assert (Yu : payload_size_of sch d = Some SUnknown <-> ds_payload e = SUnknown) by (rewrite <- Hpay; split; congruence).
  rewrite (ds_total_dynamic_iff _ _ Ht), (ds_total_unknown_iff _ _ Ht), Hne.
  tauto.
Qed.

(** The converse direction needs the total to be defined; it is whenever own fields and
    parent do not overflow together (see [cex_overflow] for the case where they do). *)
Theorem container_total_dynamic_defined sch d e :
  is_container d = true -> annotate_decl sch d = Some e ->
  ((exists f, In (f, SDynamic) (contribs sch d (decl_fields d)))
   \/ parent_size sch d = Some SDynamic \/ payload_size_of sch d = Some SDynamic) ->
  (forall f, ~ In (f, SUnknown) (contribs sch d (decl_fields d))) ->
  parent_size sch d <> Some SUnknown -> payload_size_of sch d <> Some SUnknown ->
  size_add (ds_decl e) (ds_parent e) <> None ->
  ds_total e = Some SDynamic.
Proof.
  intros Hc H Hex Hnu Hnp Hny Hdef.
  destruct (ds_total e) as [r|] eqn:Et.
  - f_equal. apply (container_total_class _ _ _ _ Hc H Et). repeat split; assumption.
  - exfalso. unfold ds_total in Et. destruct (size_add (ds_decl e) (ds_parent e)) as [s|] eqn:E1; [|now elim Hdef].
    destruct (annotate_decl_container _ _ _ Hc H) as [Hps Haf].
    pose proof (annotate_fields_payload _ _ _ _ _ _ _ Haf) as Hpay. fold (payload_size_of sch d) in Hpay.
    destruct (annotate_fields_class _ _ _ _ _ _ _ Haf) as [Hu Hd].
    destruct s as [x| |], (ds_payload e) as [z| |] eqn:Ez; cbn [size_add] in Et; try discriminate.
    apply size_add_static_iff in E1. destruct E1 as (x' & y' & Ed & Ep & _ & _).
    destruct Hex as [[f Hf]|[Hx|Hx]].
    + assert (Hdd : ds_decl e = SDynamic).
      { apply Hd. split; [right; exists f; exact Hf|]. split; [discriminate | exact Hnu]. }
      congruence.
    + congruence.
    + congruence.
Qed.

(** One step up the parent chain: [parent_size] is the sum of the parent's OWN field sum
    and ITS parent size, as stored in the schema. *)
Lemma parent_size_class sch d r :
  parent_size sch d = Some r ->
  (r = SDynamic <-> exists p pe, decl_parent_id d = Some p /\ assoc p sch = Some pe
                                 /\ (ds_decl pe = SDynamic \/ ds_parent pe = SDynamic)
                                 /\ ds_decl pe <> SUnknown /\ ds_parent pe <> SUnknown)
  /\ (r = SUnknown <-> exists p pe, decl_parent_id d = Some p /\ assoc p sch = Some pe
                                    /\ (ds_decl pe = SUnknown \/ ds_parent pe = SUnknown)).
Proof.
  unfold parent_size. destruct (decl_parent_id d) as [p|].
  - destruct (assoc p sch) as [pe|] eqn:Ea.
    + intros H. split.
      * rewrite (size_add_dynamic_iff _ _ _ H). split.
        -- intros Hx. exists p, pe. tauto.
        -- intros (p' & pe' & Hp & Ha & Hx). inversion Hp; subst. rewrite Ea in Ha. inversion Ha; subst. exact Hx.
      * rewrite (size_add_unknown_iff _ _ _ H). split.
        -- intros Hx. exists p, pe. tauto.
        -- intros (p' & pe' & Hp & Ha & Hx). inversion Hp; subst. rewrite Ea in Ha. inversion Ha; subst. exact Hx.
    + intros H. inversion H; subst. split; split; try discriminate;
        intros (p' & pe' & Hp & Ha & _); inversion Hp; subst; congruence.
  - intros H. inversion H; subst. split; split; try discriminate; intros (p' & pe' & Hp & _); discriminate.
Qed.

(** ** On the schema of a whole file: what [type_total] says about the declaration the
    identifier resolves to ([s'] is the schema of the declarations BEFORE it). *)
Lemma mk_schema_entry fl sch tid d :
  mk_schema fl = Some sch -> lookup_decl fl tid = Some d ->
  exists pre post s' e,
    f_decls fl = (pre ++ d :: post)%list
    /\ mk_schema_go pre (decl_ids fl) [] = Some s'
    /\ annotate_decl s' d = Some e
    /\ type_total sch tid = ds_total e.
Proof.
  unfold mk_schema, lookup_decl. intros Hm Hl.
  pose proof (go_lookup _ _ _ _ Hm tid) as Hg. rewrite Hl in Hg.
  destruct Hg as (pre & post & s' & e & Hsplit & Hpre & Hann & Has).
  exists pre, post, s', e. repeat split; try assumption. unfold type_total. now rewrite Has.
Qed.

Theorem type_total_dynamic fl sch tid d :
  mk_schema fl = Some sch -> lookup_decl fl tid = Some d -> type_total sch tid = Some SDynamic ->
  exists pre post s',
    f_decls fl = (pre ++ d :: post)%list /\ mk_schema_go pre (decl_ids fl) [] = Some s'
    /\ if is_container d then
         ((exists f, In (f, SDynamic) (contribs s' d (decl_fields d)))
          \/ parent_size s' d = Some SDynamic \/ payload_size_of s' d = Some SDynamic)
         /\ (forall f, ~ In (f, SUnknown) (contribs s' d (decl_fields d)))
         /\ parent_size s' d <> Some SUnknown /\ payload_size_of s' d <> Some SUnknown
       else exists i fn, d = DCustomField i None fn.
Proof.
  intros Hm Hl Ht. destruct (mk_schema_entry _ _ _ _ Hm Hl) as (pre & post & s' & e & Hs & Hp & Ha & Hte).
  exists pre, post, s'. split; [exact Hs|]. split; [exact Hp|]. rewrite Hte in Ht.
  destruct (is_container d) eqn:Hc.
  - apply (container_total_class _ _ _ _ Hc Ha Ht). reflexivity.
  - apply (leaf_total_dynamic_iff _ _ _ Hc Ha). exact Ht.
Qed.

Theorem type_total_unknown fl sch tid d :
  mk_schema fl = Some sch -> lookup_decl fl tid = Some d -> type_total sch tid = Some SUnknown ->
  exists pre post s',
    f_decls fl = (pre ++ d :: post)%list /\ mk_schema_go pre (decl_ids fl) [] = Some s'
    /\ is_container d = true
    /\ ((exists f, In (f, SUnknown) (contribs s' d (decl_fields d)))
        \/ parent_size s' d = Some SUnknown \/ payload_size_of s' d = Some SUnknown).
Proof.
  intros Hm Hl Ht. destruct (mk_schema_entry _ _ _ _ Hm Hl) as (pre & post & s' & e & Hs & Hp & Ha & Hte).
  exists pre, post, s'. split; [exact Hs|]. split; [exact Hp|]. rewrite Hte in Ht.
  destruct (is_container d) eqn:Hc.
  - split; [reflexivity|]. apply (container_total_class _ _ _ _ Hc Ha Ht). reflexivity.
  - exfalso. exact (leaf_total_never_unknown _ _ _ Hc Ha Ht).
Qed.

(** * Non-vacuity: one declaration with every class *)

Definition fld (x : fdesc) : field := mkField x None.

Definition ex_file : file := mkFile LittleEndian [
  DEnum "E" [TagValue "A" 1] 8;
  DCustomField "CF" None "cf";
  DStruct "Sized" [] [fld (Size "_payload_" 8); fld (Payload None)] None;
  DStruct "Open" [] [fld (Payload None)] None;
  DPacket "P" [] [
    fld (Scalar "a" 8);                                   (* Static 8 *)
    fld (Typedef "e" "E");                                (* Static 8, type *)
    fld (Array "k" (Some 16) None None (Some 3));          (* Static 48 *)
    fld (Count "xs" 8);                                   (* Static 8 *)
    fld (Array "xs" (Some 8) None None None);              (* Dynamic: count field *)
    fld (Array "ys" (Some 8) None None None);              (* Unknown: nothing delimits *)
    fld (Typedef "t" "Sized");                            (* Dynamic: the type is *)
    fld (Typedef "u" "Open");                             (* Unknown: the type is *)
    fld (Typedef "c" "CF");                               (* Dynamic: custom field *)
    fld (Array "ts" None (Some "Sized") None (Some 2));    (* Dynamic: 2 x Dynamic *)
    mkField (Scalar "o" 8) (Some (mkConstr "a" (Some 1) None));  (* Dynamic: condition *)
    fld (Size "_payload_" 8);                             (* Static 8 *)
    fld (Payload None);                                   (* Dynamic: size field *)
    fld (Array "zs" (Some 8) None None None);              (* Unknown, but padded: *)
    fld (Padding 4)                                       (* contributes Static 32 *)
  ] None;
  DPacket "D" [] [fld (Scalar "a" 8); fld (Count "xs" 8); fld (Array "xs" (Some 8) None None None)] None;
  DPacket "S" [] [fld (Scalar "a" 8); fld (Array "zs" (Some 8) None None None); fld (Padding 4)] None;
  DPacket "C" [] [fld (Scalar "b" 8)] (Some "D")
].

Definition ex_sch : schema := match mk_schema ex_file with Some s => s | None => [] end.
Definition ex_P : decl := nth 4 (f_decls ex_file) (DTest "").

Example ex_field_classes :
  map (field_size ex_sch ex_P) (decl_fields ex_P)
  = [Some (SStatic 8); Some (SStatic 8); Some (SStatic 48); Some (SStatic 8);
     Some SDynamic; Some SUnknown; Some SDynamic; Some SUnknown; Some SDynamic; Some SDynamic;
     Some SDynamic; Some (SStatic 8); Some SDynamic; Some SUnknown; Some (SStatic 0)].
Proof. vm_compute. reflexivity. Qed.

Example ex_contribs :
  map snd (contribs ex_sch ex_P (decl_fields ex_P))
  = [SStatic 8; SStatic 8; SStatic 48; SStatic 8; SDynamic; SUnknown; SDynamic; SUnknown; SDynamic;
     SDynamic; SDynamic; SStatic 8; SStatic 32; SStatic 0].
Proof. vm_compute. reflexivity. Qed.

Example ex_totals :
  map (type_total ex_sch) ["E"; "CF"; "Sized"; "Open"; "P"; "D"; "S"; "C"]
  = [Some (SStatic 8); Some SDynamic; Some SDynamic; Some SUnknown; Some SUnknown;
     Some SDynamic; Some (SStatic 40); Some SDynamic].
Proof. vm_compute. reflexivity. Qed.

(** the hypotheses of the file-level theorems hold of the example *)
Example ex_dynamic_instance :
  mk_schema ex_file = Some ex_sch /\ lookup_decl ex_file "D" <> None
  /\ type_total ex_sch "D" = Some SDynamic /\ type_total ex_sch "P" = Some SUnknown.
Proof. vm_compute. repeat split; discriminate. Qed.

(** * Counter-examples to a naive reading, by evaluation *)

(** (1) An array that NOTHING delimits (no count, no size) is Unknown as a field, yet the
    declaration holding it is STATIC when a padding field follows: the declared padded
    size replaces the field's class.  Same for a Dynamic (optional) field. *)
Definition cex_padded : file := mkFile LittleEndian [
  DPacket "Q" [] [fld (Array "zs" (Some 8) None None None); fld (Padding 4)] None;
  DPacket "R" [] [fld (Scalar "f" 8);
                  mkField (Scalar "o" 8) (Some (mkConstr "f" (Some 1) None)); fld (Padding 4)] None ].
Eval vm_compute in
  (match mk_schema cex_padded with
   | Some s => (map (fun d => map (field_size s d) (decl_fields d)) (f_decls cex_padded),
                map (type_total s) ["Q"; "R"])
   | None => ([], [])
   end).
Example cex_padded_static :
  match mk_schema cex_padded with
  | Some s => type_total s "Q" = Some (SStatic 32) /\ type_total s "R" = Some (SStatic 40)
              /\ field_size s (nth 0 (f_decls cex_padded) (DTest "")) (fld (Array "zs" (Some 8) None None None))
                 = Some SUnknown
  | None => False
  end.
Proof. vm_compute. repeat split. Qed.

(** (2) A custom field without width is Dynamic by decree, with no delimiter at all (the
    statement's "user-supplied custom field" clause); an enum, a checksum or a sized
    custom field is never Dynamic nor Unknown ([leaf_total_dynamic_iff],
    [leaf_total_never_unknown]). *)
Eval vm_compute in (annotate_decl [] (DCustomField "CF" None "cf")).

(** (3) Dynamic absorbs Static only when the Static partial sums do not overflow: own
    fields and parent fields are added FIRST, so a declaration with a sized payload
    (Dynamic) whose own and inherited Static bits exceed usize has NO total at all
    (a usize overflow panic in a debug build of pdlc when the total is queried), instead
    of Dynamic.  [annotate_decl] itself succeeds. *)
Definition cex_overflow : file := mkFile LittleEndian [
  DPacket "A" [] [fld (Reserved 9223372036854775808); fld (Size "_payload_" 8); fld (Payload None)] None;
  DPacket "B" [] [fld (Reserved 9223372036854775800); fld (Size "_payload_" 8); fld (Payload None)] (Some "A") ].
Eval vm_compute in
  (match mk_schema cex_overflow with
   | Some s => (assoc "B" s, type_total s "A", type_total s "B")
   | None => (None, None, None)
   end).
Example cex_overflow_none :
  match mk_schema cex_overflow with
  | Some s => type_total s "A" = Some SDynamic /\ type_total s "B" = None
              /\ payload_size_of s (nth 1 (f_decls cex_overflow) (DTest "")) = Some SDynamic
  | None => False
  end.
Proof. vm_compute. repeat split. Qed.

(** (4) The parent's PAYLOAD does not count in a child's total (the child's fields take
    its place): a parent of Unknown total has a child of Static total. *)
Definition cex_parent : file := mkFile LittleEndian [
  DPacket "A" [] [fld (Scalar "x" 8); fld (Payload None)] None;
  DPacket "B" [] [fld (Scalar "y" 8)] (Some "A") ].
Eval vm_compute in
  (match mk_schema cex_parent with
   | Some s => (type_total s "A", type_total s "B")
   | None => (None, None)
   end).

(** (5) Two payload fields (rejected later by the analyzer, not by the schema): only the
    LAST one is counted. *)
Eval vm_compute in
  (annotate_decl [] (DPacket "W" [] [fld (Size "_payload_" 8); fld (Payload None); fld Body] None),
   annotate_decl [] (DPacket "W" [] [fld (Payload None); mkField Body (Some (mkConstr "a" (Some 1) None))] None)).

(** (6) A static count of ZERO elements of a Dynamic type is still Dynamic. *)
Eval vm_compute in
  (field_size ex_sch ex_P (fld (Array "ts" None (Some "Sized") None (Some 0)))).

Print Assumptions field_dynamic_iff.
Print Assumptions field_unknown_iff.
Print Assumptions field_static_iff.
Print Assumptions annotate_fields_class.
Print Assumptions annotate_fields_payload.
Print Assumptions decl_size_dynamic.
Print Assumptions decl_size_unknown.
Print Assumptions container_total_class.
Print Assumptions container_total_dynamic_defined.
Print Assumptions leaf_total_dynamic_iff.
Print Assumptions type_total_dynamic.
Print Assumptions type_total_unknown.
Print Assumptions size_add_assoc.
