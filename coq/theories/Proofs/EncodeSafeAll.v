(** The emitted ENCODER never panics at run time, for ALL field kinds of [enc_fields]
    (optional fields, Flag / Size / Count / ElementSize bit-fields, arrays with and without
    padding, typedef fields, payload / body, padding), whatever value it is given,
    provided the encoders it calls ([rec_enc] of struct / custom types, [payload_act])
    do not.  [EncodeSafe.v] has the bit-field fragment only.

    The only panics of [enc_fields] that are not of a generator kind ([gen_panic]) are
    [Panic ArithOverflow]:
      - [mask_bits w] for a Size / ElementSize field of width >= 64   (finding F44),
      - [1 - set_value] for a Flag whose first set value is > 1.
    Both are computed by pdlc WHILE GENERATING (usize arithmetic of a debug build), not by
    the emitted code.  So: (A) under the side condition [arith_free] nothing but generator
    kinds is left; (B) without side condition the only other kind is ArithOverflow, and
    the witnesses below show it is reached exactly there.  The two statements are
    instances of one proof, parametrised by the set [ok] of tolerated panic kinds. *)
From Coq Require Import NArith List String Bool Lia ZifyN ZifyBool.
From Coq Require Import Strings.Byte.
From PDL Require Import Base.Bits Base.Outcome Lang.Ast Lang.Sexp Analyzer.Schema Rust.Enum
     Sem.RefEncode Rust.Encode Rust.Decode Proofs.DecodeSafe Proofs.BitfieldEncode Proofs.EncodeSafe.
Import ListNotations.
Open Scope N_scope.

Lemma mask_bits_some w : w < 64 -> mask_bits w = Some (2 ^ w - 1).
Proof. intros H. unfold mask_bits. apply N.ltb_lt in H. now rewrite H. Qed.

(** fields whose generation involves no overflowing generator arithmetic *)
Definition arith_free (f : field) : bool :=
  match f_cond f with
  | Some _ => true
  | None =>
      match f_desc f with
      | Size _ w | ElementSize _ w => w <? 64
      | Flag _ ((_, setv) :: _) => setv <=? 1
      | _ => true
      end
  end.

Section EncSafeAll.
  Variable fl : file.
  Variable sch : schema.
  Variable rec_enc : string -> value -> eres (list byte).
  Variable rec_len : string -> value -> option N.
  Variable d : decl.
  Variable all_fields : list field.
  Variable cs : list constr.
  Variable obj : list (string * value).
  Variable payload_act : eres (list byte).
  Variable payload_size : N.

  (** tolerated panic kinds: at least the generator's *)
  Variable ok : panic_kind -> Prop.
  Hypothesis ok_gen : forall k, gen_panic k = true -> ok k.

  Definition fine {A} (x : eres A) : Prop := match x with Panic k => ok k | _ => True end.

  Hypothesis rec_fine : forall t v, fine (rec_enc t v).
  Hypothesis payload_fine : fine payload_act.

  Lemma fine_bind {A B} (x : eres A) (f : A -> eres B) :
    fine x -> (forall a, x = Ok a -> fine (f a)) -> fine (bind x f).
  Proof. intros Hx Hf. destruct x as [a|e|k|]; cbn [bind]; try exact Hx. apply Hf. reflexivity. Qed.

  Lemma fine_gen {A} k : gen_panic k = true -> fine (Panic k : eres A).
  Proof. intros H. exact (ok_gen k H). Qed.

  Ltac gen := first [exact I | apply fine_gen; reflexivity | apply rec_fine | apply payload_fine].
  Ltac crush :=
    repeat first
      [ gen
      | match goal with |- fine (match ?x with _ => _ end) => destruct x eqn:? end ].

  Lemma pack_fine p shift : fine (pack_bit_fields fl p shift).
  Proof. unfold pack_bit_fields. crush. Qed.

  Lemma put_elem_fine f v : fine (put_elem fl rec_enc f v).
  Proof. unfold put_elem. crush. Qed.

  Lemma put_elems_fine f vs : fine (put_elems fl rec_enc f vs).
  Proof.
    induction vs as [|v vs IH]; cbn [put_elems]; [exact I|].
    apply fine_bind; [apply put_elem_fine|]. intros a _.
    apply fine_bind; [exact IH|]. intros b _. exact I.
  Qed.

  Definition field_side (f : field) : Prop := arith_free f = true \/ ok ArithOverflow.

  Theorem enc_fields_fine : forall fs p shift,
    Forall field_side fs ->
    fine (enc_fields fl sch rec_enc rec_len d all_fields cs obj payload_act payload_size fs p shift).
  Proof.
    induction fs as [|f fs IH]; intros p shift Hside; cbn [enc_fields]; [exact I|].
    inversion Hside as [|f' fs' Hf Hrest]; subst.
    destruct (f_cond f) as [c|] eqn:Ec.
    - (* optional field *)
      destruct (negb (shift =? 0)); [gen|].
      apply fine_bind; [|intros here _; apply fine_bind; [apply IH; exact Hrest | intros; exact I]].
      destruct (assoc _ obj) as [v|]; [|unfold ill; gen].
      destruct (f_desc f) eqn:Ed; unfold ill; try (destruct v; gen).
      + (* Scalar *)
        destruct (integer_width width) as [bw|] eqn:Ew; [|destruct v; gen].
        destruct v; try gen.
        destruct (bw <=? width) eqn:Ele; [exact I|].
        destruct (integer_width_bounds _ _ Ew) as [_ H64].
        rewrite mask_bits_some by lia. destruct (_ <? n); exact I.
      + (* Typedef *)
        destruct v; crush.
    - destruct (is_bitfield fl f) eqn:Ebf.
      + (* bit-fields *)
        destruct (field_size sch d f) as [[width| |]|]; try gen.
        apply fine_bind.
        * unfold field_side, arith_free in Hf. rewrite Ec in Hf.
          destruct (f_desc f) eqn:Ed; unfold ill; try gen.
          -- (* Size *)
             destruct (mask_bits width0) as [m|] eqn:Em.
             ++ crush.
             ++ cbn [fine]. destruct Hf as [Hf|Hf]; [|exact Hf].
                apply N.ltb_lt in Hf. rewrite mask_bits_some in Em by exact Hf. discriminate.
          -- (* Count *)
             destruct (integer_width width0) as [tw|] eqn:Ew; [|gen].
             destruct (obj_list obj field_id) as [vs|]; [|gen].
             destruct (width0 <? tw) eqn:Elt; [|exact I].
             destruct (integer_width_bounds _ _ Ew) as [_ H64].
             rewrite mask_bits_some by lia. destruct (_ <? len vs); exact I.
          -- (* ElementSize *)
             destruct (mask_bits width0) as [m|] eqn:Em.
             ++ crush.
             ++ cbn [fine]. destruct Hf as [Hf|Hf]; [|exact Hf].
                apply N.ltb_lt in Hf. rewrite mask_bits_some in Em by exact Hf. discriminate.
          -- (* FixedScalar *) crush.
          -- (* FixedEnum *) crush.
          -- (* Scalar *)
             destruct (integer_width width0) as [tw|] eqn:Ew; [|gen].
             destruct (get_num _ _ _ _ _) as [n|]; [|gen].
             destruct (width0 <? tw) eqn:Elt; [|exact I].
             destruct (integer_width_bounds _ _ Ew) as [_ H64].
             rewrite mask_bits_some by lia. destruct (_ <? n); exact I.
          -- (* Flag *)
             destruct optional_field_ids as [|[oid setv] more]; [gen|].
             destruct (1 <? setv) eqn:Es.
             ++ cbn [fine]. destruct Hf as [Hf|Hf]; [|exact Hf]. lia.
             ++ apply fine_bind; [crush|]. intros _ _. crush.
          -- (* Typedef *) crush.
        * intros entry _.
          destruct (_ mod 8 =? 0).
          -- apply fine_bind; [apply pack_fine|]. intros chunk _.
             apply fine_bind; [apply IH; exact Hrest|]. intros; exact I.
          -- apply IH; exact Hrest.
      + (* arrays, typedefs of struct / custom type, payload, padding *)
        apply fine_bind; [|intros here _; apply fine_bind; [apply IH; exact Hrest | intros; exact I]].
        destruct (f_desc f) eqn:Ed; unfold ill; try gen.
        * (* Array *)
          destruct (negb (shift =? 0)); [gen|].
          destruct (obj_list obj id) as [vs|]; [|gen].
          destruct (next_padding fs) as [pbits|]; [|apply put_elems_fine].
          destruct (array_octets_schema sch rec_len f vs) as [asz|]; [|gen].
          destruct (_ <? asz); [exact I|].
          apply fine_bind; [apply put_elems_fine|]. intros; exact I.
        * (* Typedef *) crush.
  Qed.
End EncSafeAll.

(** (A) Under the side condition, no run-time panic. *)
Theorem enc_fields_all_nrp fl sch rec_enc rec_len d all_fields cs obj payload_act payload_size :
  (forall t v, no_rt_panic (rec_enc t v)) ->
  no_rt_panic payload_act ->
  forall fs p shift,
    forallb arith_free fs = true ->
    no_rt_panic (enc_fields fl sch rec_enc rec_len d all_fields cs obj payload_act payload_size fs p shift).
Proof.
  intros Hrec Hpay fs p shift Hside.
  pose proof (enc_fields_fine fl sch rec_enc rec_len d all_fields cs obj payload_act payload_size
                (fun k => gen_panic k = true) (fun k H => H)) as H.
  assert (Hr : forall t v, fine (fun k => gen_panic k = true) (rec_enc t v)).
  { intros t v. specialize (Hrec t v). destruct (rec_enc t v); exact Hrec. }
  assert (Hp : fine (fun k => gen_panic k = true) payload_act).
  { destruct payload_act; exact Hpay. }
  specialize (H Hr Hp fs p shift).
  assert (HF : Forall (field_side (fun k => gen_panic k = true)) fs).
  { apply Forall_forall. intros f Hin. left. rewrite forallb_forall in Hside. exact (Hside f Hin). }
  specialize (H HF). unfold fine in H. unfold no_rt_panic.
  destruct (enc_fields _ _ _ _ _ _ _ _ _ _ _ _ _); exact H.
Qed.

(** (B) Without side condition: the only panic kind beyond the generator's is ArithOverflow. *)
Definition gen_or_arith {E A} (x : outcome E A) : Prop :=
  match x with Panic k => gen_panic k = true \/ k = ArithOverflow | _ => True end.

Theorem enc_fields_all_classified fl sch rec_enc rec_len d all_fields cs obj payload_act payload_size :
  (forall t v, gen_or_arith (rec_enc t v)) ->
  gen_or_arith payload_act ->
  forall fs p shift,
    gen_or_arith (enc_fields fl sch rec_enc rec_len d all_fields cs obj payload_act payload_size fs p shift).
Proof.
  intros Hrec Hpay fs p shift.
  pose proof (enc_fields_fine fl sch rec_enc rec_len d all_fields cs obj payload_act payload_size
                (fun k => gen_panic k = true \/ k = ArithOverflow) (fun k H => or_introl H)) as H.
  assert (Hr : forall t v, fine (fun k => gen_panic k = true \/ k = ArithOverflow) (rec_enc t v)).
  { intros t v. specialize (Hrec t v). destruct (rec_enc t v); exact Hrec. }
  assert (Hp : fine (fun k => gen_panic k = true \/ k = ArithOverflow) payload_act).
  { destruct payload_act; exact Hpay. }
  specialize (H Hr Hp fs p shift).
  assert (HF : Forall (field_side (fun k => gen_panic k = true \/ k = ArithOverflow)) fs).
  { apply Forall_forall. intros f _. right. right. reflexivity. }
  specialize (H HF). unfold fine in H. unfold gen_or_arith.
  destruct (enc_fields _ _ _ _ _ _ _ _ _ _ _ _ _); exact H.
Qed.

(** Witnesses: the ArithOverflow exits ARE reached, on well-typed values, exactly at the
    two places the side condition excludes (both are computations of the generator). *)
Definition w_fld (x : fdesc) : field := mkField x None.
Definition w_size64 : list field :=
  [w_fld (Size "_payload_" 64); w_fld (Payload None)].
Definition w_flag2 : list field :=
  [w_fld (Flag "c" [("x", 2)]); w_fld (Reserved 7);
   mkField (Scalar "x" 8) (Some (mkConstr "c" (Some 2) None))].
Definition w_file : file := mkFile LittleEndian [].

Eval vm_compute in
  (enc_fields w_file [] (fun _ _ => Panic UnwrapFail) (fun _ _ => None)
              (DPacket "P" [] w_size64 None) w_size64 [] [] (Ok []) 0 w_size64 [] 0,
   enc_fields w_file [] (fun _ _ => Panic UnwrapFail) (fun _ _ => None)
              (DPacket "P" [] w_flag2 None) w_flag2 [] [("x", VNum 1)] (Ok []) 0 w_flag2 [] 0).

Example witness_arith_overflow :
  enc_fields w_file [] (fun _ _ => Panic UnwrapFail) (fun _ _ => None)
             (DPacket "P" [] w_size64 None) w_size64 [] [] (Ok []) 0 w_size64 [] 0
  = Panic ArithOverflow
  /\ enc_fields w_file [] (fun _ _ => Panic UnwrapFail) (fun _ _ => None)
                (DPacket "P" [] w_flag2 None) w_flag2 [] [("x", VNum 1)] (Ok []) 0 w_flag2 [] 0
     = Panic ArithOverflow
  /\ forallb arith_free w_size64 = false /\ forallb arith_free w_flag2 = false.
Proof. vm_compute. repeat split. Qed.

Print Assumptions enc_fields_fine.
Print Assumptions enc_fields_all_nrp.
Print Assumptions enc_fields_all_classified.
