(** Laws of the provided [Packet] methods, for every implementation of the required ones. *)
From Coq Require Import NArith List Bool.
From Coq Require Import Strings.Byte.
From PDL Require Import Base.Bits Base.Outcome Rust.Decode Rust.Encode Rust.Runtime.
Import ListNotations.

Section Laws.
  Variable T : Type.
  Variable decode : list byte -> dres (T * list byte).
  Variable encode_bytes : T -> eres (list byte).

  Lemma decode_full_ok_iff b p :
    decode_full T decode b = Ok p <-> decode b = Ok (p, []).
  Proof.
    unfold decode_full, bind. destruct (decode b) as [[q r]| | |]; try (split; discriminate).
    destruct r as [|x r].
    - split; intros H; inversion H; reflexivity.
    - split; intros H; inversion H.
  Qed.

  Lemma decode_full_trailing b p r :
    decode b = Ok (p, r) -> r <> [] -> decode_full T decode b = Err TrailingBytesError.
  Proof.
    intros H Hr. unfold decode_full, bind. rewrite H. destruct r; [congruence|reflexivity].
  Qed.

  Lemma decode_full_err b e :
    decode b = Err e -> decode_full T decode b = Err e.
  Proof. intros H. unfold decode_full, bind. now rewrite H. Qed.

  Lemma decode_full_total b :
    returns (decode b) -> returns (decode_full T decode b).
  Proof using T decode.
    clear encode_bytes.
    unfold decode_full, bind. destruct (decode b) as [[q r]| | |]; simpl; intros H; try exact H.
    destruct r; exact I.
  Qed.

  Lemma decode_mut_ok b p r :
    decode b = Ok (p, r) -> decode_mut T decode b = (Ok p, r).
  Proof. intros H. unfold decode_mut. now rewrite H. Qed.

  Lemma decode_mut_err_untouched b e :
    decode b = Err e -> decode_mut T decode b = (Err e, b).
  Proof. intros H. unfold decode_mut. now rewrite H. Qed.

  Lemma decode_mut_commit b :
    match decode b with
    | Ok (p, r) => decode_mut T decode b = (Ok p, r)
    | _ => snd (decode_mut T decode b) = b
    end.
  Proof. unfold decode_mut. destruct (decode b) as [[p r]| | |]; reflexivity. Qed.

  Lemma encode_same_bytes v :
    encode_to_vec T encode_bytes v = encode_to_bytes T encode_bytes v
    /\ encode_to_vec T encode_bytes v = encode_bytes v.
  Proof.
    unfold encode_to_vec, encode_to_bytes, encode, bind.
    destruct (encode_bytes v); auto.
  Qed.

  Lemma encode_appends v buf bs :
    encode_to_vec T encode_bytes v = Ok bs ->
    encode T encode_bytes v buf = Ok (buf ++ bs).
  Proof.
    unfold encode_to_vec, encode, bind. destruct (encode_bytes v); try discriminate.
    simpl. intros H. inversion H. reflexivity.
  Qed.

  Lemma encode_fails_alike v buf e :
    encode_to_vec T encode_bytes v = Err e -> encode T encode_bytes v buf = Err e.
  Proof.
    unfold encode_to_vec, encode, bind. destruct (encode_bytes v); try discriminate.
    intros H; exact H.
  Qed.
End Laws.
