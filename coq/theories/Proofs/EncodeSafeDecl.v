(** The emitted ENCODER of a whole declaration never panics at run time.

    [EncodeSafeAll.enc_fields_all_nrp] is about the field walk of ONE declaration, given
    that the encoders it calls ([rec_enc], [payload_act]) do not panic at run time.  Here
    the assumption on [rec_enc] is discharged by induction on the fuel of
    [rust_enc_decl]: [rec_enc] only reaches declarations found by [lookup_decl], the
    parent step passes the child's own bytes as the parent's [payload_act], and the side
    condition [arith_free] is asked of every declaration of the file
    ([arith_free_file]).  [Diverge] (fuel 0) and the generator kinds
    ([Panic UnwrapFail] for an ill-typed value or when [len_fields] gives nothing,
    [Panic GenAssert] for a custom field of non-integer width) are tolerated by
    [no_rt_panic]. *)
From Coq Require Import NArith List String Bool.
From Coq Require Import Strings.Byte.
From PDL Require Import Base.Bits Base.Outcome Lang.Ast Lang.Sexp Analyzer.Schema Rust.Enum
     Sem.RefEncode Rust.Encode Rust.Decode Proofs.DecodeSafe Proofs.EncodeSafeAll
     Proofs.EncodedLen.
Import ListNotations.
Open Scope N_scope.

(** every field of every declaration is free of overflowing generator arithmetic *)
Definition arith_free_file (fl : file) : bool :=
  forallb (fun d => forallb arith_free (decl_fields d)) (f_decls fl).

Lemma lookup_decl_In fl tid d : lookup_decl fl tid = Some d -> In d (f_decls fl).
Proof.
  unfold lookup_decl. intros H. apply find_some in H. destruct H as [Hin _].
  apply in_rev. exact Hin.
Qed.

Lemma get_parent_In fl d p : get_parent fl d = Some p -> In p (f_decls fl).
Proof.
  unfold get_parent. intros H. destruct (decl_parent_id d) as [pid|]; [|discriminate].
  exact (lookup_decl_In fl pid p H).
Qed.

Lemma arith_free_file_decl fl d :
  arith_free_file fl = true -> In d (f_decls fl) -> forallb arith_free (decl_fields d) = true.
Proof.
  unfold arith_free_file. intros Hfl Hin. rewrite forallb_forall in Hfl. exact (Hfl d Hin).
Qed.

Theorem rust_enc_decl_nrp : forall fuel fl sch d all_fields cs obj payload_act payload_size,
  arith_free_file fl = true ->
  In d (f_decls fl) ->
  no_rt_panic payload_act ->
  no_rt_panic (rust_enc_decl fuel fl sch d all_fields cs obj payload_act payload_size).
Proof.
  induction fuel as [|fuel IH]; intros fl sch d all_fields cs obj payload_act payload_size Hfl Hin Hpay.
  - exact I.
  - cbn [rust_enc_decl].
    match goal with
    | |- no_rt_panic (match _ with Some _ => _ | None => ?own end) =>
        assert (Hown : no_rt_panic own)
    end.
    { apply enc_fields_all_nrp.
      - intros t v.
        destruct (lookup_decl fl t) as [d'|] eqn:Hl; [|reflexivity].
        pose proof (lookup_decl_In fl t d' Hl) as Hin'.
        destruct d' as [cid cf cw|cid cw cn|eid etags ew|pid pcs pfs ppar|sid scs sfs spar|gid gfs|tid];
          try reflexivity.
        + (* custom field *)
          destruct cw as [w|]; [|reflexivity].
          destruct v as [n| |l|o]; try reflexivity.
          destruct (integer_width w); [exact I|reflexivity].
        + (* packet *)
          destruct v as [n| |l|o]; try reflexivity.
          destruct (obj_payload o) as [pl|]; [|reflexivity].
          apply IH; [exact Hfl|exact Hin'|exact I].
        + (* struct *)
          destruct v as [n| |l|o]; try reflexivity.
          destruct (obj_payload o) as [pl|]; [|reflexivity].
          apply IH; [exact Hfl|exact Hin'|exact I].
      - exact Hpay.
      - exact (arith_free_file_decl fl d Hfl Hin). }
    destruct (get_parent fl d) as [p|] eqn:Hp; [|exact Hown].
    destruct (len_fields _ _ _ _ _ _ _ _) as [own_size|]; [|reflexivity].
    apply IH; [exact Hfl|exact (get_parent_In fl d p Hp)|exact Hown].
Qed.

(** the same with the declaration given by [lookup_decl] *)
Corollary rust_enc_decl_lookup_nrp fuel fl sch id d all_fields cs obj payload_act payload_size :
  arith_free_file fl = true ->
  lookup_decl fl id = Some d ->
  no_rt_panic payload_act ->
  no_rt_panic (rust_enc_decl fuel fl sch d all_fields cs obj payload_act payload_size).
Proof.
  intros Hfl Hl Hpay. apply rust_enc_decl_nrp; [exact Hfl|exact (lookup_decl_In fl id d Hl)|exact Hpay].
Qed.

(** [T::encode] of any declaration of the file, on any value *)
Theorem rust_encode_nrp : forall fuel fl sch id v,
  arith_free_file fl = true -> no_rt_panic (rust_encode fuel fl sch id v).
Proof.
  intros fuel fl sch id v Hfl. unfold rust_encode.
  destruct (lookup_decl fl id) as [d|] eqn:Hl; [|reflexivity].
  pose proof (lookup_decl_In fl id d Hl) as Hin.
  destruct d as [cid cf cw|cid cw cn|eid etags ew|pid pcs pfs ppar|sid scs sfs spar|gid gfs|tid];
    try reflexivity.
  - (* custom field *)
    destruct cw as [w|]; [|reflexivity].
    destruct v as [n| |l|o]; try reflexivity.
    destruct (integer_width w); [exact I|reflexivity].
  - (* packet *)
    destruct v as [n| |l|o]; try reflexivity.
    destruct (obj_payload o) as [pl|]; [|reflexivity].
    apply rust_enc_decl_nrp; [exact Hfl|exact Hin|exact I].
  - (* struct *)
    destruct v as [n| |l|o]; try reflexivity.
    destruct (obj_payload o) as [pl|]; [|reflexivity].
    apply rust_enc_decl_nrp; [exact Hfl|exact Hin|exact I].
Qed.

(** ** The side condition is needed: a file with a 64-bit size field, reached through the
    parent step of the child's encoder, panics with a run-time kind. *)
Open Scope string_scope.

Definition bad_file : file :=
  mkFile LittleEndian
    [DPacket "P" [] [lfld (Size "_payload_" 64); lfld (Payload None)] None;
     DPacket "Q" [] [lfld (Scalar "q" 8)] (Some "P")].

Example side_condition_needed :
  arith_free_file bad_file = false /\
  exists sch, mk_schema bad_file = Some sch /\
    rust_encode 5 bad_file sch "Q" (VObj [("q", VNum 1)]) = Panic ArithOverflow.
Proof. split; [reflexivity|]. eexists. split; reflexivity. Qed.

(** ** Non-vacuity (computed).  [EncodedLen.len_file]: a parent with a flag and an optional
    field under it, every bit-field kind, a payload size field, a count, scalar and enum
    arrays (one padded), a sized custom field, a payload, and a child packet. *)
Example len_file_arith_free : arith_free_file len_file = true.
Proof. reflexivity. Qed.

Example len_file_encodes :
  exists sch, mk_schema len_file = Some sch /\
    rust_encode 5 len_file sch "Q" len_value
      = Ok [x15; x02; x03; x02; x02; x01; x04; x03; x01; x00; x00; x00; x34; x12; x07; x00; x09; x07; x02].
Proof. eexists. split; reflexivity. Qed.

(** the theorems applied: every fuel, schema, type name and value *)
Example len_file_never_panics fuel sch id v :
  no_rt_panic (rust_encode fuel len_file sch id v).
Proof. apply rust_encode_nrp. reflexivity. Qed.

Example len_file_child_never_panics fuel sch d obj pl :
  lookup_decl len_file "Q" = Some d ->
  no_rt_panic (rust_enc_decl fuel len_file sch d (iter_fields len_file d)
                 (iter_constraints len_file d) obj (Ok pl) (len pl)).
Proof.
  intros Hl. eapply rust_enc_decl_lookup_nrp; [reflexivity|exact Hl|exact I].
Qed.

(** nested dynamic structs ([EncodedLen.dyn_file]): [rec_enc] recursion is exercised *)
Example dyn_file_never_panics fuel sch id v :
  arith_free_file dyn_file = true /\ no_rt_panic (rust_encode fuel dyn_file sch id v).
Proof. split; [reflexivity|]. apply rust_encode_nrp. reflexivity. Qed.

Print Assumptions rust_enc_decl_nrp.
Print Assumptions rust_enc_decl_lookup_nrp.
Print Assumptions rust_encode_nrp.
Print Assumptions side_condition_needed.
Print Assumptions len_file_never_panics.
