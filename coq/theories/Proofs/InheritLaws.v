(** [decode_partial]'s constraint checks: the conversion from a parent fails with
    ConstraintValueError exactly when one of the child's own constraints is violated. *)
From Coq Require Import NArith List String Bool Lia.
From Coq Require Import Strings.Byte.
From PDL Require Import Base.Bits Base.Outcome Lang.Ast Lang.Sexp Analyzer.Schema Rust.Enum
     Sem.RefEncode Rust.Encode Rust.Decode Rust.Inherit.
Import ListNotations.
Open Scope N_scope.

Section Checks.
  Variable fl : file.
  Variable pfields : list field.
  Variable pcs : list constr.
  Variable pobj : list (string * value).

  Definition check_loop :=
    fix checks (cs : list constr) : dres unit :=
      match cs with
      | [] => Ok tt
      | c :: cs' =>
          match get_num fl pfields pcs pobj (c_id c), constraint_N fl pfields c with
          | Some actual, Some expected =>
              if actual =? expected then checks cs' else Err ConstraintValueError
          | _, _ => Panic UnwrapFail
          end
      end.

  (** every constraint resolves: the field exists in the parent and the constant is known *)
  Definition resolvable (c : constr) : Prop :=
    exists a e, get_num fl pfields pcs pobj (c_id c) = Some a /\ constraint_N fl pfields c = Some e.

  Definition violated (c : constr) : Prop :=
    exists a e, get_num fl pfields pcs pobj (c_id c) = Some a /\ constraint_N fl pfields c = Some e /\ a <> e.

  Lemma check_loop_spec cs :
    Forall resolvable cs ->
    (check_loop cs = Ok tt /\ ~ Exists violated cs) \/
    (check_loop cs = Err ConstraintValueError /\ Exists violated cs).
  Proof.
    induction cs as [|c cs IH]; intros Hres.
    - left. split; [reflexivity|]. intros H; inversion H.
    - inversion Hres as [|? ? [a [e [Ha He]]] Hrest]; subst.
      cbn [check_loop]. rewrite Ha, He.
      destruct (a =? e) eqn:Eae.
      + apply N.eqb_eq in Eae. subst e.
        destruct (IH Hrest) as [[Hok Hnone]|[Herr Hsome]].
        * left. split; [exact Hok|]. intros Hex. inversion Hex as [? ? Hv|? ? Hv]; subst.
          -- destruct Hv as [a' [e' [Ha' [He' Hne]]]]. congruence.
          -- exact (Hnone Hv).
        * right. split; [exact Herr|]. right. exact Hsome.
      + apply N.eqb_neq in Eae. right. split; [reflexivity|].
        left. exists a, e. auto.
  Qed.
End Checks.

(** The conversion from the immediate parent. *)
Theorem try_from_parent_constraint_error fuel oc fl sch d p pobj :
  Forall (resolvable fl (iter_fields fl p) (iter_constraints fl p) pobj) (decl_constraints d) ->
  Exists (violated fl (iter_fields fl p) (iter_constraints fl p) pobj) (decl_constraints d) ->
  try_from_parent fuel oc fl sch d p pobj = Err ConstraintValueError.
Proof.
  intros Hres Hex. unfold try_from_parent, decode_partial.
  fold (check_loop fl (iter_fields fl p) (iter_constraints fl p) pobj).
  destruct (check_loop_spec fl _ _ _ _ Hres) as [[_ Hn]|[He _]]; [contradiction|].
  rewrite He. reflexivity.
Qed.

Theorem try_from_parent_no_constraint_error fuel oc fl sch d p pobj :
  Forall (resolvable fl (iter_fields fl p) (iter_constraints fl p) pobj) (decl_constraints d) ->
  ~ Exists (violated fl (iter_fields fl p) (iter_constraints fl p) pobj) (decl_constraints d) ->
  decl_payload p = None ->
  exists v, try_from_parent fuel oc fl sch d p pobj = Ok v.
Proof.
  intros Hres Hn Hp. unfold try_from_parent, decode_partial.
  fold (check_loop fl (iter_fields fl p) (iter_constraints fl p) pobj).
  destruct (check_loop_spec fl _ _ _ _ Hres) as [[Hok _]|[_ He]]; [|contradiction].
  rewrite Hok. cbn [bind]. rewrite Hp. eexists; reflexivity.
Qed.
