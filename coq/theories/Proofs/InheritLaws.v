(** [decode_partial]'s constraint checks: the conversion from a parent fails with
    ConstraintValueError exactly when one of the child's own constraints is violated. *)
From Coq Require Import NArith List String Bool Lia.
From Coq Require Import Strings.Byte.
From PDL Require Import Base.Bits Base.Outcome Lang.Ast Lang.Sexp Analyzer.Schema Rust.Enum
     Sem.RefEncode Rust.Encode Rust.Decode Rust.Inherit.
Import ListNotations.
Open Scope N_scope.

Section Checks.
  Variable fl : file.
  Variable pfields : list field.
  Variable pcs : list constr.
  Variable pobj : list (string * value).

  Definition check_loop :=
    fix checks (cs : list constr) : dres unit :=
      match cs with
      | [] => Ok tt
      | c :: cs' =>
          match get_num fl pfields pcs pobj (c_id c), constraint_N fl pfields c with
          | Some actual, Some expected =>
              if actual =? expected then checks cs' else Err ConstraintValueError
          | _, _ => Panic UnwrapFail
          end
      end.

  (** every constraint resolves: the field exists in the parent and the constant is known *)
  Definition resolvable (c : constr) : Prop :=
    exists a e, get_num fl pfields pcs pobj (c_id c) = Some a /\ constraint_N fl pfields c = Some e.

  Definition violated (c : constr) : Prop :=
    exists a e, get_num fl pfields pcs pobj (c_id c) = Some a /\ constraint_N fl pfields c = Some e /\ a <> e.

  Lemma check_loop_spec cs :
    Forall resolvable cs ->
    (check_loop cs = Ok tt /\ ~ Exists violated cs) \/
    (check_loop cs = Err ConstraintValueError /\ Exists violated cs).
  Proof.
    induction cs as [|c cs IH]; intros Hres.
    - left. split; [reflexivity|]. intros H; inversion H.
    - inversion Hres as [|? ? [a [e [Ha He]]] Hrest]; subst.
      cbn [check_loop]. rewrite Ha, He.
      destruct (a =? e) eqn:Eae.
      + apply N.eqb_eq in Eae. subst e.
        destruct (IH Hrest) as [[Hok Hnone]|[Herr Hsome]].
        * left. split; [exact Hok|]. intros Hex. inversion Hex as [? ? Hv|? ? Hv]; subst.
          -- destruct Hv as [a' [e' [Ha' [He' Hne]]]]. congruence.
          -- exact (Hnone Hv).
        * right. split; [exact Herr|]. right. exact Hsome.
      + apply N.eqb_neq in Eae. right. split; [reflexivity|].
        left. exists a, e. auto.
  Qed.
End Checks.

(** The conversion from the immediate parent. *)
Theorem try_from_parent_constraint_error fuel oc fl sch d p pobj :
  Forall (resolvable fl (iter_fields fl p) (iter_constraints fl p) pobj) (decl_constraints d) ->
  Exists (violated fl (iter_fields fl p) (iter_constraints fl p) pobj) (decl_constraints d) ->
  try_from_parent fuel oc fl sch d p pobj = Err ConstraintValueError.
Proof.
  intros Hres Hex. unfold try_from_parent, decode_partial.
  fold (check_loop fl (iter_fields fl p) (iter_constraints fl p) pobj).
  destruct (check_loop_spec fl _ _ _ _ Hres) as [[_ Hn]|[He _]]; [contradiction|].
  rewrite He. reflexivity.
Qed.

Theorem try_from_parent_no_constraint_error fuel oc fl sch d p pobj :
  Forall (resolvable fl (iter_fields fl p) (iter_constraints fl p) pobj) (decl_constraints d) ->
  ~ Exists (violated fl (iter_fields fl p) (iter_constraints fl p) pobj) (decl_constraints d) ->
  decl_payload p = None ->
  exists v, try_from_parent fuel oc fl sch d p pobj = Ok v.
Proof.
  intros Hres Hn Hp. unfold try_from_parent, decode_partial.
  fold (check_loop fl (iter_fields fl p) (iter_constraints fl p) pobj).
  destruct (check_loop_spec fl _ _ _ _ Hres) as [[Hok _]|[_ He]]; [|contradiction].
  rewrite Hok. cbn [bind]. rewrite Hp. eexists; reflexivity.
Qed.

(** [specialize()] never yields a child one of whose own constraints the parent's field
    values violate: what it returns is what [Child::try_from(&parent)] returns, which
    fails on a violated constraint. *)
Theorem specialize_respects_constraints fuel oc fl sch d pobj cid v c :
  rust_specialize fuel oc fl sch d pobj = Ok (Some (cid, v)) ->
  lookup_decl fl cid = Some c ->
  Forall (resolvable fl (iter_fields fl d) (iter_constraints fl d) pobj) (decl_constraints c) ->
  ~ Exists (violated fl (iter_fields fl d) (iter_constraints fl d) pobj) (decl_constraints c).
Proof.
  intros Hs Hl Hres Hex. unfold rust_specialize in Hs.
  destruct (specialize_plan fl sch d) as [plan|]; [|discriminate].
  match type of Hs with (if ?b then _ else _) = _ => destruct b; [discriminate|] end.
  match type of Hs with match ?x with _ => _ end = _ => destruct x as [cid'|]; [|discriminate] end.
  destruct (lookup_decl fl cid') as [c'|] eqn:El'; [|discriminate].
  destruct (try_from_parent fuel oc fl sch c' d pobj) as [v'| | |] eqn:Et; cbn [bind] in Hs; try discriminate.
  inversion Hs; subst cid' v'. rewrite Hl in El'. inversion El'; subst c'.
  rewrite (try_from_parent_constraint_error fuel oc fl sch c d pobj Hres Hex) in Et. discriminate.
Qed.
