(** The bit-field grouping every backend re-implements by hand:
      Rust    FieldParser::add_bit_field / Encoder::encode_bit_field  (shift, chunk)
      Python  parse_bit_field / serialize_bit_field                    (shift, chunk)
      C++     FieldParser / FieldSerializer                            (shift, chunk)
      Java    common::alignment::ByteAligner                           (staged_fields, staged_width)
    modelled on the list of field widths, and the reference grouping: a group is a
    maximal run of bit-fields that ends at the first byte boundary; the offset of a
    field is the sum of the widths before it in its group. *)
From Coq Require Import NArith ZArith List Bool Lia ZifyN ZifyBool.
From PDL Require Import Base.Bits.
Import ListNotations.
Open Scope N_scope.

(** A group: the (offset, width) of its fields, LSB first. *)
Definition group := list (N * N).

(** ** The reference grouping (doc/reference.md: "grouped together to the next byte boundary") *)
Fixpoint ref_groups (ws : list N) (cur : group) (off : N) : list group * group :=
  match ws with
  | [] => ([], cur)
  | w :: rest =>
      let cur' := (cur ++ [(off, w)])%list in
      if (off + w) mod 8 =? 0
      then let (gs, pend) := ref_groups rest [] 0 in (cur' :: gs, pend)
      else ref_groups rest cur' (off + w)
  end.

(** ** Rust (decoder.rs 140-282, encoder.rs 230-529), Python (python.rs 777-861, 1419-1546)
    and C++ (cxx.rs 370-400, 1335-1530): push (shift, field); shift += width; when
    shift is a multiple of 8 the chunk is drained and shift reset. *)
Fixpoint shift_chunker (ws : list N) (chunk : group) (shift : N) : list group * group :=
  match ws with
  | [] => ([], chunk)
  | w :: rest =>
      let chunk' := (chunk ++ [(shift, w)])%list in
      let shift' := shift + w in
      if negb (shift' mod 8 =? 0) then shift_chunker rest chunk' shift'
      else let (gs, pend) := shift_chunker rest [] 0 in (chunk' :: gs, pend)
  end.

Definition rust_chunker := shift_chunker.
Definition python_chunker := shift_chunker.
Definition cxx_chunker := shift_chunker.

(** ** Java: ByteAligner::add_bitfield / try_commit_staged_chunk. [None] = the panic when
    the staged width grows beyond MAX_CHUNK_WIDTH = 64. *)
Fixpoint java_aligner (ws : list N) (staged : group) (staged_width : N) : option (list group * group) :=
  match ws with
  | [] => Some ([], staged)
  | w :: rest =>
      let staged' := (staged ++ [(staged_width, w)])%list in
      let width' := staged_width + w in
      if 64 <? width' then None
      else if negb (width' =? 0) && (width' mod 8 =? 0) then
        match java_aligner rest [] 0 with
        | Some (gs, pend) => Some (staged' :: gs, pend)
        | None => None
        end
      else java_aligner rest staged' width'
  end.

(** ** They are the same function *)

Theorem shift_chunker_is_reference ws : forall cur off,
  shift_chunker ws cur off = ref_groups ws cur off.
Proof.
  induction ws as [|w rest IH]; intros cur off; cbn [shift_chunker ref_groups]; [reflexivity|].
  destruct ((off + w) mod 8 =? 0); cbn [negb]; rewrite IH; reflexivity.
Qed.

(** total width of a group *)
Fixpoint group_width (g : group) : N :=
  match g with [] => 0 | (_, w) :: rest => w + group_width rest end.

(** every completed group of the reference is at most [m] bits wide *)
Fixpoint groups_within (m : N) (ws : list N) (off : N) : bool :=
  match ws with
  | [] => true
  | w :: rest =>
      (off + w <=? m) &&
      (if (off + w) mod 8 =? 0 then groups_within m rest 0 else groups_within m rest (off + w))
  end.

Theorem java_aligner_is_reference ws : forall cur off,
  Forall (fun w => 0 < w) ws ->
  groups_within 64 ws off = true ->
  java_aligner ws cur off = Some (ref_groups ws cur off).
Proof.
  induction ws as [|w rest IH]; intros cur off Hpos Hin; cbn [java_aligner ref_groups]; [reflexivity|].
  inversion Hpos as [|? ? Hw Hrest]; subst.
  cbn [groups_within] in Hin. apply andb_prop in Hin. destruct Hin as [Hle Hin].
  assert (E1 : (64 <? off + w) = false) by lia. rewrite E1.
  assert (E2 : (off + w =? 0) = false) by lia. rewrite E2. cbn [negb andb].
  destruct ((off + w) mod 8 =? 0).
  - rewrite (IH [] 0 Hrest Hin). destruct (ref_groups rest [] 0). reflexivity.
  - apply IH; assumption.
Qed.

(** ** What the grouping guarantees (used by every backend's shift/mask code) *)

(** offsets inside a group are the running sums of the widths *)
Fixpoint offsets_ok (g : group) (off : N) : bool :=
  match g with
  | [] => true
  | (o, w) :: rest => (o =? off) && offsets_ok rest (off + w)
  end.

Lemma offsets_ok_app g1 g2 off :
  offsets_ok (g1 ++ g2) off = offsets_ok g1 off && offsets_ok g2 (off + group_width g1).
Proof.
  revert off. induction g1 as [|[o w] g1 IH]; intros off; cbn [app offsets_ok group_width].
  - now rewrite N.add_0_r.
  - rewrite IH. rewrite andb_assoc. do 2 f_equal. lia.
Qed.

Lemma group_width_app g1 g2 : group_width (g1 ++ g2) = group_width g1 + group_width g2.
Proof.
  induction g1 as [|[o w] g1 IH]; cbn [app group_width]; [reflexivity|].
  rewrite IH. lia.
Qed.

Theorem ref_groups_wellformed ws : forall cur off gs pend,
  offsets_ok cur 0 = true -> group_width cur = off ->
  ref_groups ws cur off = (gs, pend) ->
  Forall (fun g => offsets_ok g 0 = true /\ group_width g mod 8 = 0) gs
  /\ offsets_ok pend 0 = true.
Proof.
  induction ws as [|w rest IH]; intros cur off gs pend Hok Hw H; cbn [ref_groups] in H.
  - inversion H; subst. split; [constructor | exact Hok].
  - assert (Hok' : offsets_ok (cur ++ [(off, w)]) 0 = true).
    { rewrite offsets_ok_app, Hok. cbn [offsets_ok andb]. rewrite N.add_0_l, Hw, N.eqb_refl. reflexivity. }
    assert (Hw' : group_width (cur ++ [(off, w)]) = off + w).
    { rewrite group_width_app, Hw. cbn. lia. }
    destruct ((off + w) mod 8 =? 0) eqn:E.
    + destruct (ref_groups rest [] 0) as [gs' pend'] eqn:Er. inversion H; subst.
      destruct (IH [] 0 gs' pend eq_refl eq_refl Er) as [Hgs Hp].
      split; [|exact Hp]. constructor; [|exact Hgs].
      split; [exact Hok'|]. rewrite Hw'. now apply N.eqb_eq.
    + eapply IH; eassumption.
Qed.

(** every field lands in exactly one group, in order *)
Theorem ref_groups_partition ws : forall cur off gs pend,
  ref_groups ws cur off = (gs, pend) ->
  map snd (List.concat gs ++ pend) = (map snd cur ++ ws)%list.
Proof.
  induction ws as [|w rest IH]; intros cur off gs pend H; cbn [ref_groups] in H.
  - inversion H; subst. cbn. now rewrite app_nil_r.
  - destruct ((off + w) mod 8 =? 0).
    + destruct (ref_groups rest [] 0) as [gs' pend'] eqn:Er. inversion H; subst.
      specialize (IH [] 0 gs' pend Er). cbn [List.concat]. rewrite <- app_assoc, map_app, IH.
      rewrite map_app. cbn. now rewrite <- app_assoc.
    + rewrite (IH _ _ _ _ H). rewrite map_app. cbn. now rewrite <- app_assoc.
Qed.
