(** Reference semantics, encoding direction: the bytes doc/reference.md prescribes
    for a value of a packet or struct.  Written from the reference, not from any
    backend: bit-fields are summed LSB-first into a group integer that is written in
    the file's byte order; sizes and counts are DERIVED from the value.

    Input files are in analyzed form (groups inlined, flags desugared). *)
From Coq Require Import NArith List String Bool.
From Coq Require Import Strings.Byte.
From PDL Require Import Base.Bits Lang.Ast Lang.Sexp Rust.Enum.
Import ListNotations.
Open Scope string_scope.
Open Scope N_scope.

Definition bytes_E (e : endian) (n : nat) (v : N) : list byte :=
  match e with LittleEndian => le_bytes n v | BigEndian => be_bytes n v end.

(** The encoding is built from SEGMENTS in little-endian order: an integer (a bit-field
    group, a multi-byte array element, an optional scalar or enum, a sized custom
    field) is a segment whose bytes are reversed in a big-endian file; raw bytes
    (payloads, padding) are not.  This is the reference's "grouped ..., then
    byte-swapped to the required endianness". *)
Definition seg := (list byte * bool)%type.

Definition int_seg (n : nat) (v : N) : seg := (le_bytes n v, true).
Definition raw_seg (bs : list byte) : seg := (bs, false).

Definition render_seg (e : endian) (s : seg) : list byte :=
  match e, s with
  | BigEndian, (bs, true) => rev bs
  | _, (bs, _) => bs
  end.

Definition render (e : endian) (ss : list seg) : list byte := List.concat (map (render_seg e) ss).

Definition seg_len (ss : list seg) : N := N.of_nat (List.length (List.concat (map fst ss))).

Definition nbytes (bits : N) : nat := N.to_nat (bits / 8).

Definition len {A} (l : list A) : N := N.of_nat (List.length l).

(** The constant a constraint gives to field [id] of declaration chain. *)
Definition field_type_id (fs : list field) (id : string) : option string :=
  match find (fun f => match f_desc f with Typedef i _ => String.eqb i id | _ => false end) fs with
  | Some f => match f_desc f with Typedef _ t => Some t | _ => None end
  | None => None
  end.

Definition enum_tags (fl : file) (tid : string) : option (list tag * N) :=
  match lookup_decl fl tid with
  | Some (DEnum _ tags w) => Some (tags, w)
  | _ => None
  end.

Definition constraint_N (fl : file) (all_fields : list field) (c : constr) : option N :=
  match c_value c, c_tag c with
  | Some v, _ => Some v
  | None, Some t =>
      match field_type_id all_fields (c_id c) with
      | Some tid => match enum_tags fl tid with
                    | Some (tags, _) => enum_tag_value tags t
                    | None => None
                    end
      | None => None
      end
  | None, None => None
  end.

Definition find_constraint (cs : list constr) (id : string) : option constr :=
  find (fun c => String.eqb (c_id c) id) cs.

Definition is_present (obj : list (string * value)) (id : string) : option bool :=
  match assoc id obj with
  | Some VNull => Some false
  | Some _ => Some true
  | None => None
  end.

(** Value of a flag: every optional field governed by it must agree. *)
Fixpoint flag_value (obj : list (string * value)) (uses : list (string * N)) : option (option N) :=
  match uses with
  | [] => Some None
  | (oid, setv) :: rest =>
      match is_present obj oid, flag_value obj rest with
      | Some p, Some r =>
          if 1 <? setv then None else
          let v := if p then setv else 1 - setv in
          match r with
          | None => Some (Some v)
          | Some v' => if v =? v' then Some (Some v) else None
          end
      | _, _ => None
      end
  end.

Section Fields.
  Variable fl : file.
  (** encoder for a struct-typed value *)
  Variable rec : string -> value -> option (list seg).

  Definition E := f_endian fl.

  (** One array element / optional value / typedef value of type [width] or [type_id]. *)
  Definition ref_enc_elem (width : option N) (tid : option string) (v : value) : option (list seg) :=
    match width, tid with
    | Some w, _ =>
        match v with
        | VNum n => if (n <? 2 ^ w) && (w mod 8 =? 0) then Some [int_seg (nbytes w) n] else None
        | _ => None
        end
    | None, Some t =>
        match lookup_decl fl t with
        | Some (DEnum _ tags w) =>
            match v with
            | VNum n =>
                match spec_enum_of_N tags w n with
                | Some _ => if w mod 8 =? 0 then Some [int_seg (nbytes w) n] else None
                | None => None
                end
            | _ => None
            end
        | Some (DStruct _ _ _ _) => rec t v
        | Some (DCustomField _ (Some w) _) =>
            match v with
            | VNum n => if (n <? 2 ^ w) && (w mod 8 =? 0) then Some [int_seg (nbytes w) n] else None
            | _ => None
            end
        | _ => None
        end
    | None, None => None
    end.

  Fixpoint ref_enc_elems (width : option N) (tid : option string) (vs : list value)
    : option (list (list seg)) :=
    match vs with
    | [] => Some []
    | v :: vs' =>
        match ref_enc_elem width tid v, ref_enc_elems width tid vs' with
        | Some b, Some r => Some (b :: r)
        | _, _ => None
        end
    end.

  Definition array_field (d : decl) (id : string) : option field :=
    find (fun f => match f_desc f with Array i _ _ _ _ => String.eqb i id | _ => false end)
         (decl_fields d).

  (** Encoded elements of the array [id] of [d] (unpadded). *)
  Definition ref_array_elems (d : decl) (obj : list (string * value)) (id : string)
    : option (list (list seg)) :=
    match array_field d id, assoc id obj with
    | Some f, Some (VList vs) =>
        match f_desc f with
        | Array _ w t _ sz =>
            match ref_enc_elems w t vs with
            | Some ebs =>
                match sz with
                | Some n => if len vs =? n then Some ebs else None
                | None => Some ebs
                end
            | None => None
            end
        | _ => None
        end
    | _, _ => None
    end.

  Definition all_same_length (ebs : list (list seg)) : bool :=
    match ebs with
    | [] => true
    | e :: rest => forallb (fun x => seg_len x =? seg_len e) rest
    end.

  Definition payload_modifier (d : decl) : N :=
    match decl_payload d with
    | Some f => match f_desc f with Payload (Some m) => m | _ => 0 end
    | None => 0
    end.

  Definition array_modifier (d : decl) (id : string) : N :=
    match array_field d id with
    | Some f => match f_desc f with Array _ _ _ (Some m) _ => m | _ => 0 end
    | None => 0
    end.

  (** Value and width of a bit-field. *)
  Definition ref_bitfield (d : decl) (all_fields : list field) (cs : list constr)
             (obj : list (string * value)) (payload : list seg) (f : field)
    : option (N * N) :=
    match f_desc f with
    | Scalar id w =>
        match find_constraint cs id with
        | Some c => option_map (fun v => (v, w)) (constraint_N fl all_fields c)
        | None => match assoc id obj with Some (VNum n) => Some (n, w) | _ => None end
        end
    | Typedef id tid =>
        match enum_tags fl tid with
        | Some (tags, w) =>
            match find_constraint cs id with
            | Some c => option_map (fun v => (v, w)) (constraint_N fl all_fields c)
            | None =>
                match assoc id obj with
                | Some (VNum n) =>
                    match spec_enum_of_N tags w n with Some _ => Some (n, w) | None => None end
                | _ => None
                end
            end
        | None => None
        end
    | Size fid w =>
        if String.eqb fid "_payload_" || String.eqb fid "_body_" then
          Some (seg_len payload + payload_modifier d, w)
        else
          match ref_array_elems d obj fid with
          | Some ebs => Some (seg_len (List.concat ebs) + array_modifier d fid, w)
          | None => None
          end
    | Count fid w =>
        match assoc fid obj with
        | Some (VList vs) => Some (len vs, w)
        | _ => None
        end
    | ElementSize fid w =>
        match ref_array_elems d obj fid with
        | Some ebs =>
            if all_same_length ebs then
              Some (match ebs with e :: _ => seg_len e | [] => 0 end, w)
            else None
        | None => None
        end
    | FixedScalar w v => Some (v, w)
    | FixedEnum eid tid =>
        match enum_tags fl eid with
        | Some (tags, w) => option_map (fun v => (v, w)) (enum_tag_value tags tid)
        | None => None
        end
    | Reserved w => Some (0, w)
    | Flag _ uses =>
        match flag_value obj uses with
        | Some (Some v) => Some (v, 1)
        | _ => None
        end
    | _ => None
    end.

  Definition next_is_padding (rest : list field) : option N :=
    match rest with
    | g :: _ => match f_desc g with Padding n => Some n | _ => None end
    | [] => None
    end.

  Fixpoint zeros (n : nat) : list byte :=
    match n with O => [] | S n' => x00 :: zeros n' end.

  (** The fields of ONE declaration; [payload] stands for its payload/body. *)
  Fixpoint ref_enc_fields (d : decl) (all_fields : list field) (cs : list constr)
           (obj : list (string * value)) (payload : list seg)
           (fs : list field) (acc bits : N) {struct fs} : option (list seg) :=
    match fs with
    | [] => if bits =? 0 then Some [] else None
    | f :: rest =>
        match f_cond f with
        | Some _ =>
            (* optional field: byte aligned, present iff its value is not null *)
            if negb (bits =? 0) then None else
            let id := match field_id f with Some i => i | None => "" end in
            match assoc id obj with
            | None => None
            | Some VNull => ref_enc_fields d all_fields cs obj payload rest 0 0
            | Some v =>
                let here :=
                  match f_desc f with
                  | Scalar _ w => ref_enc_elem (Some w) None v
                  | Typedef _ t => ref_enc_elem None (Some t) v
                  | _ => None
                  end in
                match here, ref_enc_fields d all_fields cs obj payload rest 0 0 with
                | Some a, Some b => Some (a ++ b)%list
                | _, _ => None
                end
            end
        | None =>
            if is_bitfield fl f then
              match ref_bitfield d all_fields cs obj payload f with
              | Some (v, w) =>
                  if v <? 2 ^ w then
                    let acc' := acc + v * 2 ^ bits in
                    let bits' := bits + w in
                    if bits' mod 8 =? 0 then
                      match ref_enc_fields d all_fields cs obj payload rest 0 0 with
                      | Some b => Some (int_seg (nbytes bits') acc' :: b)
                      | None => None
                      end
                    else ref_enc_fields d all_fields cs obj payload rest acc' bits'
                  else None
              | None => None
              end
            else if negb (bits =? 0) then None
            else
              let here :=
                match f_desc f with
                | Padding _ => Some []
                | Array id _ _ _ _ =>
                    match ref_array_elems d obj id with
                    | Some ebs =>
                        let bs := List.concat ebs in
                        let es_ok := match decl_element_size d id with
                                     | Some _ => all_same_length ebs
                                     | None => true
                                     end in
                        if es_ok then
                          match next_is_padding rest with
                          | Some p =>
                              if seg_len bs <=? p
                              then Some (bs ++ [raw_seg (zeros (N.to_nat (p - seg_len bs)))])%list
                              else None
                          | None => Some bs
                          end
                        else None
                    | None => None
                    end
                | Typedef id t =>
                    match assoc id obj with
                    | Some v => ref_enc_elem None (Some t) v
                    | None => None
                    end
                | Payload _ | Body => Some payload
                | _ => None
                end in
              match here, ref_enc_fields d all_fields cs obj payload rest 0 0 with
              | Some a, Some b => Some (a ++ b)%list
              | _, _ => None
              end
        end
    end.
End Fields.

Definition obj_payload (obj : list (string * value)) : option (list byte) :=
  match assoc "payload" obj with
  | Some v => bytes_of_value v
  | None => Some []
  end.

(** Encode declaration [d] (with the fields of its ancestors around it). [obj] is the
    value of the LEAF declaration, [cs] its accumulated constraints, [payload] what
    goes where [d]'s payload/body field is. *)
Definition ref_rec_of
           (self : decl -> list field -> list constr -> list (string * value) -> list seg -> option (list seg))
           (fl : file) (tid : string) (v : value) : option (list seg) :=
  match lookup_decl fl tid, v with
  | Some d', VObj o =>
      match obj_payload o with
      | Some pl => self d' (iter_fields fl d') (iter_constraints fl d') o [raw_seg pl]
      | None => None
      end
  | _, _ => None
  end.

Fixpoint ref_enc_decl (fuel : nat) (fl : file) (d : decl) (all_fields : list field)
         (cs : list constr) (obj : list (string * value)) (payload : list seg)
  : option (list seg) :=
  match fuel with
  | O => None
  | S fuel' =>
      match ref_enc_fields fl (ref_rec_of (ref_enc_decl fuel' fl) fl) d all_fields cs obj payload
                           (decl_fields d) 0 0 with
      | Some bs =>
          match get_parent fl d with
          | Some p => ref_enc_decl fuel' fl p all_fields cs obj bs
          | None => Some bs
          end
      | None => None
      end
  end.

Definition ref_segments (fuel : nat) (fl : file) (id : string) (v : value) : option (list seg) :=
  match lookup_decl fl id, v with
  | Some d, VObj o =>
      match d with
      | DPacket _ _ _ _ | DStruct _ _ _ _ =>
          match obj_payload o with
          | Some pl =>
              (* a declaration without payload field cannot carry one *)
              match decl_payload d, pl with
              | None, _ :: _ => None
              | _, _ => ref_enc_decl fuel fl d (iter_fields fl d) (iter_constraints fl d) o [raw_seg pl]
              end
          | None => None
          end
      | _ => None
      end
  | _, _ => None
  end.

Definition ref_encode (fuel : nat) (fl : file) (id : string) (v : value) : option (list byte) :=
  option_map (render (f_endian fl)) (ref_segments fuel fl id v).
