(** Reference semantics, decoding direction: which byte strings doc/reference.md
    makes a declaration accept, with which field values, and for a rejected string
    the first fault in wire order. Independent of every backend: every read is
    bounds-checked, arithmetic is unbounded, padding content and reserved bits are
    ignored. *)
From Coq Require Import NArith List String Bool.
From Coq Require Import Strings.Byte.
From PDL Require Import Base.Bits Lang.Ast Lang.Sexp Rust.Enum Sem.RefEncode.
Import ListNotations.
Open Scope string_scope.
Open Scope N_scope.

Inductive fault :=
| FLength | FFixed | FArraySize | FEnum | FConstraint | FTrailing | FTrailingInArray
| FUnsupported      (* description outside the reference's decodable class *)
| FFuel.

(** result *)
Inductive rres (A : Type) := ROk (a : A) | RFault (f : fault).
Arguments ROk {A} a.
Arguments RFault {A} f.

Definition rbind {A B} (x : rres A) (f : A -> rres B) : rres B :=
  match x with ROk a => f a | RFault e => RFault e end.

Notation "'let+' x ':=' e 'in' f" := (rbind e (fun x => f))
  (at level 200, x pattern, e at level 100, f at level 200, right associativity).

Definition of_bytes_E (e : endian) (bs : list byte) : N :=
  match e with LittleEndian => of_le bs | BigEndian => of_be bs end.

(** Take exactly [n] bytes. *)
Definition take (n : N) (sp : list byte) : rres (list byte * list byte) :=
  if len sp <? n then RFault FLength
  else ROk (firstn (N.to_nat n) sp, skipn (N.to_nat n) sp).

Record rstate := mkRst {
  r_span : list byte;
  r_env : list (string * N);          (* sizes, counts, element sizes, flags *)
  r_vals : list (string * value);
  r_payload : option (list byte)
}.

Definition renv (st : rstate) (k : string) : rres N :=
  match assoc k (r_env st) with Some v => ROk v | None => RFault FUnsupported end.

Section Fields.
  Variable fl : file.
  Variable rec : string -> list byte -> rres (value * list byte).
  Variable lf : nat.

  Definition E := f_endian fl.

  Definition read_uint (w : N) (sp : list byte) : rres (N * list byte) :=
    if negb (w mod 8 =? 0) then RFault FUnsupported else
    let+ (b, rest) := take (w / 8) sp in
    ROk (of_bytes_E E b, rest).

  Definition enum_ok (tid : string) (x : N) : rres unit :=
    match lookup_decl fl tid with
    | Some (DEnum _ tags w) =>
        match spec_enum_of_N tags w x with Some _ => ROk tt | None => RFault FEnum end
    | _ => RFault FUnsupported
    end.

  (** one element / optional value / typedef value *)
  Definition read_elem (width : option N) (tid : option string) (sp : list byte)
    : rres (value * list byte) :=
    match width, tid with
    | Some w, _ => let+ (x, r) := read_uint w sp in ROk (VNum x, r)
    | None, Some t =>
        match lookup_decl fl t with
        | Some (DEnum _ _ w) =>
            let+ (x, r) := read_uint w sp in
            let+ _ := enum_ok t x in ROk (VNum x, r)
        | Some (DStruct _ _ _ _) => rec t sp
        | Some (DCustomField _ (Some w) _) => let+ (x, r) := read_uint w sp in ROk (VNum x, r)
        | _ => RFault FUnsupported
        end
    | None, None => RFault FUnsupported
    end.

  (** static octet width of an element type, when it has one *)
  Variable static_octets : option N -> option string -> option N.

  Fixpoint elems_until_empty (k : nat) (w : option N) (t : option string) (sp : list byte)
           (acc : list value) : rres (list value) :=
    match sp with
    | [] => ROk (rev acc)
    | _ =>
        match k with
        | O => RFault FFuel
        | S k' =>
            let+ (v, r) := read_elem w t sp in
            if len r <? len sp then elems_until_empty k' w t r (v :: acc)
            else RFault FUnsupported      (* an element of no bytes cannot delimit anything *)
        end
    end.

  Fixpoint elems_count (k : nat) (n : N) (w : option N) (t : option string) (sp : list byte)
           (acc : list value) : rres (list value * list byte) :=
    if n =? 0 then ROk (rev acc, sp)
    else match k with
         | O => RFault FFuel
         | S k' =>
             let+ (v, r) := read_elem w t sp in
             elems_count k' (n - 1) w t r (v :: acc)
         end.

  (** [n] elements each occupying exactly [es] bytes *)
  Fixpoint elems_chunked (k : nat) (n es : N) (w : option N) (t : option string)
           (sp : list byte) (acc : list value) : rres (list value * list byte) :=
    if n =? 0 then ROk (rev acc, sp)
    else match k with
         | O => RFault FFuel
         | S k' =>
             let+ (c, r) := take es sp in
             let+ (v, lft) := read_elem w t c in
             match lft with
             | [] => elems_chunked k' (n - 1) es w t r (v :: acc)
             | _ => RFault FTrailingInArray
             end
         end.

  Inductive delim := DCount (n : N) | DSize (octets : N) | DRest.
  Inductive ewidth := WStatic (octets : N) | WDynamic (octets : N) | WSelf.

  (** The elements found in [sp] under a delimiter and an element width; returns
      what is left of [sp]. *)
  Definition read_array (dl : delim) (ew : ewidth) (w : option N) (t : option string)
             (sp : list byte) : rres (list value * list byte) :=
    match dl with
    | DCount n =>
        match ew with
        | WStatic e => let+ _ := take (n * e) sp in elems_count lf n w t sp []
        | WDynamic es => let+ _ := take (n * es) sp in elems_chunked lf n es w t sp []
        | WSelf => elems_count lf n w t sp []
        end
    | _ =>
        let+ (region, after) :=
          match dl with
          | DSize sz => take sz sp
          | _ => ROk (sp, [])
          end in
        let s := len region in
        match ew with
        | WStatic e =>
            if e =? 0 then RFault FUnsupported
            else if s mod e =? 0 then
              let+ (vs, _) := elems_count lf (s / e) w t region [] in ROk (vs, after)
            else RFault FArraySize
        | WDynamic es =>
            if es =? 0 then (if s =? 0 then ROk ([], after) else RFault FArraySize)
            else if s mod es =? 0 then
              let+ (vs, _) := elems_chunked lf (s / es) es w t region [] in ROk (vs, after)
            else RFault FArraySize
        | WSelf =>
            let+ vs := elems_until_empty lf w t region [] in ROk (vs, after)
        end
    end.

  (** static size in bits of the fields following the payload, padding counted *)
  Variable static_bits_after : decl -> list field -> option N.

  Definition set_rspan st sp := mkRst sp (r_env st) (r_vals st) (r_payload st).
  Definition add_renv st k v := mkRst (r_span st) ((k, v) :: r_env st) (r_vals st) (r_payload st).
  Definition add_rval st k v := mkRst (r_span st) (r_env st) (r_vals st ++ [(k, v)])%list (r_payload st).

  (** fields of a completed group, LSB first *)
  Fixpoint group_fields (gv : N) (st : rstate) (fs : list (N * N * field)) : rres rstate :=
    match fs with
    | [] => ROk st
    | (sh, w, f) :: rest =>
        let x := extract sh w gv in
        let+ st' :=
          match f_desc f with
          | Scalar id _ => ROk (add_rval (add_renv st id x) id (VNum x))
          | Flag id _ => ROk (add_renv st id x)
          | Typedef id tid => let+ _ := enum_ok tid x in ROk (add_rval (add_renv st id x) id (VNum x))
          | FixedScalar _ v => if x =? v then ROk st else RFault FFixed
          | FixedEnum eid tid =>
              match enum_tags fl eid with
              | Some (tags, _) =>
                  match enum_tag_value tags tid with
                  | Some v => if x =? v then ROk st else RFault FFixed
                  | None => RFault FUnsupported
                  end
              | None => RFault FUnsupported
              end
          | Reserved _ => ROk st
          | Size fid _ => ROk (add_renv st ("size:" ++ fid) x)
          | Count fid _ => ROk (add_renv st ("count:" ++ fid) x)
          | ElementSize fid _ => ROk (add_renv st ("esize:" ++ fid) x)
          | _ => RFault FUnsupported
          end in
        group_fields gv st' rest
    end.

  Definition bitfield_width (f : field) : option N :=
    match f_desc f with
    | Scalar _ w | Size _ w | Count _ w | ElementSize _ w | FixedScalar w _ | Reserved w => Some w
    | Flag _ _ => Some 1
    | Typedef _ tid | FixedEnum tid _ =>
        match enum_tags fl tid with Some (_, w) => Some w | None => None end
    | _ => None
    end.

  Fixpoint ref_dec_fields (d : decl) (fs : list field) (st : rstate)
           (grp : list (N * N * field)) (bits : N) {struct fs} : rres rstate :=
    match fs with
    | [] => if bits =? 0 then ROk st else RFault FUnsupported
    | f :: rest =>
        match f_cond f with
        | Some c =>
            if negb (bits =? 0) then RFault FUnsupported else
            match c_value c, field_id f with
            | Some cv, Some id =>
                let+ flag := renv st (c_id c) in
                if flag =? cv then
                  let+ (v, sp') :=
                    match f_desc f with
                    | Scalar _ w => read_elem (Some w) None (r_span st)
                    | Typedef _ t => read_elem None (Some t) (r_span st)
                    | _ => RFault FUnsupported
                    end in
                  ref_dec_fields d rest (add_rval (set_rspan st sp') id v) [] 0
                else ref_dec_fields d rest (add_rval st id VNull) [] 0
            | _, _ => RFault FUnsupported
            end
        | None =>
            if is_bitfield fl f then
              match bitfield_width f with
              | Some w =>
                  let grp' := (grp ++ [(bits, w, f)])%list in
                  let bits' := bits + w in
                  if bits' mod 8 =? 0 then
                    let+ (b, sp') := take (bits' / 8) (r_span st) in
                    let+ st' := group_fields (of_bytes_E E b) (set_rspan st sp') grp' in
                    ref_dec_fields d rest st' [] 0
                  else ref_dec_fields d rest st grp' bits'
              | None => RFault FUnsupported
              end
            else if negb (bits =? 0) then RFault FUnsupported
            else
              match f_desc f with
              | Padding _ => ref_dec_fields d rest st [] 0
              | Array id w t md sz =>
                  (* the region the array lives in *)
                  let+ (region, after) :=
                    match next_is_padding rest with
                    | Some p => let+ (h, tl) := take p (r_span st) in ROk (h, Some tl)
                    | None => ROk (r_span st, None)
                    end in
                  let+ dl :=
                    match sz with
                    | Some n => ROk (DCount n)
                    | None =>
                        match decl_array_size d id with
                        | Some g =>
                            match f_desc g with
                            | Count _ _ => let+ n := renv st ("count:" ++ id) in ROk (DCount n)
                            | Size _ _ =>
                                let+ s := renv st ("size:" ++ id) in
                                let m := match md with Some m => m | None => 0 end in
                                if s <? m then RFault FLength else ROk (DSize (s - m))
                            | _ => ROk DRest
                            end
                        | None => ROk DRest
                        end
                    end in
                  let+ ew :=
                    match static_octets w t with
                    | Some e => ROk (WStatic e)
                    | None =>
                        match decl_element_size d id with
                        | Some _ => let+ es := renv st ("esize:" ++ id) in ROk (WDynamic es)
                        | None => ROk WSelf
                        end
                    end in
                  let+ (vs, lft) := read_array dl ew w t region in
                  let sp' := match after with Some tl => tl | None => lft end in
                  ref_dec_fields d rest (add_rval (set_rspan st sp') id (VList vs)) [] 0
              | Typedef id tid =>
                  let+ (v, sp') := read_elem None (Some tid) (r_span st) in
                  ref_dec_fields d rest (add_rval (set_rspan st sp') id v) [] 0
              | Payload _ | Body =>
                  let md := match f_desc f with Payload (Some m) => m | _ => 0 end in
                  let+ (p, sp') :=
                    match decl_payload_size d with
                    | Some g =>
                        let fid := match f_desc g with Size i _ => i | _ => "" end in
                        let+ s := renv st ("size:" ++ fid) in
                        if s <? md then RFault FLength else take (s - md) (r_span st)
                    | None =>
                        match static_bits_after d rest with
                        | Some off =>
                            if negb (off mod 8 =? 0) then RFault FUnsupported else
                            let k := off / 8 in
                            if len (r_span st) <? k then RFault FLength
                            else take (len (r_span st) - k) (r_span st)
                        | None => RFault FUnsupported
                        end
                    end in
                  ref_dec_fields d rest (mkRst sp' (r_env st) (r_vals st) (Some p)) [] 0
              | _ => RFault FUnsupported
              end
        end
    end.
End Fields.

(** ** Static sizes needed by the reference decoder, computed from the declarations
    themselves (not from the analyzer's Schema). *)

Fixpoint ref_static_bits_gen (fuel : nat) (fl : file) (nopayload : bool) (tid : string)
  : option N :=
  let ref_static_bits := fun fuel fl tid => ref_static_bits_gen fuel fl false tid in
  match fuel with
  | O => None
  | S fuel' =>
      let field_bits := fun (d : decl) (f : field) (rest : list field) =>
        match next_is_padding rest with
        | Some p => Some (8 * p)
        | None =>
            match f_cond f with
            | Some _ => None
            | None =>
                match f_desc f with
                | Scalar _ w | Size _ w | Count _ w | ElementSize _ w | FixedScalar w _
                | Reserved w => Some w
                | Flag _ _ => Some 1
                | Padding _ | Checksum _ => Some 0
                | Typedef _ t | FixedEnum t _ => ref_static_bits fuel' fl t
                | Array _ (Some w) _ _ (Some n) => Some (w * n)
                | Array _ None (Some t) _ (Some n) =>
                    option_map (N.mul n) (ref_static_bits fuel' fl t)
                | _ => None
                end
            end
        end in
      let fix sum (d : decl) (fs : list field) : option N :=
        match fs with
        | [] => Some 0
        | f :: rest => match field_bits d f rest, sum d rest with
                       | Some a, Some b => Some (a + b)
                       | _, _ => None
                       end
        end in
      match lookup_decl fl tid with
      | Some (DEnum _ _ w) | Some (DCustomField _ (Some w) _) | Some (DChecksum _ _ w) => Some w
      | Some ((DStruct _ _ _ p | DPacket _ _ _ p) as d) =>
          (* a child replaces its parent's payload: every ancestor contributes its
             fields minus the payload *)
          let fs := if nopayload then filter (fun f => negb (is_payload f)) (decl_fields d)
                    else decl_fields d in
          match sum d fs, p with
          | Some own, None => Some own
          | Some own, Some pid => option_map (N.add own) (ref_static_bits_gen fuel' fl true pid)
          | None, _ => None
          end
      | _ => None
      end
  end.

Definition ref_static_bits (fuel : nat) (fl : file) (tid : string) : option N :=
  ref_static_bits_gen fuel fl false tid.

Definition ref_static_octets (fl : file) (w : option N) (t : option string) : option N :=
  match w, t with
  | Some w', _ => if w' mod 8 =? 0 then Some (w' / 8) else None
  | None, Some tid =>
      match ref_static_bits (S (List.length (f_decls fl))) fl tid with
      | Some b => if b mod 8 =? 0 then Some (b / 8) else None
      | None => None
      end
  | None, None => None
  end.

Definition ref_bits_after (fl : file) (d : decl) (rest : list field) : option N :=
  (fix sum (fs : list field) : option N :=
     match fs with
     | [] => Some 0
     | f :: tl =>
         let here :=
           match next_is_padding tl with
           | Some p => Some (8 * p)
           | None =>
               match f_cond f with
               | Some _ => None
               | None =>
                   match f_desc f with
                   | Scalar _ w | Size _ w | Count _ w | ElementSize _ w | FixedScalar w _
                   | Reserved w => Some w
                   | Flag _ _ => Some 1
                   | Padding _ | Checksum _ => Some 0
                   | Typedef _ t | FixedEnum t _ =>
                       ref_static_bits (S (List.length (f_decls fl))) fl t
                   | Array _ (Some w) _ _ (Some n) => Some (w * n)
                   | Array _ None (Some t) _ (Some n) =>
                       option_map (N.mul n) (ref_static_bits (S (List.length (f_decls fl))) fl t)
                   | _ => None
                   end
               end
           end in
         match here, sum tl with
         | Some a, Some b => Some (a + b)
         | _, _ => None
         end
     end) rest.

Definition rpayload_entry (d : decl) (st : rstate) : list (string * value) :=
  match decl_payload d, r_payload st with
  | Some _, Some p => [("payload", value_of_bytes p)]
  | _, _ => []
  end.

(** Fields fixed by constraints are not part of a child's value. *)
Definition drop_constrained (fl : file) (d : decl) (vals : list (string * value))
  : list (string * value) :=
  let cs := iter_constraints fl d in
  filter (fun kv => match find_constraint cs (fst kv) with Some _ => false | None => true end) vals.

(** Decode declaration [d]: a root directly, a child through its parent (the
    parent's fields, the constraints, then the child's fields inside the payload). *)
Fixpoint ref_dec_decl (fuel : nat) (fl : file) (d : decl) (bs : list byte)
  : rres (list (string * value) * list (string * N) * list byte) :=
  match fuel with
  | O => RFault FFuel
  | S fuel' =>
      let rec := fun (tid : string) (sp : list byte) =>
        match lookup_decl fl tid with
        | Some ((DStruct _ _ _ _) as d') =>
            let+ (vals, _, rest) := ref_dec_decl fuel' fl d' sp in
            ROk (VObj (drop_constrained fl d' vals), rest)
        | _ => RFault FUnsupported
        end in
      let run := fun (sp : list byte) =>
        ref_dec_fields fl rec fuel' (ref_static_octets fl) (ref_bits_after fl)
                       d (decl_fields d) (mkRst sp [] [] None) [] 0 in
      match get_parent fl d with
      | None =>
          let+ st := run bs in
          ROk ((rpayload_entry d st ++ r_vals st)%list, r_env st, r_span st)
      | Some p =>
          let+ (pvals, penv, trailing) := ref_dec_decl fuel' fl p bs in
          (* constraints of [d] on the parent's fields *)
          let+ _ :=
            (fix checks (cs : list constr) : rres unit :=
               match cs with
               | [] => ROk tt
               | c :: cs' =>
                   match assoc (c_id c) penv, constraint_N fl (iter_fields fl p) c with
                   | Some actual, Some expected =>
                       if actual =? expected then checks cs' else RFault FConstraint
                   | _, _ => RFault FUnsupported
                   end
               end) (decl_constraints d) in
          match decl_payload p, assoc "payload" pvals with
          | Some _, Some pv =>
              match bytes_of_value pv with
              | Some buf =>
                  let+ st := run buf in
                  match r_span st with
                  | [] =>
                      let inherited := filter (fun kv => negb (String.eqb (fst kv) "payload")) pvals in
                      ROk ((rpayload_entry d st ++ r_vals st ++ inherited)%list,
                           (r_env st ++ penv)%list, trailing)
                  | _ => RFault FTrailing
                  end
              | None => RFault FUnsupported
              end
          | None, _ =>
              match decl_fields d with
              | [] => ROk (pvals, penv, trailing)
              | _ => RFault FUnsupported
              end
          | _, _ => RFault FUnsupported
          end
      end
  end.

Definition ref_decode (fuel : nat) (fl : file) (id : string) (bs : list byte)
  : rres (value * list byte) :=
  match lookup_decl fl id with
  | Some ((DStruct _ _ _ _ | DPacket _ _ _ _) as d) =>
      let+ (vals, _, rest) := ref_dec_decl fuel fl d bs in
      ROk (VObj (drop_constrained fl d vals), rest)
  | Some (DCustomField _ (Some w) _) =>
      if negb (w mod 8 =? 0) then RFault FUnsupported else
      let+ (b, rest) := take (w / 8) bs in
      ROk (VNum (of_bytes_E (f_endian fl) b), rest)
  | _ => RFault FUnsupported
  end.

Definition ref_decode_full (fuel : nat) (fl : file) (id : string) (bs : list byte) : rres value :=
  let+ (v, rest) := ref_decode fuel fl id bs in
  match rest with [] => ROk v | _ => RFault FTrailing end.
