(** Extraction of the oracle. Only [ExtrOcamlBasic] is used: its [Extract Inductive]
    directives (bool, option, unit, list, prod, sumbool, sumor, comparison) and no
    [Extract Constant]. N, positive, nat, ascii, string, byte stay inductive types. *)
From Coq Require Import extraction.Extraction extraction.ExtrOcamlBasic.
From PDL Require Import Oracle.
Extraction Language OCaml.
Extraction "oracle_ext.ml" Oracle.load_file Oracle.run_case Oracle.parse_line.
