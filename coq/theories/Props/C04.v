(** C04 -- the decoder accepts exactly the reference language.  Proved for all inputs:
    (1) whatever the decoder returns as remainder is a suffix of the input, so
    "no bytes may be left over" is decided by decode_full exactly as the trait
    prescribes; (2) decode_full = decode with empty remainder, TrailingBytesError
    otherwise; (3) bytes in either order convert back to the integer they encode
    (the decoder's get_uint against the reference's group integer).  Acceptance,
    field values, canonical re-encoding and error variants of whole declarations are
    compared with the reference decoder on every run: `_partial`. *)
From Coq Require Import NArith List String Bool.
From Coq Require Import Strings.Byte.
From PDL Require Import Base.Bits Base.Outcome Lang.Ast Lang.Sexp Analyzer.Schema Rust.Decode Rust.Runtime
     Sem.RefEncode Analyzer.Passes Proofs.DecodeSuffix Proofs.DecodeSafe Proofs.DecodeConsumes Proofs.RuntimeLaws
     Proofs.BitfieldEncode Proofs.RoundTrip Proofs.SchemaEnums Proofs.RoundTripReal.
Import ListNotations.
Open Scope N_scope.

Theorem C04_decode_full_accepts_iff_nothing_left_partial :
  forall fuel oc fl sch id (b : list byte) (v : value),
    decode_full value (rust_decode fuel oc fl sch id) b = Ok v <->
    rust_decode fuel oc fl sch id b = Ok (v, []).
Proof. intros. apply decode_full_ok_iff. Qed.
Print Assumptions C04_decode_full_accepts_iff_nothing_left_partial.

Theorem C04_leftover_bytes_are_trailing_bytes_error_partial :
  forall fuel oc fl sch id (b : list byte) (v : value) r,
    rust_decode fuel oc fl sch id b = Ok (v, r) -> r <> [] ->
    decode_full value (rust_decode fuel oc fl sch id) b = Err TrailingBytesError.
Proof. intros. eapply decode_full_trailing; eassumption. Qed.
Print Assumptions C04_leftover_bytes_are_trailing_bytes_error_partial.

Theorem C04_bytes_denote_their_integer_partial :
  forall bs : list byte, le_bytes (List.length bs) (of_le bs) = bs.
Proof. exact le_bytes_of_le. Qed.
Print Assumptions C04_bytes_denote_their_integer_partial.

(** A root declaration made of bit-fields only, whose widths (as the SCHEMA gives them)
    add up to a whole number of octets: when the emitted decoder succeeds, it has consumed
    EXACTLY that many octets -- the remainder is the input minus total / 8 octets.  So
    decode_full accepts only inputs of exactly the declaration's size, and a decoder that
    succeeds never eats into what follows. *)
Theorem C04_bitfield_declarations_consume_exactly_their_size :
  forall (fuel : nat) (oc : bool) (fl : file) (sch : schema) (d : decl) (bs : list byte)
         (v : value) (rest : list byte) (total : N),
    bits_root fl d ->
    wsum sch d (decl_fields d) = Some total ->
    total mod 8 = 0 ->
    rust_dec_decl (S fuel) oc fl sch d bs = Ok (v, rest) ->
    len bs = len rest + total / 8.
Proof. exact rust_dec_decl_bits_consumes. Qed.
Print Assumptions C04_bitfield_declarations_consume_exactly_their_size.

(** The decoder ACCEPTS every reference encoding of a root declaration of the bit-field
    fragment and yields exactly the reference's field values, leaving exactly the bytes
    that follow: with the schema the analyzer computes and enums the analyzer accepts, for
    every value, byte order, overflow mode, fuel and trailing bytes [tl] (or pdlc refused
    the declaration: a group wider than 64 bits).  Fixed fields are matched, reserved bits
    skipped, enum values checked -- the "reference accepts => decoder accepts, same
    values" half of the property on that fragment. *)
Theorem C04_decoder_accepts_reference_encodings_of_bitfield_declarations :
  forall (fuel : nat) (oc : bool) (fl : file) (sch : schema)
         (refrec : string -> value -> option (list seg)) (d : decl) (all_fields : list field)
         (o : list (string * value)) (payload ss : list seg) (tl : list byte),
    enum_widths_fit fl = true -> mk_schema fl = Some sch ->
    enums_accepted fl ->
    get_parent fl d = None ->
    forallb (bf_field fl) (decl_fields d) = true ->
    ref_enc_fields fl refrec d all_fields [] o payload (decl_fields d) 0 0 = Some ss ->
    match rust_dec_decl (S fuel) oc fl sch d (render (f_endian fl) ss ++ tl) with
    | Ok r => r = (VObj (vals_of o (decl_fields d)), tl)
    | Panic GenAssert => True
    | _ => False
    end.
Proof. exact rust_decode_accepts_reference_real_schema. Qed.
Print Assumptions C04_decoder_accepts_reference_encodings_of_bitfield_declarations.
