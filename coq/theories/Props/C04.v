(** C04 -- the decoder accepts exactly the reference language.  Proved for all inputs:
    (1) whatever the decoder returns as remainder is a suffix of the input, so
    "no bytes may be left over" is decided by decode_full exactly as the trait
    prescribes; (2) decode_full = decode with empty remainder, TrailingBytesError
    otherwise; (3) bytes in either order convert back to the integer they encode
    (the decoder's get_uint against the reference's group integer).  Acceptance,
    field values, canonical re-encoding and error variants of whole declarations are
    compared with the reference decoder on every run: `_partial`. *)
From Coq Require Import NArith List String Bool.
From Coq Require Import Strings.Byte.
From PDL Require Import Base.Bits Base.Outcome Lang.Ast Lang.Sexp Analyzer.Schema Rust.Decode Rust.Runtime
     Proofs.DecodeSuffix Proofs.RuntimeLaws.
Import ListNotations.
Open Scope N_scope.

Theorem C04_decode_full_accepts_iff_nothing_left_partial :
  forall fuel oc fl sch id (b : list byte) (v : value),
    decode_full value (rust_decode fuel oc fl sch id) b = Ok v <->
    rust_decode fuel oc fl sch id b = Ok (v, []).
Proof. intros. apply decode_full_ok_iff. Qed.
Print Assumptions C04_decode_full_accepts_iff_nothing_left_partial.

Theorem C04_leftover_bytes_are_trailing_bytes_error_partial :
  forall fuel oc fl sch id (b : list byte) (v : value) r,
    rust_decode fuel oc fl sch id b = Ok (v, r) -> r <> [] ->
    decode_full value (rust_decode fuel oc fl sch id) b = Err TrailingBytesError.
Proof. intros. eapply decode_full_trailing; eassumption. Qed.
Print Assumptions C04_leftover_bytes_are_trailing_bytes_error_partial.

Theorem C04_bytes_denote_their_integer_partial :
  forall bs : list byte, le_bytes (List.length bs) (of_le bs) = bs.
Proof. exact le_bytes_of_le. Qed.
Print Assumptions C04_bytes_denote_their_integer_partial.
