(** C04 -- the decoder accepts exactly the reference language.  Proved for all inputs:
    (1) whatever the decoder returns as remainder is a suffix of the input, so
    "no bytes may be left over" is decided by decode_full exactly as the trait
    prescribes; (2) decode_full = decode with empty remainder, TrailingBytesError
    otherwise; (3) bytes in either order convert back to the integer they encode
    (the decoder's get_uint against the reference's group integer).  Acceptance,
    field values, canonical re-encoding and error variants of whole declarations are
    compared with the reference decoder on every run: `_partial`. *)
From Coq Require Import NArith List String Bool.
From Coq Require Import Strings.Byte.
From PDL Require Import Base.Bits Base.Outcome Lang.Ast Lang.Sexp Analyzer.Schema Rust.Decode Rust.Runtime
     Sem.RefEncode Proofs.DecodeSuffix Proofs.DecodeSafe Proofs.DecodeConsumes Proofs.RuntimeLaws.
Import ListNotations.
Open Scope N_scope.

Theorem C04_decode_full_accepts_iff_nothing_left_partial :
  forall fuel oc fl sch id (b : list byte) (v : value),
    decode_full value (rust_decode fuel oc fl sch id) b = Ok v <->
    rust_decode fuel oc fl sch id b = Ok (v, []).
Proof. intros. apply decode_full_ok_iff. Qed.
Print Assumptions C04_decode_full_accepts_iff_nothing_left_partial.

Theorem C04_leftover_bytes_are_trailing_bytes_error_partial :
  forall fuel oc fl sch id (b : list byte) (v : value) r,
    rust_decode fuel oc fl sch id b = Ok (v, r) -> r <> [] ->
    decode_full value (rust_decode fuel oc fl sch id) b = Err TrailingBytesError.
Proof. intros. eapply decode_full_trailing; eassumption. Qed.
Print Assumptions C04_leftover_bytes_are_trailing_bytes_error_partial.

Theorem C04_bytes_denote_their_integer_partial :
  forall bs : list byte, le_bytes (List.length bs) (of_le bs) = bs.
Proof. exact le_bytes_of_le. Qed.
Print Assumptions C04_bytes_denote_their_integer_partial.

(** A root declaration made of bit-fields only, whose widths (as the SCHEMA gives them)
    add up to a whole number of octets: when the emitted decoder succeeds, it has consumed
    EXACTLY that many octets -- the remainder is the input minus total / 8 octets.  So
    decode_full accepts only inputs of exactly the declaration's size, and a decoder that
    succeeds never eats into what follows. *)
Theorem C04_bitfield_declarations_consume_exactly_their_size :
  forall (fuel : nat) (oc : bool) (fl : file) (sch : schema) (d : decl) (bs : list byte)
         (v : value) (rest : list byte) (total : N),
    bits_root fl d ->
    wsum sch d (decl_fields d) = Some total ->
    total mod 8 = 0 ->
    rust_dec_decl (S fuel) oc fl sch d bs = Ok (v, rest) ->
    len bs = len rest + total / 8.
Proof. exact rust_dec_decl_bits_consumes. Qed.
Print Assumptions C04_bitfield_declarations_consume_exactly_their_size.
