(** C04 -- the decoder accepts exactly the reference language.  Proved for all inputs:
    (1) whatever the decoder returns as remainder is a suffix of the input, so
    "no bytes may be left over" is decided by decode_full exactly as the trait
    prescribes; (2) decode_full = decode with empty remainder, TrailingBytesError
    otherwise; (3) bytes in either order convert back to the integer they encode
    (the decoder's get_uint against the reference's group integer).  Acceptance,
    field values, canonical re-encoding and error variants of whole declarations are
    compared with the reference decoder on every run: `_partial`. *)
From Coq Require Import NArith List String Bool.
From Coq Require Import Strings.Byte.
From PDL Require Import Base.Bits Base.Outcome Lang.Ast Lang.Sexp Analyzer.Schema Rust.Decode Rust.Runtime
     Sem.RefEncode Analyzer.Passes Proofs.DecodeSuffix Proofs.DecodeSafe Proofs.DecodeConsumes Proofs.RuntimeLaws
     Proofs.BitfieldEncode Proofs.StaticSize Proofs.RoundTrip Proofs.SchemaEnums Proofs.RoundTripReal
     Proofs.DecodeConverse.
Import ListNotations.
Open Scope N_scope.

Theorem C04_decode_full_accepts_iff_nothing_left_partial :
  forall fuel oc fl sch id (b : list byte) (v : value),
    decode_full value (rust_decode fuel oc fl sch id) b = Ok v <->
    rust_decode fuel oc fl sch id b = Ok (v, []).
Proof. intros. apply decode_full_ok_iff. Qed.
Print Assumptions C04_decode_full_accepts_iff_nothing_left_partial.

Theorem C04_leftover_bytes_are_trailing_bytes_error_partial :
  forall fuel oc fl sch id (b : list byte) (v : value) r,
    rust_decode fuel oc fl sch id b = Ok (v, r) -> r <> [] ->
    decode_full value (rust_decode fuel oc fl sch id) b = Err TrailingBytesError.
Proof. intros. eapply decode_full_trailing; eassumption. Qed.
Print Assumptions C04_leftover_bytes_are_trailing_bytes_error_partial.

Theorem C04_bytes_denote_their_integer_partial :
  forall bs : list byte, le_bytes (List.length bs) (of_le bs) = bs.
Proof. exact le_bytes_of_le. Qed.
Print Assumptions C04_bytes_denote_their_integer_partial.

(** A root declaration made of bit-fields only, whose widths (as the SCHEMA gives them)
    add up to a whole number of octets: when the emitted decoder succeeds, it has consumed
    EXACTLY that many octets -- the remainder is the input minus total / 8 octets.  So
    decode_full accepts only inputs of exactly the declaration's size, and a decoder that
    succeeds never eats into what follows. *)
Theorem C04_bitfield_declarations_consume_exactly_their_size :
  forall (fuel : nat) (oc : bool) (fl : file) (sch : schema) (d : decl) (bs : list byte)
         (v : value) (rest : list byte) (total : N),
    bits_root fl d ->
    wsum sch d (decl_fields d) = Some total ->
    total mod 8 = 0 ->
    rust_dec_decl (S fuel) oc fl sch d bs = Ok (v, rest) ->
    len bs = len rest + total / 8.
Proof. exact rust_dec_decl_bits_consumes. Qed.
Print Assumptions C04_bitfield_declarations_consume_exactly_their_size.

(** The decoder ACCEPTS every reference encoding of a root declaration of the bit-field
    fragment and yields exactly the reference's field values, leaving exactly the bytes
    that follow: with the schema the analyzer computes and enums the analyzer accepts, for
    every value, byte order, overflow mode, fuel and trailing bytes [tl] (or pdlc refused
    the declaration: a group wider than 64 bits).  Fixed fields are matched, reserved bits
    skipped, enum values checked -- the "reference accepts => decoder accepts, same
    values" half of the property on that fragment. *)
Theorem C04_decoder_accepts_reference_encodings_of_bitfield_declarations :
  forall (fuel : nat) (oc : bool) (fl : file) (sch : schema)
         (refrec : string -> value -> option (list seg)) (d : decl) (all_fields : list field)
         (o : list (string * value)) (payload ss : list seg) (tl : list byte),
    enum_widths_fit fl = true -> mk_schema fl = Some sch ->
    enums_accepted fl ->
    get_parent fl d = None ->
    forallb (bf_field fl) (decl_fields d) = true ->
    ref_enc_fields fl refrec d all_fields [] o payload (decl_fields d) 0 0 = Some ss ->
    match rust_dec_decl (S fuel) oc fl sch d (render (f_endian fl) ss ++ tl) with
    | Ok r => r = (VObj (vals_of o (decl_fields d)), tl)
    | Panic GenAssert => True
    | _ => False
    end.
Proof. exact rust_decode_accepts_reference_real_schema. Qed.
Print Assumptions C04_decoder_accepts_reference_encodings_of_bitfield_declarations.

(** THE CONVERSE (Proofs/DecodeConverse.v): the decoder accepts ONLY reference encodings.
    For a root declaration of the bit-field fragment whose widths fill whole octets (what
    check_decl_sizes establishes) with distinct field names (check_field_identifiers): when
    the emitted decoder succeeds on [bs], the value it returns is a value of the type, the
    reference HAS an encoding [ss] for it, that encoding and the remainder have the length of
    the input, they ARE the input when the declaration has no reserved bits, and in every
    case decoding the canonical re-encoding followed by any bytes gives the same value
    (re-encoding clears the reserved bits and is a fixpoint). *)
Theorem C04_decoder_accepts_only_reference_encodings_of_bitfield_declarations :
  forall (fuel fuel' : nat) (oc oc' : bool) (fl : file) (sch : schema)
         (refrec : string -> value -> option (list seg)) (all_fields : list field)
         (payload : list seg) (d : decl) (bs : list byte) (o : list (string * value)) (rest : list byte),
    enum_widths_fit fl = true -> mk_schema fl = Some sch -> enums_accepted fl ->
    get_parent fl d = None ->
    forallb (bf_field fl) (decl_fields d) = true ->
    frag_bits fl (decl_fields d) mod 8 = 0 ->
    NoDup (data_ids (decl_fields d)) ->
    rust_dec_decl (S fuel) oc fl sch d bs = Ok (VObj o, rest) ->
    canonical_obj o (decl_fields d) /\
    exists ss,
      ref_enc_fields fl refrec d all_fields [] o payload (decl_fields d) 0 0 = Some ss /\
      len (render (f_endian fl) ss) + len rest = len bs /\
      (forallb nonres (decl_fields d) = true -> (render (f_endian fl) ss ++ rest)%list = bs) /\
      (forall tl, gooddec (rust_dec_decl (S fuel') oc' fl sch d (render (f_endian fl) ss ++ tl))
                          (fun r => r = (VObj o, tl))).
Proof. exact rust_decode_accepts_only_reference_real_schema. Qed.
Print Assumptions C04_decoder_accepts_only_reference_encodings_of_bitfield_declarations.

(** ACCEPTS IFF THE REFERENCE ACCEPTS, for such declarations without reserved bits: the
    decoder returns (o, rest) on bs exactly when o is a value of the type whose reference
    encoding followed by rest is bs. *)
Theorem C04_bitfield_declarations_accept_iff_reference :
  forall (fuel : nat) (oc : bool) (fl : file) (sch : schema)
         (refrec : string -> value -> option (list seg)) (all_fields : list field)
         (payload : list seg) (d : decl) (bs : list byte) (o : list (string * value)) (rest : list byte),
    enum_widths_fit fl = true -> mk_schema fl = Some sch -> enums_accepted fl ->
    get_parent fl d = None ->
    forallb (bf_field fl) (decl_fields d) = true ->
    frag_bits fl (decl_fields d) mod 8 = 0 ->
    NoDup (data_ids (decl_fields d)) ->
    forallb nonres (decl_fields d) = true ->
    rust_dec_decl (S fuel) oc fl sch d bs <> Panic GenAssert ->
    (rust_dec_decl (S fuel) oc fl sch d bs = Ok (VObj o, rest)
     <-> canonical_obj o (decl_fields d)
         /\ exists ss, ref_enc_fields fl refrec d all_fields [] o payload (decl_fields d) 0 0 = Some ss
                       /\ bs = (render (f_endian fl) ss ++ rest)%list).
Proof. exact rust_dec_decl_accepts_iff_reference. Qed.
Print Assumptions C04_bitfield_declarations_accept_iff_reference.
