(** C06 -- inheritance is coherent.  Proved for all inputs on the model of the emitted
    conversions (Rust/Inherit.v): Child::try_from(parent) fails with
    ConstraintValueError when one of the child's own constraints is violated by the
    parent's field values, and cannot fail that way when none is.  specialize(), the
    child -> parent direction and multi-level chains are compared with the model and
    checked for self-consistency (same bytes, converts back) on every run: `_partial`. *)
From Coq Require Import NArith List String Bool.
From Coq Require Import Strings.Byte.
From PDL Require Import Base.Bits Base.Outcome Lang.Ast Lang.Sexp Analyzer.Schema Rust.Decode Rust.Inherit
     Proofs.InheritLaws.
Import ListNotations.

Theorem C06_try_from_fails_iff_constraint_violated_partial :
  forall fuel oc fl sch d p pobj,
    Forall (resolvable fl (iter_fields fl p) (iter_constraints fl p) pobj) (decl_constraints d) ->
    Exists (violated fl (iter_fields fl p) (iter_constraints fl p) pobj) (decl_constraints d) ->
    try_from_parent fuel oc fl sch d p pobj = Err ConstraintValueError.
Proof. exact try_from_parent_constraint_error. Qed.
Print Assumptions C06_try_from_fails_iff_constraint_violated_partial.

Theorem C06_try_from_succeeds_without_violation_partial :
  forall fuel oc fl sch d p pobj,
    Forall (resolvable fl (iter_fields fl p) (iter_constraints fl p) pobj) (decl_constraints d) ->
    ~ Exists (violated fl (iter_fields fl p) (iter_constraints fl p) pobj) (decl_constraints d) ->
    decl_payload p = None ->
    exists v, try_from_parent fuel oc fl sch d p pobj = Ok v.
Proof. exact try_from_parent_no_constraint_error. Qed.
Print Assumptions C06_try_from_succeeds_without_violation_partial.

(** specialize(): whatever child it returns, none of that child's own constraints is
    violated by the parent's field values (it returns what Child::try_from returns). *)
Theorem C06_specialize_never_returns_a_child_with_a_violated_constraint_partial :
  forall fuel oc fl sch d pobj cid v c,
    rust_specialize fuel oc fl sch d pobj = Ok (Some (cid, v)) ->
    lookup_decl fl cid = Some c ->
    Forall (resolvable fl (iter_fields fl d) (iter_constraints fl d) pobj) (decl_constraints c) ->
    ~ Exists (violated fl (iter_fields fl d) (iter_constraints fl d) pobj) (decl_constraints c).
Proof. exact specialize_respects_constraints. Qed.
Print Assumptions C06_specialize_never_returns_a_child_with_a_violated_constraint_partial.
