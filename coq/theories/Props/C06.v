(** C06 -- inheritance is coherent.  Proved for all inputs on the model of the emitted
    conversions (Rust/Inherit.v): Child::try_from(parent) fails with
    ConstraintValueError when one of the child's own constraints is violated by the
    parent's field values, and cannot fail that way when none is.  specialize(), the
    child -> parent direction and multi-level chains are compared with the model and
    checked for self-consistency (same bytes, converts back) on every run: `_partial`. *)
From Coq Require Import NArith List String Bool.
From Coq Require Import Strings.Byte.
From PDL Require Import Base.Bits Base.Outcome Lang.Ast Lang.Sexp Analyzer.Schema Rust.Decode Rust.Inherit
     Sem.RefEncode Rust.Encode Proofs.InheritLaws Proofs.SpecializeLaws Proofs.ToParentLaws.
Import ListNotations.

Theorem C06_try_from_fails_iff_constraint_violated_partial :
  forall fuel oc fl sch d p pobj,
    Forall (resolvable fl (iter_fields fl p) (iter_constraints fl p) pobj) (decl_constraints d) ->
    Exists (violated fl (iter_fields fl p) (iter_constraints fl p) pobj) (decl_constraints d) ->
    try_from_parent fuel oc fl sch d p pobj = Err ConstraintValueError.
Proof. exact try_from_parent_constraint_error. Qed.
Print Assumptions C06_try_from_fails_iff_constraint_violated_partial.

Theorem C06_try_from_succeeds_without_violation_partial :
  forall fuel oc fl sch d p pobj,
    Forall (resolvable fl (iter_fields fl p) (iter_constraints fl p) pobj) (decl_constraints d) ->
    ~ Exists (violated fl (iter_fields fl p) (iter_constraints fl p) pobj) (decl_constraints d) ->
    decl_payload p = None ->
    exists v, try_from_parent fuel oc fl sch d p pobj = Ok v.
Proof. exact try_from_parent_no_constraint_error. Qed.
Print Assumptions C06_try_from_succeeds_without_violation_partial.

(** specialize(): whatever child it returns, none of that child's own constraints is
    violated by the parent's field values (it returns what Child::try_from returns). *)
Theorem C06_specialize_never_returns_a_child_with_a_violated_constraint_partial :
  forall fuel oc fl sch d pobj cid v c,
    rust_specialize fuel oc fl sch d pobj = Ok (Some (cid, v)) ->
    lookup_decl fl cid = Some c ->
    Forall (resolvable fl (iter_fields fl d) (iter_constraints fl d) pobj) (decl_constraints c) ->
    ~ Exists (violated fl (iter_fields fl d) (iter_constraints fl d) pobj) (decl_constraints c).
Proof. exact specialize_respects_constraints. Qed.
Print Assumptions C06_specialize_never_returns_a_child_with_a_violated_constraint_partial.

(** specialize() CHARACTERISED (Proofs/SpecializeLaws.v).  [all_cases] is the list of cases the
    generator gathers: per direct child, one case for every declaration of the child's
    subtree, carrying the constraints on the parent's data fields accumulated along the way
    and the constant size; [case_matches] says the case is kept by the generator, its
    constraints hold of the parent's values and, when sizes are matched, the payload length
    is the case's size. *)

(** None: no gathered case matches the parent. *)
Theorem C06_specialize_none_only_when_no_case_matches :
  forall fuel oc fl sch d pobj,
    rust_specialize fuel oc fl sch d pobj = Ok None ->
    exists cases, all_cases fl sch d = Some cases /\
      forall c, In c cases ->
        ~ case_matches (pval fl d pobj) (with_size_of cases) (obj_payload_len pobj) c.
Proof. exact specialize_none. Qed.
Print Assumptions C06_specialize_none_only_when_no_case_matches.

(** ... and conversely a matching case never yields None (a child, the child decoder's
    error, or a refusal of the generator). *)
Theorem C06_specialize_not_none_when_a_case_matches :
  forall fuel oc fl sch d pobj cases c,
    all_cases fl sch d = Some cases -> In c cases ->
    case_matches (pval fl d pobj) (with_size_of cases) (obj_payload_len pobj) c ->
    rust_specialize fuel oc fl sch d pobj <> Ok None.
Proof. exact specialize_not_none. Qed.
Print Assumptions C06_specialize_not_none_when_a_case_matches.

(** Some child: a case of THAT child's subtree matches (constraints of the child or of a
    descendant), it is the least matching child in name order, and the value is what
    Child::try_from(parent) returns. *)
Theorem C06_specialize_returns_a_matching_child :
  forall fuel oc fl sch d pobj cid v,
    rust_specialize fuel oc fl sch d pobj = Ok (Some (cid, v)) ->
    exists cases, all_cases fl sch d = Some cases /\
      (exists c, In c cases /\ sc_id c = cid /\
                 case_matches (pval fl d pobj) (with_size_of cases) (obj_payload_len pobj) c) /\
      (forall c', In c' cases ->
                  case_matches (pval fl d pobj) (with_size_of cases) (obj_payload_len pobj) c' ->
                  sc_id c' = cid \/ str_ltb cid (sc_id c') = true) /\
      exists cd, lookup_decl fl cid = Some cd /\ try_from_parent fuel oc fl sch cd d pobj = Ok v.
Proof. exact specialize_some. Qed.
Print Assumptions C06_specialize_returns_a_matching_child.

(** EXACTLY WHEN: if the generator accepted the cases, sizes are not needed, all cases
    constrain the same fields and the parent has a value for each of them, then a case whose
    constraints hold determines the result: specialize is that child's TryFrom (the child, or
    its decoder's error). *)
Theorem C06_specialize_exactly_when_constraints_match :
  forall fuel oc fl sch d pobj cases c,
    all_cases fl sch d = Some cases ->
    check_cases (case_ids cases) true cases = true ->
    with_size_of cases = false ->
    (forall c1 c2, In c1 cases -> In c2 cases -> same_keys c1 c2) ->
    (forall id, In id (case_ids cases) -> pval fl d pobj id <> None) ->
    In c cases -> sc_constraints c <> [] -> case_holds (pval fl d pobj) c ->
    rust_specialize fuel oc fl sch d pobj = arm_result fuel oc fl sch d pobj (sc_id c).
Proof. exact specialize_exactly_when. Qed.
Print Assumptions C06_specialize_exactly_when_constraints_match.

(** The full "exactly when" of the property is FALSE of the faithful model for a child that
    constrains no field of its parent (and whose size is not needed to tell children apart):
    the generator drops its case, specialize() answers None although Child::try_from(parent)
    succeeds.  Reproduced on /repo (`packet P { k : 8, _payload_ }  packet C : P { a : 8 }`,
    input 01 05: specialize() = Ok(None), C::try_from = Ok): listed finding F64. *)
Theorem C06_unconstrained_only_child_refuted :
  rust_specialize 10 false Unconstrained.fl Unconstrained.sch Unconstrained.P Unconstrained.pobj = Ok None /\
  exists v, try_from_parent 10 false Unconstrained.fl Unconstrained.sch Unconstrained.C Unconstrained.P Unconstrained.pobj = Ok v.
Proof.
  destruct Unconstrained.unconstrained_child_skipped as [_ [_ [H1 H2]]].
  split; [exact H1 | eexists; exact H2].
Qed.
Print Assumptions C06_unconstrained_only_child_refuted.

(** CHILD -> PARENT (Proofs/ToParentLaws.v): Parent::try_from(child) has the constraint value
    in every constrained data field -- own or inherited constraint -- and copies every other
    data field unchanged; converting back therefore passes all the constraint checks of the
    child.  (A declaration constraining the SAME field twice is the one way to break this:
    [Dup.second_constraint_lost].) *)
Theorem C06_parent_has_the_constraint_values :
  forall fuel fl sch d p obj pobj id c,
    to_parent fuel fl sch d p obj = Ok (VObj pobj) ->
    is_pdata fl p id ->
    find_constraint (iter_constraints fl d) id = Some c ->
    exists x, constraint_N fl (data_fields fl p) c = Some x /\ assoc id pobj = Some (VNum x).
Proof. exact to_parent_constrained_field. Qed.
Print Assumptions C06_parent_has_the_constraint_values.

Theorem C06_parent_copies_the_unconstrained_fields :
  forall fuel fl sch d p obj pobj id,
    to_parent fuel fl sch d p obj = Ok (VObj pobj) ->
    is_pdata fl p id -> find_constraint (iter_constraints fl d) id = None ->
    exists v, assoc id obj = Some v /\ assoc id pobj = Some v.
Proof. exact to_parent_copies_unconstrained. Qed.
Print Assumptions C06_parent_copies_the_unconstrained_fields.

Theorem C06_converting_back_passes_the_constraint_checks :
  forall fuel fl sch d p obj pobj,
    to_parent fuel fl sch d p obj = Ok (VObj pobj) ->
    (forall c, In c (decl_constraints d) -> first_on_field d c) ->
    (forall c, In c (decl_constraints d) -> is_pdata fl p (c_id c)) ->
    ~ Exists (violated fl (iter_fields fl p) (iter_constraints fl p) pobj) (decl_constraints d).
Proof. exact to_parent_not_violated. Qed.
Print Assumptions C06_converting_back_passes_the_constraint_checks.
