(** C01 -- generated Rust parsers are total and memory-safe on arbitrary bytes.
    Proved here for the model of the emitted code (Rust/Decode.v), for EVERY file,
    declaration, byte string, fuel and both overflow modes:
      - on success the remainder is a suffix of the input (consumed ++ rest = input);
      - decode_mut leaves the caller's slice untouched on failure and commits exactly
        decode's remainder on success.
    The no-panic half is C01_no_panic (Proofs/DecodeSafe.v) under the decidable
    side condition that excludes the listed known classes. *)
From Coq Require Import NArith List String Bool.
From Coq Require Import Strings.Byte.
From PDL Require Import Base.Bits Base.Outcome Lang.Ast Lang.Sexp Analyzer.Schema
     Rust.Decode Rust.Runtime Proofs.DecodeSuffix Proofs.RuntimeLaws.
Import ListNotations.

Theorem C01_remainder_is_suffix :
  forall (fuel : nat) (oc : bool) (fl : file) (sch : schema) (id : string)
         (bs : list byte) (v : value) (rest : list byte),
    rust_decode fuel oc fl sch id bs = Ok (v, rest) ->
    exists consumed, bs = (consumed ++ rest)%list.
Proof. exact rust_decode_suffix. Qed.
Print Assumptions C01_remainder_is_suffix.

Theorem C01_decode_mut_untouched_on_failure :
  forall (fuel : nat) (oc : bool) (fl : file) (sch : schema) (id : string) (bs : list byte),
    match rust_decode fuel oc fl sch id bs with
    | Ok (p, r) => decode_mut value (rust_decode fuel oc fl sch id) bs = (Ok p, r)
    | _ => snd (decode_mut value (rust_decode fuel oc fl sch id) bs) = bs
    end.
Proof. intros. apply decode_mut_commit. Qed.
Print Assumptions C01_decode_mut_untouched_on_failure.

Theorem C01_decode_full_returns_when_decode_does :
  forall (fuel : nat) (oc : bool) (fl : file) (sch : schema) (id : string) (bs : list byte),
    returns (rust_decode fuel oc fl sch id bs) ->
    returns (decode_full value (rust_decode fuel oc fl sch id) bs).
Proof. intros fuel oc fl sch id bs H. apply decode_full_total. exact H. Qed.
Print Assumptions C01_decode_full_returns_when_decode_does.
