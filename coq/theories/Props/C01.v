(** C01 -- generated Rust parsers are total and memory-safe on arbitrary bytes.
    Proved here for the model of the emitted code (Rust/Decode.v), for EVERY file,
    declaration, byte string, fuel and both overflow modes:
      - on success the remainder is a suffix of the input (consumed ++ rest = input);
      - decode_mut leaves the caller's slice untouched on failure and commits exactly
        decode's remainder on success.
      - NO RUN-TIME PANIC (Proofs/DecodeSafe.v, Proofs/DecodeSafeArrays.v): for every file of a
        decidable class -- bit-fields, optional fields, struct fields, payload / body,
        padding, inheritance, struct recursion, and arrays of scalar / enum / struct elements
        with a static count, a size field, a count field whose product with the element
        width cannot pass 2^64, or no delimiter, padded or not -- every input, overflow mode
        and fuel, the emitted decoder yields a value, a DecodeError or a refusal of the
        generator: never BufUnderflow, SliceIndex, SplitAt, ArithOverflow, DivZero...
        Outside the class are exactly the constructs where the listed findings F02, F03, F19
        live (arrays under an element-size field, wide count fields, sized custom-field
        typedefs); for them the property is decided by the correspondence check.  For
        declarations made of bit-fields only, non-termination of the model is excluded too. *)
From Coq Require Import NArith List String Bool.
From Coq Require Import Strings.Byte.
From PDL Require Import Base.Bits Base.Outcome Lang.Ast Lang.Sexp Analyzer.Schema
     Rust.Decode Rust.Runtime Proofs.DecodeSuffix Proofs.DecodeSafe Proofs.DecodeSafeArrays Proofs.RuntimeLaws.
Import ListNotations.

Theorem C01_remainder_is_suffix :
  forall (fuel : nat) (oc : bool) (fl : file) (sch : schema) (id : string)
         (bs : list byte) (v : value) (rest : list byte),
    rust_decode fuel oc fl sch id bs = Ok (v, rest) ->
    exists consumed, bs = (consumed ++ rest)%list.
Proof. exact rust_decode_suffix. Qed.
Print Assumptions C01_remainder_is_suffix.

Theorem C01_decode_mut_untouched_on_failure :
  forall (fuel : nat) (oc : bool) (fl : file) (sch : schema) (id : string) (bs : list byte),
    match rust_decode fuel oc fl sch id bs with
    | Ok (p, r) => decode_mut value (rust_decode fuel oc fl sch id) bs = (Ok p, r)
    | _ => snd (decode_mut value (rust_decode fuel oc fl sch id) bs) = bs
    end.
Proof. intros. apply decode_mut_commit. Qed.
Print Assumptions C01_decode_mut_untouched_on_failure.

Theorem C01_decode_full_returns_when_decode_does :
  forall (fuel : nat) (oc : bool) (fl : file) (sch : schema) (id : string) (bs : list byte),
    returns (rust_decode fuel oc fl sch id bs) ->
    returns (decode_full value (rust_decode fuel oc fl sch id) bs).
Proof. intros fuel oc fl sch id bs H. apply decode_full_total. exact H. Qed.
Print Assumptions C01_decode_full_returns_when_decode_does.

Theorem C01_no_runtime_panic_without_arrays_partial :
  forall (fuel : nat) (oc : bool) (fl : file) (sch : schema) (id : string) (bs : list byte),
    simple_file fl sch ->
    no_rt_panic (rust_decode fuel oc fl sch id bs).
Proof. intros. apply rust_decode_simple_nrp. assumption. Qed.
Print Assumptions C01_no_runtime_panic_without_arrays_partial.

Theorem C01_bitfield_declarations_total :
  forall (fuel : nat) (oc : bool) (fl : file) (sch : schema) (id : string) (d : decl) (bs : list byte),
    lookup_decl fl id = Some d ->
    (exists i cs fs p, d = DPacket i cs fs p \/ d = DStruct i cs fs p) ->
    bits_root fl d ->
    runtime_safe (rust_decode (S fuel) oc fl sch id bs).
Proof. exact rust_decode_bits_safe. Qed.
Print Assumptions C01_bitfield_declarations_total.

(** ARRAYS (Proofs/DecodeSafeArrays.v).  [arrays_fileb oc fl sch] is a decidable predicate
    on the file: every declaration may use everything the previous theorem allows PLUS
    arrays of scalar, enum and struct elements of static or unknown width, with a static
    count, a `_size_` field, a `_count_` field or no delimiter, with and without padding --
    provided that for a `_count_` field the largest value its backing integer can carry,
    times the element width, stays below 2^64 (or, in the release profile, the elements are
    decoded through T::decode).  For every such file, every input, fuel and the given
    overflow mode the emitted decoder never panics at run time.  Excluded: arrays under an
    `_elementsize_` field (F02: the value 0 reaches chunks(0) / `% 0`), count fields whose
    product with the element width can pass 2^64 (F03), arrays of zero-width elements.
    The element reads inside the loops are NOT individually guarded by the emitted code;
    the proof carries "remaining length >= remaining count x element width" through the
    loop, which is why the product bound is needed. *)
Theorem C01_no_runtime_panic_with_arrays_partial :
  forall (fuel : nat) (oc : bool) (fl : file) (sch : schema) (id : string) (bs : list byte),
    arrays_fileb oc fl sch = true ->
    no_rt_panic (rust_decode fuel oc fl sch id bs).
Proof. intros. apply rust_decode_arrays_nrp. apply arrays_fileb_sound. assumption. Qed.
Print Assumptions C01_no_runtime_panic_with_arrays_partial.

(** the class of the previous theorem is included *)
Theorem C01_simple_files_are_array_safe_files :
  forall (oc : bool) (fl : file) (sch : schema), simple_file fl sch -> arrays_file oc fl sch.
Proof. exact simple_file_arrays. Qed.
Print Assumptions C01_simple_files_are_array_safe_files.

(** the excluded class is excluded for a reason -- listed finding F03 as a theorem about the
    model: `packet P { _count_(a):64, a:64[] }` on 00 00 00 00 00 00 00 20 panics with an
    arithmetic overflow under overflow checks and runs off the buffer without them *)
Theorem C01_count_times_width_refuted :
  match mk_schema wit_count with
  | Some sch =>
      arrays_fileb true wit_count sch = false /\ arrays_fileb false wit_count sch = false /\
      rust_decode 10 true wit_count sch "P" [x00; x00; x00; x00; x00; x00; x00; x20] = Outcome.Panic Outcome.ArithOverflow /\
      rust_decode 10 false wit_count sch "P" [x00; x00; x00; x00; x00; x00; x00; x20] = Outcome.Panic Outcome.BufUnderflow
  | None => False
  end.
Proof. exact count_times_width_refuted. Qed.
Print Assumptions C01_count_times_width_refuted.

(** non-vacuity of the array theorem: a file with a static-count array, size- and
    count-delimited arrays, struct and enum elements and a padded array satisfies it *)
Example C01_array_hypothesis_is_satisfiable :
  match mk_schema ex_file with
  | Some sch => arrays_file true ex_file sch /\ arrays_file false ex_file sch
  | None => False
  end.
Proof. exact arrays_hypothesis_is_satisfiable. Qed.

(** non-vacuity: a file with optional fields, a struct field, a sized payload and a
    child satisfies the hypothesis (decided by computation) *)
Example C01_hypothesis_is_satisfiable :
  let e := DEnum "E" [TagValue "A" 1; TagValue "B" 2] 8 in
  let s := DStruct "S" [] [mkField (Scalar "x" 16) None] None in
  let p := DPacket "P" [] [mkField (Scalar "c" 1) None; mkField (Reserved 7) None;
                           mkField (Typedef "k" "E") None;
                           mkField (Scalar "o" 24) (Some (mkConstr "c" (Some 1) None));
                           mkField (Typedef "s" "S") None;
                           mkField (Size "_payload_" 8) None; mkField (Payload None) None] None in
  let c := DPacket "C" [mkConstr "k" None (Some "A")] [mkField (Scalar "z" 8) None] (Some "P") in
  let fl := mkFile LittleEndian [e; s; p; c] in
  match mk_schema fl with
  | Some sch => simple_file fl sch
  | None => False
  end.
Proof.
  cbv zeta.
  match goal with |- match ?m with _ => _ end => destruct m as [sch|] eqn:Es end.
  - apply simple_fileb_sound.
    match type of Es with ?m = _ => let v := eval vm_compute in m in change m with v in Es end.
    inversion Es. vm_compute. reflexivity.
  - vm_compute in Es. discriminate.
Qed.
