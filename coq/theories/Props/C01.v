(** C01 -- generated Rust parsers are total and memory-safe on arbitrary bytes.
    Proved here for the model of the emitted code (Rust/Decode.v), for EVERY file,
    declaration, byte string, fuel and both overflow modes:
      - on success the remainder is a suffix of the input (consumed ++ rest = input);
      - decode_mut leaves the caller's slice untouched on failure and commits exactly
        decode's remainder on success.
      - NO RUN-TIME PANIC (Proofs/DecodeSafe.v): for every file whose declarations use
        anything but arrays and typedef fields of a sized custom-field type (bit-fields,
        optional fields, struct fields, payload / body, padding, inheritance, struct
        recursion), every input, overflow mode and fuel, the emitted decoder yields a
        value, a DecodeError or a refusal of the generator -- never BufUnderflow,
        SliceIndex, SplitAt, ArithOverflow, DivZero...  The two excluded constructs are
        exactly where the listed findings F02, F03, F19 live; for arrays the property is
        decided by the correspondence check.  For declarations made of bit-fields only,
        non-termination of the model is excluded as well. *)
From Coq Require Import NArith List String Bool.
From Coq Require Import Strings.Byte.
From PDL Require Import Base.Bits Base.Outcome Lang.Ast Lang.Sexp Analyzer.Schema
     Rust.Decode Rust.Runtime Proofs.DecodeSuffix Proofs.DecodeSafe Proofs.RuntimeLaws.
Import ListNotations.

Theorem C01_remainder_is_suffix :
  forall (fuel : nat) (oc : bool) (fl : file) (sch : schema) (id : string)
         (bs : list byte) (v : value) (rest : list byte),
    rust_decode fuel oc fl sch id bs = Ok (v, rest) ->
    exists consumed, bs = (consumed ++ rest)%list.
Proof. exact rust_decode_suffix. Qed.
Print Assumptions C01_remainder_is_suffix.

Theorem C01_decode_mut_untouched_on_failure :
  forall (fuel : nat) (oc : bool) (fl : file) (sch : schema) (id : string) (bs : list byte),
    match rust_decode fuel oc fl sch id bs with
    | Ok (p, r) => decode_mut value (rust_decode fuel oc fl sch id) bs = (Ok p, r)
    | _ => snd (decode_mut value (rust_decode fuel oc fl sch id) bs) = bs
    end.
Proof. intros. apply decode_mut_commit. Qed.
Print Assumptions C01_decode_mut_untouched_on_failure.

Theorem C01_decode_full_returns_when_decode_does :
  forall (fuel : nat) (oc : bool) (fl : file) (sch : schema) (id : string) (bs : list byte),
    returns (rust_decode fuel oc fl sch id bs) ->
    returns (decode_full value (rust_decode fuel oc fl sch id) bs).
Proof. intros fuel oc fl sch id bs H. apply decode_full_total. exact H. Qed.
Print Assumptions C01_decode_full_returns_when_decode_does.

Theorem C01_no_runtime_panic_without_arrays_partial :
  forall (fuel : nat) (oc : bool) (fl : file) (sch : schema) (id : string) (bs : list byte),
    simple_file fl sch ->
    no_rt_panic (rust_decode fuel oc fl sch id bs).
Proof. intros. apply rust_decode_simple_nrp. assumption. Qed.
Print Assumptions C01_no_runtime_panic_without_arrays_partial.

Theorem C01_bitfield_declarations_total :
  forall (fuel : nat) (oc : bool) (fl : file) (sch : schema) (id : string) (d : decl) (bs : list byte),
    lookup_decl fl id = Some d ->
    (exists i cs fs p, d = DPacket i cs fs p \/ d = DStruct i cs fs p) ->
    bits_root fl d ->
    runtime_safe (rust_decode (S fuel) oc fl sch id bs).
Proof. exact rust_decode_bits_safe. Qed.
Print Assumptions C01_bitfield_declarations_total.

(** non-vacuity: a file with optional fields, a struct field, a sized payload and a
    child satisfies the hypothesis (decided by computation) *)
Example C01_hypothesis_is_satisfiable :
  let e := DEnum "E" [TagValue "A" 1; TagValue "B" 2] 8 in
  let s := DStruct "S" [] [mkField (Scalar "x" 16) None] None in
  let p := DPacket "P" [] [mkField (Scalar "c" 1) None; mkField (Reserved 7) None;
                           mkField (Typedef "k" "E") None;
                           mkField (Scalar "o" 24) (Some (mkConstr "c" (Some 1) None));
                           mkField (Typedef "s" "S") None;
                           mkField (Size "_payload_" 8) None; mkField (Payload None) None] None in
  let c := DPacket "C" [mkConstr "k" None (Some "A")] [mkField (Scalar "z" 8) None] (Some "P") in
  let fl := mkFile LittleEndian [e; s; p; c] in
  match mk_schema fl with
  | Some sch => simple_file fl sch
  | None => False
  end.
Proof.
  cbv zeta.
  match goal with |- match ?m with _ => _ end => destruct m as [sch|] eqn:Es end.
  - apply simple_fileb_sound.
    match type of Es with ?m = _ => let v := eval vm_compute in m in change m with v in Es end.
    inversion Es. vm_compute. reflexivity.
  - vm_compute in Es. discriminate.
Qed.
