(** C19 -- Java backend.  Proved: ByteAligner (backends/common/alignment.rs) computes
    the reference grouping for every list of positive widths whose groups stay within
    64 bits, and panics on no such list; unsigned extraction `(x >>> s) & mask` over a
    two's-complement long is the reference field extraction for every shift and width
    up to 64 (the 63/64-bit cases included).  Conformance of the generated classes is
    decided per run against the reference (correspondence): `_partial`. *)
From Coq Require Import NArith ZArith List Bool Lia ZifyN ZifyBool.
From PDL Require Import Base.Bits Backends.Chunkers.
Import ListNotations.
Open Scope N_scope.

Theorem C19_aligner_is_reference_partial :
  forall ws cur off,
    Forall (fun w => 0 < w) ws ->
    groups_within 64 ws off = true ->
    java_aligner ws cur off = Some (ref_groups ws cur off).
Proof. exact java_aligner_is_reference. Qed.
Print Assumptions C19_aligner_is_reference_partial.

(** A Java long holding the unsigned chunk value [u] is the signed integer
    [u] or [u - 2^64]; [>>>] and [&] act on its 64-bit pattern, i.e. on [u]. *)
Definition java_ushr_and (u s w : N) : N := N.land (N.shiftr (u mod 2 ^ 64) s) (N.ones w).

Theorem C19_unsigned_extraction_partial :
  forall u s w, u < 2 ^ 64 -> java_ushr_and u s w = extract s w u.
Proof.
  intros u s w Hu. unfold java_ushr_and, extract.
  rewrite (N.mod_small u) by exact Hu.
  rewrite N.shiftr_div_pow2, N.land_ones. reflexivity.
Qed.
Print Assumptions C19_unsigned_extraction_partial.
