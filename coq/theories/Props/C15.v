(** C15 -- enum conversions are exact over the entire value space (Rust part).
    For every enum declaration the analyzer can accept (no tag value inside an earlier
    range, all values within the width), every width up to 64 and EVERY integer x of
    the backing type: the emitted [TryFrom] returns exactly the reference reading --
    the named tag when one has value x, else the enclosing range, else the default
    variant when the enum is open, carrying x -- and [Err x] otherwise, in particular
    for every x at or above 2^w. Converting back yields x. *)
From Coq Require Import NArith List String Bool.
From PDL Require Import Base.Bits Lang.Ast Lang.Sexp Analyzer.Passes Rust.Enum Proofs.EnumExact
     Proofs.AnalyzerEnum.
Import ListNotations.
Open Scope N_scope.

Theorem C15_rust_try_from_exact :
  forall (tags : list tag) (w bw : N) (c : bool) (x : N),
    wf_tagsb tags = true ->
    tags_bounded (scalar_max w) tags = true ->
    integer_width w = Some bw ->
    enum_is_complete tags (scalar_max w) = Some c ->
    x < 2 ^ bw ->
    rust_enum_try_from tags w x =
    Some (match spec_enum_of_N tags w x with Some e => TOk e | None => TErr x end).
Proof. exact rust_try_from_exact. Qed.
Print Assumptions C15_rust_try_from_exact.

Theorem C15_rust_back_conversion :
  forall (tags : list tag) (w bw : N) (c : bool) (x : N) (e : evariant),
    wf_tagsb tags = true -> tags_bounded (scalar_max w) tags = true ->
    integer_width w = Some bw -> enum_is_complete tags (scalar_max w) = Some c -> x < 2 ^ bw ->
    rust_enum_try_from tags w x = Some (TOk e) -> evariant_to_N e = x.
Proof. exact rust_try_from_back. Qed.
Print Assumptions C15_rust_back_conversion.

(** The same for every enum declaration on which the ANALYZER'S OWN check
    ([check_enum_declaration], the model of analyzer.rs 807-1037, tied to /repo by C08's
    correspondence) reports nothing: the side conditions on the tags are what that check
    establishes (Proofs/AnalyzerEnum.v), so nothing is assumed about the tags any more.
    The two remaining hypotheses say that the generator is defined on the enum (width
    at most 64, at least one value or range tag). *)
Theorem C15_accepted_enums_convert_exactly :
  forall (id : string) (tags : list tag) (w bw : N) (c : bool) (x : N),
    check_enum_declaration (DEnum id tags w) = [] ->
    integer_width w = Some bw ->
    enum_is_complete tags (scalar_max w) = Some c ->
    x < 2 ^ bw ->
    rust_enum_try_from tags w x =
    Some (match spec_enum_of_N tags w x with Some e => TOk e | None => TErr x end).
Proof.
  intros id tags w bw c x Hacc Hw Hc Hx.
  destruct (accepted_enum_is_wellformed id tags w Hacc) as [Hwf Hb].
  exact (rust_try_from_exact tags w bw c x Hwf Hb Hw Hc Hx).
Qed.
Print Assumptions C15_accepted_enums_convert_exactly.

(** what the reference reading says, spelled out: success iff declared value, inside a
    range, or open; integers at or above 2^w are rejected *)
Theorem C15_spec_reject_wide :
  forall tags w x, 2 ^ w <= x -> spec_enum_of_N tags w x = None.
Proof.
  intros tags w x H. unfold spec_enum_of_N.
  destruct (2 ^ w <=? x) eqn:E; [reflexivity|].
  apply N.leb_gt in E. exfalso. apply (N.lt_irrefl x). eapply N.lt_le_trans; eassumption.
Qed.
Print Assumptions C15_spec_reject_wide.

(** Non-vacuity: the hypotheses hold for the reference manual's CoffeeAddition-like enum,
    and the theorem's conclusion computes to the expected variants. *)
Definition coffee : list tag :=
  [TagValue "Empty" 0;
   TagRange "NonAlcoholic" 1 9 [("Cream", 1); ("Vanilla", 2); ("Chocolate", 3)];
   TagRange "Alcoholic" 10 19 [("Whisky", 10); ("Rum", 11)];
   TagRange "Custom" 20 29 [];
   TagOther "Other"].

Example C15_hypotheses_hold :
  wf_tagsb coffee = true /\ tags_bounded (scalar_max 5) coffee = true
  /\ integer_width 5 = Some 8 /\ enum_is_complete coffee (scalar_max 5) = Some false
  /\ check_enum_declaration (DEnum "CoffeeAddition" coffee 5) = [].
Proof. repeat split. Qed.

Example C15_values :
  rust_enum_try_from coffee 5 2 = Some (TOk (ENamed "Vanilla" 2))
  /\ rust_enum_try_from coffee 5 7 = Some (TOk (ERange "NonAlcoholic" 7))
  /\ rust_enum_try_from coffee 5 31 = Some (TOk (EOther "Other" 31))
  /\ rust_enum_try_from coffee 5 32 = Some (TErr 32).
Proof. repeat split. Qed.
