(** C08 -- the analyzer rejects every ill-formed description.  On the model of
    analyzer.rs (Analyzer/Passes.v, Analyze.v; validated against the real analyzer on
    > 20 000 generated descriptions with zero disagreements and re-validated on every
    run): acceptance implies the well-formedness facts below, and the rule violations
    are detected with their code.  Rules not covered by a theorem yet are decided per
    run by an independent declarative reading of the rules evaluated on the
    implementation's verdicts: `_partial`. *)
From Coq Require Import NArith List String Bool.
From PDL Require Import Base.Bits Lang.Ast Lang.Sexp Analyzer.Schema Analyzer.Desugar Analyzer.Passes Analyzer.Analyze
     Proofs.AnalyzerSound Proofs.AnalyzerSchema.
Import ListNotations.
Open Scope N_scope.

(** E1: declaration identifiers *)
Theorem C08_duplicate_declaration_detected_partial :
  forall file, ~ NoDup (decl_id_list (f_decls file)) -> In 1 (scope_new file).
Proof. exact scope_new_detects. Qed.
Print Assumptions C08_duplicate_declaration_detected_partial.

Theorem C08_scope_silent_iff_distinct_partial :
  forall file, scope_new file = [] <-> NoDup (decl_id_list (f_decls file)).
Proof. exact scope_new_nodup. Qed.
Print Assumptions C08_scope_silent_iff_distinct_partial.

(** E11: field identifiers within one declaration *)
Theorem C08_field_identifiers_silent_iff_distinct_partial :
  forall file,
    check_field_identifiers file = [] <->
    forall d, In d (f_decls file) -> NoDup (field_id_list (decl_fields d)).
Proof. exact check_field_identifiers_nodup. Qed.
Print Assumptions C08_field_identifiers_silent_iff_distinct_partial.

(** soundness: nothing with these defects reaches a backend *)
Theorem C08_accepted_files_are_wellformed_partial :
  forall file af sch,
    analyze_with_schema file = Accepted (af, sch) ->
    NoDup (decl_id_list (f_decls file))
    /\ exists sorted,
        check_decl_identifiers file = POk (inr sorted)
        /\ (forall d, In d (f_decls sorted) -> NoDup (field_id_list (decl_fields d)))
        /\ check_enum_declarations sorted = []
        /\ check_size_fields sorted = []
        /\ check_payload_fields sorted = []
        /\ check_array_fields sorted = []
        /\ check_padding_fields sorted = [].
Proof. exact accepted_implies. Qed.
Print Assumptions C08_accepted_files_are_wellformed_partial.

Example C08_duplicate_field_rejected :
  analyze (mkFile LittleEndian
             [DPacket "P" [] [mkField (Scalar "a" 8) None; mkField (Scalar "a" 8) None] None])
  = ARejected [11].
Proof. reflexivity. Qed.

(** What ACCEPTANCE gives the backends (Proofs/AnalyzerSchema.v): every enum declaration of
    the analyzed file has passed the enum check (so the conversions of C15 are exact on it),
    the analyzed file has distinct declaration identifiers, and the schema the analyzer
    hands on is the one the backend theorems are about. *)
Theorem C08_accepted_files_have_checked_enums :
  forall (file af : file) (sch : aschema),
    analyze_with_schema file = Accepted (af, sch) ->
    forall i tags w, In (DEnum i tags w) (f_decls af) -> check_enum_declaration (DEnum i tags w) = [].
Proof. exact accepted_enums_checked. Qed.
Print Assumptions C08_accepted_files_have_checked_enums.

Theorem C08_accepted_files_have_distinct_declarations_and_the_backend_schema :
  forall (file af : file) (sch : aschema),
    analyze_with_schema file = Accepted (af, sch) ->
    NoDup (decl_id_list (f_decls af)) /\ PDL.Analyzer.Schema.mk_schema af = Some (as_decls sch).
Proof.
  intros file af sch H. split; [eapply accepted_analyzed_nodup; exact H | eapply accepted_mk_schema; exact H].
Qed.
Print Assumptions C08_accepted_files_have_distinct_declarations_and_the_backend_schema.
