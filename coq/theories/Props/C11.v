(** C11 -- compilation is a deterministic pure function of the source.  A Gallina model
    is deterministic by construction, so the theorem is about the one place where the
    real generator meets unordered data: generate_specialize_impl collects constraint
    identifiers and child identifiers out of HashMaps into BTreeSet / BTreeMap before
    emitting the discriminant tuple and the match arms.  Proved: that order
    ([sort_dedup], the model of the BTree order) depends only on the SET of
    identifiers -- any permutation, any duplication of the input gives the same
    sequence.  Byte-identical output across repeated calls and processes, library vs
    command line, and locality of --exclude-declaration are decided per run on the
    implementation: `_partial`.  The pdl_derive proc-macro path is not executed. *)
From Coq Require Import NArith List String Bool Permutation.
From PDL Require Import Base.Bits Lang.Ast Lang.Sexp Rust.Inherit Proofs.SortedSet.
Import ListNotations.

Theorem C11_emission_order_depends_on_the_set_only_partial :
  forall l l' : list string, (forall x, In x l <-> In x l') -> sort_dedup l = sort_dedup l'.
Proof. exact sort_dedup_order_independent. Qed.
Print Assumptions C11_emission_order_depends_on_the_set_only_partial.

Theorem C11_emission_order_invariant_under_permutation_partial :
  forall l l' : list string, Permutation l l' -> sort_dedup l = sort_dedup l'.
Proof. exact sort_dedup_permutation. Qed.
Print Assumptions C11_emission_order_invariant_under_permutation_partial.

Example C11_example : sort_dedup ["b"; "a"; "c"; "a"]%string = sort_dedup ["c"; "b"; "a"]%string.
Proof. reflexivity. Qed.
