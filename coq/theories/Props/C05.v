(** C05 -- the encoder never truncates.  Proved for all inputs: a packed chunk never
    exceeds its chunk type whatever the (possibly out-of-range) field values are, and
    the bytes written for a chunk are exactly its declared octets -- so an
    out-of-range value can never spill into a neighbouring group, only into the bits
    of its own group, which is what the emitted range checks guard.  Where the
    generator emits no check (listed findings F06, F07) the model truncates exactly as
    the emitted casts do; "error iff out of range" and "bytes = encoded_len" for whole
    declarations are compared with the reference on every run: `_partial`. *)
From Coq Require Import NArith List String Bool Lia.
From Coq Require Import Strings.Byte.
From PDL Require Import Base.Bits Lang.Ast Lang.Sexp Sem.RefEncode Rust.Encode.
Import ListNotations.
Open Scope N_scope.

Theorem C05_chunk_never_exceeds_its_type_partial :
  forall (cw : N) (p : pending), pack_value cw p < 2 ^ cw.
Proof.
  intros cw p. unfold pack_value.
  assert (H : forall acc, acc < 2 ^ cw ->
            fold_left (fun a '(v, tw, sh) => N.lor a ((N.shiftl (v mod 2 ^ tw) sh) mod 2 ^ cw)) p acc < 2 ^ cw).
  { induction p as [|[[v tw] sh] p IH]; intros acc Hacc; cbn [fold_left]; [exact Hacc|].
    apply IH. apply lor_lt_pow2; [exact Hacc|]. apply N.mod_lt. pose proof (pow2_pos cw). lia. }
  apply H. apply pow2_pos.
Qed.
Print Assumptions C05_chunk_never_exceeds_its_type_partial.

Theorem C05_chunk_bytes_written_partial :
  forall (fl : file) (bits v : N), List.length (put_chunk fl bits v) = N.to_nat (bits / 8).
Proof.
  intros. unfold put_chunk, bytes_E, nbytes.
  destruct (Encode.E fl); [apply le_bytes_length | apply be_bytes_length].
Qed.
Print Assumptions C05_chunk_bytes_written_partial.

Example C05_example : pack_value 8 [(300, 16, 4)] < 2 ^ 8.
Proof. apply C05_chunk_never_exceeds_its_type_partial. Qed.
