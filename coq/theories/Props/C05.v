(** C05 -- the encoder never truncates.  Proved for all inputs: a packed chunk never
    exceeds its chunk type whatever the (possibly out-of-range) field values are, and
    the bytes written for a chunk are exactly its declared octets -- so an
    out-of-range value can never spill into a neighbouring group, only into the bits
    of its own group, which is what the emitted range checks guard.  Where the
    generator emits no check (listed findings F06, F07) the model truncates exactly as
    the emitted casts do; "error iff out of range" and "bytes = encoded_len" for whole
    declarations are compared with the reference on every run: `_partial`.
    For whole declarations of the bit-field fragment both halves are theorems (below):
    no run-time panic for ANY value, and reference bytes whenever the reference has an
    encoding. *)
From Coq Require Import NArith List String Bool Lia.
From Coq Require Import Strings.Byte.
From PDL Require Import Base.Bits Base.Outcome Lang.Ast Lang.Sexp Analyzer.Schema Sem.RefEncode Rust.Encode
     Proofs.DecodeSafe Proofs.BitfieldEncode Proofs.EncodeSafe Proofs.SchemaEnums Proofs.EncodedLen Proofs.EncodeSafeAll Proofs.EncodeSafeDecl.
Import ListNotations.
Open Scope N_scope.

Theorem C05_chunk_never_exceeds_its_type_partial :
  forall (cw : N) (p : pending), pack_value cw p < 2 ^ cw.
Proof.
  intros cw p. unfold pack_value.
  assert (H : forall acc, acc < 2 ^ cw ->
            fold_left (fun a '(v, tw, sh) => N.lor a ((N.shiftl (v mod 2 ^ tw) sh) mod 2 ^ cw)) p acc < 2 ^ cw).
  { induction p as [|[[v tw] sh] p IH]; intros acc Hacc; cbn [fold_left]; [exact Hacc|].
    apply IH. apply lor_lt_pow2; [exact Hacc|]. apply N.mod_lt. pose proof (pow2_pos cw). lia. }
  apply H. apply pow2_pos.
Qed.
Print Assumptions C05_chunk_never_exceeds_its_type_partial.

Theorem C05_chunk_bytes_written_partial :
  forall (fl : file) (bits v : N), List.length (put_chunk fl bits v) = N.to_nat (bits / 8).
Proof.
  intros. unfold put_chunk, bytes_E, nbytes.
  destruct (Encode.E fl); [apply le_bytes_length | apply be_bytes_length].
Qed.
Print Assumptions C05_chunk_bytes_written_partial.

Example C05_example : pack_value 8 [(300, 16, 4)] < 2 ^ 8.
Proof. apply C05_chunk_never_exceeds_its_type_partial. Qed.

(** Whole declarations of the bit-field fragment (scalars, enums, fixed, reserved in any
    composition), ANY value -- in range, out of range or ill-typed: the emitted encoder
    yields bytes, an EncodeError or a refusal of the generator; it never panics at run time. *)
Theorem C05_bitfield_declarations_never_panic :
  forall (fuel : nat) (fl : file) (sch : schema) (id : string) (d : decl) (v : value),
    lookup_decl fl id = Some d ->
    root_of_fragment fl d ->
    no_rt_panic (rust_encode (S fuel) fl sch id v).
Proof. exact rust_encode_fragment_nrp. Qed.
Print Assumptions C05_bitfield_declarations_never_panic.

(** ... and when the value is one the reference can encode, the bytes are the reference's
    (no truncation): this is C03's theorem, restated here because it is the other half *)
Theorem C05_bitfield_declarations_do_not_truncate :
  forall (fuel : nat) (fl : file) (sch : schema) (id : string) (d : decl) (v : value) (bs : list byte),
    schema_knows_enums fl sch ->
    lookup_decl fl id = Some d ->
    root_of_fragment fl d ->
    ref_encode (S fuel) fl id v = Some bs ->
    good (rust_encode (S fuel) fl sch id v) bs.
Proof. exact rust_encode_fragment. Qed.
Print Assumptions C05_bitfield_declarations_do_not_truncate.

(** LENGTH AS PROMISED (Proofs/EncodedLen.v): "whenever encode succeeds, the number of bytes
    written equals encoded_len()".  Field level, for EVERY field kind the encoder handles
    (all bit-field kinds incl. flags, size / count / element-size fields; optional scalar,
    enum and struct fields; payload / body; padding; typedef fields; scalar, enum and struct
    arrays, padded or not), any pending bit-fields and shift: the bytes [enc_fields] writes
    are as many as [len_fields] computes.  [Hrec] / [Hstatic] are the induction hypotheses
    for nested struct types, [Hpay] says the payload action writes payload_size octets. *)
Theorem C05_fields_write_what_encoded_len_computes :
  forall (fl : file) (sch : schema) (rec_enc : string -> value -> eres (list byte))
         (rec_len : string -> value -> option N) (d : decl) (all_fields : list field)
         (cs : list constr) (obj : list (string * value)) (payload_act : eres (list byte))
         (payload_size : N) (T : string -> Prop),
    schema_knows_enums fl sch ->
    schema_knows_customs fl sch ->
    (forall tid v bs, T tid -> rec_enc tid v = Ok bs -> rec_len tid v = Some (len bs)) ->
    (forall tid v bs w, T tid -> rec_enc tid v = Ok bs -> type_static_bits sch tid = Some w -> len bs = w / 8) ->
    (forall pl, payload_act = Ok pl -> len pl = payload_size) ->
    forall (fs : list field) (p : pending) (shift : N) (bs : list byte),
      cls fl T fs ->
      enc_fields fl sch rec_enc rec_len d all_fields cs obj payload_act payload_size fs p shift = Ok bs ->
      len_fields fl sch rec_len d obj payload_size fs shift = Some (len bs).
Proof. exact enc_fields_len. Qed.
Print Assumptions C05_fields_write_what_encoded_len_computes.

(** Whole declarations WITH THEIR PARENTS, real schema, nothing assumed about emitted code:
    every declaration whose inheritance chain reaches no struct / unsized custom type. *)
Theorem C05_encoded_len_is_the_number_of_bytes_written :
  forall (fuel : nat) (fl : file) (sch : schema) (id : string) (d : decl) (v : value) (bs : list byte),
    enum_widths_fit fl = true -> custom_widths_fit fl = true -> mk_schema fl = Some sch ->
    lookup_decl fl id = Some d ->
    chain_rec_free fuel fl d = true ->
    rust_encode fuel fl sch id v = Ok bs ->
    rust_encoded_len fuel fl sch id v = Some (len bs).
Proof. exact rust_encode_len_real_schema. Qed.
Print Assumptions C05_encoded_len_is_the_number_of_bytes_written.

(** ... and EVERY declaration (nested, array and optional structs, parents) of a file in
    which no struct or packet has a static size. *)
Theorem C05_encoded_len_is_the_number_of_bytes_written_dynamic_structs :
  forall (fuel : nat) (fl : file) (sch : schema) (id : string) (v : value) (bs : list byte),
    enum_widths_fit fl = true -> custom_widths_fit fl = true -> mk_schema fl = Some sch ->
    file_arrs_wf fl = true -> no_static_structs fl sch = true ->
    rust_encode fuel fl sch id v = Ok bs ->
    rust_encoded_len fuel fl sch id v = Some (len bs).
Proof. exact rust_encode_len_dynamic_structs. Qed.
Print Assumptions C05_encoded_len_is_the_number_of_bytes_written_dynamic_structs.

(** ENCODE NEVER PANICS, all field kinds (Proofs/EncodeSafeAll.v): optional scalar / enum /
    struct fields, flags, size / count / element-size fields, scalars, fixed fields, typedefs,
    reserved bits, arrays with and without padding, payload / body, padding -- for ANY value
    (in range, out of range, ill-typed), pending bit-fields and shift, provided the encoders
    of nested struct types and the payload action do not panic at run time.  [arith_free]
    excludes exactly the two places where the GENERATOR (a debug build of pdlc) overflows:
    a 64-bit `_size_` / `_elementsize_` field (finding F44) and a condition value above 1. *)
Theorem C05_no_runtime_panic_for_every_field_kind :
  forall (fl : file) (sch : schema) (rec_enc : string -> value -> eres (list byte))
         (rec_len : string -> value -> option N) (d : decl) (all_fields : list field)
         (cs : list constr) (obj : list (string * value)) (payload_act : eres (list byte))
         (payload_size : N),
    (forall t v, no_rt_panic (rec_enc t v)) ->
    no_rt_panic payload_act ->
    forall (fs : list field) (p : pending) (shift : N),
      forallb arith_free fs = true ->
      no_rt_panic (enc_fields fl sch rec_enc rec_len d all_fields cs obj payload_act payload_size fs p shift).
Proof. exact enc_fields_all_nrp. Qed.
Print Assumptions C05_no_runtime_panic_for_every_field_kind.

(** ... lifted to WHOLE DECLARATIONS with their parents and nested structs, by induction on
    fuel (Proofs/EncodeSafeDecl.v): for every file without a 64-bit `_size_` / `_elementsize_`
    field and without a condition value above 1, every type of it and ANY value, encode never
    panics at run time.  [side_condition_needed] shows the side condition is necessary (F44). *)
Theorem C05_encode_never_panics_at_run_time :
  forall (fuel : nat) (fl : file) (sch : schema) (id : string) (v : value),
    arith_free_file fl = true -> no_rt_panic (rust_encode fuel fl sch id v).
Proof. exact rust_encode_nrp. Qed.
Print Assumptions C05_encode_never_panics_at_run_time.
