(** C10 -- the compiler never crashes; what it accepts becomes compilable code.
    Proved on the models: (1) the Rust generator's enum code is produced -- no panic --
    exactly when the enum fits 64 bits and has at least one value or range tag (the
    `unwrap` in enum_is_complete, finding F11, is the only other way out); (2) an
    accepted file satisfies the facts the backends unwrap on that C08 proves
    (distinct identifiers, silent size/payload/array/padding passes).  That no stage
    panics on the REAL code, and that emitted code compiles with rustc / g++ / javac /
    CPython, is decided per run (catch_unwind around every stage in a driver linked
    against /repo, builds of the generated corpora): `_partial`.  Stack exhaustion and
    non-termination of the real process are outside what a model can exhibit. *)
From Coq Require Import NArith List String Bool.
From PDL Require Import Base.Bits Lang.Ast Lang.Sexp Rust.Enum Proofs.GenPre.
Import ListNotations.
Open Scope N_scope.

Theorem C10_rust_enum_generation_defined_iff_partial :
  forall tags w, from_cases tags w <> None <-> (w <= 64 /\ flat_map tag_span tags <> []).
Proof. exact from_cases_defined. Qed.
Print Assumptions C10_rust_enum_generation_defined_iff_partial.

Theorem C10_enum_is_complete_unwrap_partial :
  forall tags mx, enum_is_complete tags mx = None <-> flat_map tag_span tags = [].
Proof. exact enum_is_complete_defined. Qed.
Print Assumptions C10_enum_is_complete_unwrap_partial.

(** finding F11 as a refuted claim: an enum the analyzer accepts on which the generator panics *)
Example C10_F11_witness : from_cases [TagOther "X"] 8 = None.
Proof. reflexivity. Qed.
