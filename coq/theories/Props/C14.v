(** C14 -- C++ backend.  Proved: the C++ generator's bit-field chunking is the
    reference grouping for every field list (byte-multiple groups, running offsets).
    Conformance of Serialize / GetSize / IsValid / getters and freedom from undefined
    behaviour are decided per run: identical values and byte strings through an
    ASan+UBSan build (assertions on) and an NDEBUG build, compared with the reference;
    any sanitizer report, failed assertion or signal is a violation: `_partial`. *)
From Coq Require Import NArith List Bool.
From PDL Require Import Base.Bits Backends.Chunkers.
Import ListNotations.
Open Scope N_scope.

Theorem C14_cxx_chunking_is_reference_partial :
  forall ws cur off, cxx_chunker ws cur off = ref_groups ws cur off.
Proof. intros. apply shift_chunker_is_reference. Qed.
Print Assumptions C14_cxx_chunking_is_reference_partial.

Theorem C14_cxx_groups_wellformed_partial :
  forall ws gs pend,
    cxx_chunker ws [] 0 = (gs, pend) ->
    Forall (fun g => offsets_ok g 0 = true /\ group_width g mod 8 = 0) gs.
Proof.
  intros ws gs pend H. unfold cxx_chunker in H. rewrite shift_chunker_is_reference in H.
  apply (ref_groups_wellformed ws [] 0 gs pend eq_refl eq_refl H).
Qed.
Print Assumptions C14_cxx_groups_wellformed_partial.
