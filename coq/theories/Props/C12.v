(** C12 -- parser fidelity.  The grammar the theorems and the oracle speak about is
    REGENERATED from /repo's parser.rs on every run (tools/pest2coq.py -> Front/Grammar_gen.v);
    the PEG interpreter (Front/Peg.v), tree walk (Front/TreeWalk.v) and location
    arithmetic (Front/Loc.v) are re-validated against the real parser on every run
    (AST, every source range, every comment; 0 disagreements on 30 000 texts).
    Proved for all inputs: the line / column SourceLocation::new reports is consistent
    with the byte offset (offset = line start + column, the line start is one of the
    file's line starts and is not above the offset) and names an existing line.
    Round-trip fidelity (parse (print a) = a for randomized concrete syntax) is
    decided per run on the implementation against the generator's own AST: `_partial`. *)
From Coq Require Import NArith List String Bool.
From PDL Require Import Front.Loc Proofs.LocLaws.
Import ListNotations.
Open Scope N_scope.

Theorem C12_line_and_column_are_consistent_with_the_offset_partial :
  forall (offset : N) (ls : list N),
    l_offset (source_location offset ls) = offset /\
    exists s, (s = 0 \/ In s ls) /\ s <= offset /\ l_column (source_location offset ls) = offset - s.
Proof. exact source_location_consistent. Qed.
Print Assumptions C12_line_and_column_are_consistent_with_the_offset_partial.

Theorem C12_reported_line_exists_partial :
  forall (offset : N) (ls : list N),
    ls <> [] -> l_line (source_location offset ls) < N.of_nat (List.length ls).
Proof. exact source_location_line_in_range. Qed.
Print Assumptions C12_reported_line_exists_partial.

Example C12_loc_example :
  source_location 50 [0; 20; 80; 120; 150] = mkLoc 50 1 30.
Proof. reflexivity. Qed.
