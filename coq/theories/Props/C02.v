(** C02 -- encode then decode is the identity.  Proved for all inputs: the kernels the
    round trip rests on.  (1) A field written into a bit-field group is read back by
    the decoder's shift/mask arithmetic, for every position and width. (2) An integer
    written as n bytes in either byte order is read back unchanged.  The lift to whole
    declarations is established by the correspondence check (encode_to_vec ->
    decode_full on every generated well-formed value): `_partial`. *)
From Coq Require Import NArith List String Bool.
From Coq Require Import Strings.Byte.
From PDL Require Import Base.Bits Proofs.Pack.
Import ListNotations.
Open Scope N_scope.

Theorem C02_field_read_back_from_group_partial :
  forall (pre : list (N * N)) (v w : N) (post : list (N * N)),
    group_ok pre -> v < 2 ^ w -> group_ok post ->
    extract (group_bits pre) w (group_sum (pre ++ (v, w) :: post) 0) = v.
Proof. exact extract_group_sum. Qed.
Print Assumptions C02_field_read_back_from_group_partial.

Theorem C02_little_endian_bytes_round_trip_partial :
  forall (n : nat) (v : N), v < 256 ^ N.of_nat n -> of_le (le_bytes n v) = v.
Proof. exact of_le_le_bytes_small. Qed.
Print Assumptions C02_little_endian_bytes_round_trip_partial.

Theorem C02_big_endian_bytes_round_trip_partial :
  forall (n : nat) (v : N), v < 256 ^ N.of_nat n -> of_be (be_bytes n v) = v.
Proof. intros n v H. rewrite of_be_be_bytes. now apply N.mod_small. Qed.
Print Assumptions C02_big_endian_bytes_round_trip_partial.

Example C02_example : extract 4 12 (group_sum [(5, 4); (2748, 12)] 0) = 2748.
Proof. reflexivity. Qed.
