(** C02 -- encode then decode is the identity.  Proved for all inputs: the kernels the
    round trip rests on.  (1) A field written into a bit-field group is read back by
    the decoder's shift/mask arithmetic, for every position and width. (2) An integer
    written as n bytes in either byte order is read back unchanged.  The lift to whole
    declarations is established by the correspondence check (encode_to_vec ->
    decode_full on every generated well-formed value): `_partial`.
    (3) WHOLE DECLARATIONS of the bit-field fragment (root packets / structs whose fields
    are scalars, enum typedefs, fixed fields and reserved bits in ANY composition):
    decode (encode v ++ tl) = (v, tl) for every value the reference can encode, with the
    schema the analyzer really computes and enums the analyzer accepts -- a complete
    statement of the property on that fragment (Proofs/RoundTrip.v). *)
From Coq Require Import NArith List String Bool.
From Coq Require Import Strings.Byte.
From PDL Require Import Base.Bits Base.Outcome Lang.Ast Lang.Sexp Analyzer.Schema Analyzer.Passes Rust.Enum
     Sem.RefEncode Rust.Encode Rust.Decode Proofs.Pack Proofs.BitfieldEncode Proofs.RoundTrip
     Proofs.SchemaEnums Proofs.RoundTripReal Analyzer.Analyze Proofs.AnalyzerSchema Proofs.RoundTripArrays.
Import ListNotations.
Open Scope N_scope.

Theorem C02_field_read_back_from_group_partial :
  forall (pre : list (N * N)) (v w : N) (post : list (N * N)),
    group_ok pre -> v < 2 ^ w -> group_ok post ->
    extract (group_bits pre) w (group_sum (pre ++ (v, w) :: post) 0) = v.
Proof. exact extract_group_sum. Qed.
Print Assumptions C02_field_read_back_from_group_partial.

Theorem C02_little_endian_bytes_round_trip_partial :
  forall (n : nat) (v : N), v < 256 ^ N.of_nat n -> of_le (le_bytes n v) = v.
Proof. exact of_le_le_bytes_small. Qed.
Print Assumptions C02_little_endian_bytes_round_trip_partial.

Theorem C02_big_endian_bytes_round_trip_partial :
  forall (n : nat) (v : N), v < 256 ^ N.of_nat n -> of_be (be_bytes n v) = v.
Proof. intros n v H. rewrite of_be_be_bytes. now apply N.mod_small. Qed.
Print Assumptions C02_big_endian_bytes_round_trip_partial.

Example C02_example : extract 4 12 (group_sum [(5, 4); (2748, 12)] 0) = 2748.
Proof. reflexivity. Qed.

(** Encode then decode is the identity on root declarations of the bit-field fragment.
    Hypotheses: [sch] is the schema [Schema::new] computes for the file (enum widths fit a
    usize); every enum of the file passes the analyzer's enum check and is one the Rust
    generator is defined on; [o] is a value of the generated Rust type (exactly the data
    fields, in order); the reference has an encoding [bs] for it (scalars within their
    widths, enum values the enum declares).  Conclusion: the emitted encoder returns [bs],
    and the emitted decoder run on [bs] followed by ANY bytes [tl] returns [o] and [tl]
    (so decode_full (encode v) = v, taking tl = []) -- in both byte orders and overflow
    modes -- unless pdlc refuses the declaration (a bit-field group wider than 64 bits). *)
Theorem C02_bitfield_declarations_round_trip :
  forall (fuel fuel' : nat) (oc : bool) (fl : file) (sch : schema) (id : string) (d : decl)
         (o : list (string * value)) (bs tl : list byte),
    enum_widths_fit fl = true -> mk_schema fl = Some sch ->
    enums_accepted fl ->
    lookup_decl fl id = Some d ->
    root_of_fragment fl d ->
    canonical_obj o (decl_fields d) ->
    ref_encode (S fuel) fl id (VObj o) = Some bs ->
    match rust_encode (S fuel) fl sch id (VObj o) with
    | Ok bs' =>
        bs' = bs /\
        match rust_decode (S fuel') oc fl sch id (bs' ++ tl) with
        | Ok r => r = (VObj o, tl)
        | Panic GenAssert => True
        | _ => False
        end
    | Panic GenAssert => True
    | _ => False
    end.
Proof. exact rust_roundtrip_fragment_real_schema. Qed.
Print Assumptions C02_bitfield_declarations_round_trip.

(** The same from ACCEPTANCE BY THE ANALYZER alone (Proofs/AnalyzerSchema.v): if the model of
    analyzer::analyze accepts a file and returns the analyzed file [af] with its schema, then
    [af]'s enums pass the enum check, the analyzer's schema IS the one the backend theorems
    are about ([mk_schema af]; the two models of Schema::new are proved to agree on every
    file that passes the padding check), and the round trip holds for every root declaration
    of the fragment.  The one hypothesis left besides acceptance says that the Rust
    generator is defined on the enums (width <= 64, a value or range tag: F11/F12 otherwise). *)
Theorem C02_accepted_files_round_trip :
  forall (fuel fuel' : nat) (oc : bool) (file af : file) (sch : aschema) (id : string) (d : decl)
         (o : list (string * value)) (bs tl : list byte),
    analyze_with_schema file = Accepted (af, sch) ->
    enums_generable af ->
    lookup_decl af id = Some d ->
    root_of_fragment af d ->
    canonical_obj o (decl_fields d) ->
    ref_encode (S fuel) af id (VObj o) = Some bs ->
    match rust_encode (S fuel) af (as_decls sch) id (VObj o) with
    | Ok bs' =>
        bs' = bs /\
        match rust_decode (S fuel') oc af (as_decls sch) id (bs' ++ tl) with
        | Ok r => r = (VObj o, tl)
        | Panic GenAssert => True
        | _ => False
        end
    | Panic GenAssert => True
    | _ => False
    end.
Proof. exact accepted_roundtrip. Qed.
Print Assumptions C02_accepted_files_round_trip.

(** COUNT AND SIZE FIELDS AND ARRAYS (Proofs/RoundTripArrays.v).  Root declarations made of
    bit-fields, `_count_` / `_size_` fields and arrays of scalar elements delimited by them or
    by a static count (the delimiting field declared before its array and not shadowed by a
    later local of the same name -- both conditions are shown necessary by counter-examples
    in that file): decode (encode v ++ tl) = (v, tl), for every value the reference can
    encode whose arrays are no longer than the loop fuel of the model, any trailing bytes
    within a 2^64-octet buffer, both byte orders and overflow modes. *)
Theorem C02_counted_and_sized_arrays_round_trip :
  forall (fuel fuel' : nat) (oc : bool) (fl : file) (sch : schema) (id : string) (d : decl)
         (o : list (string * value)) (bs tl : list byte),
    enum_widths_fit fl = true -> mk_schema fl = Some sch ->
    enums_accepted fl ->
    lookup_decl fl id = Some d ->
    root_of_counted_fragment fl d ->
    canonical_obj' o (decl_fields d) ->
    (forall aid vs, assoc aid o = Some (VList vs) -> (List.length vs <= fuel')%nat) ->
    ref_encode (S fuel) fl id (VObj o) = Some bs ->
    len (bs ++ tl) < two64 ->
    match rust_encode (S fuel) fl sch id (VObj o) with
    | Ok bs' =>
        bs' = bs /\
        match rust_decode (S fuel') oc fl sch id (bs' ++ tl) with
        | Ok r => r = (VObj o, tl)
        | Panic GenAssert => True
        | _ => False
        end
    | Panic GenAssert => True
    | _ => False
    end.
Proof. exact rust_roundtrip_arrays_real_schema. Qed.
Print Assumptions C02_counted_and_sized_arrays_round_trip.

(** non-vacuity: a concrete big-endian file (an enum with a range and a default tag, a
    packet with a 3-bit scalar, the enum, a fixed field, reserved bits and a 24-bit scalar)
    satisfies every hypothesis, and the round trip computes *)
Definition c02_file : file :=
  mkFile BigEndian
    [DEnum "E" [TagValue "A" 1; TagRange "R" 4 7 [("R4", 4)]; TagOther "O"] 5;
     DPacket "P" [] [mkField (Scalar "a" 3) None; mkField (Typedef "e" "E") None;
                     mkField (FixedScalar 4 9) None; mkField (Reserved 4) None;
                     mkField (Scalar "b" 24) None] None].
Definition c02_obj : list (string * value) := [("a", VNum 5); ("e", VNum 6); ("b", VNum 66051)].

Example C02_hypotheses_hold :
  enum_widths_fit c02_file = true
  /\ (exists sch, mk_schema c02_file = Some sch
       /\ rust_encode 3 c02_file sch "P" (VObj c02_obj) = Ok [x35; x09; x01; x02; x03]
       /\ rust_decode 3 true c02_file sch "P" [x35; x09; x01; x02; x03; xff] = Ok (VObj c02_obj, [xff]))
  /\ (exists d, lookup_decl c02_file "P" = Some d /\ canonical_obj c02_obj (decl_fields d)
                 /\ forallb (bf_field c02_file) (decl_fields d) = true)
  /\ ref_encode 3 c02_file "P" (VObj c02_obj) = Some [x35; x09; x01; x02; x03]
  /\ check_enum_declaration (DEnum "E" [TagValue "A" 1; TagRange "R" 4 7 [("R4", 4)]; TagOther "O"] 5) = [].
Proof.
  split; [reflexivity|]. split; [eexists; split; [reflexivity|]; split; reflexivity|].
  split; [eexists; split; [reflexivity|]; split; reflexivity|]. split; reflexivity.
Qed.
