(** C16 -- static size annotations are sound.  Proved for the bit-field fragment
    (scalars, enum typedefs, fixed fields, reserved bits in any composition): when
    the schema's sum over a field list is Static n, every reference encoding of every
    value of that field list occupies exactly n bits.  Arrays, typedef nesting,
    inheritance and padding, and the Dynamic / Unknown classification, are compared
    per run: Schema queries of the implementation vs the model (Analyzer/Schema.v) on
    every declaration and field of thousands of generated descriptions, the literal
    reading of the statement, and Static n vs the length of reference encodings of
    generated values: `_partial`. *)
From Coq Require Import NArith List String Bool.
From Coq Require Import Strings.Byte.
From PDL Require Import Base.Bits Lang.Ast Lang.Sexp Analyzer.Schema Sem.RefEncode
     Proofs.BitfieldEncode Proofs.StaticSize.
Import ListNotations.
Open Scope N_scope.

Theorem C16_static_size_is_exact_on_bitfield_declarations_partial :
  forall (fl : file) (sch : schema) (rec : string -> value -> option (list seg)) (d : decl)
         (all_fields : list field) (obj : list (string * value)) (payload : list seg)
         (fs : list field) (n : N) (psz : size) (ss : list seg),
    schema_knows_enums fl sch ->
    forallb (bf_field fl) fs = true ->
    annotate_fields sch d fs (SStatic 0) (SStatic 0) = Some (SStatic n, psz) ->
    ref_enc_fields fl rec d all_fields [] obj payload fs 0 0 = Some ss ->
    8 * seg_len ss = n.
Proof. intros. eapply static_exact_fragment; eassumption. Qed.
Print Assumptions C16_static_size_is_exact_on_bitfield_declarations_partial.

Theorem C16_schema_sum_is_the_sum_of_widths_partial :
  forall (fl : file) (sch : schema) (d : decl) (fs : list field) (a : N) (p dsz psz : size),
    schema_knows_enums fl sch ->
    forallb (bf_field fl) fs = true ->
    annotate_fields sch d fs (SStatic a) p = Some (dsz, psz) ->
    dsz = SStatic (a + frag_bits fl fs) /\ psz = p.
Proof. intros. eapply schema_fragment_bits; eassumption. Qed.
Print Assumptions C16_schema_sum_is_the_sum_of_widths_partial.
