(** C16 -- static size annotations are sound.  Proved for the bit-field fragment
    (scalars, enum typedefs, fixed fields, reserved bits in any composition): when
    the schema's sum over a field list is Static n, every reference encoding of every
    value of that field list occupies exactly n bits.  Arrays, typedef nesting,
    inheritance and padding, and the Dynamic / Unknown classification, are compared
    per run: Schema queries of the implementation vs the model (Analyzer/Schema.v) on
    every declaration and field of thousands of generated descriptions, the literal
    reading of the statement, and Static n vs the length of reference encodings of
    generated values: `_partial`. *)
From Coq Require Import NArith List String Bool.
From Coq Require Import Strings.Byte.
From PDL Require Import Base.Bits Lang.Ast Lang.Sexp Analyzer.Schema Sem.RefEncode
     Proofs.BitfieldEncode Proofs.StaticSize Proofs.StaticSizeArrays Proofs.SchemaEnums Proofs.AnalyzerSchema Proofs.SizeClasses.
Import ListNotations.
Open Scope N_scope.

Theorem C16_static_size_is_exact_on_bitfield_declarations_partial :
  forall (fl : file) (sch : schema) (rec : string -> value -> option (list seg)) (d : decl)
         (all_fields : list field) (obj : list (string * value)) (payload : list seg)
         (fs : list field) (n : N) (psz : size) (ss : list seg),
    schema_knows_enums fl sch ->
    forallb (bf_field fl) fs = true ->
    annotate_fields sch d fs (SStatic 0) (SStatic 0) = Some (SStatic n, psz) ->
    ref_enc_fields fl rec d all_fields [] obj payload fs 0 0 = Some ss ->
    8 * seg_len ss = n.
Proof. intros. eapply static_exact_fragment; eassumption. Qed.
Print Assumptions C16_static_size_is_exact_on_bitfield_declarations_partial.

Theorem C16_schema_sum_is_the_sum_of_widths_partial :
  forall (fl : file) (sch : schema) (d : decl) (fs : list field) (a : N) (p dsz psz : size),
    schema_knows_enums fl sch ->
    forallb (bf_field fl) fs = true ->
    annotate_fields sch d fs (SStatic a) p = Some (dsz, psz) ->
    dsz = SStatic (a + frag_bits fl fs) /\ psz = p.
Proof. intros. eapply schema_fragment_bits; eassumption. Qed.
Print Assumptions C16_schema_sum_is_the_sum_of_widths_partial.

(** Beyond bit-fields (Proofs/StaticSizeArrays.v): field lists made of bit-fields, ARRAYS
    with a static count (scalar, enum or struct elements), typedef fields of STRUCT type,
    and arrays of any shape followed by `_padding_[n]` (counted at the declared padded
    size).  Whenever the schema's sum is Static n, every reference encoding of every value
    occupies exactly n bits.  [Hrec] is the induction hypothesis for struct types (the
    recursive reference encoder of a struct whose total size the schema gives as Static m
    produces m bits); it is discharged for a concrete file in [ex_every_value]. *)
Theorem C16_static_size_is_exact_with_arrays_structs_and_padding :
  forall (fl : file) (sch : schema) (rec : string -> value -> option (list seg)) (d : decl)
         (all_fields : list field) (cs : list constr) (obj : list (string * value))
         (payload : list seg),
    schema_knows_enums fl sch ->
    (forall tid v ss m, is_struct_id fl tid = true -> rec tid v = Some ss ->
                        type_total sch tid = Some (SStatic m) -> 8 * seg_len ss = m) ->
    forall (fs : list field) (n : N) (psz : size) (ss : list seg),
      sa_fields fl d fs = true ->
      annotate_fields sch d fs (SStatic 0) (SStatic 0) = Some (SStatic n, psz) ->
      ref_enc_fields fl rec d all_fields cs obj payload fs 0 0 = Some ss ->
      8 * seg_len ss = n.
Proof. exact static_exact_arrays. Qed.
Print Assumptions C16_static_size_is_exact_with_arrays_structs_and_padding.

(** The PUBLIC QUERY on the REAL schema: for a file with distinct declaration identifiers
    (what Scope::new's check E1 establishes) and the schema [mk_schema] computes, the total
    size the schema reports for a root declaration of the bit-field fragment is Static n
    only if every reference encoding of it has exactly n bits -- nothing is assumed about
    the schema any more. *)
Theorem C16_total_size_query_is_exact_on_the_real_schema :
  forall (fl : file) (sch : schema) (id : string) (d : decl)
         (rec : string -> value -> option (list seg)) (all_fields : list field)
         (obj : list (string * value)) (payload : list seg) (n : N) (ss : list seg),
    PDL.Analyzer.Passes.scope_new fl = [] ->
    mk_schema fl = Some sch ->
    lookup_decl fl id = Some d ->
    root_of_fragment fl d ->
    type_total sch id = Some (SStatic n) ->
    ref_enc_fields fl rec d all_fields [] obj payload (decl_fields d) 0 0 = Some ss ->
    8 * seg_len ss = n.
Proof.
  intros fl sch id d rec all_fields obj payload n ss Hscope.
  apply static_total_exact_real_schema. apply Proofs.AnalyzerSound.scope_new_nodup. exact Hscope.
Qed.
Print Assumptions C16_total_size_query_is_exact_on_the_real_schema.

(** a closed instance: every value of a packet with bit-fields, an enum, scalar / enum /
    struct arrays, a padded array and a struct field encodes to exactly the 184 bits the
    real schema reports *)
Theorem C16_example_every_value :
  forall obj ss,
    ref_enc_fields ex_fl ex_rec ex_packet ex_fs [] obj [] ex_fs 0 0 = Some ss -> 8 * seg_len ss = 184.
Proof. exact ex_every_value. Qed.
Print Assumptions C16_example_every_value.

(** The two models of Schema::new -- the one inside the analyzer model (Passes.schema_new,
    compared with /repo per run) and the one the backend theorems use (Schema.mk_schema) --
    agree on every file that passes the padding check; on files that do not, the analyzer's
    panics where the other returns a schema ([schema_models_disagree]: both are rejected
    with E39 before any schema is built). *)
Theorem C16_the_two_schema_models_agree :
  forall fl : file,
    PDL.Analyzer.Passes.check_padding_fields fl = [] ->
    option_map PDL.Analyzer.Passes.as_decls (PDL.Analyzer.Desugar.pres_option (PDL.Analyzer.Passes.schema_new fl))
    = mk_schema fl.
Proof. exact schema_models_agree_padding_checked. Qed.
Print Assumptions C16_the_two_schema_models_agree.

(** THE CLASSIFICATION (Proofs/SizeClasses.v), reading [field_size] literally: a field is
    classified DYNAMIC exactly when it has a condition flag, or is a payload / body with a
    `_size_` field, or an array without static count that has a size or count field, or a
    typedef / counted array of a type whose total is itself Dynamic (at the leaves: a
    user-supplied custom field without width, [leaf_total_dynamic_iff]) ... *)
Theorem C16_dynamic_iff_delimited :
  forall (sch : schema) (d : decl) (f : field),
    field_size sch d f = Some SDynamic <-> dyn_shape sch d f.
Proof. exact field_dynamic_iff. Qed.
Print Assumptions C16_dynamic_iff_delimited.

(** ... and UNKNOWN exactly when it has no condition and is a payload / body without size
    field, an array with neither static count nor size / count field, or a typedef / counted
    array of a type whose total is Unknown: "only when nothing delimits it". *)
Theorem C16_unknown_iff_nothing_delimits :
  forall (sch : schema) (d : decl) (f : field),
    field_size sch d f = Some SUnknown <-> unk_shape sch d f.
Proof. exact field_unknown_iff. Qed.
Print Assumptions C16_unknown_iff_nothing_delimits.

(** DECLARATION TOTALS: a packet / struct / group total is Dynamic exactly when some field
    contribution, the inherited part or the payload is Dynamic and none of them is Unknown;
    Unknown exactly when one of them is ([contribs] counts a field followed by `_padding_` at
    the declared padded size, which is Static whatever the field's own class); and the only
    non-container type that is ever Dynamic is a user-supplied custom field without width. *)
Theorem C16_declaration_totals_classified :
  forall (sch : schema) (d : decl) (e : dsizes) (r : size),
    is_container d = true ->
    annotate_decl sch d = Some e ->
    ds_total e = Some r ->
    (r = SDynamic <->
     ((exists f, In (f, SDynamic) (contribs sch d (decl_fields d))) \/
      parent_size sch d = Some SDynamic \/ payload_size_of sch d = Some SDynamic) /\
     (forall f, ~ In (f, SUnknown) (contribs sch d (decl_fields d))) /\
     parent_size sch d <> Some SUnknown /\ payload_size_of sch d <> Some SUnknown) /\
    (r = SUnknown <->
     (exists f, In (f, SUnknown) (contribs sch d (decl_fields d))) \/
     parent_size sch d = Some SUnknown \/ payload_size_of sch d = Some SUnknown).
Proof. exact container_total_class. Qed.
Print Assumptions C16_declaration_totals_classified.

Theorem C16_only_custom_fields_are_dynamic_leaves :
  forall (sch : schema) (d : decl) (e : dsizes),
    is_container d = false ->
    annotate_decl sch d = Some e ->
    (ds_total e = Some SDynamic <-> exists i fn, d = DCustomField i None fn).
Proof. exact leaf_total_dynamic_iff. Qed.
Print Assumptions C16_only_custom_fields_are_dynamic_leaves.
