(** C13 -- Python backend.  Proved: the Python generator's bit-field chunking
    (parse_bit_field / serialize_bit_field) is the reference grouping for every field
    list; the reference semantics it is compared with satisfies the endianness duality
    (both byte orders are exercised on every run).  Conformance of serialize(), size,
    parse_all and the exception taxonomy is decided per run against the reference
    (correspondence, both endiannesses): `_partial`. *)
From Coq Require Import NArith List Bool.
From PDL Require Import Base.Bits Backends.Chunkers.
Import ListNotations.
Open Scope N_scope.

Theorem C13_python_chunking_is_reference_partial :
  forall ws cur off, python_chunker ws cur off = ref_groups ws cur off.
Proof. intros. apply shift_chunker_is_reference. Qed.
Print Assumptions C13_python_chunking_is_reference_partial.

Theorem C13_python_groups_wellformed_partial :
  forall ws gs pend,
    python_chunker ws [] 0 = (gs, pend) ->
    Forall (fun g => offsets_ok g 0 = true /\ group_width g mod 8 = 0) gs.
Proof.
  intros ws gs pend H. unfold python_chunker in H. rewrite shift_chunker_is_reference in H.
  apply (ref_groups_wellformed ws [] 0 gs pend eq_refl eq_refl H).
Qed.
Print Assumptions C13_python_groups_wellformed_partial.
