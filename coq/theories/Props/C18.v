(** C18 -- pdl-runtime Packet trait: derived methods obey their laws.
    Statements only; proofs are in Proofs/RuntimeLaws.v. The laws hold for EVERY
    implementation of the required methods [decode] / [encode], hence for every
    generated type, every byte string and every value. *)
From Coq Require Import NArith List Bool.
From Coq Require Import Strings.Byte.
From PDL Require Import Base.Bits Base.Outcome Rust.Decode Rust.Encode Rust.Runtime Proofs.RuntimeLaws.
Import ListNotations.

Theorem C18_decode_full_is_decode_with_empty_remainder :
  forall (T : Type) (decode : list byte -> dres (T * list byte)) (b : list byte) (p : T),
    decode_full T decode b = Ok p <-> decode b = Ok (p, []).
Proof. exact decode_full_ok_iff. Qed.
Print Assumptions C18_decode_full_is_decode_with_empty_remainder.

Theorem C18_decode_full_trailing :
  forall (T : Type) (decode : list byte -> dres (T * list byte)) b p r,
    decode b = Ok (p, r) -> r <> [] -> decode_full T decode b = Err TrailingBytesError.
Proof. exact decode_full_trailing. Qed.
Print Assumptions C18_decode_full_trailing.

Theorem C18_decode_full_propagates_errors :
  forall (T : Type) (decode : list byte -> dres (T * list byte)) b e,
    decode b = Err e -> decode_full T decode b = Err e.
Proof. exact decode_full_err. Qed.
Print Assumptions C18_decode_full_propagates_errors.

Theorem C18_decode_mut_commits_only_on_success :
  forall (T : Type) (decode : list byte -> dres (T * list byte)) b,
    match decode b with
    | Ok (p, r) => decode_mut T decode b = (Ok p, r)
    | _ => snd (decode_mut T decode b) = b
    end.
Proof. exact decode_mut_commit. Qed.
Print Assumptions C18_decode_mut_commits_only_on_success.

Theorem C18_encode_variants_agree :
  forall (T : Type) (encode_bytes : T -> eres (list byte)) v,
    encode_to_vec T encode_bytes v = encode_to_bytes T encode_bytes v
    /\ encode_to_vec T encode_bytes v = encode_bytes v.
Proof. exact encode_same_bytes. Qed.
Print Assumptions C18_encode_variants_agree.

Theorem C18_encode_appends :
  forall (T : Type) (encode_bytes : T -> eres (list byte)) v buf bs,
    encode_to_vec T encode_bytes v = Ok bs -> encode T encode_bytes v buf = Ok (buf ++ bs).
Proof. exact encode_appends. Qed.
Print Assumptions C18_encode_appends.

(** Non-vacuity: a concrete implementation (a one-byte packet) meeting the hypotheses. *)
Example C18_example :
  let decode := fun bs : list byte =>
                  match bs with
                  | b :: r => Ok (b, r)
                  | [] => @Err derr (byte * list byte) LengthError
                  end in
  decode_full byte decode [x01] = Ok x01
  /\ decode_full byte decode [x01; x02] = Err TrailingBytesError
  /\ decode_mut byte decode [] = (Err LengthError, []).
Proof. repeat split. Qed.
