(** C07 -- all backends agree on the wire format.  Proved for all inputs: the one
    algorithm every backend re-implements by hand -- cutting the field list into
    bit-field groups at byte boundaries with running bit offsets -- is the SAME function
    in the Rust, Python and C++ generators (shift/chunk accumulation) and in Java's
    ByteAligner (for positive widths and groups of at most 64 bits, its only panic), and
    equals the reference grouping, whose groups are byte multiples with offsets equal to
    the running sums and partition the field list in order.  Agreement of the bytes and
    of the parsed values is then decided per run by feeding identical values and byte
    strings to the four harnesses and comparing them through the reference
    (correspondence): `_partial` marks what is not lifted to whole codecs. *)
From Coq Require Import NArith List Bool.
From PDL Require Import Base.Bits Backends.Chunkers.
Import ListNotations.
Open Scope N_scope.

Theorem C07_rust_python_cxx_chunking_is_reference_partial :
  forall ws cur off,
    rust_chunker ws cur off = ref_groups ws cur off
    /\ python_chunker ws cur off = ref_groups ws cur off
    /\ cxx_chunker ws cur off = ref_groups ws cur off.
Proof. intros. repeat split; apply shift_chunker_is_reference. Qed.
Print Assumptions C07_rust_python_cxx_chunking_is_reference_partial.

Theorem C07_java_chunking_is_reference_partial :
  forall ws cur off,
    Forall (fun w => 0 < w) ws ->
    groups_within 64 ws off = true ->
    java_aligner ws cur off = Some (ref_groups ws cur off).
Proof. exact java_aligner_is_reference. Qed.
Print Assumptions C07_java_chunking_is_reference_partial.

Theorem C07_groups_are_byte_multiples_with_running_offsets_partial :
  forall ws gs pend,
    ref_groups ws [] 0 = (gs, pend) ->
    Forall (fun g => offsets_ok g 0 = true /\ group_width g mod 8 = 0) gs
    /\ offsets_ok pend 0 = true.
Proof. intros ws gs pend H. apply (ref_groups_wellformed ws [] 0 gs pend eq_refl eq_refl H). Qed.
Print Assumptions C07_groups_are_byte_multiples_with_running_offsets_partial.

Theorem C07_grouping_partitions_the_fields_in_order_partial :
  forall ws gs pend,
    ref_groups ws [] 0 = (gs, pend) ->
    map snd (List.concat gs ++ pend) = ws.
Proof. intros ws gs pend H. apply (ref_groups_partition ws [] 0 gs pend H). Qed.
Print Assumptions C07_grouping_partitions_the_fields_in_order_partial.

Example C07_coffee : ref_groups [1; 15; 3; 5] [] 0 = ([[(0, 1); (1, 15)]; [(0, 3); (3, 5)]], []).
Proof. reflexivity. Qed.
