(** C03 -- the Rust encoder emits exactly the reference wire format.
    Proved for all inputs: the bit-field group kernel.  For ANY list of fields (value,
    declared width, Rust type width) with in-range values and a total of at most the
    chunk width (<= 64): what [pack_bit_fields] ORs together out of casts and shifts and
    [put_uint] writes is the LSB-first sum of the group written in the file's byte
    order -- the group encoding of doc/reference.md.  The lift over the field list of
    whole declarations (arrays, sizes, structs, inheritance) is established by the
    correspondence check, not yet by a closed theorem: hence `_partial`. *)
From Coq Require Import NArith List String Bool.
From Coq Require Import Strings.Byte.
From PDL Require Import Base.Bits Base.Outcome Lang.Ast Lang.Sexp Analyzer.Schema Sem.RefEncode Rust.Encode Proofs.Pack Proofs.BitfieldEncode Proofs.SchemaEnums Proofs.ArrayEncode Proofs.OptionalEncode.
Import ListNotations.
Open Scope N_scope.

Theorem C03_pack_is_lsb_first_sum_partial :
  forall (fs : list (N * N * N)) (sh cw : N),
    Forall entry_ok fs ->
    sh + group_bits (strip fs) <= cw ->
    pack_value cw (pending_of fs sh) = group_sum (strip fs) sh.
Proof. exact pack_value_sum. Qed.
Print Assumptions C03_pack_is_lsb_first_sum_partial.

Theorem C03_group_bytes_are_reference_partial :
  forall (fl : file) (fs : list (N * N * N)) (cw : N),
    Forall entry_ok fs ->
    group_bits (strip fs) <= cw ->
    put_chunk fl (group_bits (strip fs)) (pack_value cw (pending_of fs 0)) =
    bytes_E (f_endian fl) (nbytes (group_bits (strip fs))) (group_sum (strip fs) 0).
Proof. exact put_chunk_group. Qed.
Print Assumptions C03_group_bytes_are_reference_partial.

(** Whole declarations of the bit-field fragment (root packets / structs whose fields are
    scalars, enum typedefs, fixed fields and reserved bits in ANY composition and order),
    every value, both byte orders, every fuel: whenever the reference has an encoding,
    the emitted encoder returns exactly those bytes -- or pdlc refused to generate the
    declaration at all (a group wider than 64 bits: the generator panic, C10's
    business).  It never returns other bytes and never an EncodeError. *)
Theorem C03_bitfield_declarations_encode_as_reference :
  forall (fuel : nat) (fl : file) (sch : schema) (id : string) (d : decl) (v : value) (bs : list byte),
    schema_knows_enums fl sch ->
    lookup_decl fl id = Some d ->
    root_of_fragment fl d ->
    ref_encode (S fuel) fl id v = Some bs ->
    match rust_encode (S fuel) fl sch id v with
    | Ok out => out = bs
    | Panic GenAssert => True
    | _ => False
    end.
Proof. exact rust_encode_fragment. Qed.
Print Assumptions C03_bitfield_declarations_encode_as_reference.

(** The same with NOTHING assumed about the schema: [sch] is the one the model of
    [Schema::new] computes for the file (Proofs/SchemaEnums.v: [mk_schema] records every
    enum with its width, whatever the order and even with duplicate identifiers). *)
Theorem C03_bitfield_declarations_encode_as_reference_real_schema :
  forall (fuel : nat) (fl : file) (sch : schema) (id : string) (d : decl) (v : value) (bs : list byte),
    enum_widths_fit fl = true -> Analyzer.Schema.mk_schema fl = Some sch ->
    lookup_decl fl id = Some d ->
    root_of_fragment fl d ->
    ref_encode (S fuel) fl id v = Some bs ->
    match rust_encode (S fuel) fl sch id v with
    | Ok out => out = bs
    | Panic GenAssert => True
    | _ => False
    end.
Proof. exact rust_encode_fragment_real_schema. Qed.
Print Assumptions C03_bitfield_declarations_encode_as_reference_real_schema.

(** SIZE AND COUNT FIELDS AND ARRAYS (Proofs/ArrayEncode.v).  Root declarations whose fields
    are bit-fields, `_count_` fields, `_size_` fields of arrays (narrower than 64 bits, array
    without size modifier), arrays of scalar or enum elements with a static count, a size or a
    count field or none, and `_padding_`: whenever the reference has an encoding, the emitted
    encoder returns exactly those bytes -- the size field carries the octet size, the count
    field the element count, the padding is zero -- or pdlc refused the declaration. *)
Theorem C03_sizes_counts_and_arrays_encode_as_reference :
  forall (fuel : nat) (fl : file) (sch : schema) (id : string) (d : decl) (v : value) (bs : list byte),
    enum_widths_fit fl = true -> Analyzer.Schema.mk_schema fl = Some sch ->
    lookup_decl fl id = Some d ->
    root_of_array_fragment fl d ->
    ref_encode (S fuel) fl id v = Some bs ->
    match rust_encode (S fuel) fl sch id v with
    | Ok out => out = bs
    | Panic GenAssert => True
    | _ => False
    end.
Proof. exact rust_encode_array_fragment_real_schema. Qed.
Print Assumptions C03_sizes_counts_and_arrays_encode_as_reference.

(** The side condition "array without size modifier" is there because the full statement is
    FALSE of the faithful model: for `packet M { _size_(x):8, x:8[+2] }` and x = [1, 2] the
    reference writes the size 04 (octet size plus modifier), the emitted Rust encoder 02
    (encoder.rs: "TODO: size modifier"; the Python and C++ backends do add it).  Listed
    finding F63; this is the witness. *)
Theorem C03_array_size_modifier_refuted :
  exists sch, Analyzer.Schema.mk_schema mod_file = Some sch /\
    ref_encode 5 mod_file "M" (VObj [("x", VList [VNum 1; VNum 2])]) = Some [x04; x01; x02] /\
    rust_encode 5 mod_file sch "M" (VObj [("x", VList [VNum 1; VNum 2])]) = Outcome.Ok [x02; x01; x02].
Proof. exact size_modifier_counter_example. Qed.
Print Assumptions C03_array_size_modifier_refuted.

(** OPTIONAL FIELDS AND THEIR FLAGS (Proofs/OptionalEncode.v): root declarations of
    bit-fields, condition flags and optional scalar / enum fields.  Whenever the reference has
    an encoding -- which forces the presence pattern to be consistent and the condition values
    to be 0 or 1 -- the emitted encoder returns exactly the reference bytes: the flag takes
    the condition value iff the field is present, whichever of several fields sharing the
    flag is looked at, and an absent field contributes nothing. *)
Theorem C03_flags_and_optional_fields_encode_as_reference :
  forall (fuel : nat) (fl : file) (sch : schema) (id : string) (d : decl) (v : value) (bs : list byte),
    schema_knows_enums fl sch ->
    lookup_decl fl id = Some d ->
    root_of_optional_fragment fl d ->
    ref_encode (S fuel) fl id v = Some bs ->
    match rust_encode (S fuel) fl sch id v with
    | Ok out => out = bs
    | Panic GenAssert => True
    | _ => False
    end.
Proof. exact rust_encode_optional. Qed.
Print Assumptions C03_flags_and_optional_fields_encode_as_reference.

(** the model and the reference agree on a concrete mixed declaration (computed) *)
Definition c03_file : file :=
  mkFile BigEndian
    [DEnum "E" [TagValue "A" 1; TagValue "B" 2] 3;
     DPacket "P" [] [mkField (Scalar "a" 5) None; mkField (Typedef "e" "E") None;
                     mkField (Size "x" 4) None; mkField (Reserved 4) None;
                     mkField (Array "x" (Some 16) None None None) None] None].
Definition c03_value : value := VObj [("a", VNum 21); ("e", VNum 2); ("x", VList [VNum 258; VNum 772])].

Example C03_agree_on_example :
  exists sch, Analyzer.Schema.mk_schema c03_file = Some sch /\
  rust_encode 5 c03_file sch "P" c03_value = Outcome.Ok [x55; x04; x01; x02; x03; x04] /\
  ref_encode 5 c03_file "P" c03_value = Some [x55; x04; x01; x02; x03; x04].
Proof. eexists. split; [reflexivity|]. split; reflexivity. Qed.
