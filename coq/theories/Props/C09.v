(** C09 -- acceptance does not depend on presentation.  Proved: every lookup of a
    declaration by identifier -- the only way the analyzer and the backends reach
    another declaration -- is independent of the order of the declarations as soon as
    identifiers are distinct (which Scope::new enforces, C08), for any two
    permutations of the same declarations.  Verdict, code set, analyzed declarations
    under permutations, and group inlining vs. inlined text (incl. generated code) are
    decided per run on the implementation: `_partial`. *)
From Coq Require Import NArith List String Bool Permutation.
From PDL Require Import Base.Bits Lang.Ast Lang.Sexp Analyzer.Passes Proofs.AnalyzerSound Proofs.OrderIndep.
Import ListNotations.

Theorem C09_lookups_do_not_depend_on_declaration_order_partial :
  forall e e' ds ds' id,
    NoDup (decl_id_list ds) -> Permutation ds ds' ->
    lookup_decl (mkFile e ds) id = lookup_decl (mkFile e' ds') id.
Proof. exact lookup_decl_order_independent. Qed.
Print Assumptions C09_lookups_do_not_depend_on_declaration_order_partial.

Theorem C09_distinct_identifiers_is_what_scope_new_checks_partial :
  forall file, scope_new file = [] <-> NoDup (decl_id_list (f_decls file)).
Proof. exact scope_new_nodup. Qed.
Print Assumptions C09_distinct_identifiers_is_what_scope_new_checks_partial.
