(** C17 -- endianness duality. On the reference semantics, for EVERY file, type and
    value: the twin description (endianness flipped) has the same segments; its bytes
    are the little-endian bytes with the bytes of each integer segment -- bit-field
    group, multi-byte array element, optional scalar/enum, sized custom field,
    recursively through structs -- reversed, and raw segments (byte payloads, padding)
    unchanged; lengths agree.  The Rust/Python/C++ encoders are tied to the reference
    by the C03 / C13 / C14 correspondence and the twin comparison of this check. *)
From Coq Require Import NArith List String Bool.
From Coq Require Import Strings.Byte.
From PDL Require Import Base.Bits Lang.Ast Lang.Sexp Sem.RefEncode Proofs.Duality.
Import ListNotations.

Theorem C17_segments_independent_of_endianness :
  forall fuel fl id v, ref_segments fuel (flip fl) id v = ref_segments fuel fl id v.
Proof. exact segments_flip. Qed.
Print Assumptions C17_segments_independent_of_endianness.

Theorem C17_ref_duality :
  forall fuel fl id v ss,
    f_endian fl = LittleEndian ->
    ref_segments fuel fl id v = Some ss ->
    ref_encode fuel fl id v = Some (List.concat (map fst ss))
    /\ ref_encode fuel (flip fl) id v = Some (swap_segments ss).
Proof. exact ref_duality. Qed.
Print Assumptions C17_ref_duality.

Theorem C17_same_length :
  forall fuel fl id v,
    option_map (@List.length byte) (ref_encode fuel fl id v) =
    option_map (@List.length byte) (ref_encode fuel (flip fl) id v).
Proof. exact ref_duality_length. Qed.
Print Assumptions C17_same_length.

(** Non-vacuity: the reference manual's Coffee packet, a=1 b=0x1234 c=5 d=0x1f. *)
Definition coffee_file : file :=
  mkFile LittleEndian
    [DPacket "Coffee" [] [mkField (Scalar "a" 1) None; mkField (Scalar "b" 15) None;
                          mkField (Scalar "c" 3) None; mkField (Scalar "d" 5) None] None].
Definition coffee_value : value :=
  VObj [("a", VNum 1); ("b", VNum 4660); ("c", VNum 5); ("d", VNum 31)].

Example C17_coffee :
  ref_encode 5 coffee_file "Coffee" coffee_value = Some [x69; x24; xfd]
  /\ ref_encode 5 (flip coffee_file) "Coffee" coffee_value = Some [x24; x69; xfd].
Proof. split; reflexivity. Qed.
