(** Size lattice and [Schema::new] (analyzer.rs 24-115, 359-554).
    Declarations are annotated in file order into a map; looking up a declaration
    that has not been annotated yet, or a [usize] overflow in a debug build, is a
    panic in the real code and [None] here. *)
From Coq Require Import NArith List String Bool.
From PDL Require Import Base.Bits Lang.Ast Lang.Sexp.
Import ListNotations.
Open Scope string_scope.
Open Scope N_scope.

Inductive size := SStatic (n : N) | SDynamic | SUnknown.

Definition usize_max : N := 18446744073709551615.
Definition fits_usize (n : N) : bool := n <=? usize_max.

(** [impl Add for Size]; [None] on usize overflow. *)
Definition size_add (a b : size) : option size :=
  match a, b with
  | SUnknown, _ | _, SUnknown => Some SUnknown
  | SDynamic, _ | _, SDynamic => Some SDynamic
  | SStatic x, SStatic y => if fits_usize (x + y) then Some (SStatic (x + y)) else None
  end.

(** [impl Mul<usize> for Size] *)
Definition size_mul_n (a : size) (n : N) : option size :=
  match a with
  | SUnknown => Some SUnknown
  | SDynamic => Some SDynamic
  | SStatic x => if fits_usize (x * n) then Some (SStatic (x * n)) else None
  end.

Definition size_static (s : size) : option N :=
  match s with SStatic n => Some n | _ => None end.

Record dsizes := mkDs { ds_decl : size; ds_parent : size; ds_payload : size }.

Definition schema := list (string * dsizes).

Definition ds_total (d : dsizes) : option size :=
  match size_add (ds_decl d) (ds_parent d) with
  | Some s => size_add s (ds_payload d)
  | None => None
  end.

Definition has_payload_size (d : decl) : bool :=
  existsb is_payload_size_field (decl_fields d).

Definition has_array_size (d : decl) (id : string) : bool :=
  existsb (fun f => match f_desc f with
                    | Size fid _ | Count fid _ => String.eqb fid id
                    | _ => false end) (decl_fields d).

(** [schema.total_size(scope[type_id])] with both panics ([scope.get(..).unwrap()] when
    the identifier is not declared at all, map indexing when not annotated yet). *)
Definition type_total (sch : schema) (tid : string) : option size :=
  match assoc tid sch with
  | Some ds => ds_total ds
  | None => None
  end.

(** [annotate_field] *)
Definition field_size (sch : schema) (d : decl) (f : field) : option size :=
  match f_cond f with
  | Some _ => Some SDynamic
  | None =>
      match f_desc f with
      | Checksum _ | Padding _ => Some (SStatic 0)
      | Size _ w | Count _ w | ElementSize _ w | FixedScalar w _ | Reserved w | Scalar _ w =>
          Some (SStatic w)
      | Flag _ _ => Some (SStatic 1)
      | Body | Payload _ => Some (if has_payload_size d then SDynamic else SUnknown)
      | Typedef _ tid | FixedEnum tid _ | Group tid _ => type_total sch tid
      | Array _ (Some w) _ _ (Some s) =>
          if fits_usize (s * w) then Some (SStatic (s * w)) else None
      | Array _ None (Some tid) _ (Some s) =>
          match type_total sch tid with
          | Some t => size_mul_n t s
          | None => None
          end
      | Array id _ _ _ None => Some (if has_array_size d id then SDynamic else SUnknown)
      | Array _ None None _ (Some _) => None   (* unreachable!() *)
      end
  end.

(** [padded_size]: the declared padding (in bits) when the NEXT field is a padding field. *)
Fixpoint padded_sizes (fs : list field) : list (option N) :=
  match fs with
  | [] => []
  | f :: rest =>
      (match rest with
       | g :: _ => match f_desc g with Padding n => Some (8 * n) | _ => None end
       | [] => None
       end) :: padded_sizes rest
  end.

Definition next_padding (rest : list field) : option N :=
  match rest with
  | g :: _ => match f_desc g with Padding n => Some (8 * n) | _ => None end
  | [] => None
  end.

(** Sum over the fields: (decl_size, payload_size). *)
Fixpoint annotate_fields (sch : schema) (d : decl) (fs : list field) (acc_decl acc_payload : size)
  : option (size * size) :=
  match fs with
  | [] => Some (acc_decl, acc_payload)
  | f :: rest =>
      match field_size sch d f with
      | None => None
      | Some fsz =>
          if is_payload f then annotate_fields sch d rest acc_decl fsz
          else
            let contrib := match next_padding rest with
                           | Some p => SStatic p
                           | None => fsz
                           end in
            (* 8 * size overflow *)
            if match next_padding rest with Some p => fits_usize p | None => true end then
              match size_add acc_decl contrib with
              | Some a => annotate_fields sch d rest a acc_payload
              | None => None
              end
            else None
      end
  end.

(** [annotate_decl] *)
Definition annotate_decl (sch : schema) (d : decl) : option dsizes :=
  let parent_size :=
    match decl_parent_id d with
    | Some p =>
        match assoc p sch with
        | Some ds => size_add (ds_decl ds) (ds_parent ds)
        | None =>
            (* scope.get(parent_id) is None -> Static(0); declared but not yet
               annotated -> index panic.  The caller passes only declared ids that
               resolve, see [mk_schema]. *)
            Some (SStatic 0)
        end
    | None => Some (SStatic 0)
    end in
  match parent_size with
  | None => None
  | Some ps =>
      match annotate_fields sch d (decl_fields d) (SStatic 0) (SStatic 0) with
      | None => None
      | Some (dsz, psz) =>
          match d with
          | DPacket _ _ _ _ | DStruct _ _ _ _ | DGroup _ _ => Some (mkDs dsz ps psz)
          | DEnum _ _ w | DChecksum _ _ w | DCustomField _ (Some w) _ =>
              Some (mkDs (SStatic w) ps (SStatic 0))
          | DCustomField _ None _ => Some (mkDs SDynamic ps (SStatic 0))
          | DTest _ => Some (mkDs (SStatic 0) ps (SStatic 0))
          end
      end
  end.

Fixpoint mk_schema_go (ds : list decl) (all_ids : list string) (sch : schema) : option schema :=
  match ds with
  | [] => Some sch
  | d :: rest =>
      (* a parent that is declared somewhere but not annotated yet: index panic *)
      let parent_ok :=
        match decl_parent_id d with
        | Some p => match assoc p sch with
                    | Some _ => true
                    | None => negb (existsb (String.eqb p) all_ids)
                    end
        | None => true
        end in
      if parent_ok then
        match annotate_decl sch d with
        | Some ds' =>
            match decl_id d with
            | Some id => mk_schema_go rest all_ids ((id, ds') :: sch)
            | None => mk_schema_go rest all_ids sch
            end
        | None => None
        end
      else None
  end.

Definition decl_ids (fl : file) : list string :=
  flat_map (fun d => match decl_id d with Some i => [i] | None => [] end) (f_decls fl).

Definition mk_schema (fl : file) : option schema := mk_schema_go (f_decls fl) (decl_ids fl) [].

(** [analyzer::element_size] / [analyzer::array_size] *)
Inductive elem_size := EStatic (octets : N) | EDynamic | EUnknown.
Inductive arr_size := AStaticCount (n : N) | ADynamicCount | ADynamicSize | AUnknown.

Definition element_size (fl : file) (sch : schema) (d : decl) (f : field) : option elem_size :=
  match f_desc f with
  | Array _ (Some w) _ _ _ => Some (EStatic (w / 8))
  | Array id None (Some tid) _ _ =>
      match lookup_decl fl tid with
      | None => None
      | Some _ =>
          match type_total sch tid with
          | None => None
          | Some (SStatic w) => Some (EStatic (w / 8))
          | Some _ =>
              match decl_element_size d id with
              | Some _ => Some EDynamic
              | None => Some EUnknown
              end
          end
      end
  | _ => Some EUnknown
  end.

Definition array_size (d : decl) (f : field) : arr_size :=
  match f_desc f with
  | Array _ _ _ _ (Some n) => AStaticCount n
  | Array id _ _ _ None =>
      match decl_array_size d id with
      | Some g => match f_desc g with
                  | Count _ _ => ADynamicCount
                  | Size _ _ => ADynamicSize
                  | _ => AUnknown
                  end
      | None => AUnknown
      end
  | _ => AUnknown
  end.
