(** [inline_groups] and [desugar_flags] (analyzer.rs 1767-1895). *)
From Coq Require Import NArith List String Bool.
From PDL Require Import Base.Bits Lang.Ast Lang.Sexp.
Import ListNotations.
Open Scope string_scope.
Open Scope N_scope.

(** ** desugar_flags *)

(** For one condition identifier, the (optional field id, condition value) pairs in
    field order.  [cond.value.unwrap()] / [field.id().unwrap()] are panics, [None] here. *)
Fixpoint flag_uses (cid : string) (fs : list field) : option (list (string * N)) :=
  match fs with
  | [] => Some []
  | f :: rest =>
      match f_cond f with
      | Some c =>
          if String.eqb (c_id c) cid then
            match field_id f, c_value c, flag_uses cid rest with
            | Some fid, Some v, Some r => Some ((fid, v) :: r)
            | _, _, _ => None
            end
          else flag_uses cid rest
      | None => flag_uses cid rest
      end
  end.

(** Every optional field must have an id and an integer condition value, whatever
    its condition names (the first loop of [desugar_flags] unwraps all of them). *)
Definition conds_unwrap_ok (fs : list field) : bool :=
  forallb (fun f => match f_cond f with
                    | Some c => match field_id f, c_value c with
                                | Some _, Some _ => true
                                | _, _ => false
                                end
                    | None => true
                    end) fs.

Definition desugar_field (all : list field) (f : field) : option field :=
  match field_id f with
  | Some id =>
      match flag_uses id all with
      | Some [] => Some f
      | Some uses => Some (mkField (Flag id uses) (f_cond f))
      | None => None
      end
  | None => Some f
  end.

Fixpoint map_opt' {A B} (f : A -> option B) (l : list A) : option (list B) :=
  match l with
  | [] => Some []
  | x :: l' => match f x, map_opt' f l' with
               | Some y, Some r => Some (y :: r)
               | _, _ => None
               end
  end.

Definition desugar_fields (fs : list field) : option (list field) :=
  if conds_unwrap_ok fs then map_opt' (desugar_field fs) fs else None.

Definition desugar_decl (d : decl) : option decl :=
  match d with
  | DPacket id cs fs p => option_map (fun fs' => DPacket id cs fs' p) (desugar_fields fs)
  | DStruct id cs fs p => option_map (fun fs' => DStruct id cs fs' p) (desugar_fields fs)
  | DGroup id fs => option_map (DGroup id) (desugar_fields fs)
  | _ => Some d
  end.

Definition desugar_flags (fl : file) : option file :=
  option_map (mkFile (f_endian fl)) (map_opt' desugar_decl (f_decls fl)).

(** ** inline_groups *)

Definition lookup_group (fl : file) (gid : string) : option decl :=
  find (fun d => match d with DGroup id _ => String.eqb id gid | _ => false end)
       (rev (f_decls fl)).

(** Constraint environment: later bindings shadow earlier ones ([HashMap::extend]). *)
Definition cenv := list (string * constr).

Definition cenv_extend (env : cenv) (cs : list constr) : cenv :=
  (rev (map (fun c => (c_id c, c)) cs) ++ env)%list.

(** [inline_fields]; fuel bounds group nesting ([check_decl_identifiers] has rejected
    cyclic groups before).  [None] = one of the [unwrap]s fails. *)
Fixpoint inline_fields (depth : nat) (fl : file) (env : cenv) (fs : list field) {struct depth}
  : option (list field) :=
  match depth with
  | O => None
  | S depth' =>
      (fix go (fs : list field) : option (list field) :=
         match fs with
         | [] => Some []
         | f :: rest =>
             let here :=
               match f_desc f with
               | Group gid gcs =>
                   match lookup_group fl gid with
                   | Some g => inline_fields depth' fl (cenv_extend env gcs) (decl_fields g)
                   | None => None
                   end
               | Scalar id w =>
                   match assoc id env with
                   | Some c => match c_value c with
                               | Some v => Some [mkField (FixedScalar w v) (f_cond f)]
                               | None => None
                               end
                   | None => Some [f]
                   end
               | Typedef id tid =>
                   match assoc id env with
                   | Some c => match c_tag c with
                               | Some t => Some [mkField (FixedEnum tid t) (f_cond f)]
                               | None => None
                               end
                   | None => Some [f]
                   end
               | _ => Some [f]
               end in
             match here, go rest with
             | Some a, Some b => Some (a ++ b)%list
             | _, _ => None
             end
         end) fs
  end.

Definition inline_fuel (fl : file) : nat := S (S (List.length (f_decls fl))).

Definition inline_decl (fl : file) (d : decl) : option (list decl) :=
  match d with
  | DPacket id cs fs p =>
      option_map (fun fs' => [DPacket id cs fs' p]) (inline_fields (inline_fuel fl) fl [] fs)
  | DStruct id cs fs p =>
      option_map (fun fs' => [DStruct id cs fs' p]) (inline_fields (inline_fuel fl) fl [] fs)
  | DGroup _ _ => Some []
  | _ => Some [d]
  end.

Definition inline_groups (fl : file) : option file :=
  option_map (fun dss => mkFile (f_endian fl) (List.concat dss)) (map_opt' (inline_decl fl) (f_decls fl)).
