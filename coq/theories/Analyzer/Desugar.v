(** [inline_groups] and [desugar_flags] (analyzer.rs 1777-1905).

    The site-aware versions ([inline_groups_r], [desugar_flags_r]) return [pres]:
    a value, or the [unwrap()] that fails, named "<line>:<function>:<expression>"
    after its line in analyzer.rs.  [inline_groups] / [desugar_flags] are the same
    functions with the site forgotten ([None] = some [unwrap()] fails). *)
From Coq Require Import NArith List String Bool.
From PDL Require Import Base.Bits Lang.Ast Lang.Sexp.
Import ListNotations.
Open Scope string_scope.
Open Scope N_scope.

(** ** Results of modelled analyzer code: a value or a panic at a named site *)

Inductive pres (A : Type) := POk (a : A) | PPanic (site : string).
Arguments POk {A} a.
Arguments PPanic {A} site.

Definition pbind {A B} (x : pres A) (f : A -> pres B) : pres B :=
  match x with
  | POk a => f a
  | PPanic s => PPanic s
  end.

Notation "'let!' x ':=' e 'in' f" := (pbind e (fun x => f))
  (at level 200, x pattern, e at level 100, f at level 200, right associativity).

Definition pres_option {A} (r : pres A) : option A :=
  match r with POk a => Some a | PPanic _ => None end.

(** Left-to-right map: the first panic (in list order) wins. *)
Fixpoint pmap {A B} (f : A -> pres B) (l : list A) : pres (list B) :=
  match l with
  | [] => POk []
  | x :: l' =>
      let! y := f x in
      let! r := pmap f l' in
      POk (y :: r)
  end.

(** ** desugar_flags (1874-1905) *)

(** The first loop (1881-1889): for every optional field, in field order, the triple
    (condition id, (field id, condition value)).  [field.id().unwrap()] and
    [cond.value.unwrap()] sit on the same line. *)
Fixpoint condition_ids (fs : list field) : pres (list (string * (string * N))) :=
  match fs with
  | [] => POk []
  | f :: rest =>
      match f_cond f with
      | None => condition_ids rest
      | Some c =>
          match field_id f with
          | None => PPanic "1887:desugar_flags:field.id().unwrap()"
          | Some fid =>
              match c_value c with
              | None => PPanic "1887:desugar_flags:cond.value.unwrap()"
              | Some v =>
                  let! r := condition_ids rest in
                  POk ((c_id c, (fid, v)) :: r)
              end
          end
      end
  end.

(** [condition_ids.get(id)]: the uses of [id] as a condition, in field order
    ([[]] = the map has no entry). *)
Definition optional_field_ids (cids : list (string * (string * N))) (id : string)
  : list (string * N) :=
  map snd (filter (fun p => String.eqb (fst p) id) cids).

(** The second loop (1891-1900): ANY field whose identifier is used as a condition
    becomes a flag (its own condition is kept). *)
Definition desugar_field (cids : list (string * (string * N))) (f : field) : field :=
  match field_id f with
  | Some id =>
      match optional_field_ids cids id with
      | [] => f
      | uses => mkField (Flag id uses) (f_cond f)
      end
  | None => f
  end.

Definition desugar_fields (fs : list field) : pres (list field) :=
  let! cids := condition_ids fs in
  POk (map (desugar_field cids) fs).

Definition desugar_decl (d : decl) : pres decl :=
  match d with
  | DPacket id cs fs p => let! fs' := desugar_fields fs in POk (DPacket id cs fs' p)
  | DStruct id cs fs p => let! fs' := desugar_fields fs in POk (DStruct id cs fs' p)
  | DGroup id fs => let! fs' := desugar_fields fs in POk (DGroup id fs')
  | _ => POk d
  end.

Definition desugar_flags_r (fl : file) : pres file :=
  let! ds := pmap desugar_decl (f_decls fl) in
  POk (mkFile (f_endian fl) ds).

Definition desugar_flags (fl : file) : option file := pres_option (desugar_flags_r fl).

(** ** inline_groups (1778-1870) *)

(** [groups.get(group_id)]: the map is collected from the group declarations in file
    order, later ones replacing earlier ones. *)
Definition lookup_group (fl : file) (gid : string) : option decl :=
  find (fun d => match d with DGroup id _ => String.eqb id gid | _ => false end)
       (rev (f_decls fl)).

(** Constraint environment: later bindings shadow earlier ones ([HashMap::extend]). *)
Definition cenv := list (string * constr).

Definition cenv_extend (env : cenv) (cs : list constr) : cenv :=
  (rev (map (fun c => (c_id c, c)) cs) ++ env)%list.

(** [inline_fields] (1779-1823); fuel bounds group nesting ([check_decl_identifiers]
    has rejected cyclic groups before).  The [flat_map] is lazy and the result is
    collected in order, so the first failing [unwrap] in field order is the panic. *)
Fixpoint inline_fields_r (depth : nat) (fl : file) (env : cenv) (fs : list field) {struct depth}
  : pres (list field) :=
  match depth with
  | O => PPanic "1793:inline_fields:fuel (cyclic groups)"
  | S depth' =>
      (fix go (fs : list field) : pres (list field) :=
         match fs with
         | [] => POk []
         | f :: rest =>
             let! here :=
               match f_desc f with
               | Group gid gcs =>
                   match lookup_group fl gid with
                   | Some g => inline_fields_r depth' fl (cenv_extend env gcs) (decl_fields g)
                   | None => PPanic "1793:inline_fields:groups.get(group_id).unwrap()"
                   end
               | Scalar id w =>
                   match assoc id env with
                   | Some c => match c_value c with
                               | Some v => POk [mkField (FixedScalar w v) (f_cond f)]
                               | None => PPanic "1799:inline_fields:constraints.get(id).unwrap().value.unwrap()"
                               end
                   | None => POk [f]
                   end
               | Typedef id tid =>
                   match assoc id env with
                   | Some c => match c_tag c with
                               | Some t => POk [mkField (FixedEnum tid t) (f_cond f)]
                               | None => PPanic "1813:inline_fields:constraint.tag_id.unwrap()"
                               end
                   | None => POk [f]
                   end
               | _ => POk [f]
               end in
             let! r := go rest in
             POk (here ++ r)%list
         end) fs
  end.

Definition inline_fuel (fl : file) : nat := S (S (List.length (f_decls fl))).

Definition inline_decl (fl : file) (d : decl) : pres (list decl) :=
  match d with
  | DPacket id cs fs p =>
      let! fs' := inline_fields_r (inline_fuel fl) fl [] fs in POk [DPacket id cs fs' p]
  | DStruct id cs fs p =>
      let! fs' := inline_fields_r (inline_fuel fl) fl [] fs in POk [DStruct id cs fs' p]
  | DGroup _ _ => POk []
  | _ => POk [d]
  end.

Definition inline_groups_r (fl : file) : pres file :=
  let! dss := pmap (inline_decl fl) (f_decls fl) in
  POk (mkFile (f_endian fl) (List.concat dss)).

Definition inline_groups (fl : file) : option file := pres_option (inline_groups_r fl).
