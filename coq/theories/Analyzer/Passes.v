(** The check passes of pdl's semantic analyzer (pdl-compiler/src/analyzer.rs),
    one Coq function per Rust function, same names, Rust line ranges in the comments.
    Line numbers are those of /repo at commit 26c71c0 ("fix: analyzer panics when a
    fixed enum field refers to an enum declared later in the file"); the differential
    tester re-locates every panic site in the current source by its text, so later
    shifts of the file do not invalidate the comparison.

    A pass returns the list of diagnostic CODES it emits, in emission order ([diags];
    [E11] is [11]).  Passes that contain a reachable [unwrap()], map index,
    [unreachable!()] or checked [usize] arithmetic return [pres diags]: [PPanic site]
    models the panic of the debug build, [site] = "<line>:<function>:<expression>".

    The [Scope] of the Rust code is a hash map from identifiers to declarations built
    from the file ([Scope::new]); here the scope IS the file and [scope.typedef.get(id)]
    is [lookup_decl file id] (the last declaration with that identifier, like the map).
    All other hash maps are association lists / lists of keys: only membership and
    "insert returns the previous value" are ever observed.  No pass iterates a map. *)
From Coq Require Import NArith List String Bool.
From PDL Require Import Base.Bits Lang.Ast Lang.Sexp Analyzer.Schema Analyzer.Desugar.
Import ListNotations.
Open Scope string_scope.
Open Scope N_scope.
Open Scope list_scope.

Definition diags := list N.

Definition mem (s : string) (l : list string) : bool := existsb (String.eqb s) l.
Definition memN (n : N) (l : list N) : bool := existsb (N.eqb n) l.

Definition id_is (f : field) (id : string) : bool :=
  match field_id f with Some i => String.eqb i id | None => false end.

(** Run [f] over a list, left to right, concatenating the diagnostics; a panic aborts. *)
Fixpoint pconcat_map {A} (f : A -> pres diags) (l : list A) : pres diags :=
  match l with
  | [] => POk []
  | x :: l' =>
      let! a := f x in
      let! b := pconcat_map f l' in
      POk (a ++ b)
  end.

(** [bit_width] (557-559): [usize::BITS - value.leading_zeros()]. *)
Definition bit_width (value : N) : N := N.size value.

(** [scalar_max] (562-564) *)
Definition scalar_max (width : N) : N :=
  if 64 <=? width then usize_max else 2 ^ width - 1.

(** ** Scope::new (240-268): E1 for every declaration whose identifier was inserted before *)
Fixpoint scope_new_go (ds : list decl) (seen : list string) : diags :=
  match ds with
  | [] => []
  | d :: rest =>
      match decl_id d with
      | Some id => ((if mem id seen then [1] else []) ++ scope_new_go rest (id :: seen))
      | None => scope_new_go rest seen
      end
  end.

Definition scope_new (file : file) : diags := scope_new_go (f_decls file) [].

(** ** check_decl_identifiers (580-768) *)

Inductive mark := Temporary | Permanent.

Record context := mkContext {
  history : list decl;               (* in push order *)
  visited : list (string * mark);    (* most recent insert first *)
  diagnostics : diags                (* in push order *)
}.

Definition push_diag (c : context) (code : N) : context :=
  mkContext (history c) (visited c) (diagnostics c ++ [code]).

Definition set_mark (c : context) (id : string) (m : mark) : context :=
  mkContext (history c) ((id, m) :: visited c) (diagnostics c).

Definition push_history (c : context) (d : decl) : context :=
  mkContext (history c ++ [d]) (visited c) (diagnostics c).

(** Typedef fields and arrays with a constant size recurse into their type (672-675). *)
Definition recurses_into_type (d : fdesc) : bool :=
  match d with
  | Typedef _ _ => true
  | Array _ _ _ _ (Some _) => true
  | _ => false
  end.

(** [bfs] (591-727).  The recursion is not structural; every call that goes past the
    mark test turns one more identifier [Temporary], so the depth is at most the number
    of declarations plus one. *)
Fixpoint bfs (fuel : nat) (scope : file) (decl : decl) (c : context) {struct fuel} : pres context :=
  match fuel with
  | O => PPanic "591:bfs:fuel"
  | S fuel' =>
      match Ast.decl_id decl with
      | None => PPanic "597:bfs:decl.id().unwrap()"
      | Some id =>
          match assoc id (visited c) with
          | Some Permanent => POk c
          | Some Temporary => POk (push_diag c 2)
          | None =>
              let c := set_mark c id Temporary in
              (* 620-691: the fields *)
              let! c :=
                (fix fields (fs : list field) (c : context) : pres context :=
                   match fs with
                   | [] => POk c
                   | f :: rest =>
                       let! c :=
                         match f_desc f with
                         | Group group_id _ =>
                             match lookup_decl scope group_id with
                             | None => POk (push_diag c 3)
                             | Some (DGroup _ _ as group_decl) => bfs fuel' scope group_decl c
                             | Some _ => POk (push_diag c 4)
                             end
                         | Typedef _ type_id | Array _ _ (Some type_id) _ _ =>
                             match lookup_decl scope type_id with
                             | None => POk (push_diag c 5)
                             | Some (DPacket _ _ _ _) => POk (push_diag c 6)
                             | Some typedef_decl =>
                                 if recurses_into_type (f_desc f)
                                 then bfs fuel' scope typedef_decl c
                                 else POk c
                             end
                         | FixedEnum enum_id _ =>
                             (* 678-687 (fix 26c71c0): the enum of a fixed field is visited
                                before its user; anything else is left to check_fixed_fields *)
                             match lookup_decl scope enum_id with
                             | Some (DEnum _ _ _ as enum_decl) => bfs fuel' scope enum_decl c
                             | _ => POk c
                             end
                         | _ => POk c
                         end in
                       fields rest c
                   end) (decl_fields decl) c in
              (* 694-722: the parent *)
              let! c :=
                match decl with
                | DPacket _ _ _ (Some parent_id) =>
                    match lookup_decl scope parent_id with
                    | None => POk (push_diag c 7)
                    | Some (DPacket _ _ _ _ as parent_decl) => bfs fuel' scope parent_decl c
                    | Some _ => POk (push_diag c 8)
                    end
                | DStruct _ _ _ (Some parent_id) =>
                    match lookup_decl scope parent_id with
                    | None => POk (push_diag c 7)
                    | Some (DStruct _ _ _ _ as parent_decl) => bfs fuel' scope parent_decl c
                    | Some _ => POk (push_diag c 8)
                    end
                | _ => POk c   (* only packets and structs have a parent_id: 720 is dead *)
                end in
              POk (set_mark (push_history c decl) id Permanent)
          end
      end
  end.

(** 730-767.  [inl]: the diagnostics; [inr]: the file reordered (tests dropped). *)
Definition check_decl_identifiers (file : file) : pres (diags + Ast.file) :=
  let fuel := S (S (List.length (f_decls file))) in
  let! c :=
    (fix go (ds : list decl) (c : context) : pres context :=
       match ds with
       | [] => POk c
       | d :: rest =>
           let! c :=
             match d with
             | DTest type_id =>
                 match lookup_decl file type_id with
                 | None => POk (push_diag c 9)
                 | Some (DPacket _ _ _ _) => POk c
                 | Some _ => POk (push_diag c 10)
                 end
             | _ => bfs fuel file d c
             end in
           go rest c
       end) (f_decls file) (mkContext [] [] []) in
  match diagnostics c with
  | [] => POk (inr (mkFile (f_endian file) (history c)))
  | ds => POk (inl ds)
  end.

(** Fold a per-declaration check over the file. *)
Definition per_decl (f : decl -> diags) (file : file) : diags := flat_map f (f_decls file).

(** ** check_field_identifiers (773-801) *)
Fixpoint check_field_identifiers_go (fs : list field) (local_scope : list string) : diags :=
  match fs with
  | [] => []
  | f :: rest =>
      match field_id f with
      | Some id =>
          ((if mem id local_scope then [11] else [])
             ++ check_field_identifiers_go rest (id :: local_scope))
      | None => check_field_identifiers_go rest local_scope
      end
  end.

Definition check_field_identifiers (file : file) : diags :=
  per_decl (fun d => check_field_identifiers_go (decl_fields d) []) file.

(** ** check_enum_declarations (807-1037) *)

Definition range_contains (r : N * N) (x : N) : bool := (fst r <=? x) && (x <=? snd r).

(** [ordered_range] (811-813) *)
Definition ordered_range (r : N * N) : N * N := (N.min (fst r) (snd r), N.max (fst r) (snd r)).

Record estate := mkEstate {
  tags_by_id : list string;
  tags_by_value : list N;
  tag_other : bool;
  ediags : diags
}.

Definition epush (st : estate) (ds : diags) : estate :=
  mkEstate (tags_by_id st) (tags_by_value st) (tag_other st) (ediags st ++ ds).

Definition insert_tag_id (st : estate) (id : string) : estate :=
  mkEstate (id :: tags_by_id st) (tags_by_value st) (tag_other st)
           (ediags st ++ (if mem id (tags_by_id st) then [12] else [])).

(** [check_tag_value] (815-876) *)
Definition check_tag_value (id : string) (value : N) (range : N * N)
           (reserved_ranges : list (N * N)) (st : estate) : estate :=
  let st := insert_tag_id st id in
  let st := mkEstate (tags_by_id st) (value :: tags_by_value st) (tag_other st)
                     (ediags st ++ (if memN value (tags_by_value st) then [13] else [])) in
  let st := epush st (if range_contains range value then [] else [14]) in
  epush st (flat_map (fun r => if range_contains (ordered_range r) value then [43] else [])
                     reserved_ranges).

(** [check_tag_range] (878-928) *)
Definition check_tag_range (id : string) (tag_range : N * N) (tags : list (string * N))
           (range : N * N) (st : estate) : estate :=
  let st := insert_tag_id st id in
  let st := epush st (if negb (range_contains range (fst tag_range))
                         || negb (range_contains range (snd tag_range)) then [40] else []) in
  let st := epush st (if snd tag_range <=? fst tag_range then [40] else []) in
  fold_left (fun st t => check_tag_value (fst t) (snd t) (ordered_range tag_range) [] st) tags st.

(** [check_tag_other] (930-961) *)
Definition check_tag_other (id : string) (st : estate) : estate :=
  let st := insert_tag_id st id in
  mkEstate (tags_by_id st) (tags_by_value st) true
           (ediags st ++ (if tag_other st then [44] else [])).

(** Lexicographic order on (start, end) pairs, as [cmp] on tuples. *)
Definition range_leb (a b : N * N) : bool :=
  (fst a <? fst b) || ((fst a =? fst b) && (snd a <=? snd b)).

(** Stable insertion sort ([sort_by] is stable): [x] goes after the elements <= it. *)
Fixpoint insert_range (x : N * N) (l : list (N * N)) : list (N * N) :=
  match l with
  | [] => [x]
  | y :: l' => if range_leb y x then y :: insert_range x l' else x :: l
  end.

Definition sort_ranges (l : list (N * N)) : list (N * N) :=
  fold_left (fun acc x => insert_range x acc) l [].

(** [windows(2)] of the sorted ranges (1008-1032) *)
Fixpoint check_overlaps (l : list (N * N)) : diags :=
  match l with
  | l_tag :: ((r_tag :: _) as rest) =>
      ((if negb ((snd l_tag <? fst r_tag) || (snd r_tag <? fst l_tag)) then [41] else [])
         ++ check_overlaps rest)
  | _ => []
  end.

Definition check_enum_declaration (d : decl) : diags :=
  match d with
  | DEnum _ tags width =>
      let tags_by_range :=
        flat_map (fun t => match t with TagRange _ lo hi _ => [(lo, hi)] | _ => [] end) tags in
      let range := (0, scalar_max width) in
      let st :=
        fold_left (fun st t =>
                     match t with
                     | TagValue id v => check_tag_value id v range tags_by_range st
                     | TagRange id lo hi inner => check_tag_range id (lo, hi) inner range st
                     | TagOther id => check_tag_other id st
                     end) tags (mkEstate [] [] false []) in
      (ediags st ++ check_overlaps (sort_ranges (map ordered_range tags_by_range)))
  | _ => []
  end.

Definition check_enum_declarations (file : file) : diags := per_decl check_enum_declaration file.

(** ** check_size_fields (1275-1395) *)

(** The field a [_size_(field_id)] designates (1313-1317) *)
Definition find_size_target (d : decl) (fid : string) : option field :=
  find (fun f => match f_desc f with
                 | Payload _ => String.eqb fid "_payload_"
                 | Body => String.eqb fid "_body_"
                 | _ => id_is f fid
                 end) (decl_fields d).

Definition is_array (f : field) : bool :=
  match f_desc f with Array _ _ _ _ _ => true | _ => false end.

Fixpoint check_size_fields_go (d : decl) (fs : list field)
         (size_for_id element_size_for_id : list string) : diags :=
  match fs with
  | [] => []
  | f :: rest =>
      (* 1282-1308: duplicates *)
      let dup :=
        match f_desc f with
        | Size fid _ => if mem fid size_for_id then [23] else []
        | Count fid _ => if mem fid size_for_id then [26] else []
        | ElementSize fid _ => if mem fid element_size_for_id then [29] else []
        | _ => []
        end in
      let size_for_id' :=
        match f_desc f with
        | Size fid _ | Count fid _ => fid :: size_for_id
        | _ => size_for_id
        end in
      let element_size_for_id' :=
        match f_desc f with
        | ElementSize fid _ => fid :: element_size_for_id
        | _ => element_size_for_id
        end in
      (* 1311-1390: what the identifier names *)
      let target :=
        match f_desc f with
        | Size fid _ =>
            match find_size_target d fid with
            | None => [24]
            | Some g => if is_payload g || is_array g then [] else [25]
            end
        | Count fid _ =>
            match find (fun g => id_is g fid) (decl_fields d) with
            | None => [27]
            | Some g => if is_array g then [] else [28]
            end
        | ElementSize fid _ =>
            match find (fun g => id_is g fid) (decl_fields d) with
            | None => [30]
            | Some g => if is_array g then [] else [31]
            end
        | _ => []
        end in
      (dup ++ target ++ check_size_fields_go d rest size_for_id' element_size_for_id')
  end.

Definition check_size_fields (file : file) : diags :=
  per_decl (fun d => check_size_fields_go d (decl_fields d) [] []) file.

(** ** check_fixed_fields (1403-1458) *)
Definition check_fixed_field (scope : file) (f : field) : diags :=
  match f_desc f with
  | FixedScalar width value => if width <? bit_width value then [32] else []
  | FixedEnum enum_id tag_id =>
      match lookup_decl scope enum_id with
      | None => [33]
      | Some (DEnum _ tags _) =>
          if existsb (fun t => String.eqb (Ast.tag_id t) tag_id) tags then [] else [34]
      | Some _ => [35]
      end
  | _ => []
  end.

Definition check_fixed_fields (file : file) : diags :=
  per_decl (fun d => flat_map (check_fixed_field file) (decl_fields d)) file.

(** ** check_payload_fields (1467-1516) *)

(** [requires_payload] (1470-1472) *)
Definition requires_payload (file : file) (d : decl) : bool :=
  existsb (fun child => match decl_fields child with [] => false | _ => true end)
          (iter_children file d).

Definition check_payload_fields (file : file) : diags :=
  per_decl (fun d =>
    let payloads := filter is_payload (decl_fields d) in
    (* every payload or body field after the first one *)
    (map (fun _ => 36) (tl payloads)
       ++ (match payloads with
           | [] => if requires_payload file d then [37] else []
           | _ => []
           end))) file.

(** ** check_array_fields (1521-1550) *)
Definition check_array_fields (file : file) : diags :=
  per_decl (fun d =>
    flat_map (fun f => match f_desc f with
                       | Array id _ _ _ (Some _) => if has_array_size d id then [38] else []
                       | _ => []
                       end) (decl_fields d)) file.

(** ** check_padding_fields (1555-1574) *)
Fixpoint check_padding_fields_go (fs : list field) (previous_is_array : bool) : diags :=
  match fs with
  | [] => []
  | f :: rest =>
      match f_desc f with
      | Padding _ =>
          (* the guarded arm leaves the flag (false) alone, the fall-through clears it *)
          if previous_is_array then check_padding_fields_go rest false
          else 39 :: check_padding_fields_go rest false
      | Array _ _ _ _ _ => check_padding_fields_go rest true
      | _ => check_padding_fields_go rest false
      end
  end.

Definition check_padding_fields (file : file) : diags :=
  per_decl (fun d => check_padding_fields_go (decl_fields d) false) file.

(** ** check_checksum_fields (1581-1584): a stub *)
Definition check_checksum_fields (file : file) : diags := [].

(** ** check_optional_fields (1592-1683) *)
Fixpoint check_optional_fields_go (fs : list field) (local_scope : list (string * field))
  : pres diags :=
  match fs with
  | [] => POk []
  | f :: rest =>
      let! here :=
        match f_cond f with
        | None => POk []
        | Some cond =>
            let d1 := match f_desc f with
                      | Scalar _ _ | Typedef _ _ => []
                      | _ => [45]
                      end in
            let d2 := match assoc (c_id cond) local_scope with
                      | None => [46]
                      | Some g =>
                          match f_cond g, f_desc g with
                          | Some _, _ => [49]
                          | None, Scalar _ 1 => []
                          | None, _ => [47]
                          end
                      end in
            match c_value cond, c_tag cond with
            | _, Some _ => POk (d1 ++ d2 ++ [48])
            | Some 0, None | Some 1, None => POk (d1 ++ d2)
            | Some _, None => POk (d1 ++ d2 ++ [48])
            | None, None => PPanic "1674:check_optional_fields:unreachable!()"
            end
        end in
      let local_scope' := match field_id f with
                          | Some id => (id, f) :: local_scope
                          | None => local_scope
                          end in
      let! r := check_optional_fields_go rest local_scope' in
      POk (here ++ r)
  end.

Definition check_optional_fields (file : file) : pres diags :=
  pconcat_map (fun d => check_optional_fields_go (decl_fields d) []) (f_decls file).

(** ** check_constraint (1040-1166) *)
Definition check_constraint (constraint : constr) (decl : decl) (scope : file) : pres diags :=
  match find (fun f => id_is f (c_id constraint)) (iter_fields scope decl) with
  | None => POk [15]
  | Some field =>
      match f_desc field with
      | Array _ _ _ _ _ => POk [16]
      | Scalar _ width =>
          match c_value constraint with
          | None => POk [17]   (* the grammar gives a tag_id then: [tag_id.unwrap()] is fine *)
          | Some value => POk (if width <? bit_width value then [18] else [])
          end
      | Typedef _ type_id =>
          match lookup_decl scope type_id with
          | None => POk []
          | Some (DEnum _ tags _) =>
              match c_tag constraint with
              | None => POk [19]
              | Some tag_id =>
                  match find (fun t => String.eqb (Ast.tag_id t) tag_id) tags with
                  | None => POk [20]
                  | Some (TagRange _ _ _ _) => POk [42]
                  | Some _ => POk []
                  end
              end
          | Some _ =>
              match c_value constraint with
              | Some _ => POk [21]
              | None => PPanic "1150:check_constraint:constraint.value.unwrap()"
              end
          end
      | _ => PPanic "1164:check_constraint:unreachable!()"
      end
  end.

(** ** check_constraints_list (1169-1193) *)
Fixpoint check_constraints_list (constraints : list constr) (parent_decl : decl) (scope : file)
         (constraints_by_id : list string) : pres diags :=
  match constraints with
  | [] => POk []
  | constraint :: rest =>
      let! a := check_constraint constraint parent_decl scope in
      let b := if mem (c_id constraint) constraints_by_id then [22] else [] in
      let! r := check_constraints_list rest parent_decl scope (c_id constraint :: constraints_by_id) in
      POk (a ++ b ++ r)
  end.

(** ** check_decl_constraints (1204-1232) *)
Definition check_decl_constraints (file : file) : pres diags :=
  pconcat_map (fun decl =>
    match decl with
    | DPacket _ constraints _ (Some parent_id) | DStruct _ constraints _ (Some parent_id) =>
        match lookup_decl file parent_id with
        | None => PPanic "1211:check_decl_constraints:scope.typedef.get(parent_id).unwrap()"
        | Some parent_decl =>
            check_constraints_list constraints parent_decl file
              (map c_id (flat_map decl_constraints (iter_parents file decl)))
        end
    | _ => POk []
    end) (f_decls file).

(** ** check_group_constraints (1243-1262) *)
Definition check_group_constraints (file : file) : pres diags :=
  pconcat_map (fun decl =>
    pconcat_map (fun field =>
      match f_desc field with
      | Group group_id constraints =>
          match lookup_decl file group_id with
          | None => PPanic "1249:check_group_constraints:scope.typedef.get(group_id).unwrap()"
          | Some group_decl => check_constraints_list constraints group_decl file []
          end
      | _ => POk []
      end) (decl_fields decl)) (f_decls file).

(** ** Schema::new (362-498), with the panic sites.

    The Rust maps are keyed by declaration / field KEYS; inlined copies of a group's
    fields share their key, so [field_size] holds, for a shared key, the size computed
    for the LAST declaration that inlines the group.  The copies can only differ in
    Dynamic vs Unknown (payload / unsized array with or without a size field in the
    host declaration), which no reader distinguishes, so the model keeps one list of
    field sizes per declaration. *)

Definition p_size_add (a b : size) : pres size :=
  match size_add a b with
  | Some s => POk s
  | None => PPanic "80:Size::add:lhs + rhs"
  end.

(** [Schema::total_size] (520-522) of the declaration named [type_id]; [sch] holds the
    declarations annotated so far. *)
Definition p_total_size (sch : schema) (type_id : string) : pres size :=
  match assoc type_id sch with
  | None => PPanic "505:Schema::decl_size:self.decl_size[&key]"
  | Some ds =>
      let! s := p_size_add (ds_decl ds) (ds_parent ds) in
      p_size_add s (ds_payload ds)
  end.

(** [annotate_field] (419-476); [scope] = identifiers of all declarations of the file. *)
Definition annotate_field (sch : schema) (scope : list string) (decl : decl) (field : field)
  : pres size :=
  match f_cond field with
  | Some _ => POk SDynamic
  | None =>
      match f_desc field with
      | Checksum _ | Padding _ => POk (SStatic 0)
      | Size _ width | Count _ width | ElementSize _ width | FixedScalar width _
      | Reserved width | Scalar _ width => POk (SStatic width)
      | Flag _ _ => POk (SStatic 1)
      | Body | Payload _ => POk (if has_payload_size decl then SDynamic else SUnknown)
      | Typedef _ type_id | FixedEnum type_id _ | Group type_id _ =>
          if mem type_id scope then p_total_size sch type_id
          else PPanic "447:annotate_field:scope.get(type_id).unwrap()"
      | Array _ (Some width) _ _ (Some size) =>
          if fits_usize (size * width) then POk (SStatic (size * width))
          else PPanic "451:annotate_field:*size * *width"
      | Array _ None (Some type_id) _ (Some size) =>
          if mem type_id scope then
            let! t := p_total_size sch type_id in
            match size_mul_n t size with
            | Some s => POk s
            | None => PPanic "102:Size::mul:lhs * rhs"
            end
          else PPanic "456:annotate_field:scope.get(type_id).unwrap() (array element)"
      | Array id _ _ _ None => POk (if has_array_size decl id then SDynamic else SUnknown)
      | Array _ None None _ (Some _) => PPanic "471:annotate_field:unreachable!()"
      end
  end.

(** The field loop of [annotate_decl] (382-398): (decl_size, payload_size, field sizes). *)
Fixpoint annotate_fields (sch : schema) (scope : list string) (decl : decl) (fs : list field)
         (decl_size payload_size : size) : pres (size * size * list size) :=
  match fs with
  | [] => POk (decl_size, payload_size, [])
  | field :: rest =>
      let! field_size := annotate_field sch scope decl field in
      let! sizes :=
        if is_payload field then POk (decl_size, field_size)
        else
          let! s := p_size_add decl_size
                      (match next_padding rest with
                       | Some padding => SStatic padding
                       | None => field_size
                       end) in
          POk (s, payload_size) in
      let! r := annotate_fields sch scope decl rest (fst sizes) (snd sizes) in
      POk (fst (fst r), snd (fst r), field_size :: snd r)
  end.

(** [annotate_decl] (363-417) *)
Definition annotate_decl (sch : schema) (scope : list string) (decl : decl)
  : pres (dsizes * list size) :=
  (* 365-372: 8 * size for every padding field (in reverse, same site) *)
  if existsb (fun f => match f_desc f with
                       | Padding size => negb (fits_usize (8 * size))
                       | _ => false end) (decl_fields decl)
  then PPanic "369:annotate_decl:8 * *size"
  else
    (* 374-378 *)
    let! parent_size :=
      match decl_parent_id decl with
      | Some parent_id =>
          if mem parent_id scope then
            match assoc parent_id sch with
            | Some ds => p_size_add (ds_decl ds) (ds_parent ds)
            | None => PPanic "505:Schema::decl_size:self.decl_size[&key]"
            end
          else POk (SStatic 0)
      | None => POk (SStatic 0)
      end in
    let! r := annotate_fields sch scope decl (decl_fields decl) (SStatic 0) (SStatic 0) in
    let '(decl_size, payload_size, field_sizes) := r in
    (* 401-412 *)
    POk (match decl with
         | DPacket _ _ _ _ | DStruct _ _ _ _ | DGroup _ _ =>
             mkDs decl_size parent_size payload_size
         | DEnum _ _ width | DChecksum _ _ width | DCustomField _ (Some width) _ =>
             mkDs (SStatic width) parent_size (SStatic 0)
         | DCustomField _ None _ => mkDs SDynamic parent_size (SStatic 0)
         | DTest _ => mkDs (SStatic 0) parent_size (SStatic 0)
         end, field_sizes).

Record aschema := mkASchema {
  as_decls : schema;                 (* Schema.v's association list, last annotated first *)
  as_fields : list (list size)       (* field sizes, aligned with the declarations *)
}.

(** [Schema::new] (478-497) *)
Definition schema_new (file : file) : pres aschema :=
  let scope := decl_ids file in
  (fix go (ds : list decl) (sch : schema) : pres aschema :=
     match ds with
     | [] => POk (mkASchema sch [])
     | d :: rest =>
         let! a := annotate_decl sch scope d in
         let sch' := match decl_id d with
                     | Some id => (id, fst a) :: sch
                     | None => sch
                     end in
         let! r := go rest sch' in
         POk (mkASchema (as_decls r) (snd a :: as_fields r))
     end) (f_decls file) [].

(** ** check_field_offsets (1688-1735) *)

Definition must_be_aligned (scope : file) (f : field) : bool :=
  match f_desc f with
  | Typedef _ type_id =>
      match lookup_decl scope type_id with
      | Some (DEnum _ _ _) => false
      | _ => true
      end
  | Payload _ | Body | Array _ _ _ _ _ | Padding _ | Checksum _ => true
  | _ => false
  end.

Fixpoint check_field_offsets_go (scope : file) (fs : list field) (sizes : list size) (offset : N)
  : pres diags :=
  match fs, sizes with
  | f :: rest, sz :: sizes' =>
      let here := if must_be_aligned scope f && negb (offset mod 8 =? 0) then [51] else [] in
      let! offset' :=
        match sz with
        | SStatic size =>
            if fits_usize (offset + size) then POk (offset + size)
            else PPanic "1729:check_field_offsets:offset + size"
        | _ => POk 0
        end in
      let! r := check_field_offsets_go scope rest sizes' offset' in
      POk (here ++ r)
  | _, _ => POk []
  end.

Fixpoint pconcat_map2 {A B} (f : A -> B -> pres diags) (l : list A) (m : list B) : pres diags :=
  match l, m with
  | x :: l', y :: m' =>
      let! a := f x y in
      let! b := pconcat_map2 f l' m' in
      POk (a ++ b)
  | _, _ => POk []
  end.

Definition check_field_offsets (file : file) (schema : aschema) : pres diags :=
  pconcat_map2 (fun d sizes => check_field_offsets_go file (decl_fields d) sizes 0)
               (f_decls file) (as_fields schema).

(** ** check_decl_sizes (1742-1775) *)
Fixpoint check_decl_sizes_go (fs : list field) (sizes : list size) (static_size : N)
  : pres (diags * N) :=
  match fs, sizes with
  | f :: rest, sz :: sizes' =>
      let here := match f_desc f with
                  | Array _ (Some width) _ _ _ => if width mod 8 =? 0 then [] else [52]
                  | _ => []
                  end in
      let add := match sz with SStatic n => n | _ => 0 end in
      if fits_usize (static_size + add) then
        let! r := check_decl_sizes_go rest sizes' (static_size + add) in
        POk ((here ++ fst r), snd r)
      else PPanic "1759:check_decl_sizes:static_size += .."
  | _, _ => POk ([], static_size)
  end.

Definition check_decl_sizes (file : file) (schema : aschema) : pres diags :=
  pconcat_map2 (fun d sizes =>
                  let! r := check_decl_sizes_go (decl_fields d) sizes 0 in
                  POk (fst r ++ (if snd r mod 8 =? 0 then [] else [53])))
               (f_decls file) (as_fields schema).
