(** [analyzer::analyze] (analyzer.rs 1909-1931): the passes of Passes.v in sequence,
    stopping at the first pass that reports a diagnostic (the [?] on each call) or
    panics; and the printer of analyzed files used by the oracle. *)
From Coq Require Import NArith List String Ascii Bool.
From PDL Require Import Base.Bits Lang.Ast Lang.Sexp Analyzer.Schema Analyzer.Desugar Analyzer.Passes.
Import ListNotations.
Open Scope string_scope.
Open Scope N_scope.

Inductive aresult :=
| AOk (f : file)                 (* the analyzed file *)
| ARejected (codes : list N)     (* the diagnostics of the first failing pass, in order *)
| APanic (site : string).        (* "<line>:<function>:<expression>" in analyzer.rs *)

(** [Result<A, Diagnostics>], or a panic. *)
Inductive ares (A : Type) :=
| Accepted (a : A)
| Rejected (codes : list N)
| Panicked (site : string).
Arguments Accepted {A} a.
Arguments Rejected {A} codes.
Arguments Panicked {A} site.

Definition abind {A B} (x : ares A) (f : A -> ares B) : ares B :=
  match x with
  | Accepted a => f a
  | Rejected ds => Rejected ds
  | Panicked s => Panicked s
  end.

Notation "'let?' x ':=' e 'in' f" := (abind e (fun x => f))
  (at level 200, x pattern, e at level 100, f at level 200, right associativity).

(** [diagnostics.err_or(())] followed by [?] *)
Definition err_or (ds : diags) : ares unit :=
  match ds with [] => Accepted tt | _ => Rejected ds end.

(** The same for a pass that may panic. *)
Definition err_or_p (r : pres diags) : ares unit :=
  match r with POk ds => err_or ds | PPanic s => Panicked s end.

(** A step without diagnostics that may panic. *)
Definition no_diag {A} (r : pres A) : ares A :=
  match r with POk a => Accepted a | PPanic s => Panicked s end.

(** [analyze] (1909-1931), returning the schema as well (for cross-checks in the oracle). *)
Definition analyze_with_schema (file : file) : ares (Ast.file * aschema) :=
  let? _ := err_or (scope_new file) in                                  (* 1910 *)
  let? file :=                                                          (* 1911 *)
    match check_decl_identifiers file with
    | PPanic s => Panicked s
    | POk (inl ds) => Rejected ds
    | POk (inr file) => Accepted file
    end in
  let? _ :=                                                             (* 1912 *)
    match scope_new file with
    | [] => Accepted tt
    | _ => Panicked "1912:analyze:Scope::new(&file).unwrap()"
    end in
  let? _ := err_or (check_field_identifiers file) in                    (* 1913 *)
  let? _ := err_or (check_enum_declarations file) in                    (* 1914 *)
  let? _ := err_or (check_size_fields file) in                          (* 1915 *)
  let? _ := err_or (check_fixed_fields file) in                         (* 1916 *)
  let? _ := err_or (check_payload_fields file) in                       (* 1917 *)
  let? _ := err_or (check_array_fields file) in                         (* 1918 *)
  let? _ := err_or (check_padding_fields file) in                       (* 1919 *)
  let? _ := err_or (check_checksum_fields file) in                      (* 1920 *)
  let? _ := err_or_p (check_optional_fields file) in                    (* 1921 *)
  let? _ := err_or_p (check_group_constraints file) in                  (* 1922 *)
  let? file := no_diag (inline_groups_r file) in                        (* 1923 *)
  let? file := no_diag (desugar_flags_r file) in                        (* 1924 *)
  let? _ := err_or (scope_new file) in                                  (* 1925 *)
  let? _ := err_or_p (check_decl_constraints file) in                   (* 1926 *)
  let? schema := no_diag (schema_new file) in                           (* 1927 *)
  let? _ := err_or_p (check_field_offsets file schema) in               (* 1928 *)
  let? _ := err_or_p (check_decl_sizes file schema) in                  (* 1929 *)
  Accepted (file, schema).                                                   (* 1930 *)

Definition analyze (file : file) : aresult :=
  match analyze_with_schema file with
  | Accepted (f, _) => AOk f
  | Rejected ds => ARejected ds
  | Panicked s => APanic s
  end.

(** ** Printing: exactly the text of harness/lib/pdlast.py [to_sexp] *)

Definition opt_N_str (o : option N) : string :=
  match o with Some n => dec_of_N n | None => "-" end.

Definition opt_str_str (o : option string) : string :=
  match o with Some s => s | None => "-" end.

(** [pdlast._q] *)
Fixpoint escape (s : string) : string :=
  match s with
  | EmptyString => EmptyString
  | String c s' =>
      match c with
      | "\"%char => String "\"%char (String "\"%char (escape s'))
      | """"%char => String "\"%char (String """"%char (escape s'))
      | "010"%char => String "\"%char (String "n"%char (escape s'))
      | "009"%char => String "\"%char (String "t"%char (escape s'))
      | "013"%char => String "\"%char (String "r"%char (escape s'))
      | _ => String c (escape s')
      end
  end.

Definition sexp_of_constr (c : constr) : string :=
  "(c " ++ c_id c ++ " " ++ opt_N_str (c_value c) ++ " " ++ opt_str_str (c_tag c) ++ ")".

Definition sexp_of_fdesc (d : fdesc) : string :=
  match d with
  | Checksum fid => "(checksum_f " ++ fid ++ ")"
  | Padding n => "(padding " ++ dec_of_N n ++ ")"
  | Size fid w => "(size " ++ fid ++ " " ++ dec_of_N w ++ ")"
  | Count fid w => "(count " ++ fid ++ " " ++ dec_of_N w ++ ")"
  | ElementSize fid w => "(elementsize " ++ fid ++ " " ++ dec_of_N w ++ ")"
  | Body => "(body)"
  | Payload m => "(payload " ++ opt_N_str m ++ ")"
  | FixedScalar w v => "(fixed_s " ++ dec_of_N w ++ " " ++ dec_of_N v ++ ")"
  | FixedEnum e t => "(fixed_e " ++ e ++ " " ++ t ++ ")"
  | Reserved w => "(reserved " ++ dec_of_N w ++ ")"
  | Array id w t m s =>
      "(array " ++ id ++ " " ++ opt_N_str w ++ " " ++ opt_str_str t ++ " " ++ opt_N_str m
                ++ " " ++ opt_N_str s ++ ")"
  | Scalar id w => "(scalar " ++ id ++ " " ++ dec_of_N w ++ ")"
  | Flag id uses =>
      "(flag " ++ id ++ " ("
               ++ concat_sep " " (map (fun p => "(" ++ fst p ++ " " ++ dec_of_N (snd p) ++ ")") uses)
               ++ "))"
  | Typedef id t => "(typedef " ++ id ++ " " ++ t ++ ")"
  | Group g cs => "(group_f " ++ g ++ " (" ++ concat_sep " " (map sexp_of_constr cs) ++ "))"
  end.

Definition sexp_of_field (f : field) : string :=
  "(f " ++ sexp_of_fdesc (f_desc f) ++ " "
        ++ (match f_cond f with Some c => sexp_of_constr c | None => "-" end) ++ ")".

Definition sexp_of_tag (t : tag) : string :=
  match t with
  | TagValue id v => "(v " ++ id ++ " " ++ dec_of_N v ++ ")"
  | TagRange id lo hi tags =>
      "(r " ++ id ++ " " ++ dec_of_N lo ++ " " ++ dec_of_N hi ++ " ("
            ++ concat_sep " " (map (fun p => "(" ++ fst p ++ " " ++ dec_of_N (snd p) ++ ")") tags)
            ++ "))"
  | TagOther id => "(o " ++ id ++ ")"
  end.

Definition sexp_of_decl (d : decl) : string :=
  match d with
  | DChecksum id fn w => "(checksum " ++ id ++ " " ++ dec_of_N w ++ " " ++ quote (escape fn) ++ ")"
  | DCustomField id w fn => "(custom " ++ id ++ " " ++ opt_N_str w ++ " " ++ quote (escape fn) ++ ")"
  | DEnum id tags w =>
      "(enum " ++ id ++ " " ++ dec_of_N w ++ " (" ++ concat_sep " " (map sexp_of_tag tags) ++ "))"
  | DPacket id cs fs p =>
      "(packet " ++ id ++ " " ++ opt_str_str p ++ " (" ++ concat_sep " " (map sexp_of_constr cs)
                 ++ ") (" ++ concat_sep " " (map sexp_of_field fs) ++ "))"
  | DStruct id cs fs p =>
      "(struct " ++ id ++ " " ++ opt_str_str p ++ " (" ++ concat_sep " " (map sexp_of_constr cs)
                 ++ ") (" ++ concat_sep " " (map sexp_of_field fs) ++ "))"
  | DGroup id fs => "(group " ++ id ++ " (" ++ concat_sep " " (map sexp_of_field fs) ++ "))"
  | DTest tid => "(test " ++ tid ++ ")"
  end.

Definition sexp_of_file (fl : file) : string :=
  "(file " ++ (match f_endian fl with LittleEndian => "little" | BigEndian => "big" end) ++ " "
           ++ concat_sep " " (map sexp_of_decl (f_decls fl)) ++ ")".

Definition code_str (n : N) : string := "E" ++ dec_of_N n.

Definition codes_str (l : list N) : string := concat_sep "," (map code_str l).
