#!/bin/sh
# Extract the oracle from the compiled Coq development and build the binary.
# usage: oracle/build.sh  (expects /verif/coq already built by make)
set -e
ROOT=$(cd "$(dirname "$0")/.." && pwd)
OUT="$ROOT/.cache/oracle"
mkdir -p "$OUT"
cd "$OUT"
coqc -Q "$ROOT/coq/theories" PDL "$ROOT/coq/theories/Extract/Extract.v" > extract.log 2>&1 || { cat extract.log; exit 1; }
cp "$ROOT/oracle/driver.ml" driver.ml
ocamlfind ocamlopt -O2 -w -a -package str oracle_ext.mli oracle_ext.ml driver.ml -o oracle.new > ocaml.log 2>&1 \
  || ocamlfind ocamlopt -w -a oracle_ext.mli oracle_ext.ml driver.ml -o oracle.new > ocaml.log 2>&1 \
  || { cat ocaml.log; exit 1; }
mv oracle.new oracle
rm -f Extract.vo Extract.glob Extract.vok Extract.vos .Extract.aux
