(* Glue between stdin/stdout and the extracted oracle: converts OCaml strings to
   Coq strings and back, keeps the currently loaded file. Nothing else. *)
module O = Oracle_ext

let ascii_of_char (c : char) : O.ascii =
  let n = Char.code c in
  let b i = (n lsr i) land 1 = 1 in
  O.Ascii (b 0, b 1, b 2, b 3, b 4, b 5, b 6, b 7)

let char_of_ascii (a : O.ascii) : char =
  match a with
  | O.Ascii (b0, b1, b2, b3, b4, b5, b6, b7) ->
    let v b i = if b then 1 lsl i else 0 in
    Char.chr (v b0 0 + v b1 1 + v b2 2 + v b3 3 + v b4 4 + v b5 5 + v b6 6 + v b7 7)

let coq_of_string (s : String.t) : O.string =
  let r = ref O.EmptyString in
  for i = String.length s - 1 downto 0 do
    r := O.String (ascii_of_char s.[i], !r)
  done;
  !r

let string_of_coq (s : O.string) : String.t =
  let b = Buffer.create 256 in
  let rec go s = match s with
    | O.EmptyString -> ()
    | O.String (a, s') -> Buffer.add_char b (char_of_ascii a); go s' in
  go s; Buffer.contents b

let starts_with p s =
  String.length s >= String.length p && String.sub s 0 (String.length p) = p

let () =
  let cur = ref None in
  (try
    while true do
      let line = input_line stdin in
      if starts_with "(file" line then begin
        (match O.load_file (coq_of_string line) with
         | Some ld -> cur := Some ld; print_string "#\tloaded\t\n"
         | None -> cur := None; print_string "#\tloadfail\t\n")
      end else if starts_with "(parse " line || starts_with "(parse-rules " line || starts_with "(parse-tree " line then begin
        (* parser model: needs no loaded file *)
        print_string (string_of_coq (O.parse_line (coq_of_string line)));
        print_char '\n'
      end else begin
        (match !cur with
         | Some ld -> print_string (string_of_coq (O.run_case ld (coq_of_string line)))
         | None ->
           let id = (try String.sub line 1 ((String.index line ' ') - 1) with _ -> "?") in
           print_string (id ^ "\tnofile\t"));
        print_char '\n'
      end;
      flush stdout
    done
  with End_of_file -> ())
